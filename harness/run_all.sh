#!/bin/bash
# usage: harness/run_all.sh [quick|thorough] [props...]   — runs the registered checks one after the other, prints the summary lines
cd "$(dirname "$0")/.."
tier=${1:-quick}; shift
props=${@:-C01 C02 C03 C04 C05 C06 C07 C08 C09 C10 C11 C12 C13 C14 C15 C16 C17 C18 C19 C20}
rc=0
for p in $props; do
  out=$(./check $p --tier $tier 2>&1); r=$?
  echo "$out" | grep -e "^\[$p\]" -e "^VIOLATION" -e "^TOOL" -e "^KNOWN-FINDING" | cut -c1-220
  echo "  -> $p exit $r"
  [ $r -ne 0 ] && rc=1
done
exit $rc
