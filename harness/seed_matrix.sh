#!/bin/bash
# usage: harness/seed_matrix.sh [seed-dir-names...]
# For every seeded change under /verif/seeded: apply it to /repo, run the quick check of the property it breaks with
# VERIF_SEED 0 and 1, revert /repo, and record the outcome in /verif/seeded/RESULTS.json.  Never leaves /repo modified.
cd "$(dirname "$0")/.."
[ -n "$(git -C /repo status --porcelain)" ] && { echo "/repo is not clean"; exit 2; }
names=${@:-$(ls seeded | grep '^C')}
tmp=$(mktemp)
for n in $names; do
  p=${n:0:3}
  grep -q '"status": "neutralised"' /verif/seeded/$n/meta.json 2>/dev/null && { echo "$n: neutralised by a repair, skipped"; continue; }
  git -C /repo apply /verif/seeded/$n/patch.diff || { echo "$n: patch does not apply"; continue; }
  # seeded/<id>/check_with names further properties whose checks look at the same code (the change is kept under the property
  # its author was given; another property's check may be the one that decides it)
  extra=$(cat /verif/seeded/$n/check_with 2>/dev/null)
  for s in 0 1; do
    out=$(VERIF_SEED=$s ./check $p 2>&1); rc=$?
    line=$(echo "$out" | grep "^\[$p\]")
    viol=$(echo "$out" | grep -c "^VIOLATION")
    nofi=$(echo "$out" | grep "^VIOLATION" | grep -c "no-failing-input-found")
    echo "$n seed=$s exit=$rc violations=$viol of-which-no-failing-input=$nofi | $line" | tee -a $tmp
    for q in $extra; do
      out=$(VERIF_SEED=$s ./check $q 2>&1); rc=$?
      line=$(echo "$out" | grep "^\[$q\]")
      viol=$(echo "$out" | grep -c "^VIOLATION")
      nofi=$(echo "$out" | grep "^VIOLATION" | grep -c "no-failing-input-found")
      echo "$n seed=$s:$q exit=$rc violations=$viol of-which-no-failing-input=$nofi | $line" | tee -a $tmp
    done
  done
  git -C /repo checkout -- .
done
git -C /repo status --short | head -3
# restore the generated Lean files of the clean tree
/venv/bin/python harness/translate/iocalls.py /repo >/dev/null; PYTHONPATH=/repo /venv/bin/python harness/translate/setters.py /repo >/dev/null
PYTHONPATH=/repo /venv/bin/python harness/translate/py2lean.py /repo >/dev/null 2>&1
python3 - "$tmp" <<'PY'
import json, re, sys, os
res = {}
p = "/verif/seeded/RESULTS.json"
if os.path.exists(p):
    res = json.load(open(p))
for l in open(sys.argv[1]):
    m = re.match(r"(\S+) seed=(\d(?::C\d+)?) exit=(\d+) violations=(\d+) of-which-no-failing-input=(\d+) \| (.*)", l.strip())
    if m:
        res.setdefault(m.group(1), {})["seed" + m.group(2)] = {"exit": int(m.group(3)), "violations": int(m.group(4)),
            "no_failing_input": int(m.group(5)), "summary": m.group(6)}
json.dump(res, open(p, "w"), indent=1, sort_keys=True)
PY
rm -f $tmp
find /verif/replays -name "*.json" -mmin -120 -delete 2>/dev/null
