"""Prints the as-built inventory used in DESIGN.md (sections 11-13): per property the theorems, the ties and the level text
taken from the check modules themselves; the findings/fixes of known_findings.json; the seeded changes and what the current
checks report on them (seeded/RESULTS.json).  Run: /venv/bin/python harness/design_inventory.py > /tmp/inventory.md"""
import importlib
import json
import sys
from pathlib import Path

V = Path(__file__).resolve().parent.parent
sys.path.insert(0, str(V))


def main():
    print("### 11.1 Theorems and ties per property (from harness/props/cXX.py)\n")
    for i in range(1, 21):
        pid = f"C{i:02d}"
        m = importlib.import_module(f"harness.props.{pid.lower()}")
        doc = (m.__doc__ or "").strip().split("\n\n")[0].replace("\n", " ")
        print(f"**{pid}** — {len(m.THEOREMS)} obligations in `{', '.join(x.split('.')[-1] for x in m.LEAN_MODULES)}`: "
              + ", ".join("`" + t.split(".")[-1] + "`" for t in m.THEOREMS) + ".  ")
        print(f"*Technique:* {m.TECHNIQUE}.  ")
        print(f"*Claim:* {m.LEVEL_TEXT}  ")
        print(f"*Note:* {m.LEVEL_NOTE}\n")
    print("\n### 12.1 Findings and repairs (known_findings.json)\n")
    print("| prop | status | signature | commit | what |\n|---|---|---|---|---|")
    for e in json.load(open(V / "known_findings.json"))["entries"]:
        what = e["what"].replace("|", "/").replace("\n", " ")
        print(f"| {e['property']} | {e['status']} | `{e['signature']}` | {e.get('commit', '')} | {what[:420]} |")
    print("\n### 13.1 Seeded changes and what the checks report on them (seeded/RESULTS.json)\n")
    res = json.load(open(V / "seeded/RESULTS.json")) if (V / "seeded/RESULTS.json").exists() else {}
    print("| seeded change | needs (from its README) | quick check, VERIF_SEED 0 / 1 |\n|---|---|---|")
    for d in sorted((V / "seeded").iterdir()):
        if not d.is_dir():
            continue
        meta = json.load(open(d / "meta.json"))
        needs = " ".join(l.strip() for l in meta.get("needs", "").split("\n") if l.strip() and not l.startswith("#"))[:330].replace("|", "/")
        r = res.get(d.name, {})
        if meta.get("status") == "neutralised":
            print(f"| {d.name} | {needs} | neutralised by a repair of /repo (see its meta.json): the demo passes with the change applied |")
            continue
        cells = []
        for s in ("seed0", "seed1"):
            x = r.get(s)
            if not x:
                cells.append("not run")
            elif x["violations"] and x["violations"] > x["no_failing_input"]:
                cells.append("VIOLATION with failing input")
            elif x["violations"]:
                cells.append("VIOLATION no-failing-input-found")
            else:
                cells.append("**missed**")
        also = []
        for q in sorted({k.split(":")[1] for k in r if ":" in k}):
            sub = []
            for s in ("seed0", "seed1"):
                x = r.get(f"{s}:{q}")
                sub.append("not run" if not x else "VIOLATION with failing input" if x["violations"] > x["no_failing_input"]
                           else "VIOLATION no-failing-input-found" if x["violations"] else "**missed**")
            also.append(f"; check of {q}: {' / '.join(sub)}")
        print(f"| {d.name} | {needs} | {' / '.join(cells)}{''.join(also)} |")


if __name__ == "__main__":
    main()
