"""T3 — source fingerprints of the functions the hand-written Lean models were written from.

For every property, `MODELLED` names the functions/methods of /repo whose bodies a hand-written model mirrors.  A fingerprint is
the SHA-256 of the function's AST with docstrings and positions removed (so comments, formatting and docstrings do not count).
`fingerprints.json` (committed) holds the fingerprints at the time the model and the source were last reconciled.  On every run
the current fingerprints are computed from /repo's working tree and compared: a changed or vanished function is *not* a
violation - it doubles the correspondence budget of that run (the place where a behavioural difference would show) and is
listed in the evidence (`source_fingerprints.changed`), so a reader sees that the model is being compared with code that was
edited since it was written.

  PYTHONPATH=/verif /venv/bin/python harness/fingerprints.py --record
      rewrite fingerprints.json from the current tree (after reconciling a model); the interpreter matters: ast.dump differs
      between Python versions, so the fingerprints are recorded with the interpreter the checks run under
"""
from __future__ import annotations

import ast
import hashlib
import json
import sys
from pathlib import Path

HERE = Path(__file__).resolve().parent
STORE = HERE / "fingerprints.json"

CONC = "geoh5py/shared/concatenation/concatenator.py"
WSP = "geoh5py/workspace/workspace.py"
WR = "geoh5py/io/h5_writer.py"
RD = "geoh5py/io/h5_reader.py"
DH = "geoh5py/objects/drillhole.py"

MODELLED = {
    "C01": {WR: ["H5Writer.save_entity", "H5Writer.write_entity", "H5Writer.write_to_parent", "H5Writer.remove_child",
                 "H5Writer.remove_entity"],
            WSP: ["Workspace.create_entity", "Workspace.save_entity", "Workspace.remove_entity", "Workspace.remove_recursively",
                  "Workspace.remove_children", "Workspace.copy_to_parent", "Workspace.close", "Workspace.load_entity"],
            RD: ["H5Reader.fetch_children"],
            "geoh5py/shared/entity.py": ["Entity.parent", "Entity.__init__"]},
    "C02": {WR: ["H5Writer.write_entity", "H5Writer.write_to_parent", "H5Writer.write_entity_type", "H5Writer.add_or_update_property_group"],
            WSP: ["Workspace.close", "Workspace.remove_none_referents"]},
    "C03": {WR: ["H5Writer.update_field", "H5Writer.write_attributes"], WSP: ["Workspace.update_attribute"],
            CONC: ["Concatenator.update_concatenated_attributes"]},
    "C04": {CONC: ["Concatenator.fetch_index", "Concatenator.delete_index_data", "Concatenator.fetch_start_index",
                   "Concatenator.update_array_attribute", "Concatenator.fetch_values", "Concatenator.get_concatenated_attributes",
                   "Concatenator.update_concatenated_attributes", "Concatenator.remove_entity", "Concatenator.remove_children",
                   "Concatenator.attributes_keys"],
            "geoh5py/shared/concatenation/drillholes_group_table.py": [
                "DrillholesGroupTable._depth_table_by_key", "DrillholesGroupTable._pad_arrays_to_association",
                "DrillholesGroupTable.index_by_drillhole", "DrillholesGroupTable.depth_table_by_name"]},
    "C05": {WSP: ["Workspace.remove_entity", "Workspace.remove_recursively", "Workspace.remove_none_referents"],
            "geoh5py/objects/object_base.py": ["ObjectBase.remove_children", "ObjectBase.remove_data_from_groups"],
            "geoh5py/groups/property_group.py": ["PropertyGroup.remove_properties"]},
    "C06": {WSP: ["Workspace.register", "Workspace.copy_to_parent", "Workspace.copy_property_groups"],
            "geoh5py/shared/entity.py": ["Entity.__init__"], "geoh5py/shared/weakref_utils.py": ["insert_once"]},
    "C07": {"geoh5py/objects/points.py": ["Points.remove_vertices", "Points.copy"],
            "geoh5py/objects/cell_object.py": ["CellObject.remove_vertices", "CellObject.remove_cells", "CellObject.copy"],
            "geoh5py/objects/object_base.py": ["ObjectBase.remove_children_values"],
            "geoh5py/data/numeric_data.py": ["NumericData.format_length"], "geoh5py/data/data.py": ["Data.copy"]},
    "C08": {"geoh5py/data/numeric_data.py": ["NumericData.format_values", "NumericData.format_length"],
            "geoh5py/data/integer_data.py": ["IntegerData.format_type"], "geoh5py/data/float_data.py": ["FloatData.format_type"], "geoh5py/data/boolean_data.py": ["BooleanData.format_type"],
            "geoh5py/data/reference_value_map.py": ["ReferenceValueMap._validate_key_value", "ReferenceValueMap.map"],
            RD: ["H5Reader.fetch_values"]},
    "C09": {WR: ["H5Writer.update_field", "H5Writer.write_attributes", "H5Writer.clear_stats_cache", "H5Writer.fetch_handle"],
            WSP: ["Workspace.update_attribute"]},
    "C10": {WSP: ["Workspace._io_call", "Workspace.open"], "geoh5py/shared/utils.py": ["fetch_active_workspace"]},
    "C11": {WSP: ["Workspace.close", "Workspace.open", "Workspace.__exit__", "Workspace.geoh5", "Workspace._io_call"],
            "geoh5py/shared/utils.py": ["fetch_active_workspace"]},
    "C12": {WSP: ["Workspace.copy_to_parent", "Workspace.copy_property_groups"],
            "geoh5py/objects/object_base.py": ["ObjectBase.copy"], "geoh5py/groups/base.py": ["Group.copy"],
            "geoh5py/shared/entity_container.py": ["EntityContainer.copy"],
            "geoh5py/shared/utils.py": ["get_attributes"]},
    "C13": {"geoh5py/shared/utils.py": ["mask_by_extent", "box_intersect"],
            "geoh5py/objects/cell_object.py": ["CellObject.mask_by_extent"], "geoh5py/objects/points.py": ["Points.mask_by_extent"],
            "geoh5py/objects/grid2d.py": ["Grid2D.copy_from_extent"], "geoh5py/objects/grid_object.py": ["GridObject.mask_by_extent"]},
    "C14": {"geoh5py/ui_json/input_file.py": ["InputFile.update_ui_values", "InputFile.numify", "InputFile.demote", "InputFile.promote",
                                             "InputFile.stringify"],
            "geoh5py/shared/utils.py": ["dict_mapper"], "geoh5py/ui_json/utils.py": ["set_enabled"]},
    "C15": {"geoh5py/ui_json/validation.py": ["InputValidation.validate", "InputValidation.validate_data",
                                             "InputValidation._validations_from_uijson"],
            "geoh5py/ui_json/enforcers.py": ["EnforcerPool.enforce", "EnforcerPool._raise_errors"],
            "geoh5py/ui_json/parameters.py": ["Parameter.value"]},
    "C16": {"geoh5py/shared/merging/base.py": ["BaseMerger.merge_data", "BaseMerger.merge_objects"],
            "geoh5py/shared/merging/points.py": ["PointsMerger.create_object"],
            "geoh5py/shared/merging/cell.py": ["CellMerger.create_object"],
            "geoh5py/shared/merging/drape_model.py": ["DrapeModelMerger.create_object"]},
    "C17": {"geoh5py/objects/block_model.py": ["BlockModel.centroids"], "geoh5py/objects/grid2d.py": ["Grid2D.centroids"],
            "geoh5py/objects/octree.py": ["Octree.centroids", "Octree.base_refine"], "geoh5py/objects/curve.py": ["Curve.cells", "Curve.parts"]},
    "C18": {DH: ["Drillhole.desurvey", "Drillhole.locations", "Drillhole.validate_depth_data", "Drillhole.validate_interval_data",
                 "Drillhole.sort_depths", "compute_deviation"],
            "geoh5py/shared/utils.py": ["merge_arrays", "match_values"]},
    "C19": {RD: ["H5Reader.fetch_attributes", "H5Reader.fetch_children", "H5Reader.fetch_type_attributes", "H5Reader.fetch_property_groups"],
            WSP: ["Workspace.load_entity", "Workspace.fetch_children"]},
    "C20": {"geoh5py/objects/surveys/electromagnetics/base.py": ["BaseEMSurvey.metadata", "BaseEMSurvey.edit_em_metadata",
                                                                 "BaseEMSurvey.receivers", "BaseEMSurvey.transmitters",
                                                                 "BaseEMSurvey.copy", "BaseEMSurvey.copy_complement"],
            "geoh5py/objects/surveys/direct_current.py": ["PotentialElectrode.current_electrodes", "CurrentElectrode.potential_electrodes"]},
}


class _Strip(ast.NodeTransformer):
    def _doc(self, node):
        self.generic_visit(node)
        body = getattr(node, "body", None)
        if body and isinstance(body[0], ast.Expr) and isinstance(getattr(body[0], "value", None), ast.Constant) \
                and isinstance(body[0].value.value, str):
            node.body = body[1:] or [ast.Pass()]
        return node

    visit_FunctionDef = visit_AsyncFunctionDef = visit_ClassDef = _doc


def _find(tree, qual):
    """All definitions named by `Class.method` / `function` (a property has a getter and a setter under one name)."""
    parts = qual.split(".")
    nodes = [tree]
    for i, name in enumerate(parts):
        nxt = []
        for n in nodes:
            for c in getattr(n, "body", []):
                if isinstance(c, (ast.FunctionDef, ast.AsyncFunctionDef, ast.ClassDef)) and c.name == name:
                    nxt.append(c)
        nodes = nxt
    return nodes


def current(repo: Path, prop_id: str) -> dict:
    out = {}
    for rel, quals in MODELLED.get(prop_id, {}).items():
        f = repo / rel
        try:
            tree = ast.parse(f.read_text())
        except (OSError, SyntaxError):
            for q in quals:
                out[f"{rel}::{q}"] = "missing-file"
            continue
        for q in quals:
            nodes = _find(tree, q)
            if not nodes:
                out[f"{rel}::{q}"] = "missing"
                continue
            dump = "|".join(ast.dump(_Strip().visit(n), annotate_fields=False, include_attributes=False) for n in nodes)
            out[f"{rel}::{q}"] = hashlib.sha256(dump.encode()).hexdigest()[:12]
    return out


def compare(repo: Path, prop_id: str) -> dict:
    cur = current(repo, prop_id)
    rec = {}
    if STORE.exists():
        rec = json.loads(STORE.read_text()).get(prop_id, {})
    changed = sorted(k for k, v in cur.items() if rec.get(k) != v)
    return {"functions": len(cur), "changed": changed, "recorded": bool(rec),
            "note": "functions the hand-written model mirrors whose source differs from the recorded fingerprint "
                    "(not a violation: the correspondence budget of this run was doubled)" if changed else
                    "every function the hand-written model mirrors has the recorded fingerprint"}


def record(repo: Path):
    STORE.write_text(json.dumps({p: current(repo, p) for p in sorted(MODELLED)}, indent=1, sort_keys=True) + "\n")
    missing = {p: [k for k, v in current(repo, p).items() if v.startswith("missing")] for p in MODELLED}
    return {p: m for p, m in missing.items() if m}


if __name__ == "__main__":
    repo_ = Path(sys.argv[2] if len(sys.argv) > 2 else "/repo")
    if len(sys.argv) > 1 and sys.argv[1] == "--record":
        print("not found:", record(repo_))
    else:
        for p_ in sorted(MODELLED):
            print(p_, compare(repo_, p_))
