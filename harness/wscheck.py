"""Runs workspace histories (harness/wsh.py) and compares them with the Lean model `Ws`.

Used by the property modules c01/c02/c05/c06/c09/c12: each passes generator weights and the
signature prefixes (its own property's oracles) it reports.
"""
from __future__ import annotations

import json
import os

from harness import wsh
from harness.core import Ctx


def run_history(ctx: Ctx, idx, ops, uid_pool=None, extra_hook=None, project=None):
    path = ctx.scratch / f"ws_{ctx.prop_id}_{idx}.geoh5"
    s = wsh.Session(path, uid_pool=uid_pool, project=project)
    ctx.count("project-node-named-" + project if project else "project-node-default-name")
    try:
        for op in ops:
            try:
                s.apply(op)
            except Exception as e:  # noqa: BLE001   a valid API call raised
                s.failures.append((f"operation {op['k']} raised {type(e).__name__}: {str(e)[:120]} (after: {s.events[-3:]})",
                                   f"{ctx.prop_id}:op-raises:{op['k']}:{type(e).__name__}"))
                break
            if extra_hook:
                extra_hook(s, op)
        try:
            s.reopen()
        except Exception as e:  # noqa: BLE001
            s.failures.append((f"close/re-open raised {type(e).__name__}: {str(e)[:120]}", f"{ctx.prop_id}:reopen-raises:{type(e).__name__}"))
    finally:
        s.close()
        if path.exists():
            os.remove(path)
    return s


def compare(ctx: Ctx, sessions, cases):
    """Model vs implementation, line by line."""
    lines = [l for s in sessions for l in s.lines]
    outs = ctx.driver.run(lines)
    k = 0
    for s, case in zip(sessions, cases):
        broke = False
        prev_exp = None
        for line, exp in zip(s.lines, s.expect):
            out = outs[k]
            k += 1
            raw_exp, prev_exp = prev_exp, exp
            if "wf_of_raw" in exp:
                # the Lean well-formedness verdict on a raw snapshot of the real file does not depend on the model state:
                # it is kept even after model and implementation have parted ways
                ctx.count("raw_files_judged_by_lean_wfCheck")
                exp["wf_result"] = out
                if raw_exp is not None and "raw" in raw_exp:
                    raw_exp["wf_result"] = out
                continue
            if broke:
                continue
            ctx.traces += 1
            if "tree" in exp and "raw" not in exp and not isinstance(out, dict):
                raise RuntimeError(f"protocol misalignment: line {line.get('op')}/{line.get('o')} -> {str(out)[:200]}")
            if "tree" in exp and "raw" not in exp:
                mt = wsh.canon_tree(out["tree"] if "tree" in out else out)
                if "out" in exp:
                    m_out = out.get("out")
                    i_out = "ok" if exp["out"] == "ok" else "refused"
                    if m_out in ("missing",):
                        m_out = "refused"
                    if m_out != i_out:
                        ctx.disagree(case, f"Ws outcome of {line.get('o')}: model {out.get('out')} impl {exp['out']}", model=out.get("out"), impl=exp["out"])
                        broke = True
                        continue
                d = wsh.tree_diff(mt, exp["tree"])
                if d:
                    ctx.disagree(case, f"Ws tree after {line.get('o', line.get('op'))}: {d}", model=None, impl=None)
                    broke = True
            elif "raw" in exp:
                ms = wsh.file_structure(out)
                rs = wsh.file_structure(exp["raw"])
                if ms != rs:
                    # report the first differing node
                    mn = {n["uid"]: n for n in ms["nodes"]}
                    rn = {n["uid"]: n for n in rs["nodes"]}
                    what = f"root {ms['root']} vs {rs['root']}" if ms["root"] != rs["root"] else ""
                    for u in sorted(set(mn) | set(rn)):
                        if mn.get(u) != rn.get(u):
                            what = f"node {u}: model {mn.get(u)} file {rn.get(u)}"
                            break
                    ctx.disagree(case, "Ws fileOf vs raw file structure: " + what)
    return outs


def standard_oracles(ctx: Ctx, s, case, want):
    """Property oracles evaluated on the implementation's own observations."""
    for exp in s.expect:
        if "raw" in exp:
            if "C01" in want:
                d = wsh.tree_diff(exp["live"], exp["fresh"])
                if d:
                    kind = d.split(": ", 1)[1].split(" ")[0] if ": " in d else "tree"
                    ctx.fail(case, f"re-opened file differs from the live workspace: {d}", f"C01:reopen-differs:{kind}")
            if "C02" in want:
                for p in exp["problems"]:
                    ctx.fail(case, f"written file is not a valid geoh5 file: {p}", "C02:" + classify_problem(p))
                if exp.get("wf_result") is False and not exp["problems"]:
                    ctx.fail(case, "wfCheck (Lean) rejects the written file: " + wf_reason(exp["raw"]), "C02:" + wf_reason(exp["raw"]).split(":")[0])
    for what, sig in s.failures:
        if sig.split(":")[0] in want:
            ctx.fail(case, what, sig)


def classify_problem(p):
    for key, name in (("ID attribute", "id-mismatch"), ("not the shared node", "type-not-shared"), ("no Type link", "no-type"),
                      ("not a hard link", "child-not-hard-link"), ("container", "container-missing"), ("Root", "root"),
                      ("project groups", "project-groups")):
        if key in p:
            return name
    return "other"


def wf_reason(raw):
    nodes = {n["uid"]: n for n in raw["nodes"]}
    parents = {}
    for n in raw["nodes"]:
        for k, u in n["links"]:
            parents.setdefault(u, []).append(n["uid"])
            if u not in nodes:
                return f"dangling-link: node {n['uid']} links to missing {u}"
    for u in nodes:
        if u != raw["root"] and len(parents.get(u, [])) == 0:
            return f"orphan-node: node {u} ({nodes[u]['kind']}) is stored but has no parent"
        if len(parents.get(u, [])) > 1:
            return f"two-parents: node {u} is linked under {parents[u]}"
    for n in raw["nodes"]:
        kids = {u for k, u in n["links"] if k == "data"}
        for g in n["pgs"]:
            if not set(g["props"]) <= kids:
                return f"property-group-foreign-data: group {g['name']} of {n['uid']} lists {g['props']}"
    return "other: not reachable / duplicate identifier"


def corpus_histories():
    """Minimised histories kept from earlier findings; they run before the random ones of every workspace-history check.
    Targets are indices into the live entities sorted by number: -1 is the entity created last."""
    def op(k, a=0, b=0, c=0, uid=None):
        return {"k": k, "a": a, "b": b, "c": c, "uid": uid}
    return [
        # (runs with an identifier pool) an object is detached and collected, an unrelated entity is removed through the
        # workspace, then an object with the identifier of the detached one is created again, with other content
        # (c = 8: the removals do not read the workspace listings afterwards)
        [op("create_object", 0, 0, 1, uid=0), op("add_data", 0, 0, 2), op("create_object", 0, 0, 2), op("remove_parent", 0, 0, 8), op("gc"),
         op("remove_ws", 0, 0, 8), op("gc"), op("create_object", 0, 0, 3, uid=0), op("add_data", 0, 0, 4), op("reopen")],
        # a small correction of stored values (within any "close enough" tolerance), written and re-read
        [op("create_object", 0, 0, 1), op("add_data", 0, 0, 2), op("set_values", 0, 0, 1), op("reopen"), op("set_values", 0, 3, 2), op("reopen")],
        # comments of a drillhole group, removed through the workspace and through the parent
        [op("create_group", 0, 5), op("comment", 0, 1, 0), op("remove_ws", -1, 0, 0), op("reopen"), op("comment", 0, 2, 0),
         op("remove_parent", -1, 0, 0), op("gc"), op("reopen"), op("comment", 0, 3, 0), op("comment", 0, 4, 0), op("reopen")],
        # visual parameters of an object, detached and removed
        [op("create_object", 0, 0, 1), op("visual", 0), op("remove_parent", -1, 0, 0), op("gc"), op("reopen"), op("visual", 0),
         op("remove_ws", -1, 0, 0), op("reopen"), op("visual", 0), op("create_group", 0, 0), op("copy", 1, 1, 0), op("reopen")],
        # a property group that lists vertex data and cell data of one curve; the cell data then leave the object
        [op("create_object", 0, 2, 0), op("add_data", 0, 0, 4), op("add_data", 0, 0, 1), op("pg_add", 0, 0, 2), op("pg_add", 0, 1, 2),
         op("remove_ws", -1, 0, 0), op("gc"), op("reopen"), op("add_data", 0, 0, 5), op("pg_add", 0, 1, 2), op("remove_parent", -1, 0, 0),
         op("gc"), op("reopen")],
        # comments of an object and of a group, a second comment, copy of the owner, removal of the owner
        [op("create_group", 0, 0), op("create_object", 1, 2, 1), op("comment", 1, 1, 1), op("comment", 1, 2, 1), op("comment", 0, 3, 1),
         op("copy", 1, 0, 0), op("reopen"), op("remove_ws", 1, 0, 0), op("gc"), op("reopen")],
    ]


def run_props(ctx: Ctx, want, weights=None, n_quick=60, n_thorough=1500, max_ops=(6, 22), pool=0, hook=None, post=None, shape=None):
    import uuid
    sessions, cases = [], []
    n = ctx.n(n_quick, n_thorough)
    pool_arg = pool
    corpus = corpus_histories()
    for i in range(n + len(corpus)):
        pool = pool_arg(ctx.rng) if callable(pool_arg) else pool_arg      # identifiers the caller passes explicitly (re-used)
        uid_pool = [uuid.UUID(int=1000 + j) for j in range(pool)] if pool else None
        if i < len(corpus):
            ops = corpus[i]
            pool = 2 if any(o.get("uid") is not None for o in ops) else 0
            uid_pool = [uuid.UUID(int=1000 + j) for j in range(pool)] if pool else None
            ctx.count("corpus-histories")
        else:
            ops = wsh.gen_ops(ctx.rng, ctx.rng.randrange(*max_ops), weights=weights, pool_uids=pool)
            if shape:
                ops = shape(ctx.rng, ops)
        project = "PROJECT" if i % 5 == 4 else None
        s = run_history(ctx, i, ops, uid_pool=uid_pool, extra_hook=hook, project=project)
        case = {"ops": ops, "pool": pool}
        if project:
            case["project"] = project
        kinds = [e.split(" ")[0] for e in s.events]
        ctx.case(case, nontrivial=any(k in ("move", "remove_ws", "remove_parent", "copy") for k in kinds) and "close" in kinds)
        for k in kinds:
            ctx.count("op:" + k)
        sessions.append(s)
        cases.append(case)
    compare(ctx, sessions, cases)
    for s, case in zip(sessions, cases):
        standard_oracles(ctx, s, case, want)
        if post:
            post(ctx, s, case)


def replay_props(ctx: Ctx, payload, want, hook=None, post=None):
    import uuid
    case = payload["case"]
    pool = case.get("pool", 0)
    uid_pool = [uuid.UUID(int=1000 + j) for j in range(pool)] if pool else None
    s = run_history(ctx, 0, case["ops"], uid_pool=uid_pool, extra_hook=hook, project=case.get("project"))
    ctx.case(case, True)
    compare(ctx, [s], [case])
    standard_oracles(ctx, s, case, want)
    if post:
        post(ctx, s, case)
