"""Shared machinery of the geoh5py verification checks.

Flow of one check (see DESIGN.md section 2):
  1. regenerate the translated Lean files from /repo's working tree (module.regenerate)
  2. lake build the property's theorems + the driver, audit axioms, grep forbidden tokens
  3. correspondence: module.run(ctx) drives the implementation and the Lean model
  4. decide: failing inputs found on the implementation -> VIOLATION (or KNOWN-FINDING),
     broken proof/correspondence without failing input -> VIOLATION ... no-failing-input-found
"""
from __future__ import annotations

import hashlib
import json
import os
import random
import re
import shutil
import subprocess
import sys
import tempfile
import time
import traceback
from pathlib import Path

VERIF = Path(__file__).resolve().parent.parent
LEAN = VERIF / "lean"
REPO = Path(os.environ.get("VERIF_REPO", "/repo"))
EVIDENCE = VERIF / "evidence"
REPLAYS = VERIF / "replays"
ALLOWED_AXIOMS = {"propext", "Classical.choice", "Quot.sound"}
FORBIDDEN = re.compile(
    r"\bsorry\b|\badmit\b|^\s*axiom\s|native_decide|bv_decide|implemented_by|\bunsafe\s|maxHeartbeats\s+0"
)
TRUSTED_BASE = [
    "Lean 4.33.0 kernel (thorough tier re-checks the .olean files with leanchecker)",
    "axioms: subset of {propext, Classical.choice, Quot.sound}; no native_decide/bv_decide/sorry/own axioms (audited every run)",
    "harness/ (translator, correspondence runner, canonicalisation, raw-h5py reader)",
    "CPython 3.12, NumPy 1.26, h5py 3.16 / HDF5 (exercised, not verified)",
]


class ToolFailure(Exception):
    """The machinery itself failed (exit 2); never reported as a violation."""


def sh(cmd, cwd=None, timeout=3600, env=None):
    e = dict(os.environ)
    if env:
        e.update(env)
    p = subprocess.run(cmd, cwd=cwd, capture_output=True, text=True, timeout=timeout, env=e)
    out = "\n".join(l for l in (p.stdout + p.stderr).splitlines() if "conda" not in l.lower())
    return p.returncode, out


# ----------------------------------------------------------------------------------
# Lean side
# ----------------------------------------------------------------------------------

def strip_comments(text: str) -> str:
    """Remove Lean block comments (nested) and line comments."""
    out, i, depth = [], 0, 0
    while i < len(text):
        if text.startswith("/-", i):
            depth += 1
            i += 2
        elif depth and text.startswith("-/", i):
            depth -= 1
            i += 2
        elif depth:
            if text[i] == "\n":
                out.append("\n")
            i += 1
        elif text.startswith("--", i):
            while i < len(text) and text[i] != "\n":
                i += 1
        else:
            out.append(text[i])
            i += 1
    return "".join(out)


def forbidden_tokens() -> list[str]:
    hits = []
    for f in sorted(LEAN.rglob("*.lean")):
        if ".lake" in f.parts:
            continue
        for n, line in enumerate(strip_comments(f.read_text()).splitlines(), 1):
            if FORBIDDEN.search(line):
                hits.append(f"{f.relative_to(LEAN)}:{n}: {line.strip()[:100]}")
    return hits


def theorem_spans(path: Path):
    """[(first_line, name)] for every theorem/lemma/def/example in a Lean file."""
    spans = []
    for n, line in enumerate(path.read_text().splitlines(), 1):
        m = re.match(r"\s*(?:@\[[^\]]*\]\s*)?(?:private\s+|protected\s+)?(theorem|lemma|def|example|instance|abbrev|structure|inductive)\s+([^\s:({\[]+)?", line)
        if m:
            spans.append((n, m.group(2) or "example"))
    return spans


def lake_build(targets: list[str], timeout=3000):
    rc, out = sh(["lake", "build", *targets], cwd=LEAN, timeout=timeout)
    return rc, out


def build_and_audit(prop_id: str, modules: list[str], theorems: list[str], tier: str):
    """Returns dict(discharged=[...], broken={name: reason}, axioms={name: [...]}, log=str)."""
    t0 = time.time()
    res = {"discharged": [], "broken": {}, "axioms": {}, "log": "", "leanchecker": None}
    rc, out = lake_build(["driver", *modules])
    res["log"] = out[-6000:]
    failed_files: dict[str, list[int]] = {}
    if rc != 0:
        for m in re.finditer(r"error: (GeoVerif/[\w/]+\.lean):(\d+):", out):
            failed_files.setdefault(m.group(1), []).append(int(m.group(2)))
        if not failed_files:
            # a failure that is not a Lean error in our sources: tool problem
            raise ToolFailure("lake build failed without a source error:\n" + out[-3000:])
    # which theorems are hit by the failures?
    broken_by_build = {}
    if failed_files:
        prop_files = {m.replace(".", "/") + ".lean" for m in modules}
        non_prop = [f for f in failed_files if f not in prop_files]
        for f, lines in failed_files.items():
            if f in prop_files:
                spans = theorem_spans(LEAN / f)
                for ln in lines:
                    name = None
                    for first, nm in spans:
                        if first <= ln:
                            name = nm
                    if name:
                        broken_by_build[name] = f"{f}:{ln}"
        if non_prop:
            for t in theorems:
                broken_by_build.setdefault(t.split(".")[-1], f"dependency failed: {non_prop[0]}:{failed_files[non_prop[0]][0]}")
        elif failed_files:
            # a failed theorem makes the module's olean unavailable: later theorems cannot be
            # audited, but they are not "broken"; we audit them from a copy without the failures
            pass
    # axiom audit (only possible when the modules built)
    if rc == 0:
        audit_dir = LEAN / ".lake" / "audit"
        audit_dir.mkdir(parents=True, exist_ok=True)
        src = "".join(f"import {m}\n" for m in modules) + "".join(
            f"#print axioms {t}\n" for t in theorems
        )
        af = audit_dir / f"{prop_id}.lean"
        af.write_text(src)
        rc2, out2 = sh(["lake", "env", "lean", str(af)], cwd=LEAN, timeout=1200)
        cur = None
        blocks: dict[str, str] = {}
        for line in out2.splitlines():
            m = re.match(r".*'([^']+)' depends on axioms: \[(.*)", line)
            m0 = re.match(r".*'([^']+)' does not depend on any axioms", line)
            if m0:
                blocks[m0.group(1)] = ""
                cur = None
            elif m:
                cur = m.group(1)
                blocks[cur] = m.group(2)
            elif cur is not None:
                blocks[cur] += " " + line
            if cur is not None and "]" in blocks[cur]:
                blocks[cur] = blocks[cur].split("]")[0]
                cur = None
        for t in theorems:
            if t not in blocks:
                res["broken"][t] = "not found by #print axioms: " + out2[-300:]
                continue
            ax = [a.strip() for a in blocks[t].split(",") if a.strip()]
            res["axioms"][t] = ax
            bad = [a for a in ax if a not in ALLOWED_AXIOMS]
            if bad:
                res["broken"][t] = "non-standard axioms: " + ", ".join(bad)
            else:
                res["discharged"].append(t)
    else:
        for t in theorems:
            short = t.split(".")[-1]
            if short in broken_by_build:
                res["broken"][t] = "does not build: " + broken_by_build[short]
            else:
                res["broken"][t] = "module did not build (another theorem of the file fails), not audited"
    hits = forbidden_tokens()
    if hits:
        for t in theorems:
            res["broken"].setdefault(t, "forbidden token in Lean sources: " + hits[0])
        res["discharged"] = [t for t in res["discharged"] if t not in res["broken"]]
    if tier == "thorough" and rc == 0:
        rc3, out3 = sh(["lake", "env", "leanchecker", *modules], cwd=LEAN, timeout=3000)
        res["leanchecker"] = "ok" if rc3 == 0 else out3[-500:]
        if rc3 != 0:
            for t in theorems:
                res["broken"].setdefault(t, "leanchecker rejected the module")
            res["discharged"] = []
    res["build_s"] = round(time.time() - t0, 2)
    return res


class Driver:
    """The Lean model behind the line protocol (compiled lean_exe)."""

    def __init__(self):
        exe = LEAN / ".lake" / "build" / "bin" / "driver"
        if not exe.exists():
            raise ToolFailure("driver executable missing (lake build driver failed?)")
        self.exe = str(exe)

    def run(self, lines: list[dict]) -> list:
        """Send all lines, return the parsed outputs (one per line)."""
        if not lines:
            return []
        payload = "\n".join(json.dumps(l, separators=(",", ":")) for l in lines) + "\n"
        p = subprocess.run([self.exe], input=payload, capture_output=True, text=True, timeout=3000)
        if p.returncode != 0:
            raise ToolFailure(f"driver exited {p.returncode}: {p.stderr[-500:]}")
        outs = [l for l in p.stdout.splitlines() if l.strip()]
        if len(outs) != len(lines):
            raise ToolFailure(f"driver answered {len(outs)} lines for {len(lines)} inputs")
        return [json.loads(o) for o in outs]


# ----------------------------------------------------------------------------------
# context handed to the property modules
# ----------------------------------------------------------------------------------

class Ctx:
    def __init__(self, prop_id, tier, seed, scale=1.0):
        self.prop_id = prop_id
        self.tier = tier
        self.seed = seed
        self.rng = random.Random(f"{prop_id}:{seed}")
        self.scale = scale
        self.driver = Driver()
        self.evaluations = 0
        self.traces = 0
        self.case_hashes: set[str] = set()
        self.nontrivial_hashes: set[str] = set()
        self.samples: list = []
        self.hist: dict[str, int] = {}
        self.disagreements: list[dict] = []   # model vs implementation
        self.failures: list[dict] = []        # implementation violates the property (concrete input)
        self.notes: list[str] = []
        self.extra: dict = {}
        self._scratch = None

    # -- sizes
    def n(self, quick: int, thorough: int) -> int:
        base = quick if self.tier == "quick" else thorough
        return max(1, int(base * self.scale))

    @property
    def scratch(self) -> Path:
        if self._scratch is None:
            self._scratch = Path(tempfile.mkdtemp(prefix=f"verif_{self.prop_id}_"))
        return self._scratch

    def cleanup(self):
        if self._scratch is not None:
            shutil.rmtree(self._scratch, ignore_errors=True)
            self._scratch = None

    # -- bookkeeping
    def count(self, key: str, k: int = 1):
        self.hist[key] = self.hist.get(key, 0) + k

    def case(self, case, nontrivial: bool, sample_cap: int = 4):
        """Register one explored case (JSON-serialisable)."""
        h = hashlib.sha1(json.dumps(case, sort_keys=True, default=str).encode()).hexdigest()
        self.evaluations += 1
        self.case_hashes.add(h)
        if nontrivial:
            if h not in self.nontrivial_hashes and len(self.samples) < sample_cap:
                self.samples.append(case)
            self.nontrivial_hashes.add(h)
        return h

    def disagree(self, case, what: str, model=None, impl=None):
        self.disagreements.append({"case": case, "what": what, "model": model, "impl": impl})

    def fail(self, case, what: str, signature: str, observed=None, expected=None):
        """A concrete input on which the *implementation* violates the property."""
        self.failures.append(
            {"case": case, "what": what, "signature": signature, "observed": observed, "expected": expected}
        )


# ----------------------------------------------------------------------------------
# known findings, replay files, evidence, verdict
# ----------------------------------------------------------------------------------

def load_findings(prop_id):
    f = VERIF / "known_findings.json"
    if not f.exists():
        return []
    data = json.loads(f.read_text())
    return [e for e in data.get("entries", []) if e.get("property") == prop_id]


def write_replay(prop_id, kind, payload) -> Path:
    REPLAYS.mkdir(exist_ok=True)
    blob = json.dumps(payload, sort_keys=True, default=str)
    h = hashlib.sha1(blob.encode()).hexdigest()[:12]
    p = REPLAYS / f"{prop_id}-{kind}-{h}.json"
    p.write_text(json.dumps(payload, indent=1, default=str))
    return p


def write_evidence(prop_id, tier, seed, coverage, assumptions, wall, violations):
    EVIDENCE.mkdir(exist_ok=True)
    ev = {
        "property_id": prop_id,
        "tier": tier,
        "seed": seed,
        "level": "proof",
        "coverage": coverage,
        "assumptions": assumptions,
        "wall_s": round(wall, 2),
        "violations": violations,
    }
    (EVIDENCE / f"{prop_id}.json").write_text(json.dumps(ev, indent=1, default=str))


def jsonable(x):
    try:
        json.dumps(x)
        return x
    except TypeError:
        return json.loads(json.dumps(x, default=str))


def run_check(module, tier: str, seed: int, replay: str | None = None) -> int:
    prop_id = module.ID
    t0 = time.time()
    lines_out: list[str] = []
    ctx = None
    try:
        if hasattr(module, "regenerate"):
            module.regenerate()
        audit = build_and_audit(prop_id, module.LEAN_MODULES, module.THEOREMS, tier)
        scale = 1.0
        if audit["broken"]:
            scale = 3.0  # a broken proof widens the failing-input search
        from harness import fingerprints
        fps = fingerprints.compare(REPO, prop_id)
        if fps["changed"] and not audit["broken"]:
            scale = 2.0  # the modelled source was edited since the model was reconciled with it: look harder
        ctx = Ctx(prop_id, tier, seed, scale)
        ctx.audit = audit
        ctx.extra["source_fingerprints"] = fps
        if replay:
            payload = json.loads(Path(replay).read_text())
            module.replay(ctx, payload)
        else:
            module.run(ctx)
    except ToolFailure as e:
        print(f"TOOL-FAILURE property={prop_id}: {e}")
        if ctx:
            ctx.cleanup()
        return 2
    except subprocess.TimeoutExpired as e:
        print(f"TOOL-FAILURE property={prop_id}: timeout {e}")
        if ctx:
            ctx.cleanup()
        return 2
    except Exception:
        print(f"TOOL-FAILURE property={prop_id}: harness exception")
        traceback.print_exc()
        if ctx:
            ctx.cleanup()
        return 2
    ctx.cleanup()

    if os.environ.get("VERIF_DEBUG"):
        for d in ctx.disagreements[: int(os.environ["VERIF_DEBUG"])]:
            print("DISAGREE", d["what"], "| model:", str(d["model"])[:700], "| impl:", str(d["impl"])[:700], "| case:", json.dumps(d["case"], default=str)[:500])
        for f in ctx.failures[: int(os.environ["VERIF_DEBUG"])]:
            print("FAIL", f["signature"], "|", f["what"][:300], "|", json.dumps(f["case"], default=str)[:900])
    findings = load_findings(prop_id)
    listed = {e["signature"]: e for e in findings if e.get("status") == "finding"}
    violations = 0
    known_hit: dict[str, dict] = {}
    new_fail: dict[str, dict] = {}
    for f in ctx.failures:
        sig = f["signature"]
        if sig in listed:
            known_hit.setdefault(sig, f)
        else:
            new_fail.setdefault(sig, f)
    for sig, f in known_hit.items():
        print(f"KNOWN-FINDING: property={prop_id} {sig}: {listed[sig].get('what', f['what'])}")
    for sig, f in new_fail.items():
        p = write_replay(prop_id, "input", {
            "property": prop_id, "seed": seed, "kind": "failing-input", "signature": sig,
            "what": f["what"], "case": f["case"], "observed": f["observed"], "expected": f["expected"],
            "broken": sorted(audit["broken"]) + [d["what"] for d in ctx.disagreements[:3]],
        })
        print(f"VIOLATION property={prop_id} replay={p}")
        violations += 1
    broken_names = sorted(audit["broken"])
    # disagreements explained by a failing input of the same case are already reported
    failing_cases = {json.dumps(f["case"], sort_keys=True, default=str) for f in ctx.failures}
    unexplained = [d for d in ctx.disagreements
                   if json.dumps(d["case"], sort_keys=True, default=str) not in failing_cases]
    if (broken_names or unexplained) and not new_fail:
        payload = {
            "property": prop_id, "seed": seed, "kind": "broken-obligation",
            "broken_theorems": {k: audit["broken"][k] for k in broken_names},
            "broken_correspondence": [
                {"what": d["what"], "case": d["case"], "model": d["model"], "impl": d["impl"]}
                for d in unexplained[:5]
            ],
            "build_log_tail": audit["log"][-2000:] if broken_names else "",
            "note": "no concrete input was found on which the implementation violates the property; "
                    "the property is no longer shown to hold",
        }
        p = write_replay(prop_id, "broken", payload)
        print(f"VIOLATION property={prop_id} replay={p} no-failing-input-found")
        violations += 1

    wall = time.time() - t0
    coverage = {
        "obligations": len(module.THEOREMS),
        "discharged": len(audit["discharged"]),
        "checker_cmd": f"cd lean && lake build {' '.join(module.LEAN_MODULES)} && lake env lean .lake/audit/{prop_id}.lean  # #print axioms"
                       + ("; lake env leanchecker " + " ".join(module.LEAN_MODULES) if tier == "thorough" else ""),
        "trusted_base": TRUSTED_BASE + list(getattr(module, "TRUSTED_EXTRA", [])),
        "theorems": module.THEOREMS,
        "axioms": audit["axioms"],
        "broken": audit["broken"],
        "leanchecker": audit["leanchecker"],
        "traces_validated_against_impl": ctx.traces,
        "evaluations": ctx.evaluations,
        "distinct_nontrivial": len(ctx.nontrivial_hashes),
        "distinct": len(ctx.case_hashes),
        "rule": getattr(module, "RULE", ""),
        "samples": jsonable(ctx.samples),
        "input_distribution": dict(sorted(ctx.hist.items())),
        "disagreements": len(ctx.disagreements),
        "failing_inputs": len(ctx.failures),
        "known_findings_hit": sorted(known_hit),
        "notes": ctx.notes,
        "build_s": audit.get("build_s"),
        **jsonable(ctx.extra),
    }
    write_evidence(prop_id, tier, seed, coverage, list(getattr(module, "ASSUMPTIONS", [])), wall, violations)
    print(f"[{prop_id}] tier={tier} seed={seed} theorems={len(audit['discharged'])}/{len(module.THEOREMS)} "
          f"cases={ctx.evaluations} nontrivial={len(ctx.nontrivial_hashes)} traces={ctx.traces} "
          f"disagreements={len(ctx.disagreements)} failing_inputs={len(ctx.failures)} "
          f"known={len(known_hit)} wall={wall:.1f}s")
    return 1 if violations else 0
