"""Regenerates MANIFEST.json from the property modules that exist (run by hand after adding a check)."""
import importlib
import json
import sys
from pathlib import Path

VERIF = Path(__file__).resolve().parent.parent
sys.path.insert(0, str(VERIF))

ALL = [f"C{i:02d}" for i in range(1, 21)]
NOT_YET = "no Lean model/correspondence committed yet for this property in this tree (unclaimed, not a technique limit); see DESIGN.md section 6"


def main():
    checks, na = [], []
    for pid in ALL:
        try:
            m = importlib.import_module(f"harness.props.{pid.lower()}")
        except ModuleNotFoundError:
            na.append({"property_id": pid, "reason": NOT_YET})
            continue
        checks.append({
            "property_id": pid,
            "quick_cmd": f"./check {pid} --tier quick",
            "thorough_cmd": f"./check {pid} --tier thorough",
            "evidence_file": f"/verif/evidence/{pid}.json",
            "replay_cmd_template": f"./check {pid} --replay {{path}}",
            "engine": "lean4-proof+correspondence",
            "level_claimed": {
                "category": "proof",
                "text": m.LEVEL_TEXT,
                "design_ref": f"DESIGN.md section 6/{pid}",
            },
            "level_note": m.LEVEL_NOTE,
            "technique": m.TECHNIQUE,
        })
    man = {
        "version": 1,
        "setup_cmd": "/venv/bin/python harness/translate/iocalls.py /repo && PYTHONPATH=/repo /venv/bin/python harness/translate/setters.py /repo && PYTHONPATH=/repo /venv/bin/python harness/translate/py2lean.py /repo && cd lean && lake build driver GeoVerif",
        "hooks": {
            "guard": "GEOH5PY_VERIF",
            "enable": "no hook lives in /repo: the harness monkey-patches wrappers at run time (GEOH5PY_VERIF=1 is exported by ./check for documentation only)",
            "baseline_off_cmd": "cd /repo && /venv/bin/python -m pytest -ra -q -p no:cacheprovider --timeout=900 --continue-on-collection-errors",
            "source_commits": [],
            "add_only": True,
        },
        "engines": [{
            "name": "lean4-proof+correspondence",
            "path": "/verif/lean (theorems, models, driver) + /verif/harness (translator, correspondence, failing-input search)",
            "serves_properties": [c["property_id"] for c in checks],
            "kind_free_text": "Lean 4 kernel-checked theorems about executable models; models tied to /repo on every run by a regenerating translator and/or a differential correspondence run",
        }],
        "checks": checks,
        "not_applicable": na,
        "notes": "See DESIGN.md. known_findings.json lists genuine defects (finding/fixed). Exit codes: 0 held, 1 VIOLATION, 2 tool failure/time-out.",
    }
    (VERIF / "MANIFEST.json").write_text(json.dumps(man, indent=1) + "\n")
    print(f"{len(checks)} checks, {len(na)} not claimed")


if __name__ == "__main__":
    main()
