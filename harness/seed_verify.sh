#!/bin/bash
# usage: harness/seed_verify.sh <property> <worktree> <seed-id> [props-to-check...]
# 1. confirms in the scratch worktree: suite passes with the change, demo fails with / passes without
# 2. applies the patch to /repo, runs the listed checks (quick, seeds 0 and 1), reverts /repo
# 3. stores /verif/seeded/<seed-id>/{patch.diff,demo.py,meta.json}
set -u
P=$1; WT=$2; ID=$3; shift 3; CHECKS=${@:-$P}
OUT=/verif/seeded/$ID; mkdir -p $OUT /tmp/scratch
cd $WT || exit 2
git diff -- . ':!seed' > /tmp/scratch/$ID.patch
[ -s /tmp/scratch/$ID.patch ] || cp seed/patch.diff /tmp/scratch/$ID.patch
run() { PYTHONPATH=$WT /venv/bin/python "$@" 2>&1 | grep -v -i -e conda -e h5repack; return ${PIPESTATUS[0]}; }
run seed/demo.py > /tmp/scratch/$ID.demo_with.txt; WITH=$?
SUITE=$(PYTHONPATH=$WT /venv/bin/python -m pytest -q -p no:cacheprovider --timeout=900 2>&1 | tail -1)
git apply -R /tmp/scratch/$ID.patch || { echo "cannot reverse patch"; exit 2; }
run seed/demo.py > /tmp/scratch/$ID.demo_without.txt; WITHOUT=$?
git apply /tmp/scratch/$ID.patch
echo "demo with change: exit $WITH; without: exit $WITHOUT; suite with change: $SUITE"
cp /tmp/scratch/$ID.patch $OUT/patch.diff; cp seed/demo.py $OUT/demo.py; cp seed/README.md $OUT/README.md 2>/dev/null
cd /verif
git -C /repo apply $OUT/patch.diff || { echo "patch does not apply to /repo"; exit 2; }
RES=""
for c in $CHECKS; do for s in 0 1; do
  L=$(VERIF_SEED=$s ./check $c 2>&1 | grep -e "^\[C" -e VIOLATION | tr '\n' ' ' | cut -c1-400); RES="$RES\n$c seed=$s: $L"; done; done
git -C /repo checkout -- .
git -C /repo status --short | head -3
# the generated Lean tables were re-derived from the patched tree by the checks: derive them again from the clean tree
/venv/bin/python harness/translate/iocalls.py /repo >/dev/null; PYTHONPATH=/repo /venv/bin/python harness/translate/setters.py /repo >/dev/null
PYTHONPATH=/repo /venv/bin/python harness/translate/py2lean.py /repo >/dev/null 2>&1
echo -e "$RES"
python3 - "$P" "$ID" "$WITH" "$WITHOUT" "$SUITE" "$RES" <<'PY'
import json,sys
p,i,w,wo,suite,res=sys.argv[1:7]
json.dump({"property":p,"seed_id":i,"demo_exit_with_change":int(w),"demo_exit_without_change":int(wo),
 "suite_with_change":suite,"checks_run":[l for l in res.replace("\\n","\n").split("\n") if l.strip()],
 "needs":open(f"/verif/seeded/{i}/README.md").read()[:1500] if True else ""}, open(f"/verif/seeded/{i}/meta.json","w"), indent=1)
PY
find /verif/replays -name "*.json" -newer $OUT/patch.diff -delete 2>/dev/null
