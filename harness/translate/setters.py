"""T1 translator: property setters -> event paths, dispatch lists, attribute maps.

Regenerates lean/GeoVerif/Gen/Setters.lean from /repo's *current* source:
  * every property setter defined in a class of the Entity / EntityType hierarchy, in Workspace
    and in PropertyGroup, abstracted from its AST to paths of events
        store f      assignment to  self._f  (also self._f[...] = ..., augmented assignment)
        update a     self.workspace.update_attribute(self, "a", ...)  /  self.update_attribute(...)
        call p       assignment to another public attribute  self.p = ...
        raise        the path ends with an exception (no requirement on such a path)
        other        anything else
    one path per combination of `if` outcomes (loops: zero or one iteration, try: body or handler);
  * the literal lists of H5Writer.update_field (which attribute names go to which writer) and the
    python names of all scalar attributes (values of every attribute map);
  * the array fields of KEY_MAP that exist as settable properties.
"""
from __future__ import annotations

import ast
import hashlib
import importlib
import inspect
import pkgutil
import sys
import textwrap
from pathlib import Path

MAX_PATHS = 96


def lean_str(s):
    return '"' + str(s).replace("\\", "\\\\").replace('"', '\\"') + '"'


def events_of_stmt(stmt):
    """Events of a simple (non-branching) statement."""
    evs = []

    def target_events(t):
        if isinstance(t, ast.Attribute) and isinstance(t.value, ast.Name) and t.value.id == "self":
            if t.attr.startswith("_"):
                return [("store", t.attr.lstrip("_"))]
            return [("call", t.attr)]
        if isinstance(t, ast.Subscript):
            return target_events(t.value)
        if isinstance(t, (ast.Tuple, ast.List)):
            out = []
            for e in t.elts:
                out += target_events(e)
            return out
        return []

    if isinstance(stmt, (ast.Assign,)):
        for t in stmt.targets:
            evs += target_events(t)
        evs += call_events(stmt.value)
        if not evs:
            evs = []
        return evs
    if isinstance(stmt, ast.AnnAssign) and stmt.value is not None:
        return target_events(stmt.target) + call_events(stmt.value)
    if isinstance(stmt, ast.AugAssign):
        return target_events(stmt.target)
    if isinstance(stmt, ast.Expr):
        return call_events(stmt.value) or ([("other", "")] if isinstance(stmt.value, ast.Call) else [])
    if isinstance(stmt, ast.Raise):
        return [("raise", "")]
    if isinstance(stmt, (ast.Pass, ast.Assert, ast.Import, ast.ImportFrom)):
        return []
    return [("other", "")]


def call_events(expr):
    evs = []
    for node in ast.walk(expr):
        if isinstance(node, ast.Call) and isinstance(node.func, ast.Attribute) and node.func.attr == "update_attribute":
            args = node.args
            name = None
            # self.workspace.update_attribute(self, "a")  or  workspace.update_attribute(self, "a")
            for a in args:
                if isinstance(a, ast.Constant) and isinstance(a.value, str):
                    name = a.value
                    break
            evs.append(("update", name if name is not None else "?"))
    return evs


def is_stored_guard(test):
    src = ast.unparse(test).replace(" ", "")
    return src in ("self.workspace", "self.workspaceisnotNone", "self.on_file", "getattr(self,'_on_file',False)",
                   "getattr(self,'_on_file',False)andself.workspace")


def close_writes_header(repo):
    src = (repo / "geoh5py/workspace/workspace.py").read_text()
    tree = ast.parse(src)
    for node in ast.walk(tree):
        if isinstance(node, ast.FunctionDef) and node.name == "close":
            for call in ast.walk(node):
                if isinstance(call, ast.Call) and isinstance(call.func, ast.Attribute) and call.func.attr == "_io_call" and len(call.args) >= 2:
                    f, target = call.args[0], call.args[1]
                    if isinstance(f, ast.Attribute) and f.attr == "write_attributes" and isinstance(target, ast.Name) and target.id == "self":
                        mode = [kw.value.value for kw in call.keywords if kw.arg == "mode" and isinstance(kw.value, ast.Constant)]
                        return mode == ["r+"]
    return False


def paths_of(stmts):
    """All event paths through a statement list (list of lists of events); a path ending in raise is cut."""
    paths = [[]]
    for stmt in stmts:
        new_paths = []
        for p in paths:
            if p and p[-1][0] in ("raise", "return"):
                new_paths.append(p)
                continue
            if isinstance(stmt, ast.If):
                branches = (stmt.body, stmt.orelse)
                if is_stored_guard(stmt.test):
                    # `if self.workspace:` / `if getattr(self, "_on_file", False):` — the property is about
                    # entities that are already stored in a workspace: only the guarded branch is feasible
                    branches = (stmt.body,)
                for branch in branches:
                    for bp in paths_of(branch):
                        new_paths.append(p + bp)
            elif isinstance(stmt, (ast.For, ast.While)):
                new_paths.append(list(p))
                for bp in paths_of(stmt.body):
                    new_paths.append(p + [e for e in bp if e[0] != "return"])
            elif isinstance(stmt, ast.Try):
                for bp in paths_of(stmt.body + stmt.orelse + stmt.finalbody):
                    new_paths.append(p + bp)
                for h in stmt.handlers:
                    for bp in paths_of(h.body + stmt.finalbody):
                        new_paths.append(p + bp)
            elif isinstance(stmt, ast.With):
                for bp in paths_of(stmt.body):
                    new_paths.append(p + bp)
            elif isinstance(stmt, ast.Return):
                new_paths.append(p + call_events(stmt.value) + [("return", "")] if stmt.value is not None else p + [("return", "")])
            else:
                new_paths.append(p + events_of_stmt(stmt))
        # dedupe, cap
        seen, paths = set(), []
        for q in new_paths:
            key = tuple(q)
            if key not in seen:
                seen.add(key)
                paths.append(q)
        if len(paths) > MAX_PATHS:
            paths = paths[:MAX_PATHS] + [[("other", "path-cap")]]
    return paths


def setter_paths(fset):
    src = textwrap.dedent(inspect.getsource(fset))
    tree = ast.parse(src)
    fn = next(n for n in ast.walk(tree) if isinstance(n, (ast.FunctionDef,)))
    out = []
    for p in paths_of(fn.body):
        out.append([e for e in p if e[0] != "return"])
    # dedupe after dropping returns
    seen, res = set(), []
    for q in out:
        if tuple(q) not in seen:
            seen.add(tuple(q))
            res.append(q)
    return res


def all_classes(repo: Path):
    if str(repo) not in sys.path:
        sys.path.insert(0, str(repo))
    import geoh5py
    for m in pkgutil.walk_packages(geoh5py.__path__, "geoh5py."):
        if any(x in m.name for x in (".ui_json", ".handlers", ".interfaces")):
            continue
        try:
            importlib.import_module(m.name)
        except Exception:  # noqa: BLE001
            pass
    from geoh5py.groups.property_group import PropertyGroup
    from geoh5py.shared.entity import Entity
    from geoh5py.shared.entity_type import EntityType
    from geoh5py.workspace import Workspace

    def subs(c):
        out = {c}
        for s in c.__subclasses__():
            out |= subs(s)
        return out
    return sorted(subs(Entity) | subs(EntityType) | {Workspace, PropertyGroup}, key=lambda c: (c.__module__, c.__name__))


def dispatch_lists(repo: Path):
    src = (repo / "geoh5py/io/h5_writer.py").read_text()
    tree = ast.parse(src)
    fn = next(n for n in ast.walk(tree) if isinstance(n, ast.FunctionDef) and n.name == "update_field")
    lists, singles = [], []
    for node in ast.walk(fn):
        if isinstance(node, ast.Compare) and isinstance(node.left, ast.Name) and node.left.id == "attribute":
            comp = node.comparators[0]
            if isinstance(node.ops[0], ast.In) and isinstance(comp, ast.List):
                lists.append([e.value for e in comp.elts if isinstance(e, ast.Constant)])
            elif isinstance(node.ops[0], ast.Eq) and isinstance(comp, ast.Constant):
                singles.append(comp.value)
    return lists, singles


def generate(repo: Path, out: Path):
    classes = all_classes(repo)
    from geoh5py.shared.utils import KEY_MAP
    setters = []
    scalar_attrs = set()
    array_fields = set()
    lists, singles = dispatch_lists(repo)
    dispatched = {a for l_ in lists for a in l_} | set(singles)
    for c in classes:
        amap = getattr(c, "_attribute_map", None)
        if isinstance(amap, dict):
            for v in amap.values():
                if isinstance(v, str) and ":" not in v:
                    scalar_attrs.add(v)
        for name, member in vars(c).items():
            if isinstance(member, property) and member.fset is not None:
                try:
                    paths = setter_paths(member.fset)
                except Exception as e:  # noqa: BLE001
                    paths = [[("other", f"unparsed:{type(e).__name__}")]]
                setters.append((c.__name__, name, paths))
                if name in KEY_MAP and name in dispatched | {"values", "metadata", "options"}:
                    array_fields.add(name)
                elif name in KEY_MAP and KEY_MAP[name][0].isupper() and name not in ("INVALID",):
                    array_fields.add(name)
    scalar_attrs -= array_fields
    srcs = sorted({inspect.getsourcefile(c) for c in classes if inspect.getsourcefile(c)}) + [str(repo / "geoh5py/io/h5_writer.py")]
    sha = hashlib.sha256(b"".join(Path(s).read_bytes() for s in srcs)).hexdigest()[:16]
    L = [
        "/- GENERATED by harness/translate/setters.py from /repo's working tree — do not edit.",
        f"   {len(setters)} setters of {len(classes)} classes; source sha256 {sha} -/",
        "namespace GeoVerif.Gen",
        "",
        "inductive Ev where",
        "  | store (f : String)",
        "  | update (a : String)",
        "  | call (p : String)",
        "  | raise",
        "  | other",
        "deriving DecidableEq, Repr",
        "",
        "structure Setter where",
        "  owner : String",
        "  prop : String",
        "  paths : List (List Ev)",
        "deriving Repr",
        "",
    ]

    def ev(e):
        k, a = e
        if k in ("store", "update", "call"):
            return f".{k} {lean_str(a)}"
        return "." + k
    L.append("def setters : List Setter := [")
    rows = []
    for owner, prop, paths in setters:
        ps = ", ".join("[" + ", ".join(ev(e) for e in p) + "]" for p in paths)
        rows.append(f"  ⟨{lean_str(owner)}, {lean_str(prop)}, [{ps}]⟩")
    L.append(",\n".join(rows))
    L.append("]")
    L.append("")
    L.append("/-- the literal lists of `H5Writer.update_field`: names written by a dedicated writer -/")
    L.append("def dispatchLists : List (List String) := [" + ", ".join("[" + ", ".join(lean_str(a) for a in l_) + "]" for l_ in lists) + "]")
    L.append("def dispatchSingles : List String := [" + ", ".join(lean_str(a) for a in singles) + "]")
    L.append("/-- python names of the scalar attributes of every attribute map (written by `write_attributes`) -/")
    L.append("def scalarAttrs : List String := [" + ", ".join(lean_str(a) for a in sorted(scalar_attrs)) + "]")
    L.append("/-- `Workspace.close` writes the project attributes (`_io_call(H5Writer.write_attributes, self, mode=\"r+\")`) -/")
    L.append("def closeWritesHeader : Bool := " + ("true" if close_writes_header(repo) else "false"))
    # classes whose `centroids` getter keeps its result in `self._centroids`, and their subclasses
    cache_owners = []
    for c in classes:
        for k in c.__mro__:
            member = vars(k).get("centroids")
            if isinstance(member, property) and member.fget is not None:
                try:
                    tree = ast.parse(textwrap.dedent(inspect.getsource(member.fget)))
                except (OSError, TypeError, SyntaxError):
                    break
                caches = any(isinstance(n, ast.Attribute) and n.attr == "_centroids" and isinstance(n.ctx, ast.Store)
                             for n in ast.walk(tree))
                if caches:
                    cache_owners.append(c.__name__)
                break
    L.append("/-- classes whose `centroids` getter caches its result in `_centroids` (and their subclasses) -/")
    L.append("def centroidCacheOwners : List String := [" + ", ".join(lean_str(a) for a in sorted(set(cache_owners))) + "]")
    L.append("/-- array / structured fields of KEY_MAP that have a setter -/")
    L.append("def arrayFields : List String := [" + ", ".join(lean_str(a) for a in sorted(array_fields)) + "]")
    L += ["", "end GeoVerif.Gen", ""]
    text = "\n".join(L)
    out.parent.mkdir(parents=True, exist_ok=True)
    if not out.exists() or out.read_text() != text:
        out.write_text(text)
    return {"setters": len(setters), "classes": len(classes), "scalar_attrs": len(scalar_attrs),
            "array_fields": sorted(array_fields), "sha": sha}


if __name__ == "__main__":
    repo = Path(sys.argv[1] if len(sys.argv) > 1 else "/repo")
    print(generate(repo, Path(__file__).resolve().parents[2] / "lean/GeoVerif/Gen/Setters.lean"))
