"""T2 translator: a deliberately small Python -> Lean translator for side-effect-free decision
functions over nested dictionaries (ui_json/utils.py and the value mappers of shared/utils.py).

Every Python expression becomes a term of type `PyM PyVal` (or `PyM Bool` for conditions) built
from the total primitives of lean/GeoVerif/Model/Py.lean, so evaluation order, short-circuiting and
exceptions are explicit; statements become a `do` block with all locals pre-declared as `let mut`.
A function whose AST leaves the supported subset is emitted as `def <name>_unsupported`, which
breaks the build of the theorems that mention it (a broken tie, not a silent acceptance).
Regenerated from /repo's working tree on every run into lean/GeoVerif/Gen/UiJson.lean.
"""
from __future__ import annotations

import ast
import hashlib
from pathlib import Path

WHITELIST = {
    "geoh5py/ui_json/utils.py": ["truth", "is_form", "collect", "find_all", "group_optional", "group_enabled",
                                 "optional_requires_value", "dependency_requires_value", "group_requires_value",
                                 "requires_value", "flatten", "str2inf"],
    "geoh5py/shared/utils.py": ["is_uuid", "str2uuid", "as_str_if_uuid", "inf2str", "none2str", "nan2str", "str2none", "entity2uuid"],
}
# mapper lists: (file, class or None, function) -> Lean name; the list literal assigned to `mappers` is extracted
MAPPER_LISTS = [
    ("geoh5py/shared/utils.py", None, "stringify", "stringifyMappers"),
    ("geoh5py/ui_json/input_file.py", "InputFile", "numify", "numifyMappers"),
    ("geoh5py/ui_json/input_file.py", "InputFile", "demote", "demoteMappers"),
]
HAND_MAPPERS = {"path2workspace", "workspace2path", "container_group2name"}   # hand models in Model/Py.lean
EXC = {"ValueError": ".valueError", "KeyError": ".keyError", "TypeError": ".typeError", "AttributeError": ".attributeError",
       "IndexError": ".indexError"}


class Unsupported(Exception):
    pass


def lstr(s):
    return '"' + s.replace("\\", "\\\\").replace('"', '\\"') + '"'


class Fn:
    def __init__(self, node: ast.FunctionDef, known):
        self.node = node
        self.known = known          # name -> (n_args, defaults)
        self.locals = set()
        self.params = [a.arg for a in node.args.args]

    def var(self, name):
        return "v_" + name

    # ---------------- expressions: PyM PyVal
    def e(self, n) -> str:
        if isinstance(n, ast.Constant):
            v = n.value
            if v is None:
                return "(pure PyVal.none)"
            if isinstance(v, bool):
                return f"(pure (PyVal.bool {'true' if v else 'false'}))"
            if isinstance(v, int):
                return f"(pure (PyVal.int {v}))"
            if isinstance(v, str):
                return f"(pure (PyVal.str {lstr(v)}))"
            raise Unsupported(f"constant {v!r}")
        if isinstance(n, ast.Name):
            return f"(pure {self.var(n.id)})"
        if isinstance(n, ast.Dict):
            items = []
            for k, v in zip(n.keys, n.values):
                if not (isinstance(k, ast.Constant) and isinstance(k.value, str)):
                    raise Unsupported("dict key")
                if not isinstance(v, ast.Constant):
                    raise Unsupported("dict literal value")
                items.append(f"({lstr(k.value)}, {self.const(v)})")
            return f"(pure (PyVal.dict [{', '.join(items)}]))"
        if isinstance(n, ast.List):
            if all(isinstance(x, ast.Constant) for x in n.elts):
                return f"(pure (PyVal.list [{', '.join(self.const(x) for x in n.elts)}]))"
            raise Unsupported("list literal")
        if isinstance(n, ast.Subscript):
            return f"(bind2 getItem {self.e(n.value)} {self.e(n.slice)})"
        if isinstance(n, ast.Attribute) and n.attr == "uid":
            return f"(bind1 getUid {self.e(n.value)})"
        if isinstance(n, ast.IfExp):
            return f"(iteM {self.c(n.test)} (fun _ => {self.e(n.body)}) (fun _ => {self.e(n.orelse)}))"
        if isinstance(n, ast.BinOp) and isinstance(n.op, ast.BitAnd):
            return f"(bind2 bitAnd {self.e(n.left)} {self.e(n.right)})"
        if isinstance(n, ast.BinOp) and isinstance(n.op, ast.Add):
            # "{" + str(value) + "}"
            src = ast.unparse(n).replace(" ", "")
            if src == "'{'+str(value)+'}'":
                return f"(map1 (fun v => braced (pyStr v)) (pure {self.var('value')}))"
            raise Unsupported("addition")
        if isinstance(n, (ast.Compare, ast.BoolOp)) or (isinstance(n, ast.UnaryOp) and isinstance(n.op, ast.Not)):
            return f"(ofBool {self.c(n)})"
        if isinstance(n, ast.Call):
            return self.call(n)
        raise Unsupported(ast.dump(n)[:60])

    def const(self, n):
        v = n.value
        if v is None:
            return "PyVal.none"
        if isinstance(v, bool):
            return f"PyVal.bool {'true' if v else 'false'}"
        if isinstance(v, int):
            return f"PyVal.int {v}"
        if isinstance(v, str):
            return f"PyVal.str {lstr(v)}"
        raise Unsupported("const")

    def call(self, n: ast.Call) -> str:
        f = n.func
        if isinstance(f, ast.Attribute):
            if f.attr == "get":
                d = n.args[1] if len(n.args) > 1 else ast.Constant(value=None)
                return f"(bind3 getD {self.e(f.value)} {self.e(n.args[0])} {self.e(d)})"
            if f.attr == "keys" and not n.args:
                return f"(bind1 keys {self.e(f.value)})"
            if f.attr == "decode":
                return self.e(f.value)                      # bytes do not occur in ui.json values
            if f.attr == "isfinite":
                return f"(ofBool {self.c(n)})"
            raise Unsupported("method " + f.attr)
        if isinstance(f, ast.Name):
            if f.id == "list" and len(n.args) == 1:
                return self.e(n.args[0])
            if f.id == "float" and len(n.args) == 1:
                return f"(bind1 floatOfStr {self.e(n.args[0])})"
            if f.id == "str" and len(n.args) == 1:
                return f"(map1 (fun v => PyVal.str (pyStr v)) {self.e(n.args[0])})"
            if f.id == "UUID" and len(n.args) == 1:
                return f"(map1 (fun v => PyVal.uuid ((uuidParse v).getD \"\")) {self.e(n.args[0])})"
            if f.id in self.known:
                nargs, defaults = self.known[f.id]
                args = [self.e(a) for a in n.args]
                while len(args) < nargs:
                    dflt = defaults[len(args) - (nargs - len(defaults))]
                    args.append(self.e(dflt))
                combinator = {1: "bind1", 2: "bind2", 3: "bind3"}[nargs]
                return f"({combinator} {f.id} {' '.join(args)})"
            if f.id in ("isinstance", "all", "hasattr"):
                return f"(ofBool {self.c(n)})"
        raise Unsupported("call " + ast.unparse(n)[:40])

    # ---------------- conditions: PyM Bool
    def c(self, n) -> str:
        if isinstance(n, ast.BoolOp):
            op = "pyAndM" if isinstance(n.op, ast.And) else "pyOrM"
            out = self.c(n.values[-1])
            for v in reversed(n.values[:-1]):
                out = f"({op} {self.c(v)} (fun _ => {out}))"
            return out
        if isinstance(n, ast.UnaryOp) and isinstance(n.op, ast.Not):
            return f"(pyNotM {self.c(n.operand)})"
        if isinstance(n, ast.Compare) and len(n.ops) == 1:
            op, a, b = n.ops[0], n.left, n.comparators[0]
            if isinstance(op, ast.Eq):
                return f"(map2 pyEq {self.e(a)} {self.e(b)})"
            if isinstance(op, ast.NotEq):
                return f"(pyNotM (map2 pyEq {self.e(a)} {self.e(b)}))"
            if isinstance(op, ast.In):
                if isinstance(b, ast.Call) and isinstance(b.func, ast.Attribute) and b.func.attr == "keys":
                    b = b.func.value
                return f"(bind2 contains {self.e(a)} {self.e(b)})"
            if isinstance(op, ast.NotIn):
                if isinstance(b, ast.Call) and isinstance(b.func, ast.Attribute) and b.func.attr == "keys":
                    b = b.func.value
                return f"(pyNotM (bind2 contains {self.e(a)} {self.e(b)}))"
            if isinstance(op, ast.Is):
                if isinstance(b, ast.Constant) and b.value is None:
                    return f"(map1 isNone {self.e(a)})"
                if ast.unparse(b) == "np.nan":
                    return f"(map1 isNan {self.e(a)})"
            if isinstance(op, ast.IsNot) and isinstance(b, ast.Constant) and b.value is None:
                return f"(pyNotM (map1 isNone {self.e(a)}))"
            raise Unsupported("compare " + ast.unparse(n)[:40])
        if isinstance(n, ast.Call) and isinstance(n.func, ast.Name) and n.func.id == "isinstance":
            t = ast.unparse(n.args[1]).replace(" ", "")
            pred = {"dict": "isDict", "str": "isStr", "list": "isList", "(int,float)": "isNumber", "float": "isFloat", "(str,UUID)": "isStrOrUuid", "UUID": "isUuid",
                    "bytes": "(fun _ => false)"}.get(t)
            if pred is None:
                raise Unsupported("isinstance " + t)
            return f"(map1 {pred} {self.e(n.args[0])})"
        if isinstance(n, ast.Call) and isinstance(n.func, ast.Name) and n.func.id == "all":
            g = n.args[0]
            # all(k in var.keys() for k in ["label", "value"])
            if isinstance(g, ast.GeneratorExp) and len(g.generators) == 1 and isinstance(g.generators[0].iter, ast.List) \
                    and isinstance(g.elt, ast.Compare) and isinstance(g.elt.ops[0], ast.In):
                ks = [x.value for x in g.generators[0].iter.elts]
                target = g.elt.comparators[0]
                if isinstance(target, ast.Call) and isinstance(target.func, ast.Attribute) and target.func.attr == "keys":
                    target = target.func.value
                return f"(map1 (allKeysIn [{', '.join(lstr(k) for k in ks)}]) {self.e(target)})"
            raise Unsupported("all(...)")
        if isinstance(n, ast.Call) and isinstance(n.func, ast.Attribute) and n.func.attr == "isfinite":
            return f"(map1 isFinite {self.e(n.args[0])})"
        if isinstance(n, ast.Call) and isinstance(n.func, ast.Name) and n.func.id == "hasattr" and len(n.args) == 2 \
                and isinstance(n.args[1], ast.Constant) and n.args[1].value == "uid":
            return f"(map1 hasUid {self.e(n.args[0])})"
        # any other expression used as a condition: Python truthiness
        return f"(asBool {self.e(n)})"

    # ---------------- statements
    def collect_locals(self, stmts):
        for s in ast.walk(ast.Module(body=stmts, type_ignores=[])):
            if isinstance(s, ast.Assign):
                for t in s.targets:
                    if isinstance(t, ast.Name):
                        self.locals.add(t.id)
            if isinstance(s, ast.AnnAssign) and isinstance(s.target, ast.Name):
                self.locals.add(s.target.id)

    def block(self, stmts, ind) -> list[str]:
        out = []
        pad = "  " * ind
        for s in stmts:
            if isinstance(s, ast.Expr) and isinstance(s.value, ast.Constant):
                continue                                   # docstring
            if isinstance(s, (ast.Assign, ast.AnnAssign)):
                target = s.targets[0] if isinstance(s, ast.Assign) else s.target
                if isinstance(target, ast.Name):
                    out.append(f"{pad}{self.var(target.id)} ← {self.e(s.value)}")
                elif isinstance(target, ast.Subscript) and isinstance(target.value, ast.Name):
                    d = self.var(target.value.id)
                    out.append(f"{pad}{d} ← (bind3 setItem (pure {d}) {self.e(target.slice)} {self.e(s.value)})")
                else:
                    raise Unsupported("assignment target")
            elif isinstance(s, ast.If):
                out.append(f"{pad}if (← {self.c(s.test)}) then")
                out += self.block(s.body, ind + 1) or [f"{pad}  pure ()"]
                if s.orelse:
                    out.append(f"{pad}else")
                    out += self.block(s.orelse, ind + 1) or [f"{pad}  pure ()"]
            elif isinstance(s, ast.For):
                it = s.iter
                if not (isinstance(it, ast.Call) and isinstance(it.func, ast.Attribute) and it.func.attr == "items"
                        and isinstance(s.target, ast.Tuple) and len(s.target.elts) == 2):
                    raise Unsupported("for loop")
                a, b = (self.var(x.id) for x in s.target.elts)
                out.append(f"{pad}for ({a}, {b}) in (← (bind1 items {self.e(it.func.value)})) do")
                out += self.block(s.body, ind + 1) or [f"{pad}  pure ()"]
            elif isinstance(s, ast.Return):
                out.append(f"{pad}return (← {self.e(s.value) if s.value is not None else '(pure PyVal.none)'})")
            elif isinstance(s, ast.Raise):
                name = s.exc.func.id if isinstance(s.exc, ast.Call) else getattr(s.exc, "id", "ValueError")
                out.append(f"{pad}throw {EXC.get(name, '.valueError')}")
            elif isinstance(s, ast.Try):
                # try: UUID(str(value)); return True  except ValueError: return False
                src = ast.unparse(s).replace(" ", "").replace("\n", "")
                if "UUID(str(value))" in src and "returnTrue" in src and "returnFalse" in src:
                    out.append(f"{pad}return (PyVal.bool (uuidParse {self.var('value')}).isSome)")
                else:
                    raise Unsupported("try")
            elif isinstance(s, ast.Pass):
                out.append(f"{pad}pure ()")
            else:
                raise Unsupported(type(s).__name__)
        return out

    def emit(self) -> str:
        body = self.node.body
        self.collect_locals(body)
        name = self.node.name
        params = " ".join(f"({self.var(p)} : PyVal)" for p in self.params)
        lines = [f"def {name} {params} : PyM PyVal := do"]
        for p in self.params:
            if p in self.locals:
                lines.append(f"  let mut {self.var(p)} := {self.var(p)}")
        for v in sorted(self.locals - set(self.params)):
            lines.append(f"  let mut {self.var(v)} : PyVal := PyVal.none")
        lines += self.block(body, 1)
        last = body[-1]
        if not isinstance(last, (ast.Return, ast.Raise)):
            lines.append("  return PyVal.none")
        return "\n".join(lines)


def mapper_list(path: Path, cls, fn):
    """names in the list literal assigned to `mappers` inside the given function (None if not found / not plain names)"""
    tree = ast.parse(path.read_text())
    scope = tree.body
    if cls is not None:
        scope = next((n.body for n in tree.body if isinstance(n, ast.ClassDef) and n.name == cls), [])
    fd = next((n for n in scope if isinstance(n, ast.FunctionDef) and n.name == fn), None)
    if fd is None:
        return None
    found = [a for a in ast.walk(fd) if isinstance(a, ast.Assign) and len(a.targets) == 1
             and isinstance(a.targets[0], ast.Name) and a.targets[0].id == "mappers"]
    if len(found) != 1 or not isinstance(found[0].value, ast.List):
        return None
    if not all(isinstance(e, ast.Name) for e in found[0].value.elts):
        return None
    return [e.id for e in found[0].value.elts]


def generate(repo: Path, out: Path):
    funcs = []          # (name, FunctionDef, file)
    for rel, names in WHITELIST.items():
        tree = ast.parse((repo / rel).read_text())
        found = {n.name: n for n in tree.body if isinstance(n, ast.FunctionDef)}
        for nm in names:
            if nm in found:
                funcs.append((nm, found[nm], rel))
            else:
                funcs.append((nm, None, rel))
    known = {nm: (len(fd.args.args), fd.args.defaults) for nm, fd, _ in funcs if fd is not None}
    # dependency order: emit a function after the functions it calls
    order, done = [], set()

    def deps(fd):
        return {c.func.id for c in ast.walk(fd) if isinstance(c, ast.Call) and isinstance(c.func, ast.Name) and c.func.id in known}
    pending = [f for f in funcs if f[1] is not None]
    while pending:
        progressed = False
        for f in list(pending):
            if deps(f[1]) - {f[0]} <= done:
                order.append(f)
                done.add(f[0])
                pending.remove(f)
                progressed = True
        if not progressed:
            order += pending
            break
    srcs = sorted(set(WHITELIST) | {m[0] for m in MAPPER_LISTS})
    sha = hashlib.sha256(b"".join((repo / s).read_bytes() for s in srcs)).hexdigest()[:16]
    L = ["/- GENERATED by harness/translate/py2lean.py from /repo's working tree — do not edit.",
         f"   sources: {', '.join(srcs)}; sha256 {sha} -/",
         "import GeoVerif.Model.Py", "namespace GeoVerif.Gen.Ui", "open GeoVerif.Py", "open GeoVerif.Py.PyVal", ""]
    unsupported = []
    for nm, fd, rel in funcs:
        if fd is None:
            unsupported.append(f"{nm}: not found in {rel}")
    for nm, fd, rel in order:
        try:
            text = Fn(fd, known).emit()
            L.append(f"/-- translated from `{rel}::{nm}` -/")
            L.append(text)
        except Unsupported as e:
            unsupported.append(f"{nm}: {e}")
            L.append(f"/-- `{rel}::{nm}` left the supported subset: {e} -/")
            L.append(f"def {nm}_unsupported : Unit := ()")
        L.append("")
    translated_ok = {nm for nm, _, _ in order} - {u.split(":")[0] for u in unsupported}
    for rel, cls, fn, lean_name in MAPPER_LISTS:
        names = mapper_list(repo / rel, cls, fn)
        if names is None or any(n not in translated_ok and n not in HAND_MAPPERS for n in names):
            unsupported.append(f"{lean_name}: mapper list of {rel}::{fn} not recognised ({names})")
            L.append(f"/-- mapper list of `{rel}::{fn}` left the supported subset: {names} -/")
            L.append(f"def {lean_name}_unsupported : Unit := ()")
        else:
            L.append(f"/-- the list assigned to `mappers` in `{rel}::{(cls + '.') if cls else ''}{fn}`, in order -/")
            L.append(f"def {lean_name} : List (PyVal → PyM PyVal) := [{', '.join(names)}]")
        L.append("")
    L += ["end GeoVerif.Gen.Ui", ""]
    text = "\n".join(L)
    out.parent.mkdir(parents=True, exist_ok=True)
    if not out.exists() or out.read_text() != text:
        out.write_text(text)
    return {"translated": [f[0] for f in order if f[0] not in [u.split(':')[0] for u in unsupported]], "unsupported": unsupported, "sha": sha}


if __name__ == "__main__":
    import sys
    print(generate(Path(sys.argv[1] if len(sys.argv) > 1 else "/repo"), Path(__file__).resolve().parents[2] / "lean/GeoVerif/Gen/UiJson.lean"))
