import json, sys, glob
import jsonschema
man=json.load(open('/verif/MANIFEST.json')); jsonschema.validate(man, json.load(open('/root/.vp/MANIFEST.schema.json'))); print("manifest ok", len(man["checks"]))
sch=json.load(open('/root/.vp/EVIDENCE.schema.json'))
for f in sorted(glob.glob('/verif/evidence/*.json')):
    ev=json.load(open(f)); jsonschema.validate(ev, sch)
    c=ev["coverage"]; print(f.split('/')[-1], "ok", c["obligations"], c["discharged"], c["evaluations"], c["distinct_nontrivial"], ev["wall_s"])
