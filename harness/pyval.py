"""Python values <-> the JSON form of the Lean `PyVal` (lean/GeoVerif/Driver/PyJson.lean), and value *specs*:
JSON-serialisable descriptions of test values that can name entities of a small fixed world (so that cases can be
stored in replay files and rebuilt)."""
from __future__ import annotations

import math
import uuid
from fractions import Fraction


def hex_of(u) -> str:
    return uuid.UUID(str(u)).hex


def to_pyval(v):
    """Python value -> PyVal JSON."""
    from geoh5py.groups import PropertyGroup
    from geoh5py.shared import Entity
    from geoh5py.workspace import Workspace
    if v is None:
        return {"t": "none"}
    if isinstance(v, bool):
        return {"t": "bool", "v": v}
    if isinstance(v, int):
        return {"t": "int", "v": str(v)}
    if isinstance(v, float):
        if math.isnan(v):
            return {"t": "nan"}
        if math.isinf(v):
            return {"t": "inf", "v": v < 0}
        f = Fraction(v)
        return {"t": "flt", "v": f"{f.numerator}/{f.denominator}"}
    if isinstance(v, str):
        return {"t": "str", "v": v}
    if isinstance(v, uuid.UUID):
        return {"t": "uuid", "v": v.hex}
    if isinstance(v, Workspace):
        return {"t": "ws", "v": str(v.h5file)}
    if isinstance(v, (Entity, PropertyGroup)):
        return {"t": "ent", "v": v.uid.hex}
    if isinstance(v, (list, tuple)):
        return {"t": "list", "v": [to_pyval(x) for x in v]}
    if isinstance(v, dict):
        return {"t": "dict", "v": [[str(k), to_pyval(x)] for k, x in v.items()]}
    return {"t": "str", "v": f"<unsupported {type(v).__name__}>"}


def canon(j):
    """Comparable form of a PyVal JSON (floats as reduced fractions, ints as ints)."""
    t = j.get("t")
    if t == "flt":
        n, _, d = j["v"].partition("/")
        return ("flt", Fraction(int(n), int(d or 1)))
    if t == "int":
        return ("int", int(j["v"]))
    if t == "list":
        return ("list", tuple(canon(x) for x in j["v"]))
    if t == "dict":
        return ("dict", tuple((k, canon(x)) for k, x in j["v"]))
    if t in ("none", "nan"):
        return (t,)
    return (t, j.get("v"))


def from_spec(spec, world):
    """Value spec -> Python value (entities looked up in `world`: name -> object)."""
    k = spec["k"]
    if k == "none":
        return None
    if k in ("bool", "int", "str"):
        return spec["v"]
    if k == "float":
        return float(spec["v"])
    if k == "uuid":
        return uuid.UUID(spec["v"])
    if k == "uuid_of":
        return world[spec["e"]].uid
    if k == "uuidstr_of":
        return "{" + str(world[spec["e"]].uid) + "}" if spec.get("braces") else str(world[spec["e"]].uid)
    if k in ("ent", "ws"):
        return world[spec["e"]]
    if k == "list":
        return [from_spec(x, world) for x in spec["v"]]
    if k == "dict":
        return {a: from_spec(b, world) for a, b in spec["v"]}
    raise ValueError(k)
