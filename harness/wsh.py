"""Workspace histories: the shared machinery of the M1 (`Ws`) properties C01, C02, C05, C06, C09, C12.

* `Session` runs one random API history against a real geoh5 file and mirrors every operation as
  a line for the Lean model `Ws` (Model/Ws.lean, driver model "ws");
* `api_tree` is the canonical snapshot of what the public API shows from `Workspace.root`;
* `raw_file` is an independent reader of the closed file written with plain h5py (hard-link
  identities through HDF5 object addresses), producing the model's `File` structure;
* generators and canonicalisation follow DESIGN.md section 3.2 (uuids -> small naturals in order
  of first appearance, children compared as sets, arrays as digests, GC only where the history
  says so).
"""
from __future__ import annotations

import gc
import hashlib
import math
import os
import uuid
import warnings

import numpy as np

KINDS = {"Groups": "group", "Objects": "object", "Data": "data"}
ARRAY_ATTRS = ["vertices", "cells", "values", "octree_cells", "surveys", "trace", "u_cell_delimiters",
               "v_cell_delimiters", "z_cell_delimiters", "layers", "prisms"]
SKIP_KEYS = {"ID", "Name", "Allow delete", "PropertyGroups", "Clipping IDs",
             # bookkeeping of the concatenated storage of a drillhole group (model M2, C04)
             "Attributes", "Attributes Jsons", "Concatenated object IDs", "Property Groups IDs", "Property Group IDs"}


class Uids:
    def __init__(self):
        self.map = {}

    def num(self, u):
        if isinstance(u, bytes):
            u = u.decode()
        if isinstance(u, str):
            u = uuid.UUID(u)
        if u not in self.map:
            self.map[u] = len(self.map) + 1
        return self.map[u]


def tok(v):
    if v is None:
        return "None"
    if isinstance(v, (bool, np.bool_)):
        return "1" if v else "0"
    if isinstance(v, (int, np.integer)):
        return str(int(v))
    if isinstance(v, (float, np.floating)):
        return "nan" if math.isnan(v) else repr(float(v))
    if isinstance(v, uuid.UUID):
        return "{" + str(v) + "}"
    if isinstance(v, np.ndarray):
        if v.dtype.names:
            return "(" + ",".join(tok(x) for x in v.tolist()) + ")" if v.shape == () else digest(v)
        return digest(v)
    if isinstance(v, bytes):
        return v.decode(errors="replace")
    if hasattr(v, "name") and hasattr(v, "value") and not isinstance(v, str):   # Enum
        return str(v.name)
    if isinstance(v, (list, tuple)):
        return "[" + ",".join(tok(x) for x in v) + "]"
    if isinstance(v, dict):
        return "{" + ",".join(f"{k}:{tok(x)}" for k, x in sorted(v.items(), key=lambda kv: str(kv[0]))) + "}"
    return str(v)


def digest(arr):
    if arr is None:
        return "None"
    a = np.asarray(arr)
    if a.dtype.names:
        a = np.array(a.tolist(), dtype=float) if a.size else np.zeros((0,))
    if a.dtype.kind in "fiub":
        a = np.asarray(a, dtype="float64")
        body = a.tobytes()
    else:
        body = "|".join(str(x) for x in a.ravel().tolist()).encode()
    return f"{a.shape}:{hashlib.sha1(body).hexdigest()[:10]}"


def kind_of(e):
    from geoh5py.data import Data
    from geoh5py.groups import Group
    if isinstance(e, Data):
        return "data"
    if isinstance(e, Group):
        return "group"
    return "object"


def ent_record(uids: Uids, e):
    attrs, dsets = {}, {}
    for key, attr in e.attribute_map.items():
        if key in SKIP_KEYS or ":" in attr:
            continue
        try:
            v = getattr(e, attr, None)
        except Exception as ex:  # noqa: BLE001
            v = f"<raises {type(ex).__name__}>"
        attrs[key] = tok(v)
    for a in ARRAY_ATTRS:
        if hasattr(type(e), a) or hasattr(e, "_" + a):
            try:
                v = getattr(e, a, None)
            except Exception as ex:  # noqa: BLE001
                v = None
                dsets[a] = f"<raises {type(ex).__name__}>"
                continue
            if v is not None:
                dsets[a] = digest(v) if isinstance(v, np.ndarray) else tok(v)
    try:
        attrs["metadata"] = tok(getattr(e, "metadata", None))
    except Exception as ex:  # noqa: BLE001
        attrs["metadata"] = f"<raises {type(ex).__name__}>"
    pgs, pg_order = [], {}
    if kind_of(e) == "object":
        for g in (getattr(e, "property_groups", None) or []):
            pgs.append({"uid": uids.num(g.uid), "name": g.name,
                        "props": sorted(uids.num(p) for p in (g.properties or []))})
            pg_order[g.name] = [uids.num(p) for p in (g.properties or [])]      # members in the stored order (C12)
    # comments and visual parameters get a data type of their own with every creation and copy: which one is not compared
    typ = 0 if type(e).__name__ in ("CommentsData", "VisualParameters") else uids.num(e.entity_type.uid)
    return {"uid": uids.num(e.uid), "kind": kind_of(e), "cls": type(e).__name__,
            "typ": typ, "typ_real": uids.num(e.entity_type.uid), "name": e.name, "ad": bool(e.allow_delete),
            "attrs": attrs, "dsets": dsets, "pgs": sorted(pgs, key=lambda g: g["uid"]), "pg_order": pg_order}


def api_tree(uids: Uids, e, seen=None):
    """Canonical tree of what the API shows below `e` (children sorted by number)."""
    from geoh5py.groups import PropertyGroup
    seen = set() if seen is None else seen
    rec = ent_record(uids, e)
    kids = []
    if id(e) in seen:
        rec["kids"] = []
        rec["cycle"] = True
        return rec
    seen.add(id(e))
    for c in getattr(e, "children", []) or []:
        if isinstance(c, PropertyGroup):
            continue
        kids.append(api_tree(uids, c, seen))
    rec["kids"] = sorted(kids, key=lambda k: k["uid"])
    return rec


def canon_tree(t):
    """Sort kids / pgs of a model or API tree for comparison."""
    t = dict(t)
    t["pgs"] = sorted(({"uid": g["uid"], "name": g["name"], "props": sorted(g["props"])} for g in t.get("pgs", [])),
                      key=lambda g: g["uid"])
    t["kids"] = sorted((canon_tree(k) for k in t.get("kids", [])), key=lambda k: k["uid"])
    return t


def tree_uids(t):
    out = [t["uid"]]
    for k in t["kids"]:
        out += tree_uids(k)
    return out


def find_in_tree(t, u):
    if t["uid"] == u:
        return t
    for k in t["kids"]:
        r = find_in_tree(k, u)
        if r is not None:
            return r
    return None


def raw_file(path, uids: Uids):
    """Independent reader (plain h5py).  Returns (file_json, problems)."""
    import h5py
    problems = []
    nodes = []
    with h5py.File(path, "r") as f:
        names = list(f.keys())
        if len(names) != 1:
            problems.append(f"{len(names)} project groups")
        proj = f[names[0]]
        for cont in ("Data", "Groups", "Objects", "Types"):
            if cont not in proj:
                problems.append(f"container {cont} missing")
        addr = lambda o: h5py.h5o.get_info(o.id).addr  # noqa: E731
        types = {}
        if "Types" in proj:
            for tk in ("Data types", "Group types", "Object types"):
                if tk not in proj["Types"]:
                    problems.append(f"container Types/{tk} missing")
                    continue
                for tid in proj["Types"][tk]:
                    types[(tk, tid)] = addr(proj["Types"][tk][tid])
        flat = {}
        for cont, kind in KINDS.items():
            if cont not in proj:
                continue
            for key in proj[cont]:
                node = proj[cont][key]
                flat[(kind, key)] = addr(node)
        for cont, kind in KINDS.items():
            if cont not in proj:
                continue
            for key in proj[cont]:
                node = proj[cont][key]
                rec = {"uid": uids.num(key.strip("{}")), "kind": kind, "cls": "", "typ": 0, "ad": True,
                       "name": tok(node.attrs.get("Name", "")), "attrs": {}, "dsets": {}, "pgs": [], "links": []}
                if tok(node.attrs.get("ID", "")) != key:
                    problems.append(f"{cont}/{key}: ID attribute {node.attrs.get('ID')!r} does not match")
                if "Type" not in node:
                    problems.append(f"{cont}/{key}: no Type link")
                else:
                    tnode = node["Type"]
                    tid = tok(tnode.attrs.get("ID", ""))
                    rec["typ"] = uids.num(tid.strip("{}")) if tid else 0
                    if kind == "data" and rec["name"] in ("UserComments", "Visual Parameters"):
                        rec["typ"] = 0      # as in ent_record
                    tk = {"data": "Data types", "group": "Group types", "object": "Object types"}[kind]
                    if types.get((tk, tid)) != addr(tnode):
                        problems.append(f"{cont}/{key}: Type is not the shared node Types/{tk}/{tid}")
                for ccont, ckind in KINDS.items():
                    if ccont in node and isinstance(node[ccont], h5py.Group):
                        for ck in node[ccont]:
                            child = node[ccont][ck]
                            rec["links"].append([ckind, uids.num(ck.strip("{}"))])
                            if flat.get((ckind, ck)) != addr(child):
                                problems.append(f"{cont}/{key}/{ccont}/{ck}: not a hard link to the flat node")
                if "PropertyGroups" in node:
                    for gk in node["PropertyGroups"]:
                        g = node["PropertyGroups"][gk]
                        props = g.attrs.get("Properties", [])
                        rec["pgs"].append({"uid": uids.num(gk.strip("{}")), "name": tok(g.attrs.get("Group Name", "")),
                                           "props": sorted(uids.num(tok(p).strip("{}")) for p in np.atleast_1d(props))})
                rec["links"].sort(key=lambda l: l[1])
                nodes.append(rec)
        root = None
        if "Root" in proj:
            rid = tok(proj["Root"].attrs.get("ID", ""))
            root = uids.num(rid.strip("{}"))
            if flat.get(("group", rid)) != addr(proj["Root"]):
                problems.append("Root is not a link to a node of Groups")
        else:
            problems.append("no Root link")
        header = {k: tok(v) for k, v in proj.attrs.items()}
    nodes.sort(key=lambda n: n["uid"])
    return {"root": root, "nodes": nodes, "header": header}, problems


def file_structure(fj):
    """Comparable structure of a File json (model or raw): root, per node kind/name/typ/links/pgs."""
    return {"root": fj["root"],
            "nodes": sorted(({"uid": n["uid"], "kind": n["kind"], "name": n["name"], "typ": n["typ"],
                              "links": sorted(map(tuple, n["links"]), key=lambda l: l[1]),
                              "pgs": sorted(((g["uid"], g["name"], tuple(sorted(g["props"]))) for g in n["pgs"]))}
                             for n in fj["nodes"]), key=lambda n: n["uid"])}


# ---------------------------------------------------------------------------------------------
# histories
# ---------------------------------------------------------------------------------------------

GROUP_CLASSES = ["ContainerGroup", "ContainerGroup", "SimPEGGroup", "GiftoolsGroup", "NoTypeGroup", "DrillholeGroup"]
OBJECT_CLASSES = ["Points", "Points", "Curve", "Surface", "Grid2D", "BlockModel"]
DATA_TYPES = ["FLOAT", "FLOAT", "INTEGER", "TEXT", "REFERENCED"]


def gen_ops(rng, n, weights=None, pool_uids=0):
    """Abstract operations; targets are indices resolved against the live tree at run time."""
    w = {"create_group": 3, "create_object": 5, "add_data": 7, "rename": 2, "flag": 2, "set_values": 3,
         "set_geometry": 2, "move": 3, "remove_ws": 3, "remove_parent": 2, "copy": 3, "pg_add": 3, "pg_remove": 1,
         "reopen": 2, "gc": 1, "protect": 1, "retype": 1, "reattach": 1, "comment": 2, "visual": 1, "remove_all": 1,
         "detached_add": 1, "pg_create": 1}
    w.update(weights or {})
    kinds = [k for k, c in w.items() for _ in range(c)]
    ops = []
    for _ in range(n):
        k = rng.choice(kinds)
        ops.append({"k": k, "a": rng.randrange(1 << 20), "b": rng.randrange(1 << 20), "c": rng.randrange(1 << 20),
                    "uid": (rng.randrange(pool_uids) if pool_uids and rng.random() < 0.5 else None)})
    return ops


class Session:
    """One history on one real file, mirrored as lines for the Lean model."""

    def __init__(self, path, uid_pool=None, project=None):
        from geoh5py.workspace import Workspace
        warnings.filterwarnings("ignore")
        self.path = str(path)
        self.uids = Uids()
        self.pool = uid_pool or []
        # some files carry a project node with a name of their own (`Workspace.create(path, name=...)`); re-opening them goes
        # through plain `Workspace(path)` like any other file
        self.ws = Workspace.create(self.path, **({"name": project} if project else {}))
        self.lines = []        # driver lines
        self.expect = []       # what the implementation showed after each line
        self.events = []       # human-readable trace
        self.failures = []     # (what, signature)
        self.copies = []       # source/copy snapshots of every copy (C12 oracle)
        self.counter = 0
        root = api_tree(self.uids, self.ws.root)
        self.lines.append({"m": "ws", "op": "init", "tree": root})
        self.expect.append({"tree": canon_tree(root)})

    # -- helpers
    def entities(self):
        """All live entities reachable from the root, in a deterministic order (by number)."""
        from geoh5py.groups import PropertyGroup
        out = []

        def walk(e):
            out.append(e)
            for c in getattr(e, "children", []) or []:
                if not isinstance(c, PropertyGroup):
                    walk(c)
        walk(self.ws.root)
        out.sort(key=lambda e: self.uids.num(e.uid))
        return out

    def pick(self, ents, idx, pred):
        c = [e for e in ents if pred(e)]
        return c[idx % len(c)] if c else None

    def snap(self):
        return canon_tree(api_tree(self.uids, self.ws.root))

    def record(self, line, status):
        """Append a model line together with the implementation's outcome and tree."""
        line = dict(line, m="ws", op="step")
        tree = self.snap()
        self.lines.append(line)
        self.expect.append({"out": status, "tree": tree})

    def next_name(self, prefix):
        self.counter += 1
        return f"{prefix}{self.counter}"

    def new_uid(self, op):
        if op.get("uid") is not None and self.pool:
            return self.pool[op["uid"] % len(self.pool)]
        return uuid.uuid4()

    @staticmethod
    def id_kwargs(op, u):
        """A caller names the identifier of a new entity either by the python argument `uid` or by the geoh5 attribute
        name `ID` (a UUID or its string form), which the constructors accept as well."""
        if op.get("uid") is None:
            return {"uid": u}
        return [{"uid": u}, {"ID": u}, {"ID": str(u)}][(op["a"] + op["c"]) % 3]

    # -- one operation
    def apply(self, op):
        from geoh5py import groups, objects
        from geoh5py.data import Data
        from geoh5py.groups import Group
        from geoh5py.objects import ObjectBase
        ws = self.ws
        ents = self.entities()
        k = op["k"]
        from geoh5py.shared.concatenation import Concatenator
        # a drillhole group only takes drillholes (concatenated storage, model M2): it is never chosen as the parent of
        # the groups and objects of these histories, but it carries comments like any other group
        is_group = lambda e: isinstance(e, Group) and not isinstance(e, Concatenator)  # noqa: E731
        is_any_group = lambda e: isinstance(e, Group)  # noqa: E731
        # comments and visual parameters are recognised by their reserved names: they are created, edited through their
        # owner, copied with their owner and removed, but not renamed, moved or copied on their own
        special = lambda e: type(e).__name__ in ("CommentsData", "VisualParameters")  # noqa: E731
        is_obj = lambda e: isinstance(e, ObjectBase)  # noqa: E731
        is_data = lambda e: isinstance(e, Data)  # noqa: E731
        not_root = lambda e: e is not ws.root  # noqa: E731
        status = "ok"
        if k == "reopen":
            self.reopen()
            return
        if k == "gc":
            del ents
            gc.collect()
            self.events.append("gc")
            return
        if k in ("create_group", "create_object"):
            parent = self.pick(ents, op["a"], is_group)
            u = self.new_uid(op)
            name = self.next_name("g" if k == "create_group" else "o")
            before = self.snap()
            idkw = self.id_kwargs(op, u)
            try:
                if k == "create_group":
                    cls = GROUP_CLASSES[op["b"] % len(GROUP_CLASSES)]
                    new = getattr(groups, cls).create(ws, parent=parent, name=name, **idkw)
                else:
                    cls = OBJECT_CLASSES[op["b"] % len(OBJECT_CLASSES)]
                    new = self.make_object(cls, parent, name, u, op["c"], idkw)
            except Exception as e:  # noqa: BLE001
                status = "refused:" + type(e).__name__
                new = None
                if self.snap() != before:
                    self.failures.append((f"{k} with identifier in use was refused ({type(e).__name__}) but changed the workspace",
                                          "C06:refused-create-has-side-effects"))
            self.events.append(f"{k} {cls} under {self.uids.num(parent.uid)} uid={self.uids.num(u)} -> {status}")
            ent = ent_record(self.uids, new) if new is not None else {
                "uid": self.uids.num(u), "kind": "group" if k == "create_group" else "object", "cls": cls, "typ": 0,
                "name": name, "ad": True, "attrs": {}, "dsets": {}, "pgs": []}
            self.record({"o": "create", "parent": self.uids.num(parent.uid), "ent": ent}, status)
            return
        if k == "add_data":
            parent = self.pick(ents, op["a"], is_obj)
            if parent is None:
                return
            u = self.new_uid(op)
            name = self.next_name("d")
            typ = DATA_TYPES[op["b"] % len(DATA_TYPES)]
            n = parent.n_vertices if getattr(parent, "n_vertices", None) else (parent.n_cells or 1)
            assoc = "VERTEX" if getattr(parent, "n_vertices", None) else "CELL"
            if assoc == "VERTEX" and op["c"] % 4 == 1 and getattr(parent, "cells", None) is not None and getattr(parent, "n_cells", 0):
                # curves and surfaces also carry data on their cells: property groups may then list both kinds
                n, assoc = parent.n_cells, "CELL"
            vals = self.values(typ, n, op["c"])
            before = self.snap()
            try:
                kw = {"values": vals, "association": assoc, "type": typ, **self.id_kwargs(op, u)}
                if typ == "REFERENCED":
                    kw["value_map"] = {1: "A", 2: "B"}
                if op["c"] % 3 == 0 and typ in ("FLOAT", "INTEGER"):
                    # a third of the numeric data share the data type of an existing data set of the same kind
                    cls_name = {"FLOAT": "FloatData", "INTEGER": "IntegerData"}[typ]
                    same = [x for x in ents if is_data(x) and type(x).__name__ == cls_name]
                    if same:
                        kw["entity_type"] = same[op["c"] // 3 % len(same)].entity_type
                        del kw["type"]
                    del same
                new = parent.add_data({name: kw})
            except Exception as e:  # noqa: BLE001
                status = "refused:" + type(e).__name__
                new = None
                if self.snap() != before:
                    self.failures.append((f"add_data with identifier in use was refused ({type(e).__name__}) but changed the workspace",
                                          "C06:refused-create-has-side-effects"))
            self.events.append(f"add_data {typ} under {self.uids.num(parent.uid)} uid={self.uids.num(u)} -> {status}")
            ent = ent_record(self.uids, new) if new is not None else {
                "uid": self.uids.num(u), "kind": "data", "cls": "", "typ": 0, "name": name, "ad": True,
                "attrs": {}, "dsets": {}, "pgs": []}
            self.record({"o": "create", "parent": self.uids.num(parent.uid), "ent": ent}, status)
            return
        if k == "comment":
            e = self.pick(ents, op["a"], lambda x: not_root(x) and (is_any_group(x) or is_obj(x)))
            if op["c"] % 3 == 0:
                dh = [x for x in ents if isinstance(x, Concatenator)]
                if dh:
                    e = dh[op["a"] % len(dh)]
                del dh
            if e is None:
                return
            had = e.comments
            if had is not None and not had.on_file:
                # a comments entity that only exists in memory (its creation was refused by a read-only workspace): a further
                # comment has nothing to write
                return
            e.add_comment(f"note {op['b'] % 100}", author="harness")
            com = e.comments
            self.events.append(f"comment on {self.uids.num(e.uid)}")
            if had is None:
                self.record({"o": "create", "parent": self.uids.num(e.uid), "ent": ent_record(self.uids, com)}, "ok")
            else:
                self.record({"o": "setDset", "u": self.uids.num(com.uid), "key": "values", "tok": tok(com.values)}, "ok")
            del had, com
            return
        if k == "visual":
            o = self.pick(ents, op["a"], lambda x: is_obj(x) and x.visual_parameters is None)
            if o is None:
                return
            vp = o.add_default_visual_parameters()
            self.events.append(f"visual parameters on {self.uids.num(o.uid)}")
            self.record({"o": "create", "parent": self.uids.num(o.uid), "ent": ent_record(self.uids, vp)}, "ok")
            del vp
            return
        if k == "rename":
            e = self.pick(ents, op["a"], lambda x: not_root(x) and not special(x))
            if e is None:
                return
            name = self.next_name("n")
            if op["c"] % 5 == 0 and not getattr(self, "project_name_used", False):
                # once per history an entity takes the name of the project node of the file itself
                name = str(getattr(self.ws, "name", "GEOSCIENCE"))
                self.project_name_used = True
            e.name = name
            self.events.append(f"rename {self.uids.num(e.uid)} -> {name}")
            self.record({"o": "rename", "u": self.uids.num(e.uid), "name": name}, "ok")
            return
        if k == "flag":
            e = self.pick(ents, op["a"], not_root)
            if e is None:
                return
            flags = [("visible", "Visible"), ("public", "Public"), ("allow_move", "Allow move"),
                     ("allow_rename", "Allow rename"), ("partially_hidden", "Partially hidden")]
            if is_data(e) and not special(e):
                flags += [("modifiable", "Modifiable"), ("modifiable", "Modifiable")]     # data may be locked against edits
            attr, key = flags[op["b"] % len(flags)]
            val = not getattr(e, attr)
            setattr(e, attr, val)
            self.events.append(f"set {attr} of {self.uids.num(e.uid)} = {val}")
            self.record({"o": "setAttr", "u": self.uids.num(e.uid), "key": key, "tok": tok(val)}, "ok")
            return
        if k == "retype":
            num = lambda x: is_data(x) and type(x).__name__ in ("FloatData", "IntegerData")  # noqa: E731
            users = {}
            for x in ents:
                if num(x):
                    users[x.entity_type.uid] = users.get(x.entity_type.uid, 0) + 1
            e = None
            if op["c"] % 3 != 0:      # mostly re-type a data set whose type has other users (locality matters there)
                e = self.pick(ents, op["a"], lambda x: num(x) and users[x.entity_type.uid] > 1)
            if e is None:
                e = self.pick(ents, op["a"], num)
            if e is None:
                return
            o = self.pick(ents, op["b"], lambda x: type(x) is type(e) and x.entity_type.uid != e.entity_type.uid)
            if o is None:
                return
            e.entity_type = o.entity_type
            self.events.append(f"retype {self.uids.num(e.uid)} to the type of {self.uids.num(o.uid)}")
            self.record({"o": "setTyp", "u": self.uids.num(e.uid), "typ": self.uids.num(o.entity_type.uid)}, "ok")
            return
        if k == "protect":
            e = self.pick(ents, op["a"], not_root)
            if e is None:
                return
            val = bool(op["b"] % 4 == 0)        # mostly switch the permission off, sometimes back on
            e.allow_delete = val
            self.events.append(f"protect {self.uids.num(e.uid)} allow_delete={val}")
            self.record({"o": "setAllowDelete", "u": self.uids.num(e.uid), "b": val}, "ok")
            return
        if k == "set_values":
            e = self.pick(ents, op["a"], lambda x: is_data(x) and isinstance(getattr(x, "values", None), np.ndarray)
                          and x.values.dtype.kind == "f")
            if e is None:
                return
            vals = self.values("FLOAT", len(e.values), op["c"])
            if op["b"] % 3 == 0:
                # a third of the assignments are small corrections of the values the data set holds
                cur = np.asarray(e.values, dtype=float)
                vals = np.where(np.isnan(cur), cur, cur + 1e-9 * (1 + op["c"] % 5))
            e.values = vals
            self.events.append(f"set values of {self.uids.num(e.uid)}")
            self.record({"o": "setDset", "u": self.uids.num(e.uid), "key": "values", "tok": digest(e.values)}, "ok")
            return
        if k == "set_geometry":
            e = self.pick(ents, op["a"], lambda x: type(x).__name__ in ("Points", "Grid2D", "BlockModel"))
            if e is None:
                return
            if type(e).__name__ == "Points":
                v = np.asarray(e.vertices) + float(op["c"] % 7) + 1.0
                e.vertices = v
                self.record({"o": "setDset", "u": self.uids.num(e.uid), "key": "vertices", "tok": digest(e.vertices)}, "ok")
            else:
                o = [float(op["c"] % 5), float(op["b"] % 3), 1.5]
                e.origin = o
                self.record({"o": "setAttr", "u": self.uids.num(e.uid), "key": "Origin", "tok": tok(e.origin)}, "ok")
            self.events.append(f"set geometry of {self.uids.num(e.uid)}")
            return
        if k == "move":
            e = self.pick(ents, op["a"], lambda x: not_root(x) and not special(x))
            if e is None:
                return
            compat = lambda d, x: (is_obj(x) and type(x) is type(d.parent) and x is not d.parent  # noqa: E731
                                   and getattr(x, "n_vertices", None) == getattr(d.parent, "n_vertices", None)
                                   and getattr(x, "n_cells", None) == getattr(d.parent, "n_cells", None))
            if op["c"] % 2 == 0:
                # half of the moves re-parent a data set that is listed in a property group (when one can move at all)
                in_pg = [d for d in ents if is_data(d) and any(d.uid in (g.properties or []) for g in (getattr(d.parent, "property_groups", None) or []))
                         and any(compat(d, x) for x in ents)]
                if in_pg:
                    e = in_pg[op["a"] % len(in_pg)]
                del in_pg
            # exclude the entity's own subtree as a target
            sub = set(tree_uids(api_tree(self.uids, e)))
            if is_data(e):
                target = self.pick(ents, op["b"], lambda x: is_obj(x) and type(x) is type(e.parent)
                                   and getattr(x, "n_vertices", None) == getattr(e.parent, "n_vertices", None)
                                   and getattr(x, "n_cells", None) == getattr(e.parent, "n_cells", None))
            else:
                target = self.pick(ents, op["b"], lambda x: is_group(x) and self.uids.num(x.uid) not in sub)
            if target is None or target is e.parent:
                return
            e.parent = target
            self.events.append(f"move {self.uids.num(e.uid)} under {self.uids.num(target.uid)}")
            self.record({"o": "move", "u": self.uids.num(e.uid), "parent": self.uids.num(target.uid)}, "ok")
            return
        if k == "reattach":
            # take an entity out of its parent's children and put it back under the same parent: the tree does not change
            # (for the model a move to the parent it already has), the file link is only restored when the workspace is closed
            def movable(x):
                if not not_root(x) or not x.allow_delete:
                    return False
                if special(x):
                    return False
                if is_data(x):
                    return not any(x.uid in (g.properties or []) for g in (getattr(x.parent, "property_groups", None) or []))
                return True
            e = self.pick(ents, op["a"], movable)
            if e is None:
                return
            par = e.parent
            par.remove_children([e])
            e.parent = par
            self.events.append(f"reattach {self.uids.num(e.uid)} under {self.uids.num(par.uid)}")
            self.record({"o": "move", "u": self.uids.num(e.uid), "parent": self.uids.num(par.uid)}, "ok")
            del par
            return
        if k == "detached_add":
            # an object is taken out of its parent's children while the caller still holds it, then receives a new data set:
            # the object stays detached (it is gone once the caller lets go of it), whatever is saved below it
            o = self.pick(ents, op["a"], lambda x: is_obj(x) and x.allow_delete and getattr(x, "n_vertices", None)
                          and all(getattr(c, "allow_delete", True) for c in x.children))
            if o is None:
                return
            n_ = self.uids.num(o.uid)
            sub = tree_uids(api_tree(self.uids, o))
            par = o.parent
            par.remove_children([o])
            o.add_data({self.next_name("dd"): {"values": self.values("FLOAT", o.n_vertices, op["c"]), "association": "VERTEX"}})
            del o, par, ents
            gc.collect()
            self.events.append(f"detached_add {n_}")
            self.record({"o": "detach", "u": n_}, "ok")
            self.check_removed(sub, "remove_parent")
            return
        if k == "remove_all":
            # the caller hands the object its own list of children: obj.remove_children(obj.children)
            from geoh5py.groups import PropertyGroup as _PG
            o = self.pick(ents, op["a"], lambda x: is_obj(x) and sum(1 for c in x.children if is_data(c)) >= 2
                          and all(getattr(c, "allow_delete", True) for c in x.children))
            if o is None:
                return
            nums = [self.uids.num(c.uid) for c in o.children if not isinstance(c, _PG)]
            try:
                o.remove_children(o.children)
            except Exception as ex:  # noqa: BLE001
                self.failures.append((f"remove_children(all children) raised {type(ex).__name__}: {str(ex)[:80]}", "C05:remove_parent:raises"))
                return
            del ents
            gc.collect()
            self.events.append(f"remove_all children of {self.uids.num(o.uid)}: {nums}")
            for n_ in nums[:-1]:
                self.lines.append({"m": "ws", "op": "step", "o": "detach", "u": n_})
                self.expect.append({"out": "ok"})
            self.record({"o": "detach", "u": nums[-1]}, "ok")
            self.check_removed(nums, "remove_parent")
            return
        if k in ("remove_ws", "remove_parent"):
            e = self.pick(ents, op["a"], not_root)
            if e is None:
                return
            if op["c"] % 4 != 0:
                # most removals aim at an entity whose delete permission is off
                prot = [x for x in ents if not_root(x) and not x.allow_delete]
                if prot:
                    e = prot[op["a"] % len(prot)]
                del prot
            elif op["c"] % 8 == 4:
                # some aim at a data set that several property groups list, first of all one that is the only member of
                # one group and a member of a later one (the emptied group removes itself while the groups are visited)
                def groups_of(d):
                    return [g for g in (getattr(d.parent, "property_groups", None) or []) if d.uid in (g.properties or [])]
                multi = [d for d in ents if is_data(d) and len(groups_of(d)) >= 2]
                sole = [d for d in multi if any(len(g.properties or []) == 1 for g in groups_of(d)[:-1])]
                if sole or multi:
                    e = (sole or multi)[op["a"] % len(sole or multi)]
                del multi, sole
            n = self.uids.num(e.uid)
            was_protected = not bool(e.allow_delete)
            sub_tree = api_tree(self.uids, e)
            sub = tree_uids(sub_tree)

            def protected(t):
                return any((not kk["ad"]) or protected(kk) for kk in t["kids"])
            if k == "remove_ws" and protected(sub_tree):
                # a deletable entity with a protected descendant: the property does not say what the
                # request should do (the code removes some children, then raises); not exercised
                return
            before = self.snap()
            try:
                if k == "remove_ws":
                    ws.remove_entity(e)
                else:
                    e.parent.remove_children([e])
            except UserWarning:
                status = "refused"
                if self.snap() != before:
                    self.failures.append(("refused removal changed the workspace", "C05:refused-removal-has-effects"))
            del e, ents
            gc.collect()
            if k == "remove_ws" and was_protected and status == "ok":
                self.failures.append((f"workspace.remove_entity removed entity {n} although its delete permission is off",
                                      "C05:remove_ws:protected-entity-removed"))
            self.events.append(f"{k} {n} -> {status}")
            self.record({"o": "remove" if k == "remove_ws" else "detach", "u": n}, status)
            if status == "ok":
                self.check_removed(sub, k, listing=(op["c"] // 8) % 2 == 0)
            return
        if k == "copy":
            e = self.pick(ents, op["a"], lambda x: not_root(x) and not special(x))
            if e is None:
                return
            if is_data(e):
                target = self.pick(ents, op["b"], lambda x: is_obj(x) and type(x) is type(e.parent)
                                   and getattr(x, "n_vertices", None) == getattr(e.parent, "n_vertices", None)
                                   and getattr(x, "n_cells", None) == getattr(e.parent, "n_cells", None))
            else:
                sub = set(tree_uids(api_tree(self.uids, e)))
                # a group is not copied into its own subtree (the copy would contain itself)
                target = self.pick(ents, op["b"], lambda x: is_group(x) and self.uids.num(x.uid) not in sub)
            if target is None:
                return
            src_tree = api_tree(self.uids, e)
            try:
                new = e.copy(parent=target)
            except Exception as ex:  # noqa: BLE001
                self.failures.append((f"copy of {type(e).__name__} raised {type(ex).__name__}: {str(ex)[:80]}",
                                      f"C12:copy-raises-{type(ex).__name__}"))
                return
            new_tree = api_tree(self.uids, new)
            idmap = self.match_copy(src_tree, new_tree)
            self.copies.append({"src_before": canon_tree(src_tree), "src_after": canon_tree(api_tree(self.uids, e)),
                                "copy": canon_tree(new_tree), "idmap": idmap})
            self.events.append(f"copy {src_tree['uid']} under {self.uids.num(target.uid)} -> {new_tree['uid']}")
            self.record({"o": "copy", "u": src_tree["uid"], "parent": self.uids.num(target.uid), "idmap": idmap}, "ok")
            if is_data(e):
                # give the copied data set its own name: two indistinguishable children would make the
                # source/copy correspondence of a later copy of the parent ambiguous
                nm = self.next_name("dc")
                new.name = nm
                self.record({"o": "rename", "u": new_tree["uid"], "name": nm}, "ok")
            return
        if k == "pg_add":
            o = self.pick(ents, op["a"], lambda x: is_obj(x) and any(is_data(c) for c in x.children))
            if o is None:
                return
            datas = [c for c in o.children if is_data(c)]
            d = datas[op["b"] % len(datas)]
            gname = ["pgA", "pgB"][op["c"] % 2]
            if (op["c"] // 2) % 2 == 0:
                # half of the additions take the last child that is not in the group yet, so that groups list their
                # members in an order other than the children's
                have = next((set(g.properties or []) for g in (o.property_groups or []) if g.name == gname), set())
                rest = [x for x in datas if x.uid not in have]
                if rest:
                    d = rest[-1]
                del rest
            try:
                g = o.add_data_to_group(d, gname)
            except Exception as ex:  # noqa: BLE001
                self.events.append(f"pg_add raised {type(ex).__name__}")
                return
            self.events.append(f"pg_add {self.uids.num(d.uid)} to {gname} of {self.uids.num(o.uid)}")
            self.record({"o": "pgSet", "obj": self.uids.num(o.uid),
                         "pg": {"uid": self.uids.num(g.uid), "name": g.name,
                                "props": sorted(self.uids.num(p) for p in (g.properties or []))}}, "ok")
            return
        if k == "pg_create":
            # a property group created with an identifier the caller names (from the pool: it may be in use by an entity or
            # by another property group)
            o = self.pick(ents, op["a"], lambda x: is_obj(x) and any(is_data(c) and not special(c) for c in x.children))
            if o is None:
                return
            datas = [c for c in o.children if is_data(c) and not special(c)]
            d = datas[op["b"] % len(datas)]
            u = self.new_uid(op)
            name = self.next_name("pgc")
            before = self.snap()
            try:
                o.create_property_group(name=name, uid=u, properties=[d.uid])
            except Exception as e:  # noqa: BLE001
                status = "refused:" + type(e).__name__
                if self.snap() != before:
                    self.failures.append((f"create_property_group with an identifier in use was refused ({type(e).__name__}) but "
                                          "changed the workspace", "C06:refused-create-has-side-effects"))
            self.events.append(f"pg_create {name} uid={self.uids.num(u)} on {self.uids.num(o.uid)} -> {status}")
            self.record({"o": "pgSet", "obj": self.uids.num(o.uid),
                         "pg": {"uid": self.uids.num(u), "name": name, "props": [self.uids.num(d.uid)]}}, status)
            del datas, d
            return
        if k == "pg_remove":
            o = self.pick(ents, op["a"], lambda x: is_obj(x) and (getattr(x, "property_groups", None) or []))
            if o is None:
                return
            g = o.property_groups[op["b"] % len(o.property_groups)]
            gid = self.uids.num(g.uid)
            ws.remove_entity(g)
            del g
            self.events.append(f"pg_remove {gid} of {self.uids.num(o.uid)}")
            self.record({"o": "pgDrop", "obj": self.uids.num(o.uid), "pg": gid}, "ok")
            return

    def make_object(self, cls, parent, name, u, seed, idkw=None):
        from geoh5py import objects
        idkw = idkw if idkw is not None else {"uid": u}
        n = 2 + seed % 4
        verts = np.c_[np.arange(n, dtype=float), np.arange(n, dtype=float) * 0.5, np.zeros(n)] + float(seed % 3)
        if cls == "Points":
            return objects.Points.create(self.ws, parent=parent, name=name, **idkw, vertices=verts)
        if cls == "Curve":
            return objects.Curve.create(self.ws, parent=parent, name=name, **idkw, vertices=np.vstack([verts, verts[-1:] + 1]))
        if cls == "Surface":
            v = np.vstack([verts, verts[-1:] + 1])
            return objects.Surface.create(self.ws, parent=parent, name=name, **idkw, vertices=v, cells=np.array([[0, 1, 2]], dtype="uint32"))
        if cls == "Grid2D":
            return objects.Grid2D.create(self.ws, parent=parent, name=name, **idkw, u_count=2, v_count=1 + seed % 2,
                                         u_cell_size=1.0, v_cell_size=2.0, origin=[0.0, 0.0, 0.0])
        return objects.BlockModel.create(self.ws, parent=parent, name=name, **idkw, origin=[0.0, 0.0, 0.0],
                                         u_cell_delimiters=np.r_[0.0, 1.0, 2.0], v_cell_delimiters=np.r_[0.0, 1.0],
                                         z_cell_delimiters=np.r_[0.0, -1.0])

    @staticmethod
    def values(typ, n, seed):
        r = np.random.default_rng(seed)
        if typ == "FLOAT":
            return np.round(r.normal(size=n), 2)
        if typ == "INTEGER":
            return r.integers(-5, 5, size=n).astype("int32")
        if typ == "REFERENCED":
            return r.integers(1, 3, size=n).astype("int32")
        return np.array([f"t{seed % 9}_{i}" for i in range(n)])

    def match_copy(self, src, new):
        """Identifier map source -> copy, matched by content (identifier-free signatures of the subtrees)."""
        m = [[src["uid"], new["uid"]]]
        sk = sorted(src["kids"], key=shape_sig)
        nk = sorted(new["kids"], key=shape_sig)
        for a, b in zip(sk, nk):
            m += self.match_copy(a, b)
        for ga, gb in zip(sorted(src["pgs"], key=lambda g: g["name"]), sorted(new["pgs"], key=lambda g: g["name"])):
            m.append([ga["uid"], gb["uid"]])
        return m

    def check_removed(self, sub, how, listing=True):
        """C05 oracle: nothing still yields a removed entity.  `listing=False`: the workspace listings are not read (reading
        them purges dead references and deletes their nodes, which is itself part of what the histories must vary)."""
        inv = {v: k for k, v in self.uids.map.items()}
        for n in sub:
            u = inv.get(n)
            if u is None:
                continue
            got = self.ws.get_entity(u)[0]
            if got is not None:
                self.failures.append((f"get_entity still returns removed entity {n} after {how}", f"C05:{how}:lookup-yields-removed"))
                break
        # the workspace listings must still work and must not show a removed entity
        try:
            if not listing:
                raise StopIteration
            listed = {self.uids.num(x.uid) for lst in (self.ws.groups, self.ws.objects, self.ws.data, self.ws.property_groups)
                      for x in lst}
            if listed & set(sub):
                self.failures.append((f"workspace listings still show removed entities {sorted(listed & set(sub))} after {how}",
                                      f"C05:{how}:listed-after-removal"))
            del listed
        except StopIteration:
            pass
        except Exception as ex:  # noqa: BLE001
            self.failures.append((f"a workspace listing raised {type(ex).__name__}: {str(ex)[:80]} after {how}",
                                  f"C05:{how}:listing-raises:{type(ex).__name__}"))
        tree = self.snap()
        left = set(tree_uids(tree)) & set(sub)
        if left:
            self.failures.append((f"removed entities {sorted(left)} still in the tree after {how}", f"C05:{how}:still-in-tree"))

        def scan(t):
            for g in t["pgs"]:
                if set(g["props"]) & set(sub):
                    self.failures.append((f"property group {g['name']} of {t['uid']} still lists removed data after {how}",
                                          f"C05:{how}:property-group-dangling"))
            for k_ in t["kids"]:
                scan(k_)
        scan(tree)

    def reopen(self):
        from geoh5py.workspace import Workspace
        live = self.snap()
        self.ws.close()
        gc.collect()
        raw, problems = raw_file(self.path, self.uids)
        self.ws = Workspace(self.path)
        fresh = self.snap()
        self.events.append("close + re-open")
        self.lines += [{"m": "ws", "op": "file"}, dict(raw, m="ws", op="wf")]
        self.expect += [{"raw": raw, "problems": problems, "live": live, "fresh": fresh}, {"wf_of_raw": True}]

    def close(self):
        try:
            self.ws.close()
        except Exception:  # noqa: BLE001
            pass


def shape_sig(t):
    """Identifier-free signature of a subtree (class, name, tokens, children, property-group membership)."""
    kids = sorted(shape_sig(k) for k in t["kids"])
    by_uid = {k["uid"]: (k["name"], k["cls"], tuple(sorted(k["dsets"].items()))) for k in t["kids"]}
    pgs = sorted((g["name"], tuple(sorted(str(by_uid.get(p)) for p in g["props"]))) for g in t["pgs"])
    attrs = tuple(sorted((k, v) for k, v in t["attrs"].items() if k != "Current line property ID"))
    return hashlib.sha1(repr((t["cls"], t["name"], t["ad"], attrs, tuple(sorted(t["dsets"].items())), kids, pgs)).encode()).hexdigest()


def tree_diff(a, b, path="root"):
    """First difference between two canonical trees (for messages)."""
    for key in ("uid", "kind", "cls", "typ", "name", "ad"):
        if a.get(key) != b.get(key):
            return f"{path}: {key} {a.get(key)!r} != {b.get(key)!r}"
    for key in ("attrs", "dsets"):
        for k in sorted(set(a[key]) | set(b[key])):
            if a[key].get(k) != b[key].get(k):
                return f"{path}({a['uid']}): {key}[{k}] {a[key].get(k)!r} != {b[key].get(k)!r}"
    if a["pgs"] != b["pgs"]:
        return f"{path}({a['uid']}): property groups {a['pgs']} != {b['pgs']}"
    ua, ub = [k["uid"] for k in a["kids"]], [k["uid"] for k in b["kids"]]
    if ua != ub:
        return f"{path}({a['uid']}): children {ua} != {ub}"
    for x, y in zip(a["kids"], b["kids"]):
        d = tree_diff(x, y, path + "/" + str(x["uid"]))
        if d:
            return d
    return None


def node_digests(h5):
    """Per-node content digests of an open geoh5 file (C09): attributes, datasets, link names, type id."""
    import h5py
    proj = h5[list(h5.keys())[0]]

    def one(node):
        parts = [("attr", k, tok(v)) for k, v in sorted(node.attrs.items())]
        for name in sorted(node.keys()):
            item = node[name]
            if isinstance(item, h5py.Dataset):
                try:
                    val = item[()]
                    parts.append(("ds", name, str(item.dtype), digest(val) if isinstance(val, np.ndarray) else tok(val)))
                except Exception as e:  # noqa: BLE001
                    parts.append(("ds", name, "unreadable:" + type(e).__name__))
            elif name == "Type":
                parts.append(("type", tok(item.attrs.get("ID", ""))))
            elif name == "PropertyGroups":
                for g in sorted(item.keys()):
                    parts.append(("pg", g, tuple((k, tok(v)) for k, v in sorted(item[g].attrs.items()))))
            elif isinstance(item, h5py.Group):
                parts.append(("links", name, tuple(sorted(item.keys()))))
        h = lambda kinds: hashlib.sha1(repr([x for x in parts if x[0] in kinds]).encode()).hexdigest()[:10]  # noqa: E731
        return (h(("attr", "ds", "type")), h(("pg",)), h(("links",)))

    nodes, types = {}, {}
    for cont in ("Data", "Groups", "Objects"):
        if cont in proj:
            for key in proj[cont]:
                nodes[key] = one(proj[cont][key])
    if "Types" in proj:
        for tk in proj["Types"]:
            for key in proj["Types"][tk]:
                types[key] = one(proj["Types"][tk][key])
    header = {k: tok(v) for k, v in proj.attrs.items()}
    return {"nodes": nodes, "types": types, "header": header}
