"""./check Cxx [--tier quick|thorough] [--replay FILE]"""
import argparse
import importlib
import os
import sys
from pathlib import Path

sys.path.insert(0, str(Path(__file__).resolve().parent.parent))
os.environ.setdefault("GEOH5PY_VERIF", "1")

from harness import core  # noqa: E402


def main():
    ap = argparse.ArgumentParser()
    ap.add_argument("prop")
    ap.add_argument("--tier", default=os.environ.get("VERIF_TIER", "quick"), choices=["quick", "thorough"])
    ap.add_argument("--replay", default=None)
    a = ap.parse_args()
    seed = int(os.environ.get("VERIF_SEED", "0") or 0)
    try:
        mod = importlib.import_module(f"harness.props.{a.prop.lower()}")
    except ModuleNotFoundError as e:
        print(f"TOOL-FAILURE: no check for {a.prop}: {e}")
        return 2
    return core.run_check(mod, a.tier, seed, a.replay)


if __name__ == "__main__":
    sys.exit(main())
