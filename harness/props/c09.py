"""C09 — an operation on one entity leaves unrelated stored entities untouched.

After every single API call of a history the content of every node of the real file is digested
through the workspace's own HDF5 handle (attributes, datasets incl. dtype, link names, type id,
property-group blocks; every type node; the project header).  The set of nodes whose digest
changed must lie inside the footprint of the operation (target, parents left/joined, created or
deleted nodes, types introduced/released/owned by those); the header never changes.  The Lean
frame theorems state the same for the model `Ws`, which is tied to the code by the usual
tree/file correspondence.
"""
import uuid as _uuid

from harness import wscheck, wsh
from harness.core import Ctx

ID = "C09"
LEAN_MODULES = ["GeoVerif.Props.C09"]
THEOREMS = [
    "GeoVerif.Ws.linksL_updateL",
    "GeoVerif.Ws.update_frame",
    "GeoVerif.Ws.setAttr_frame",
    "GeoVerif.Ws.setDset_frame",
    "GeoVerif.Ws.setTyp_frame",
    "GeoVerif.Ws.rename_frame",
    "GeoVerif.Ws.insert_frame",
    "GeoVerif.Ws.linksL_insertL",
    "GeoVerif.Ws.open_close_noop",
    "GeoVerif.Ws.erase_frame",
    "GeoVerif.Ws.mapEnts_frame",
    "GeoVerif.Ws.cleanPGs_noop",
    "GeoVerif.Ws.remove_frame",
    "GeoVerif.Ws.insert_frame_back",
    "GeoVerif.Ws.move_frame",
]
RULE = (
    "histories as for C01; after every successful call per-node digests of the real file are diffed against the previous ones and "
    "compared with the operation's footprint; distinct by hash of the op list; non-trivial when the workspace held at least 4 "
    "entities while a mutation was judged"
)
ASSUMPTIONS = [
    "HDF5 metadata h5py does not expose (modification times, B-tree layout) is not part of the comparison",
    "nodes of detached, not yet purged entities may disappear at any later call (their deletion is deferred by design)",
]
LEVEL_TEXT = (
    "Lean frame theorems on the model: an assignment (attribute, array, name, flag, property-group edit) changes only the target's "
    "stored node (update_frame and corollaries), a creation or copy leaves every old node other than the receiving parent's "
    "unchanged (insert_frame), open+close without mutation is the identity (open_close_noop). On the real file the changed set of "
    "every single call is measured by content digests and must lie inside the operation's footprint. Removals and re-parenting: "
    "every node stored afterwards is an old node with the same content, its child entries minus those for the removed/moved entity "
    "(plus one for the new parent), property groups scrubbed of removed data (remove_frame, move_frame; cleanPGs_noop: untouched "
    "when no group lists removed data). Calls outside the tree model (attached files, images, comments) are judged by the digest "
    "oracle only."
)
LEVEL_NOTE = "Trusted: Lean kernel, harness digests, h5py."
TECHNIQUE = "Lean 4 frame theorems on the tree/file model + per-call content-digest diff of the real file against the operation footprint"
WANT = {"C09"}


def make_hook():
    state = {}

    def hook(s, op):
        key = id(s)
        try:
            cur = wsh.node_digests(s.ws.geoh5)
        except Exception:  # noqa: BLE001
            return
        tree = s.expect[-1].get("tree") or s.expect[-1].get("fresh") if s.expect else None
        if tree is None and len(s.expect) >= 2:
            tree = s.expect[-2].get("fresh")
        prev = state.get(key)
        state[key] = (cur, tree, len(s.lines))
        if prev is None or tree is None:
            return
        pcur, ptree, plen = prev
        if len(s.lines) == plen:          # nothing was recorded for this op (skipped)
            if cur != pcur and op["k"] not in ("gc",):
                s.failures.append((f"a skipped/no-op call {op['k']} changed the file", "C09:noop-changed-file"))
            return
        inv = {v: "{" + str(k) + "}" for k, v in s.uids.map.items()}
        new_lines = [l for l in s.lines[plen:] if l.get("op") == "step"]
        line = new_lines[0] if new_lines else None
        if line is None:      # close + re-open: reachable nodes must be identical
            reach = {inv[u] for u in wsh.tree_uids(tree)}
            ch = {k for k in reach if pcur["nodes"].get(k) != cur["nodes"].get(k)}
            if ch:
                s.failures.append((f"close + re-open changed stored nodes {sorted(s.uids.num(k.strip('{}')) for k in ch)}", "C09:reopen-changed-nodes"))
            if pcur["header"] != cur["header"]:
                s.failures.append(("close + re-open changed the project header", "C09:header-changed"))
            return
        before_u, after_u = set(wsh.tree_uids(ptree)), set(wsh.tree_uids(tree))
        fp = set()
        o = line.get("o")
        for l_ in new_lines:                          # one API call may be mirrored by several model steps
            for f in ("u", "parent", "obj"):
                if f in l_:
                    fp.add(l_[f])
            if l_.get("o") == "create":
                fp.add(l_["ent"]["uid"])
        fp |= before_u ^ after_u                      # created / deleted
        structural = o in ("create", "move", "remove", "detach", "copy")
        par = set()
        if structural:
            for t_ in (ptree, tree):                  # parents the moved/created/deleted entities leave or join
                def parents(n, acc):
                    for k in n["kids"]:
                        if k["uid"] in fp:
                            acc.add(n["uid"])
                        parents(k, acc)
                parents(t_, par)
            if o in ("create", "copy", "move") and "parent" in line:
                fp.discard(line["parent"])
                par.add(line["parent"])
        par -= (before_u ^ after_u)
        pending = set(pcur["nodes"]) - {inv[u] for u in before_u if u in inv}   # detached, not yet purged
        changed = {k for k in set(pcur["nodes"]) | set(cur["nodes"]) if pcur["nodes"].get(k) != cur["nodes"].get(k)}
        bad = set()
        for k in changed:
            n_ = s.uids.num(k.strip("{}"))
            if k in pending or (n_ in fp and n_ not in par):
                continue
            a, b = pcur["nodes"].get(k), cur["nodes"].get(k)
            if n_ in par and a is not None and b is not None:
                # a parent may change its child list; its property groups only when a child leaves; nothing else
                if a[0] == b[0] and (a[1] == b[1] or o in ("remove", "detach", "move")):
                    continue
            bad.add(k)
        if bad:
            s.failures.append((f"{o} on {sorted(fp)} also changed stored nodes {sorted(s.uids.num(k.strip('{}')) for k in bad)}",
                               f"C09:{o}:touched-unrelated-node"))
        if pcur["header"] != cur["header"]:
            s.failures.append((f"{o} changed the project header", "C09:header-changed"))
        # types: only those of entities in the footprint may change
        allowed_t = set()
        for t_ in (ptree, tree):
            def types_of(n):
                if n["uid"] in fp:
                    allowed_t.add(inv.get(n["typ"]))
                for k in n["kids"]:
                    types_of(k)
            types_of(t_)
        tch = {k for k in set(pcur["types"]) | set(cur["types"]) if pcur["types"].get(k) != cur["types"].get(k)}
        # a type whose last user disappeared earlier may be released at any later call
        used = set()
        def used_types(n):
            used.add(inv.get(n["typ"]))
            for k in n["kids"]:
                used_types(k)
        used_types(ptree)
        tbad = {k for k in tch if k not in allowed_t and k in used and k in cur["types"]}
        # a type that an entity outside the footprint still uses must stay in the types container
        used_after = set()

        def used_outside(n):
            if n["uid"] not in fp:
                used_after.add(inv.get(n["typ"]))
            for k in n["kids"]:
                used_outside(k)
        used_outside(tree)
        tbad |= {k for k in pcur["types"] if k not in cur["types"] and k in used_after}
        if tbad:
            s.failures.append((f"{o} changed unrelated type nodes {sorted(tbad)}", f"C09:{o}:touched-unrelated-type"))
    return hook


def nontrivial_post(ctx, s, case):
    pass


def directed(rng, ops):
    """Half of the histories get a block that makes types shared before re-typing: an object, a numeric data set, one
    to three more that share its type, one with a type of its own, then re-typings (biased to data whose type has other users)."""
    if rng.random() < 0.5:
        return ops
    r = lambda: rng.randrange(1 << 20)  # noqa: E731
    fl = wsh.DATA_TYPES.index(rng.choice(["FLOAT", "INTEGER"]))
    nt = len(wsh.DATA_TYPES)
    a = r()
    block = [{"k": "create_object", "a": r(), "b": 0, "c": r(), "uid": None},
             {"k": "add_data", "a": a, "b": fl + nt * r(), "c": 1 + 3 * r(), "uid": None}]
    block += [{"k": "add_data", "a": a, "b": fl + nt * r(), "c": 3 * r(), "uid": None} for _ in range(rng.randrange(1, 4))]
    block += [{"k": "add_data", "a": a, "b": fl + nt * r(), "c": 1 + 3 * r(), "uid": None}]
    block += [{"k": "retype", "a": r(), "b": r(), "c": r(), "uid": None} for _ in range(rng.randrange(1, 3))]
    at = rng.randrange(0, len(ops) + 1)
    return ops[:at] + block + ops[at:]


def extras(ctx: Ctx):
    """Calls outside the tree model - attached files, images of a GeoImage, comments - judged by the frame rule itself on the
    real file: a call on one entity may change that entity's node, the nodes it creates (and, for a comment, the entity's
    existing comments child) and the type nodes it creates or that already belonged to the target; nothing else.  Oracle only:
    these operations have no counterpart in the Lean model."""
    import os
    import warnings
    import numpy as np
    from geoh5py.groups import ContainerGroup
    from geoh5py.objects import Curve, GeoImage, Points
    from geoh5py.workspace import Workspace
    warnings.filterwarnings("ignore")
    rng = ctx.rng
    notes = ctx.scratch / "notes.txt"
    notes.write_text("attached file")
    for i in range(ctx.n(12, 300)):
        path = ctx.scratch / f"c09x_{i}.geoh5"
        steps = [rng.choice(["add_file", "add_file", "set_image", "comment", "comment"]) for _ in range(rng.randrange(3, 9))]
        case = {"part": "extras", "steps": steps, "seed": rng.randrange(1 << 30)}
        r2 = __import__("random").Random(case["seed"])
        failures = []
        try:
            with Workspace.create(path) as ws:
                g = ContainerGroup.create(ws, name="G")
                ents = [g, Points.create(ws, vertices=np.zeros((3, 3)), parent=g, name="P"),
                        Curve.create(ws, vertices=np.ones((4, 3)), name="C")]
                ents[1].add_data({"d": {"values": np.arange(3.0)}})
                imgs = [GeoImage.create(ws, name="img1"), GeoImage.create(ws, name="img2", parent=g)]
                for step in steps:
                    before = wsh.node_digests(ws.geoh5)
                    types_of_children = lambda t, pred: {"{" + str(c.entity_type.uid) + "}" for c in t.children  # noqa: E731
                                                          if pred(c) and getattr(c, "entity_type", None) is not None}
                    child_types = set()
                    if step == "add_file":
                        target = r2.choice(ents + imgs)
                        target.add_file(str(notes))
                        own = set()
                    elif step == "set_image":
                        target = r2.choice(imgs)
                        own = {"{" + str(c.uid) + "}" for c in target.children}            # an earlier image child is replaced
                        child_types = types_of_children(target, lambda c: True)
                        target.image = np.asarray(r2.choices(range(255), k=64), dtype="uint8").reshape(8, 8)
                    else:
                        target = r2.choice(ents)
                        own = {"{" + str(c.uid) + "}" for c in target.children if type(c).__name__ == "CommentsData"}
                        child_types = types_of_children(target, lambda c: type(c).__name__ == "CommentsData")
                        target.add_comment(f"note {r2.randrange(100)}", author="harness")
                    after = wsh.node_digests(ws.geoh5)
                    tkey = "{" + str(target.uid) + "}"
                    changed = {k for k in set(before["nodes"]) | set(after["nodes"]) if before["nodes"].get(k) != after["nodes"].get(k)}
                    bad = {k for k in changed if k != tkey and k in before["nodes"] and k not in own}
                    if bad:
                        failures.append((f"{step} on {type(target).__name__} '{target.name}' also changed stored nodes {sorted(bad)}",
                                         f"C09:{step}:touched-unrelated-node"))
                    own_types = {"{" + str(target.entity_type.uid) + "}"}
                    tch = {k for k in before["types"] if before["types"].get(k) != after["types"].get(k)}
                    # the type of an image/comments child the target already had may be rewritten or released with it
                    tbad = tch - own_types - child_types
                    if tbad:
                        failures.append((f"{step} on {type(target).__name__} '{target.name}' changed type nodes {sorted(tbad)} that existed before the call",
                                         f"C09:{step}:touched-unrelated-type"))
                    if before["header"] != after["header"]:
                        failures.append((f"{step} changed the project header", "C09:header-changed"))
                    ctx.count("extras:" + step)
        except Exception as e:  # noqa: BLE001
            failures.append((f"extras history raised {type(e).__name__}: {str(e)[:100]}", f"C09:extras-raises-{type(e).__name__}"))
        finally:
            if path.exists():
                os.remove(path)
        ctx.case(case, nontrivial=len(set(steps)) >= 2)
        for what, sig in failures:
            ctx.fail(case, what, sig)


def run(ctx: Ctx):
    extras(ctx)
    wscheck.run_props(ctx, WANT, hook=make_hook(), n_quick=40, n_thorough=1000, weights={"retype": 6, "add_data": 10, "reattach": 0}, shape=directed)  # reattach: its file effect (the link) is deferred to the close by design


def replay(ctx: Ctx, payload):
    if (payload.get("case") or {}).get("part") == "extras":
        extras(ctx)
        return
    wscheck.replay_props(ctx, payload, WANT, hook=make_hook())
