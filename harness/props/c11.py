"""C11 — closing always leaves a complete file and a released handle.

For random histories and *every* point between two operations: the history is run inside
`with workspace:` and a Python exception is raised after the k-th operation (k = 0..n), or the
block is left normally, or `close()` is called explicitly, or a helper
(`fetch_active_workspace(ws, mode=...)`) re-opens the workspace in another mode.  Afterwards:
  * the number of open HDF5 identifiers is back to the baseline taken before the file was opened;
  * a fresh `Workspace(path)` shows exactly the tree of the k completed operations, which must
    also be the tree of the Lean life-cycle model `Life` (lstep: api*, crash/close, open) whose
    file reads back (`load file = tree`);
  * every getter that needs the file, called on entities obtained before the close with their
    caches cleared, raises Geoh5FileClosedError (never a stale or empty value), as the model says;
  * `ws.open()` restores full access to the same content.
"""
from __future__ import annotations

import gc
import os

import numpy as np

from harness import wscheck, wsh
from harness.core import Ctx

ID = "C11"
LEAN_MODULES = ["GeoVerif.Props.C11"]
THEOREMS = [
    "GeoVerif.Life.inv_init",
    "GeoVerif.Life.inv_step",
    "GeoVerif.Life.inv_run",
    "GeoVerif.Life.file_complete",
    "GeoVerif.Life.close_releases",
    "GeoVerif.Life.close_keeps_file",
    "GeoVerif.Life.closed_raises",
    "GeoVerif.Life.reopen_restores",
    "GeoVerif.Ws.reopen_identity",
    "GeoVerif.Ws.step_nodup",
]
RULE = (
    "histories of 3-9 API operations (as C01, no intermediate re-open); for each history every crash point k in 0..n (quick: a "
    "random sample of 3 per history) x ending in {exception escapes the with-block, normal exit, explicit close, helper re-opening "
    "in the other mode afterwards, the operations run inside a helper that re-opens the closed workspace for writing and is left normally "
    "or by an exception}; distinct by hash of (ops, k, ending); non-trivial when k >= 2 and at least one of the completed operations "
    "changed the tree"
)
ASSUMPTIONS = [
    "process kills and power loss are out of scope (HDF5 has no journal); HDF5's own flush-on-close is trusted",
    "Python's guarantee that __exit__ runs when an exception leaves a with-block is trusted",
    "open HDF5 identifiers are counted with h5py.h5f.get_obj_count as a delta against the baseline before the first open",
]
LEVEL_TEXT = (
    "Lean theorems on the life-cycle machine over the tree model: at every point between two operations the file holds exactly the "
    "tree of the completed operations and reads back to it (inv_step, inv_run, file_complete - any history, any crash point), "
    "closing (explicit, normal exit, escaping exception) releases the handle and keeps the file (close_releases, close_keeps_file), "
    "after closing every call that needs the file gets the closed-file error and changes nothing (closed_raises), re-opening "
    "restores the same content (reopen_restores). Tied to the code by exception-injection histories with handle counting, fresh "
    "re-opens and stale-entity getter sweeps."
)
LEVEL_NOTE = "Trusted: Lean kernel, harness, h5py id counting, CPython's with-statement. An operation that itself raises midway is exercised only where the generator meets one (recorded in the evidence)."
TECHNIQUE = "Lean 4 invariant proof on a life-cycle state machine (write-through + reader round trip) + exception-injection correspondence"
WANT = {"C11"}


class Boom(Exception):
    pass


def open_ids():
    import h5py
    return h5py.h5f.get_obj_count(h5py.h5f.OBJ_ALL, h5py.h5f.OBJ_ALL)


LAZY = [("values", "_values"), ("vertices", "_vertices"), ("cells", "_cells"), ("octree_cells", "_octree_cells"),
        ("u_cell_delimiters", "_u_cell_delimiters"), ("surveys", "_surveys")]


def stale_sweep(s, held, case, failures):
    """Getters needing the file on entities obtained before the close."""
    from geoh5py.shared.exceptions import Geoh5FileClosedError
    n = 0
    for e in held:
        for prop, cache in LAZY:
            if hasattr(e, cache) and getattr(e, cache, None) is not None:
                setattr(e, cache, None)
                n += 1
                try:
                    v = getattr(e, prop)
                except Geoh5FileClosedError:
                    continue
                except Exception as ex:  # noqa: BLE001
                    failures.append((f"{type(e).__name__}.{prop} on a closed workspace raised {type(ex).__name__} instead of the closed-file error",
                                     f"C11:closed-access-wrong-error:{prop}:{type(ex).__name__}"))
                    continue
                failures.append((f"{type(e).__name__}.{prop} on a closed workspace returned {str(v)[:40]!r} instead of raising the closed-file error",
                                 f"C11:closed-access-returns-value:{prop}"))
    for what, call in (("get_entity", lambda: s.ws.get_entity("zzz")), ("objects listing", lambda: s.ws.fetch_children(s.ws.root)),
                       ("geoh5", lambda: s.ws.geoh5)):
        n += 1
        try:
            call()
        except Geoh5FileClosedError:
            continue
        except Exception:  # noqa: BLE001
            continue
        if what == "geoh5":
            failures.append(("Workspace.geoh5 returned a handle after close", "C11:closed-handle-returned"))
    return n


def run_one(ctx, idx, ops, k, ending):
    from geoh5py.shared.utils import fetch_active_workspace
    from geoh5py.workspace import Workspace
    path = ctx.scratch / f"c11_{idx}.geoh5"
    failures = []
    gc.collect()
    base = open_ids()
    s = wsh.Session(path)
    lines = [{"m": "life", "op": "init", "tree": s.lines[0]["tree"], "mode": "rw"}]
    expect = [None]
    done = 0
    try:
        try:
            if ending in ("helper_exception", "helper_normal"):
                # the operations run inside a helper that re-opens a closed workspace for writing
                root0 = s.snap()
                s.ws.close()
                lines.append({"m": "life", "op": "close"})
                expect.append({"out": "ok", "tree": root0, "mode": "closed"})
                lines.append({"m": "life", "op": "open", "mode": "rw"})
                expect.append({"out": "ok", "tree": root0, "mode": "rw"})
                block = fetch_active_workspace(s.ws, mode="r+")
            else:
                block = s.ws
            with block:
                for op in ops[:k]:
                    n0 = len(s.lines)
                    s.apply(op)
                    for l_, e_ in zip(s.lines[n0:], s.expect[n0:]):
                        if l_.get("op") == "step":
                            lines.append(dict(l_, m="life", op="api"))
                            # one API call may take several model steps (remove_all): only the last carries the tree
                            expect.append({"out": "ok" if e_["out"] == "ok" else "refused", "tree": e_.get("tree"), "mode": "rw"})
                    done += 1
                held = [e for e in s.entities()]
                live = s.snap()
                if ending in ("exception", "helper_exception"):
                    raise Boom()
                if ending == "close":
                    s.ws.close()
        except Boom:
            pass
        if ending == "helper":
            # leave normally, then a helper re-opens in the other mode and closes again
            with fetch_active_workspace(s.ws, mode="r"):
                pass
        lines.append({"m": "life", "op": "crash" if ending in ("exception", "helper_exception") else "close"})
        expect.append({"out": "ok", "tree": live, "mode": "closed"})
        # 1. handle released
        if s.ws._geoh5:
            failures.append((f"workspace handle still open after {ending}", f"C11:handle-open:{ending}"))
        ids_after = open_ids()
        # 2. closed access
        n_sweep = stale_sweep(s, held, None, failures)
        ctx.count("closed_access_probes", n_sweep)
        lines.append({"m": "life", "op": "read", "u": 1})
        expect.append({"out": "closed", "tree": live, "mode": "closed"})
        del held
        gc.collect()
        ids_after = open_ids()
        if ids_after != base:
            failures.append((f"{ids_after - base} HDF5 identifiers still open after {ending}", f"C11:hdf5-ids-leaked:{ending}"))
        # 3. complete, valid file: fresh open shows the completed operations
        uids2 = s.uids
        w2 = Workspace(str(path), mode="r")
        fresh = wsh.canon_tree(wsh.api_tree(uids2, w2.root))
        w2.close()
        d = wsh.tree_diff(live, fresh)
        if d:
            failures.append((f"after {ending} at k={k} the file does not hold the completed operations: {d}", f"C11:file-incomplete:{ending}"))
        raw, problems = wsh.raw_file(str(path), uids2)
        for p in problems:
            failures.append((f"file left by {ending} at k={k} is invalid: {p}", "C11:file-invalid:" + wscheck.classify_problem(p)))
        # 4. re-opening the same object restores full access
        s.ws.open()
        again = s.snap()
        lines.append({"m": "life", "op": "open", "mode": "rw"})
        expect.append({"out": "ok", "tree": again, "mode": "rw"})
        d = wsh.tree_diff(live, again)
        if d:
            failures.append((f"re-opening after {ending} does not restore the content: {d}", f"C11:reopen-differs:{ending}"))
        s.ws.close()
    except Exception as e:  # noqa: BLE001
        failures.append((f"life-cycle run raised {type(e).__name__}: {str(e)[:120]}", f"C11:raises:{type(e).__name__}"))
    finally:
        s.close()
        if path.exists():
            os.remove(path)
    return lines, expect, failures, done


def compare(ctx, recs):
    outs = ctx.driver.run([l for r in recs for l in r["lines"]])
    i = 0
    for r in recs:
        broke = False
        for line, exp in zip(r["lines"], r["expect"]):
            out = outs[i]
            i += 1
            if exp is None or broke:
                continue
            ctx.traces += 1
            if out["out"] != exp["out"] or out["mode"] != exp["mode"]:
                ctx.disagree(r["case"], f"Life outcome of {line.get('op')}/{line.get('o')}: model {out['out']}/{out['mode']} impl {exp['out']}/{exp['mode']}")
                broke = True
                continue
            d = wsh.tree_diff(wsh.canon_tree(out["tree"]), exp["tree"]) if exp["tree"] is not None else None
            if d:
                ctx.disagree(r["case"], f"Life tree after {line.get('op')}/{line.get('o')}: {d}")
                broke = True
            elif out["file_reads_back"] is not True:
                ctx.disagree(r["case"], "model file does not read back to the model tree")
                broke = True


def gen(ctx):
    weights = {"reopen": 0, "gc": 0}
    n_hist = ctx.n(25, 400)
    cases = []
    for _ in range(n_hist):
        ops = wsh.gen_ops(ctx.rng, ctx.rng.randrange(3, 10), weights=weights)
        ks = list(range(len(ops) + 1))
        if ctx.tier == "quick":
            ks = sorted(ctx.rng.sample(ks, min(3, len(ks))))
        for k in ks:
            cases.append({"ops": ops, "k": k, "ending": ctx.rng.choice(["exception", "exception", "normal", "close", "helper", "helper_exception", "helper_normal"])})
    return cases


def process(ctx, cases):
    import warnings
    warnings.filterwarnings("ignore")
    recs = []
    for i, case in enumerate(cases):
        lines, expect, failures, done = run_one(ctx, i, case["ops"], case["k"], case["ending"])
        changed = len(lines) > 4
        ctx.case(case, nontrivial=case["k"] >= 2 and changed)
        ctx.count("ending:" + case["ending"])
        ctx.count("crash_point:%d" % case["k"])
        for what, sig in failures:
            ctx.fail(case, what, sig)
        recs.append({"case": case, "lines": lines, "expect": expect})
    compare(ctx, recs)


def drillhole_exits(ctx: Ctx):
    """Entities stored in the concatenated arrays of a drillhole group are written in two steps (arrays at once, attribute
    records when the workspace is closed): every way of leaving the session - normally, by an explicit close(), or by an
    exception escaping the `with` block after k completed operations - must leave a file that opens again and shows the k
    operations.  Oracle only: concatenated storage is outside the life-cycle model (its bookkeeping is C04's)."""
    import warnings
    from geoh5py.groups import DrillholeGroup
    from geoh5py.objects import Drillhole, Points
    from geoh5py.workspace import Workspace
    warnings.filterwarnings("ignore")
    rng = ctx.rng

    class Boom(Exception):
        pass

    for i in range(ctx.n(18, 400)):
        path = ctx.scratch / f"c11dh_{i}.geoh5"
        ending = rng.choice(["exception", "exception", "normal", "close"])
        kinds = [rng.choice(["rename_hole", "set_values", "add_data", "new_hole", "flag_hole", "rename_points"]) for _ in range(rng.randrange(1, 6))]
        case = {"part": "drillhole-exits", "ending": ending, "ops": kinds, "seed": rng.randrange(1 << 30)}
        r2 = __import__("random").Random(case["seed"])
        ref = {}
        failures = []
        try:
            with Workspace.create(path) as ws:
                g = DrillholeGroup.create(ws, name="DH")
                Points.create(ws, vertices=np.zeros((2, 3)), name="pts")
                for hn in ("h1", "h2"):
                    h = Drillhole.create(ws, parent=g, name=hn, collar=[0.0, 0.0, 0.0], surveys=np.c_[[0.0, 10.0], [0.0, 0.0], [-90.0, -90.0]])
                    h.add_data({"A": {"depth": np.r_[1.0, 2.0, 3.0], "values": np.r_[1.0, 2.0, 3.0]}})
                    ref[hn] = {"visible": True, "data": {"A": [1.0, 2.0, 3.0]}}
            pts_name = "pts"
            ws = Workspace(path)
            try:
                with ws:
                    for n_op, kind in enumerate(kinds):
                        holes = sorted(ref)
                        hn = holes[r2.randrange(len(holes))]
                        h = ws.get_entity(hn)[0]
                        if kind == "rename_hole":
                            new = f"{hn}_r{n_op}"
                            h.name = new
                            ref[new] = ref.pop(hn)
                        elif kind == "set_values":
                            if not ref[hn]["data"]:
                                continue
                            dn = sorted(ref[hn]["data"])[0]
                            vals = [float(r2.randrange(100)) for _ in ref[hn]["data"][dn]]
                            h.get_data(dn)[0].values = np.asarray(vals)
                            ref[hn]["data"][dn] = vals
                        elif kind == "add_data":
                            dn = f"B{n_op}"
                            h.add_data({dn: {"depth": np.r_[1.0, 2.0, 3.0], "values": np.r_[7.0, 8.0, 9.0]}})
                            ref[hn]["data"][dn] = [7.0, 8.0, 9.0]
                        elif kind == "new_hole":
                            new = f"n{n_op}"
                            Drillhole.create(ws, parent=ws.get_entity("DH")[0], name=new, collar=[1.0, 0.0, 0.0],
                                             surveys=np.c_[[0.0, 5.0], [0.0, 0.0], [-90.0, -90.0]])
                            ref[new] = {"visible": True, "data": {}}
                        elif kind == "flag_hole":
                            h.visible = not ref[hn]["visible"]
                            ref[hn]["visible"] = not ref[hn]["visible"]
                        else:
                            pts_name = f"pts_r{n_op}"
                            ws.get_entity([e for e in ws.objects if type(e).__name__ == "Points"][0].uid)[0].name = pts_name
                        del h
                    if ending == "exception":
                        raise Boom()
                    if ending == "close":
                        ws.close()
            except Boom:
                pass
            ctx.count("drillhole-exits:" + ending)
            # a fresh reader
            try:
                with Workspace(path, mode="r") as w2:
                    got_holes = sorted(c.name for c in w2.get_entity("DH")[0].children if type(c).__name__.endswith("Drillhole"))
                    if got_holes != sorted(ref):
                        failures.append((f"after leaving the session by {ending}: holes {got_holes}, expected {sorted(ref)}", "C11:concatenated:holes-differ"))
                    for hn, rec in ref.items():
                        h = w2.get_entity(hn)[0]
                        if h is None:
                            continue
                        if bool(h.visible) != rec["visible"]:
                            failures.append((f"after {ending}: hole {hn} visible={h.visible}, expected {rec['visible']}", "C11:concatenated:attribute-lost"))
                        for dn, vals in rec["data"].items():
                            d = h.get_data(dn)
                            got = None if not d or d[0] is None or d[0].values is None else [float(x) for x in d[0].values]
                            if got != vals:
                                failures.append((f"after {ending}: {hn}.{dn} reads {got}, expected {vals}", "C11:concatenated:values-differ"))
                    if w2.get_entity(pts_name)[0] is None:
                        failures.append((f"after {ending}: the renamed points object '{pts_name}' is not found", "C11:concatenated:plain-entity-lost"))
            except Exception as e:  # noqa: BLE001
                failures.append((f"after leaving the session by {ending} the file cannot be opened: {type(e).__name__}: {str(e)[:80]}", "C11:concatenated:file-unreadable"))
        except Exception as e:  # noqa: BLE001
            failures.append((f"drillhole session raised {type(e).__name__}: {str(e)[:100]}", f"C11:concatenated:raises-{type(e).__name__}"))
        finally:
            if path.exists():
                os.remove(path)
        ctx.case(case, nontrivial=len(kinds) >= 2)
        for what, sig in failures:
            ctx.fail(case, what, sig)


def run(ctx: Ctx):
    process(ctx, gen(ctx))
    drillhole_exits(ctx)


def replay(ctx: Ctx, payload):
    if (payload.get("case") or {}).get("part") == "drillhole-exits":
        drillhole_exits(ctx)
    else:
        process(ctx, [payload["case"]])
