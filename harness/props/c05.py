"""C05 — deletion removes exactly the entity, its descendants and all references to them.

Removal-biased histories (data in 0-2 property groups, objects with children, nested groups,
both entry points, followed by copies and further removals).  After each removal the oracle scans
the API: lookups by identifier of every removed entity, the whole tree, every property group; the
model `Ws` must agree on the tree (incl. cleaned property groups) after every call and on the
file structure at every close; a refused removal must change nothing.
"""
from harness import wscheck
from harness.core import Ctx

ID = "C05"
LEAN_MODULES = ["GeoVerif.Props.C05"]
THEOREMS = [
    "GeoVerif.Ws.remove_refused",
    "GeoVerif.Ws.remove_exact",
    "GeoVerif.Ws.detach_exact",
    "GeoVerif.Ws.remove_lookup_none",
    "GeoVerif.Ws.remove_survivors",
    "GeoVerif.Ws.mapEnts_subs",
    "GeoVerif.Ws.remove_no_pg_dangling",
    "GeoVerif.Ws.remove_then_ops",
    "GeoVerif.Ws.erase_uids_perm",
    "GeoVerif.Ws.detach_uids_subset",
    "GeoVerif.Ws.detachAll_nodup",
    "GeoVerif.Ws.detachAll_gone",
]
RULE = (
    "removal-biased histories: many add_data/pg_add so that data sit in zero, one or two property groups, then remove through "
    "workspace.remove_entity or parent.remove_children, with the delete permission switched off (and back on) by separate operations so that closes and re-opens fall between switching and removing, followed by copies "
    "and further removals; distinct by hash of the op list; non-trivial when at least one removal succeeded on an entity with "
    "children or on data that was in a property group"
)
ASSUMPTIONS = [
    "removing a deletable entity that has a protected descendant is not exercised (the property does not say what it should do)",
    "concatenated holes and their data are covered by C04",
    "the caller drops its references to removed entities (the history does, then collects)",
]
LEVEL_TEXT = (
    "Lean theorems on the tree model: a removal deletes exactly the entity and its descendants - identifiers after + identifiers "
    "of the removed subtree are a permutation of those before (remove_exact, detach_exact), no lookup yields a removed entity "
    "(remove_lookup_none), every other entity survives (remove_survivors), no property group of a survivor lists removed data "
    "(remove_no_pg_dangling), a request without delete permission is refused and changes nothing (remove_refused), later "
    "operations run on a consistent workspace (remove_then_ops); removing a whole list of children through the parent - the "
    "parent's own list of children included - removes every one of them (detachAll_gone). Tied to the code by differential "
    "histories with API scans (lookups, the four workspace listings, every property group)."
)
LEVEL_NOTE = "Trusted: Lean kernel, harness, h5py. Partial: removal of an entity with a protected descendant is outside the model."
TECHNIQUE = "Lean 4 proof (permutation of identifier lists under erase, mapEnts) + differential removal histories with reference scans"
WANT = {"C05"}
WEIGHTS = {"add_data": 9, "pg_add": 7, "remove_ws": 7, "remove_parent": 6, "copy": 3, "create_object": 5, "move": 1,
           "rename": 0, "flag": 0, "set_geometry": 0, "set_values": 1, "protect": 9, "reopen": 7}


def directed(rng, ops):
    """Half of the histories get, somewhere after their first third, the sequence: switch the delete permission of an
    entity off -> close and re-open (the permission is now what the reader returned) -> ask the workspace or the parent
    to remove a protected entity."""
    if rng.random() < 0.5 or len(ops) < 3:
        return ops
    at = rng.randrange(len(ops) // 3, len(ops) + 1)
    r = lambda: rng.randrange(1 << 20)  # noqa: E731
    triple = [{"k": "protect", "a": r(), "b": 1, "c": r(), "uid": None},
              {"k": "reopen", "a": r(), "b": r(), "c": r(), "uid": None},
              {"k": rng.choice(["remove_ws", "remove_ws", "remove_parent"]), "a": r(), "b": r(), "c": 1 + 4 * r(), "uid": None}]
    ops = ops[:at] + triple + ops[at:]
    if rng.random() < 0.6:
        # one data set becomes the only member of the first property group of its object and a member of the second, then a
        # removal aims at it (through the workspace or the parent), followed by a copy of a survivor
        a, b = r(), r()
        quad = [{"k": "add_data", "a": a, "b": r(), "c": r(), "uid": None},
                {"k": "pg_add", "a": a, "b": b, "c": 2, "uid": None}, {"k": "pg_add", "a": a, "b": b, "c": 3, "uid": None},
                {"k": rng.choice(["remove_ws", "remove_parent"]), "a": r(), "b": r(), "c": 4, "uid": None},
                {"k": "copy", "a": r(), "b": r(), "c": r(), "uid": None}]
        at = rng.randrange(len(ops) // 2, len(ops) + 1)
        ops = ops[:at] + quad + ops[at:]
    return ops


def run(ctx: Ctx):
    wscheck.run_props(ctx, WANT, weights=WEIGHTS, shape=directed)


def replay(ctx: Ctx, payload):
    wscheck.replay_props(ctx, payload, WANT)
