"""C17 — derived geometry follows the format's indexing conventions.

Correspondence: BlockModel / Grid2D / Octree centroids, default octree cells and Curve cells
from part labels of the real package against the Lean model `Grid` (Model/Grid.lean) computed
in exact rationals.  cos/sin of the rotation and dip are taken from NumPy once and passed to the
model exactly, so only the products/sums of the implementation are rounded: the comparison is
|impl - model| <= 2^-40 * (1 + |model|), evaluated exactly with Fractions.
The oracle checks the format document's formulas directly (index of cell (i,j,k), midpoint of
the delimiters, tiling of the default octree, cached centroids after every geometric setter).
"""
from __future__ import annotations

import itertools
import os
from fractions import Fraction

import numpy as np

from harness.core import Ctx

ID = "C17"
LEAN_MODULES = ["GeoVerif.Props.C17", "GeoVerif.Props.C17Cache"]
THEOREMS = [
    "GeoVerif.Grid.flatMap_const_get",
    "GeoVerif.Grid.block_index",
    "GeoVerif.Grid.block_count",
    "GeoVerif.Grid.grid2d_index",
    "GeoVerif.Grid.grid2d_count",
    "GeoVerif.Grid.centers_midpoint",
    "GeoVerif.Grid.centers_midpoint_zero",
    "GeoVerif.Grid.centers_length",
    "GeoVerif.Grid.centersUniform_get",
    "GeoVerif.Grid.rotZ_norm",
    "GeoVerif.Grid.rotZ_zero",
    "GeoVerif.Grid.rotX_zero",
    "GeoVerif.Grid.rotZ_quarter",
    "GeoVerif.Grid.grid2d_centre_formula",
    "GeoVerif.Grid.block_centroids_count",
    "GeoVerif.Grid.octree_centroids_count",
    "GeoVerif.Grid.octree_covers",
    "GeoVerif.Grid.octree_once",
    "GeoVerif.Grid.cellsOfParts_spec",
    "GeoVerif.Cache.cache_invalidated",
    "GeoVerif.Cache.cache_table_nonvacuous",
    "GeoVerif.Cache.clearsDirect_sound",
    "GeoVerif.Cache.noStore_unchanged",
]


def regenerate():
    """T1: the setter table (event paths) and the list of classes whose centroids getter caches, from /repo's source."""
    from harness.core import LEAN, REPO
    from harness.translate import setters
    return setters.generate(REPO, LEAN / "GeoVerif" / "Gen" / "Setters.lean")

RULE = (
    "BlockModel (1-4 cells per axis, dyadic delimiters of either sign, explicit or default origin, rotations), Grid2D (1-5 x 1-5, "
    "rotation, dip, explicit or default origin), Octree (power-of-two counts up to 16, default cells), Curve part labelings of "
    "2-8 vertices (thorough: all labelings with <= 3 labels of <= 6 vertices), plus a centroid-cache probe for every geometric "
    "setter; distinct by hash of the case; non-trivial when the object has more than one cell along at least two axes or the "
    "labeling has at least two parts"
)
ASSUMPTIONS = [
    "cos/sin are NumPy's (passed exactly to the model); products and sums are compared with relative tolerance 2^-40",
    "part labels derived from cells (Curve.parts getter) are checked by the oracle only",
    "DrapeModel centroids are not modelled; their cache invalidation is covered by the table theorem and the probe",
]
LEVEL_TEXT = (
    "Lean theorems for all grid shapes and sizes: block-model cell (i,j,k) sits at index k+i*nZ+j*nU*nZ and 2-D grid cell (i,j) at "
    "i+j*nU (block_index, grid2d_index, by a general flatMap indexing lemma), counts equal the number of cells, cell centres are "
    "the delimiter midpoints for any sign (centers_midpoint), uniform centres are (i+1/2)h, rotation/dip formulas (rotZ_norm, "
    "grid2d_centre_formula), the default octree covers every base cell exactly once whenever min(u,v,w) divides the counts "
    "(octree_covers, octree_once), curve segments from parts join consecutive vertices of one part only (cellsOfParts_spec). "
    "Cached centres: by `decide +kernel` over the setter table regenerated from /repo's source on every run, every completing "
    "setter path of every class whose centroids getter caches (BlockModel, Grid2D, Octree, DrapeModel - the list is regenerated "
    "too) drops the cached centres, directly or through another setter that always does (cache_invalidated; clearsDirect_sound "
    "says what a passing path does to an object), so the centres read after any edit are recomputed from the current attributes. "
    "Tied to the code by differential runs in exact rationals and a cache probe on every such setter."
)
LEVEL_NOTE = "Trusted: Lean kernel (+ Mathlib's ring/linarith producing kernel-checked terms), harness, the setter translator (AST abstraction, validated by the cache probe on the same setters), NumPy. Not proved: cos/sin, float rounding of products."
TECHNIQUE = "Lean 4 proof (list indexing induction, ring arithmetic over Rat) on an executable model of centroids/octree/parts + translator (setter AST -> event paths) with `decide +kernel` over the regenerated table for cache invalidation + exact-rational differential correspondence"

TOL = Fraction(1, 2 ** 40)


def fr(x):
    f = Fraction(float(x))
    return f"{f.numerator}/{f.denominator}"


def pf(s):
    n, d = s.split("/")
    return Fraction(int(n), int(d))


def close(impl, model):
    """impl: float array (n,3); model: list of triples of 'n/d' strings."""
    if len(impl) != len(model):
        return False, f"{len(impl)} centres vs {len(model)} in the model"
    worst = Fraction(0)
    for a, b in zip(impl, model):
        for x, y in zip(a, b):
            m = pf(y)
            err = abs(Fraction(float(x)) - m)
            if err > TOL * (1 + abs(m)):
                return False, f"{float(x)} vs {float(m)}"
            worst = max(worst, err)
    return True, float(worst)


def dy(rng, lo=-8, hi=9, den=4):
    return rng.randrange(lo, hi) / den


def delims(rng):
    n = rng.randrange(1, 5)
    sign = rng.choice([1, 1, -1])
    steps = [rng.choice([0.25, 0.5, 1.0, 1.5]) for _ in range(n)]
    d = [0.0]
    for s in steps:
        d.append(d[-1] + sign * s)
    return d


def gen_case(rng):
    k = rng.choice(["block", "block", "grid2d", "grid2d", "octree", "parts"])
    origin = None if rng.random() < 0.25 else [dy(rng), dy(rng), dy(rng)]
    if k == "block":
        return {"k": k, "origin": origin, "u": delims(rng), "v": delims(rng), "z": delims(rng),
                "rotation": rng.choice([0.0, 0.0, 30.0, 90.0, -45.0, 12.5])}
    if k == "grid2d":
        return {"k": k, "origin": origin, "nu": rng.randrange(1, 6), "nv": rng.randrange(1, 6),
                "hu": rng.choice([0.25, 1.0, 2.5]), "hv": rng.choice([0.5, 1.0, 3.0]),
                "rotation": rng.choice([0.0, 30.0, 90.0, -45.0, 12.5]), "dip": rng.choice([0.0, 0.0, 30.0, 90.0, -20.0])}
    if k == "octree":
        return {"k": k, "origin": origin, "u": rng.choice([1, 2, 4, 8, 16]), "v": rng.choice([1, 2, 4, 8, 16]),
                "w": rng.choice([1, 2, 4, 8]), "hu": rng.choice([0.5, 1.0]), "hv": rng.choice([0.5, 2.0]),
                "hw": rng.choice([0.25, 1.0]), "rotation": rng.choice([0.0, 30.0, -45.0])}
    n = rng.randrange(2, 9)
    return {"k": k, "parts": [rng.randrange(0, 3) * rng.choice([1, 1, 2]) for _ in range(n)]}


def run_case(ctx, ws, case):
    """Returns (driver line, comparator(out) -> failure text or None, oracle failures, nontrivial)."""
    from geoh5py import objects
    failures = []
    k = case["k"]
    if k == "parts":
        parts = case["parts"]
        n = len(parts)
        c = objects.Curve.create(ws, vertices=np.c_[np.arange(n, dtype=float), np.zeros(n), np.zeros(n)], parts=parts)
        try:
            cells = [[int(a), int(b)] for a, b in c.cells]
        except Exception as e:  # noqa: BLE001
            # a part with a single vertex yields no segment; np.vstack of nothing raises when no part has two vertices
            cells = ("raised", type(e).__name__)
        # oracle: consecutive vertices of the same part only
        exp = []
        for p in sorted(set(parts)):
            ind = [i for i, q in enumerate(parts) if q == p]
            exp += [[a, b] for a, b in zip(ind[:-1], ind[1:])]
        if cells != exp and not (isinstance(cells, tuple) and not exp):
            failures.append((f"cells from parts {parts}: {cells}, expected {exp}", "C17:parts:cells"))
        line = {"m": "grid", "op": "parts", "parts": parts}
        return line, (lambda out: None if (out == cells or (isinstance(cells, tuple) and out == [])) else f"model {out} impl {cells}"), failures, len(set(parts)) > 1
    okw = {} if case["origin"] is None else {"origin": case["origin"]}
    o = case["origin"] or [0.0, 0.0, 0.0]
    ang = np.deg2rad(case["rotation"])
    c, s = np.cos(ang), np.sin(ang)
    if k == "block":
        obj = objects.BlockModel.create(ws, u_cell_delimiters=np.array(case["u"]), v_cell_delimiters=np.array(case["v"]),
                                        z_cell_delimiters=np.array(case["z"]), rotation=case["rotation"], **okw)
        try:
            cent = np.asarray(obj.centroids)
        except Exception as e:  # noqa: BLE001
            return None, None, [(f"BlockModel.centroids raised {type(e).__name__} (origin given: {case['origin'] is not None})",
                                 "C17:centroids-raise:default-origin" if case["origin"] is None else "C17:centroids-raise")], True
        nu, nv, nz = len(case["u"]) - 1, len(case["v"]) - 1, len(case["z"]) - 1
        if len(cent) != obj.n_cells or obj.n_cells != nu * nv * nz:
            failures.append((f"{len(cent)} centres for {nu}x{nv}x{nz} cells", "C17:block:count"))
        else:
            # format document: cell (i,j,k) at k + i*nZ + j*nU*nZ, centre = midpoint of the delimiters, rotated about the origin
            for i, j, kk in itertools.product(range(nu), range(nv), range(nz)):
                lu = (case["u"][i] + case["u"][i + 1]) / 2
                lv = (case["v"][j] + case["v"][j + 1]) / 2
                lz = (case["z"][kk] + case["z"][kk + 1]) / 2
                e = np.array([c * lu - s * lv + o[0], s * lu + c * lv + o[1], lz + o[2]])
                if not np.allclose(cent[kk + i * nz + j * nu * nz], e, atol=1e-9):
                    failures.append((f"cell ({i},{j},{kk}) at index {kk + i * nz + j * nu * nz} has centre {cent[kk + i * nz + j * nu * nz]}, format says {e}", "C17:block:index"))
                    break
        line = {"m": "grid", "op": "block", "o": [fr(x) for x in o], "c": fr(c), "s": fr(s),
                "du": [fr(x) for x in case["u"]], "dv": [fr(x) for x in case["v"]], "dz": [fr(x) for x in case["z"]]}
        nt = sum(x > 1 for x in (nu, nv, nz)) >= 2
    elif k == "grid2d":
        obj = objects.Grid2D.create(ws, u_cell_size=case["hu"], v_cell_size=case["hv"], u_count=case["nu"], v_count=case["nv"],
                                    rotation=case["rotation"], dip=case["dip"], **okw)
        cent = np.asarray(obj.centroids)
        dang = np.deg2rad(case["dip"])
        cd, sd = np.cos(dang), np.sin(dang)
        nu, nv = case["nu"], case["nv"]
        if len(cent) != nu * nv:
            failures.append((f"{len(cent)} centres for {nu}x{nv} cells", "C17:grid2d:count"))
        else:
            for i, j in itertools.product(range(nu), range(nv)):
                lu, lv = (i + 0.5) * case["hu"], (j + 0.5) * case["hv"]
                e = np.array([c * lu - s * (cd * lv) + o[0], s * lu + c * (cd * lv) + o[1], sd * lv + o[2]])
                if not np.allclose(cent[i + j * nu], e, atol=1e-9):
                    failures.append((f"cell ({i},{j}) at index {i + j * nu} has centre {cent[i + j * nu]}, format says {e}", "C17:grid2d:index"))
                    break
        line = {"m": "grid", "op": "grid2d", "o": [fr(x) for x in o], "c": fr(c), "s": fr(s), "cd": fr(cd), "sd": fr(sd),
                "nu": nu, "nv": nv, "hu": fr(case["hu"]), "hv": fr(case["hv"])}
        nt = nu > 1 and nv > 1
    else:
        obj = objects.Octree.create(ws, u_count=case["u"], v_count=case["v"], w_count=case["w"], u_cell_size=case["hu"],
                                    v_cell_size=case["hv"], w_cell_size=case["hw"], rotation=case["rotation"], **okw)
        cells = [[int(x) for x in r] for r in obj.octree_cells.tolist()]
        try:
            cent = np.asarray(obj.centroids)
        except Exception as e:  # noqa: BLE001
            return None, None, [(f"Octree.centroids raised {type(e).__name__} (origin given: {case['origin'] is not None})",
                                 "C17:centroids-raise:default-origin" if case["origin"] is None else "C17:centroids-raise")], True
        # tiling oracle
        cover = np.zeros((case["u"], case["v"], case["w"]), dtype=int)
        for (i, j, kk, n) in cells:
            cover[i:i + n, j:j + n, kk:kk + n] += 1
            if i + n > case["u"] or j + n > case["v"] or kk + n > case["w"]:
                failures.append((f"default octree cell {(i, j, kk, n)} sticks out of the {case['u']}x{case['v']}x{case['w']} grid", "C17:octree:tiling"))
        if not np.all(cover == 1):
            failures.append(("default octree does not tile the base grid exactly once", "C17:octree:tiling"))
        if len(cent) != len(cells):
            failures.append((f"{len(cent)} centres for {len(cells)} cells", "C17:octree:count"))
        else:
            # format document: the centre of record (I, J, K, n) is ((I, J, K) + n/2) * cell size, rotated about the origin
            for idx, (i, j, kk, n) in enumerate(cells):
                lu, lv, lw = (i + n / 2) * case["hu"], (j + n / 2) * case["hv"], (kk + n / 2) * case["hw"]
                e = np.array([c * lu - s * lv + o[0], s * lu + c * lv + o[1], lw + o[2]])
                if not np.allclose(cent[idx], e, atol=1e-9):
                    failures.append((f"octree cell {(i, j, kk, n)} has centre {cent[idx]}, its record says {e}", "C17:octree:centre"))
                    break
        line = [{"m": "grid", "op": "octbase", "u": case["u"], "v": case["v"], "w": case["w"]},
                {"m": "grid", "op": "octcent", "o": [fr(x) for x in o], "c": fr(c), "s": fr(s), "hu": fr(case["hu"]),
                 "hv": fr(case["hv"]), "hw": fr(case["hw"]), "cells": cells}]

        def cmp_oct(outs):
            if outs[0] != cells:
                return f"default octree cells: model {outs[0][:6]} impl {cells[:6]}"
            ok, info = close(cent, outs[1])
            return None if ok else "octree centroids: " + str(info)
        return line, cmp_oct, failures, len(cells) > 1

    def cmp(out):
        ok, info = close(cent, out)
        if ok:
            ctx.extra["worst_abs_error"] = max(ctx.extra.get("worst_abs_error", 0.0), info)
        return None if ok else f"centroids differ: {info}"
    return line, cmp, failures, nt


def cache_probe(ctx, ws):
    """After every geometric setter the cached centres must be those of a freshly built object."""
    from geoh5py import objects
    out = []
    specs = [
        ("BlockModel", dict(u_cell_delimiters=np.r_[0.0, 1, 2], v_cell_delimiters=np.r_[0.0, 1], z_cell_delimiters=np.r_[0.0, -1, -3], origin=[0.0, 0, 0]),
         {"origin": [1.0, 2, 3], "rotation": 30.0, "u_cell_delimiters": np.r_[0.0, 2, 5], "v_cell_delimiters": np.r_[0.0, 4], "z_cell_delimiters": np.r_[0.0, -2, -3]}),
        ("Grid2D", dict(u_count=2, v_count=3, u_cell_size=1.0, v_cell_size=2.0, origin=[0.0, 0, 0]),
         {"origin": [1.0, 2, 3], "rotation": 30.0, "dip": 45.0, "u_cell_size": 3.0, "v_cell_size": 0.5, "u_count": 4, "v_count": 2,
          "vertical": True}),
        ("Grid2D", dict(u_count=2, v_count=3, u_cell_size=1.0, v_cell_size=2.0, origin=[0.0, 0, 0], rotation=30.0, vertical=True),
         {"vertical": False, "dip": 30.0}),
        ("Octree", dict(u_count=4, v_count=4, w_count=2, u_cell_size=1.0, v_cell_size=1.0, w_cell_size=1.0, origin=[0.0, 0, 0]),
         {"origin": [1.0, 2, 3], "rotation": 30.0, "u_cell_size": 2.0, "v_cell_size": 3.0, "w_cell_size": 0.5}),
    ]
    # every setter defined by a class that caches its centres must be in the probe (or be named here as covered elsewhere)
    probed = {(c, a) for c, _, ed in specs for a in ed} | {("DrapeModel", "layers"), ("DrapeModel", "prisms")}
    elsewhere = {("Octree", "octree_cells"), ("Octree", "u_count"), ("Octree", "v_count"), ("Octree", "w_count")}   # C03 / tests: counts change the cell table
    for cname in ("BlockModel", "Grid2D", "Octree", "DrapeModel"):
        for a, member in vars(getattr(objects, cname)).items():
            if isinstance(member, property) and member.fset is not None and (cname, a) not in probed | elsewhere:
                ctx.count("cache_probe_unprobed_setter:" + cname + "." + a)
                out.append((f"{cname}.{a} has a setter the centroid-cache probe does not exercise", f"C17:cache-probe-incomplete:{cname}.{a}"))
    for cls, kw, edits in specs:
        for attr, val in edits.items():
            obj = getattr(objects, cls).create(ws, **kw)
            _ = obj.centroids
            setattr(obj, attr, val)
            kw2 = dict(kw)
            kw2[attr] = val
            fresh = getattr(objects, cls).create(ws, **kw2)
            ctx.count("cache_probe")
            a, b = np.asarray(obj.centroids), np.asarray(fresh.centroids)
            if attr == "vertical" and val is False:
                # switching the flag off keeps the dip the flag had forced (90): a freshly built flat grid is no reference;
                # the centres must be those recomputed from the object's own current attributes
                obj._centroids = None  # pylint: disable=protected-access
                b = np.asarray(obj.centroids)
            if a.shape != b.shape or not np.allclose(a, b):
                out.append((f"{cls}.{attr} setter leaves stale cached centroids", f"C17:cache:{cls}.{attr}"))
    # DrapeModel: layers / prisms
    layers = np.c_[[0, 0, 1, 1], [0, 1, 0, 1], [-1.0, -2.0, -1.5, -3.0]]
    prisms = np.c_[[0.0, 1.0], [0.0, 0.0], [0.0, 0.5], [0, 2], [2, 2]]
    for attr, val in (("layers", np.c_[[0, 0, 1, 1], [0, 1, 0, 1], [-2.0, -4.0, -1.5, -3.0]]),
                      ("prisms", np.c_[[5.0, 6.0], [1.0, 1.0], [1.0, 0.5], [0, 2], [2, 2]])):
        d = objects.DrapeModel.create(ws, layers=layers, prisms=prisms)
        _ = d.centroids
        setattr(d, attr, val)
        kw2 = {"layers": layers, "prisms": prisms}
        kw2[attr] = val
        fresh = objects.DrapeModel.create(ws, **kw2)
        ctx.count("cache_probe")
        if not np.allclose(np.asarray(d.centroids), np.asarray(fresh.centroids)):
            out.append((f"DrapeModel.{attr} setter leaves stale cached centroids", f"C17:cache:DrapeModel.{attr}"))
    return out


def process(ctx, cases, probe=True):
    from geoh5py.workspace import Workspace
    path = ctx.scratch / "c17.geoh5"
    recs, lines = [], []
    with Workspace.create(path) as ws:
        if probe:
            for what, sig in cache_probe(ctx, ws):
                ctx.fail({"probe": "centroid cache"}, what, sig)
        for case in cases:
            line, cmp, failures, nt = run_case(ctx, ws, case)
            ctx.case(case, nt)
            ctx.count("kind:" + case["k"])
            if case.get("origin", 1) is None:
                ctx.count("default_origin")
            for what, sig in failures:
                ctx.fail(case, what, sig)
            if line is None:
                continue
            ls = line if isinstance(line, list) else [line]
            recs.append((case, cmp, len(lines), len(ls), isinstance(line, list)))
            lines += ls
    os.remove(path)
    outs = ctx.driver.run(lines)
    for case, cmp, start, n, multi in recs:
        ctx.traces += 1
        res = cmp(outs[start:start + n] if multi else outs[start])
        if res:
            ctx.disagree(case, "Grid correspondence: " + res)


def run(ctx: Ctx):
    import warnings
    warnings.filterwarnings("ignore")
    cases = [gen_case(ctx.rng) for _ in range(ctx.n(200, 3000))]
    if ctx.tier == "thorough":
        for n in range(2, 7):
            for lab in itertools.product(range(3), repeat=n):
                cases.append({"k": "parts", "parts": list(lab)})
        ctx.extra["exhaustive_part_labelings"] = "all labelings with labels {0,1,2} of 2..6 vertices"
    process(ctx, cases)


def replay(ctx: Ctx, payload):
    import warnings
    warnings.filterwarnings("ignore")
    case = payload["case"]
    if "probe" in case:
        process(ctx, [], probe=True)
    else:
        process(ctx, [case], probe=False)
