"""C03 — no accepted attribute change is lost (write-through completeness).

Two ties to the code, both regenerated/re-run on every check:
  * T1 translator (harness/translate/setters.py): every property setter of every entity / type
    class and of Workspace is abstracted from its AST to event paths
    (store f | update a | call p | raise | other) together with the dispatch lists of
    H5Writer.update_field and the attribute maps; Lean re-proves over the regenerated table that
    every in-scope setter writes through on every non-raising path (`all_setters_write_through`,
    by `decide +kernel`), using the soundness theorem of the abstraction (`writeThrough_sound`);
  * correspondence: for every (class, assignable attribute) pair found by reflection the real
    assignment is performed on a stored entity with a value from the attribute's domain, the file is
    closed and re-read by a fresh Workspace (and by raw h5py for scalar attributes); the value read
    must equal the live value.  Orders of several assignments on one entity are permuted.
"""
from __future__ import annotations

import inspect
import itertools
import os
import uuid

import numpy as np

from harness import wsh
from harness.core import Ctx, LEAN, REPO

ID = "C03"
LEAN_MODULES = ["GeoVerif.Props.C03", "GeoVerif.Props.C03Attr"]
THEOREMS = [
    "GeoVerif.Setters.exec_synced",
    "GeoVerif.Setters.writeThrough_sound",
    "GeoVerif.Setters.order_independent",
    "GeoVerif.Setters.all_setters_write_through",
    "GeoVerif.Setters.dispatch_total",
    "GeoVerif.Setters.update_before_store_rejected",
    "GeoVerif.AttrW.writeFixed_exact",
    "GeoVerif.AttrW.writeFixed_frame",
    "GeoVerif.AttrW.writeFixed_idem",
    "GeoVerif.AttrW.writeFound_exact_some",
    "GeoVerif.AttrW.writeFound_stale_counterexample",
]
RULE = (
    "every (class, attribute) pair where the class is a concrete object/group/data/type class or Workspace and the attribute has a "
    "property setter and is in the class's attribute map or is an array field of KEY_MAP; 2 values per pair in quick, 6 in "
    "thorough, plus all orders of up to 3 scalar attributes of one entity; distinct by (class, attribute, value); non-trivial when "
    "the assigned value differs from the value before"
)
ASSUMPTIONS = [
    "documented non-persisted attributes are out of scope: uid, on_file, parent (a move, C01), entity_type",
    "values come from a per-type generator (bool/str/int/float/array/dict/uuid/enum); attributes whose current value is None and "
    "whose name has no generator are skipped and listed in the evidence",
    "survey metadata setters are C20's; concatenated (drillhole-group) entities C04's",
]
LEVEL_TEXT = (
    "Lean: soundness of the event-path abstraction (writeThrough_sound: if the last store of a field on a path is followed by an "
    "update that the writer's dispatch routes to that field, then after executing the path the stored value equals the in-memory "
    "value; order_independent for several fields), and, by `decide +kernel` over the table regenerated from /repo's source on "
    "every run, every in-scope setter of every class writes through on every non-raising path (all_setters_write_through) and "
    "every array field is named in a dispatch list (dispatch_total). The configuration quantifier is the complete reflective "
    "table, so this is a proof, not a sample. Tied to the running code by assigning every pair on a stored entity and re-reading. "
    "What an update of the scalar attributes does to the node is model M3b (Model/AttrW.lean): walking an attribute map leaves "
    "exactly the in-memory valuation on the node, None included, whatever the node held before (writeFixed_exact, _frame, _idem); "
    "the writer as found kept the former value of an attribute set back to None (writeFound_stale_counterexample, repaired in "
    "/repo) - the running writer is compared with the model on random valuations and the variant is probed on every run."
)
LEVEL_NOTE = "Trusted: Lean kernel, the AST abstraction (validated by the dynamic sweep: a setter judged write-through must re-read equal), h5py attribute/dataset creation."
TECHNIQUE = "translator (AST -> event paths) + Lean `decide +kernel` over the regenerated setter table + soundness proof + reflective assign/close/re-read correspondence"

SKIP_ATTRS = {"uid", "on_file", "parent", "entity_type", "workspace", "property_groups", "concatenated_attributes",
              "concatenated_object_ids", "property_group_ids", "primitive_type", "clipping_ids", "visual_parameters"}
EXTRA_ATTRS = ["units"]        # named by the property, absent from the attribute map in the pinned tree
KNOWN = {}


def regenerate():
    from harness.translate import setters
    return setters.generate(REPO, LEAN / "GeoVerif" / "Gen" / "Setters.lean")


def new_value(name, cur, k):
    """k-th alternative value for an attribute whose current value is `cur`; k == "near": a value that differs from the
    current one by one unit in the last place (an assignment is an assignment, however small the change)."""
    if k == "near":
        up = lambda a: np.nextafter(a, np.inf)  # noqa: E731  the smallest possible change of a float
        if isinstance(cur, (float, np.floating)) and np.isfinite(cur) and name not in ("dip", "rotation"):
            return float(up(np.float64(cur)))
        if isinstance(cur, np.ndarray) and cur.dtype.names and all(cur.dtype[n].kind == "f" for n in cur.dtype.names):
            if name in ("origin", "collar"):
                return [float(up(np.float64(cur[n]))) for n in cur.dtype.names]
            new = cur.copy()
            for n in cur.dtype.names:
                new[n] = up(new[n])
            return new
        if isinstance(cur, np.ndarray) and cur.dtype.kind == "f" and cur.size:
            return up(cur)
        return None
    if name in ("cost", "end_of_hole"):
        # plain numbers: the setters take a python int as readily as a float
        return [7 + k, 12.5 + k][k % 2]
    if name == "units":
        return ["m", "ppm"][k % 2]
    if name == "association":
        from geoh5py.data import DataAssociationEnum
        return [DataAssociationEnum.OBJECT, DataAssociationEnum.VERTEX][k % 2]
    if name == "metadata" and cur is None:
        return {"key": {"inner": k}}
    if name == "description" and cur is None:
        return f"descr{k}"
    if isinstance(cur, (bool, np.bool_)):
        return (not cur) if k % 2 == 0 else bool(cur)
    if isinstance(cur, str):
        return f"{cur}_{k}x" if name not in ("planning", "distance_unit", "mapping") else \
            {"planning": ["Ongoing", "Planned", "Completed"], "distance_unit": ["feet", "meter"], "mapping": ["linear", "log"]}[name][k % 2]
    if isinstance(cur, (int, np.integer)) and not isinstance(cur, bool):
        return int(cur) + 1 + k
    if isinstance(cur, (float, np.floating)):
        return float(cur) + 1.5 + k
    if isinstance(cur, uuid.UUID):
        return uuid.UUID(int=77 + k)
    if isinstance(cur, dict):
        return {"key": {"inner": k}, "s": "v"}
    if isinstance(cur, np.ndarray):
        if cur.dtype.names:
            new = cur.copy()
            f0 = cur.dtype.names[0]
            if name == "origin":
                return [1.0 + k, 2.0, 3.0]
            if name == "collar":
                return [1.0 + k, 2.0, 3.0]
            new[f0] = new[f0] + 1 + k
            return new
        if cur.dtype.kind == "f":
            return cur + 1.0 + k
        if cur.dtype.kind in "iu":
            if name == "cells":
                return cur[::-1].copy()
            return cur
        if cur.dtype.kind in "US":
            return np.array([str(x) + "z" for x in cur])
        if cur.dtype.kind == "O":
            return cur
    if isinstance(cur, list) and cur and all(isinstance(x, str) for x in cur):
        return [x + "y" for x in cur]
    return None


def none_in_domain(obj, attr):
    """None is a valid value of the attribute as far as its setter declares (`x: str | None`, `Optional[...]`); a setter that
    merely fails to refuse None (the boolean flags) does not make None a valid value"""
    prop = getattr(type(obj), attr, None)
    ann = getattr(getattr(prop, "fset", None), "__annotations__", {}) or {}
    texts = [str(v) for k, v in ann.items() if k != "return"]
    return any("None" in t or "Optional" in t for t in texts)


def same(a, b):
    return wsh.tok(a) == wsh.tok(b)


def entity_factories(ws):
    """(label, factory) pairs creating one stored entity of each class, plus its types."""
    from geoh5py import groups, objects
    n = 4
    v = np.c_[np.arange(n, dtype=float), np.arange(n, dtype=float) * 0.5, np.zeros(n)]
    mk = {
        "Points": lambda: objects.Points.create(ws, vertices=v),
        "Curve": lambda: objects.Curve.create(ws, vertices=v),
        "Surface": lambda: objects.Surface.create(ws, vertices=v, cells=np.array([[0, 1, 2], [1, 2, 3]], dtype="uint32")),
        "Grid2D": lambda: objects.Grid2D.create(ws, u_count=2, v_count=3, u_cell_size=1.0, v_cell_size=2.0, origin=[0.0, 0, 0]),
        "BlockModel": lambda: objects.BlockModel.create(ws, origin=[0.0, 0, 0], u_cell_delimiters=np.r_[0.0, 1, 2],
                                                        v_cell_delimiters=np.r_[0.0, 1], z_cell_delimiters=np.r_[0.0, -1]),
        "Octree": lambda: objects.Octree.create(ws, origin=[0.0, 0, 0], u_count=2, v_count=2, w_count=2, u_cell_size=1.0,
                                                v_cell_size=1.0, w_cell_size=1.0),
        "DrapeModel": lambda: objects.DrapeModel.create(ws, layers=np.c_[[0, 0, 1, 1], [0, 1, 0, 1], [-1.0, -2.0, -1.5, -3.0]],
                                                       prisms=np.c_[[0.0, 1.0], [0.0, 0.0], [0.0, 0.5], [0, 2], [2, 2]]),
        "Drillhole": lambda: objects.Drillhole.create(ws, collar=[0.0, 0, 0], surveys=np.c_[[0.0, 10.0], [0.0, 0.0], [-90.0, -90.0]]),
        "ContainerGroup": lambda: groups.ContainerGroup.create(ws),
        "SimPEGGroup": lambda: groups.SimPEGGroup.create(ws),
        "UIJsonGroup": lambda: groups.UIJsonGroup.create(ws),
    }
    data = {
        "FloatData": {"values": np.arange(n, dtype=float), "type": "FLOAT"},
        "IntegerData": {"values": np.arange(n, dtype="int32"), "type": "INTEGER"},
        "TextData": {"values": np.array(["a", "b", "c", "d"]), "type": "TEXT"},
        "ReferencedData": {"values": np.array([1, 2, 1, 2], dtype="int32"), "type": "REFERENCED", "value_map": {1: "A", 2: "B"}},
        "BooleanData": {"values": np.array([True, False, True, False]), "type": "BOOLEAN"},
    }
    for name, kw in data.items():
        mk[name] = (lambda kw=kw: objects.Points.create(ws, vertices=v).add_data({"d": dict(kw, association="VERTEX")}))

    # entities stored in the concatenated arrays of a drillhole group: their setters do not write to the file but mark the
    # group for a rewrite of its attribute table at close
    def hole():
        g = groups.DrillholeGroup.create(ws, name="DH")
        return objects.Drillhole.create(ws, parent=g, name="well", collar=[0.0, 0, 0], surveys=np.c_[[0.0, 10.0], [0.0, 0.0], [-90.0, -90.0]])
    mk["Drillhole(concatenated)"] = hole
    mk["FloatData(concatenated)"] = lambda: hole().add_data({"d": {"depth": np.r_[1.0, 2.0, 3.0], "values": np.r_[5.0, 6.0, 7.0]}})
    return mk


def assignable(entity):
    """attribute names with a setter that are in the attribute map or are array fields"""
    from geoh5py.shared.utils import KEY_MAP
    names = set()
    amap = getattr(entity, "attribute_map", {}) or {}
    for v in amap.values():
        if ":" not in v:
            names.add(v)
    for a in wsh.ARRAY_ATTRS + ["metadata", "options", "color_map", "value_map"]:
        if a in KEY_MAP and hasattr(type(entity), a):
            names.add(a)
    for a in EXTRA_ATTRS:
        if hasattr(type(entity), a):
            names.add(a)
    out = []
    for nme in sorted(names):
        prop = getattr(type(entity), nme, None)
        if isinstance(prop, property) and prop.fset is not None and nme not in SKIP_ATTRS:
            out.append(nme)
    return out


def find_entity(w, uid):
    """by identifier; data stored in the concatenated arrays of a drillhole group are only registered once their hole has
    listed its children"""
    e = w.get_entity(uid)[0]
    if e is None:
        for g in w.groups:
            if hasattr(g, "concatenated_object_ids"):
                for o in g.children:
                    for nm in (o.get_data_list() if hasattr(o, "get_data_list") else []):
                        for c in o.get_data(nm):
                            if getattr(c, "uid", None) == uid:
                                return c
    return e


def reread(path, uid, which):
    from geoh5py.workspace import Workspace
    w = Workspace(str(path), mode="r")
    try:
        if which == "workspace":
            return w, w
        e = find_entity(w, uid)
        if which == "entity":
            return w, e
        return w, e.entity_type
    except Exception:
        w.close()
        raise


def assign_and_read(ctx, ent, target, attr, k, case, skipped):
    """assign one value; returns (value, live value after the assignment, whether it changed) or None when nothing was assigned"""
    obj = ent if target == "entity" else ent.entity_type
    cur = getattr(obj, attr)
    if k == "clear":
        # an optional attribute that holds a value is set back to None: where the setter accepts that, a fresh reader must
        # see None too (the stale value must not stay in the file)
        if cur is None or not none_in_domain(obj, attr):
            return None
        try:
            setattr(obj, attr, None)
        except Exception:  # noqa: BLE001   None is not in the attribute's domain
            return None
        live = getattr(obj, attr)
        if live is not None:
            return None                     # the setter maps None to a default: covered by the other values
        ctx.count("cleared_to_none")
        return None, live, True
    val = new_value(attr, cur, k)
    if val is None:
        if k != "near":
            skipped.add(f"{case['cls']}.{attr}")
        return None
    try:
        setattr(obj, attr, val)
    except Exception:  # noqa: BLE001   the value was not accepted: nothing to check
        ctx.count("assignment_rejected")
        return None
    live = getattr(obj, attr)
    return val, live, not same(live, cur)


def sweep(ctx: Ctx):
    from geoh5py.workspace import Workspace
    nvals = 2 if ctx.tier == "quick" else 6
    skipped = set()
    path = ctx.scratch / "c03.geoh5"
    probe = Workspace()                     # in memory, to enumerate factories
    labels = list(entity_factories(probe).keys())
    probe.close()
    for label in labels:
        for target in ("entity", "type"):
            # enumerate attributes on a throw-away instance
            if path.exists():
                os.remove(path)
            with Workspace.create(path) as ws:
                ent = entity_factories(ws)[label]()
                obj = ent if target == "entity" else ent.entity_type
                attrs = assignable(obj)
            for attr, k in itertools.product(attrs, list(range(nvals)) + ["near", "clear"]):
                case = {"cls": label if target == "entity" else label + ".entity_type", "attr": attr, "k": k}
                os.remove(path)
                # the assignment is made in the session that created the entity (even k) or alone in a later session (odd k,
                # "near"): in the latter nothing else the session does can carry the change into the file
                later = k in ("near", "clear") or k % 2 == 1
                case["session"] = "later" if later else "creating"
                try:
                    with Workspace.create(path) as ws:
                        ent = entity_factories(ws)[label]()
                        uid = ent.uid
                        outcome = None if later else assign_and_read(ctx, ent, target, attr, k, case, skipped)
                        if k == "clear":    # give the optional attribute a value first, stored by the creating session
                            assign_and_read(ctx, ent, target, attr, 0, case, set())
                        del ent
                    if later:
                        with Workspace(str(path), mode="r+") as ws:
                            ent = find_entity(ws, uid)
                            if ent is None:
                                skipped.add(f"{case['cls']}: not found by identifier after re-opening")
                                continue
                            outcome = assign_and_read(ctx, ent, target, attr, k, case, skipped)
                            del ent
                    if outcome is None:
                        continue
                    val, live, changed = outcome
                    w2, obj2 = reread(path, uid, target)
                    try:
                        back = getattr(obj2, attr)
                    finally:
                        w2.close()
                    ctx.case(case, nontrivial=changed, sample_cap=6)
                    ctx.count("pairs_checked")
                    concat = "(concatenated)" in case["cls"]
                    if concat and attr == "values" and k == "near":
                        # values of concatenated data are stored in single precision (C08's business): compare as stored
                        live, back = np.asarray(live, dtype="float32"), np.asarray(back, dtype="float32")
                    if not same(back, live):
                        sig = f"C03:lost:{attr}:{'type' if target == 'type' else attr_owner(obj2)}"
                        if k == "clear":    # a signature of its own: a listed finding about None must not hide a lost value
                            sig = f"C03:none-not-stored:{attr}:{'type' if target == 'type' else attr_owner(obj2)}"
                        if concat and target == "type" and case["cls"].startswith("Drillhole"):
                            sig = "C03:lost:type-of-concatenated-object"
                        elif concat and attr == "metadata":
                            sig = "C03:lost:metadata:concatenated-data"
                        ctx.fail(case, f"{case['cls']}.{attr} = {wsh.tok(val)[:60]} accepted (live value {wsh.tok(live)[:60]}) but a fresh reader sees {wsh.tok(back)[:60]}", sig)
                except Exception as e:  # noqa: BLE001
                    sig = f"C03:raises:{attr}:{type(e).__name__}"
                    if "(concatenated)" in case["cls"] and attr == "metadata" and case["cls"].startswith("Drillhole"):
                        sig = "C03:concatenated-object-metadata-breaks-file"
                    elif "(concatenated)" in case["cls"] and attr == "name" and case["cls"].startswith("FloatData") and target == "entity":
                        sig = "C03:concatenated-data-rename"
                    ctx.fail(case, f"assign/close/re-read of {case['cls']}.{attr} raised {type(e).__name__}: {str(e)[:100]}", sig)
    # Workspace header fields
    for attr, vals in (("distance_unit", ["feet", "km"]), ("ga_version", ["4.2", "9.9"]), ("version", [2.0, 2.1]),
                       ("contributors", [["alice"], ["bob", "carol"]]), ("name", ["PROJ", "X"])):
        for k, val in enumerate(vals[:nvals]):
            case = {"cls": "Workspace", "attr": attr, "k": k}
            if path.exists():
                os.remove(path)
            try:
                with Workspace.create(path) as ws:
                    try:
                        setattr(ws, attr, val)
                    except Exception:  # noqa: BLE001
                        ctx.count("assignment_rejected")
                        continue
                    live = getattr(ws, attr)
                w2 = Workspace(str(path), mode="r")
                back = getattr(w2, attr)
                w2.close()
                ctx.case(case, nontrivial=True, sample_cap=6)
                ctx.count("pairs_checked")
                if not same(back, live):
                    ctx.fail(case, f"Workspace.{attr} = {val!r} accepted (live {wsh.tok(live)}) but a fresh reader sees {wsh.tok(back)}", f"C03:lost:{attr}:Workspace")
            except Exception as e:  # noqa: BLE001
                ctx.fail(case, f"Workspace.{attr} raised {type(e).__name__}: {str(e)[:100]}", f"C03:raises:{attr}:{type(e).__name__}")
    if path.exists():
        os.remove(path)
    ctx.extra["skipped_pairs_no_generator"] = sorted(skipped)


def attr_owner(obj):
    """the class in the MRO that defines the setter (stable signature across subclasses)"""
    return type(obj).__name__


def orders(ctx: Ctx):
    """all orders of 3 scalar assignments on one entity"""
    from geoh5py.objects import Grid2D
    from geoh5py.workspace import Workspace
    path = ctx.scratch / "c03_orders.geoh5"
    edits = [("name", "renamed"), ("rotation", 33.0), ("visible", False), ("u_cell_size", 7.5), ("origin", [4.0, 5.0, 6.0])]
    combos = list(itertools.permutations(edits, 3))
    if ctx.tier == "quick":
        combos = ctx.rng.sample(combos, 12)
    for combo in combos:
        if path.exists():
            os.remove(path)
        case = {"orders": [a for a, _ in combo]}
        with Workspace.create(path) as ws:
            g = Grid2D.create(ws, u_count=2, v_count=2, u_cell_size=1.0, v_cell_size=1.0, origin=[0.0, 0, 0])
            uid = g.uid
            for a, v in combo:
                setattr(g, a, v)
            live = {a: wsh.tok(getattr(g, a)) for a, _ in combo}
        w2 = Workspace(str(path), mode="r")
        g2 = w2.get_entity(uid)[0]
        back = {a: wsh.tok(getattr(g2, a)) for a, _ in combo}
        w2.close()
        ctx.case(case, True, sample_cap=6)
        ctx.count("orders_checked")
        if back != live:
            ctx.fail(case, f"assignments {case['orders']} in this order: live {live}, re-read {back}", "C03:order-dependent")
    if path.exists():
        os.remove(path)


WRITER_FIELDS = {
    # attribute-map key -> (private field, values): scalar attributes whose in-memory value may be None
    "type": {"Description": ("_description", ["first", "second text"]), "Name": ("_name", ["tname", "other"]),
             "Units": ("_units", ["m", "ppm"]), "Number of bins": ("_number_of_bins", [10, 64]),
             "Mapping": ("_mapping", ["linear", "log"])},
    "hole": {"Cost": ("_cost", [1.5, 20.0]), "End of hole": ("_end_of_hole", [100.0, 7]),
             "Planning": ("_planning", ["Ongoing", "Planned"]), "Last focus": ("_last_focus", ["None", "2020"])},
}


def _atok(x):
    if x is None:
        return None
    if isinstance(x, bytes):
        return x.decode()
    if isinstance(x, (bool, np.bool_)):
        return str(int(x))
    if isinstance(x, (int, np.integer)):
        return str(int(x))
    if isinstance(x, (float, np.floating)):
        return repr(float(x))
    return str(x)


def attr_writer(ctx: Ctx):
    """Correspondence of model M3b (Model/AttrW.lean) with `H5Writer.write_attributes`: arbitrary valuations of the scalar
    attributes of a data type and of a drillhole (None included, set on the private fields so that no setter interferes) are
    written over whatever the node holds; the node's attributes read with h5py must be the model's store."""
    from geoh5py.io.h5_writer import H5Writer
    from geoh5py.objects import Drillhole, Points
    from geoh5py.workspace import Workspace
    path = ctx.scratch / "c03_writer.geoh5"
    rng = ctx.rng
    n_cases = ctx.n(24, 120)
    lines, expects, cases = [], [], []

    def raw(ws, obj, keys):
        h = H5Writer.fetch_handle(ws.geoh5, obj)
        return {k: (_atok(h.attrs[k]) if k in h.attrs else None) for k in keys}

    def one_round(ws, obj, fields, valuation):
        keys = list(fields)
        before = raw(ws, obj, keys)
        for k, v in valuation.items():
            setattr(obj, fields[k][0], v)
        ws.update_attribute(obj, "attributes")
        after = raw(ws, obj, keys)
        mem = [[k, _atok(getattr(obj, fields[k][0]))] for k in keys]
        return before, mem, after

    # which writer is this?  the model's own discriminating input (writeFound_stale_counterexample): Units "m", then None
    if path.exists():
        os.remove(path)
    with Workspace.create(path) as ws:
        dt = Points.create(ws, vertices=np.zeros((2, 3))).add_data({"d": {"values": np.zeros(2)}}).entity_type
        one_round(ws, dt, WRITER_FIELDS["type"], {"Units": "m"})
        _, _, after = one_round(ws, dt, WRITER_FIELDS["type"], {"Units": None})
    fixed = after["Units"] is None
    ctx.extra["attribute_writer_variant"] = "repaired (None removes the attribute)" if fixed else "asFound (None keeps the former value)"
    for i in range(n_cases):
        which = "type" if i % 2 == 0 else "hole"
        fields = WRITER_FIELDS[which]
        if path.exists():
            os.remove(path)
        with Workspace.create(path) as ws:
            if which == "type":
                obj = Points.create(ws, vertices=np.zeros((2, 3))).add_data({"d": {"values": np.zeros(2)}}).entity_type
            else:
                obj = Drillhole.create(ws, collar=[0.0, 0, 0])
            for r in range(rng.randint(2, 4)):
                valuation = {k: (None if rng.random() < 0.4 else rng.choice(vals)) for k, (_, vals) in fields.items()
                             if rng.random() < 0.8}
                case = {"writer": which, "case": i, "round": r, "valuation": {k: _atok(v) for k, v in valuation.items()}}
                try:
                    before, mem, after = one_round(ws, obj, fields, valuation)
                except Exception as e:  # noqa: BLE001
                    ctx.fail(case, f"write_attributes raised {type(e).__name__}: {str(e)[:100]} for {case['valuation']}",
                             f"C03:writer-raises:{type(e).__name__}")
                    break
                keys = list(fields)
                lines.append({"m": "attrw", "fixed": fixed, "keys": keys,
                              "store": [[k, v] for k, v in before.items() if v is not None], "mem": mem})
                expects.append([after[k] for k in keys])
                cases.append(dict(case, before=before))
                ctx.case(case, nontrivial=any(v is None for v in valuation.values()), sample_cap=4)
                ctx.count("writer_rounds")
                ctx.count("writer_none_values", sum(v is None for v in valuation.values()))
                stale = [k for k, m in mem if m is None and after[k] is not None]
                if stale:
                    ctx.fail(case, f"attributes {stale} are None in memory after the write but the node still holds "
                                   f"{ {k: after[k] for k in stale} }", "C03:none-not-stored:writer")
    if path.exists():
        os.remove(path)
    outs = ctx.driver.run(lines)
    for case, exp, out in zip(cases, expects, outs):
        ctx.traces += 1
        if out != exp:
            ctx.disagree(case, "node attributes after write_attributes", model=out, impl=exp)


def aux_assignments(ctx: Ctx):
    """Assignments the API offers on the parts of an entity that are not entities themselves: an entry of a value map, the name
    of a colour map, the name of a property group.  Made alone in a later session; a fresh reader must see them."""
    from geoh5py.data.color_map import ColorMap
    from geoh5py.objects import Points
    from geoh5py.workspace import Workspace
    path = ctx.scratch / "c03_aux.geoh5"

    def build(ws):
        pts = Points.create(ws, vertices=np.zeros((3, 3)), name="pts")
        ref = pts.add_data({"r": {"values": np.array([1, 2, 1], dtype="int32"), "type": "referenced", "value_map": {1: "A", 2: "B"}}})
        flt = pts.add_data({"f": {"values": np.arange(3.0)}})
        flt.entity_type.color_map = ColorMap(values=np.c_[np.arange(3.0), [0, 10, 20], [0, 10, 20], [0, 10, 20], [255, 255, 255]],
                                             name="cm0.TBL")
        pts.add_data_to_group(flt, "grp")

    def value_map_item(pts):
        vm = pts.get_data("r")[0].entity_type.value_map
        vm[1] = "Z"
        return dict(vm.map)

    def color_map_name(pts):
        cm = pts.get_data("f")[0].entity_type.color_map
        cm.name = "cm1.TBL"
        return cm.name

    def group_name(pts):
        pg = pts.property_groups[0]
        pg.name = "renamed"
        return sorted(g.name for g in pts.property_groups)

    readers = {
        "value_map-item": lambda pts: dict(pts.get_data("r")[0].entity_type.value_map.map),
        "color_map-name": lambda pts: pts.get_data("f")[0].entity_type.color_map.name,
        "property_group-name": lambda pts: sorted(g.name for g in pts.property_groups),
    }
    for label, edit in (("value_map-item", value_map_item), ("color_map-name", color_map_name), ("property_group-name", group_name)):
        case = {"cls": "aux", "attr": label, "session": "later"}
        if path.exists():
            os.remove(path)
        try:
            with Workspace.create(path) as ws:
                build(ws)
            with Workspace(str(path), mode="r+") as ws:
                try:
                    live = edit(ws.get_entity("pts")[0])
                except Exception:  # noqa: BLE001   not accepted: nothing to check
                    ctx.count("assignment_rejected")
                    continue
            with Workspace(str(path), mode="r") as ws:
                back = readers[label](ws.get_entity("pts")[0])
            ctx.case(case, nontrivial=True, sample_cap=3)
            ctx.count("pairs_checked")
            if back != live:
                ctx.fail(case, f"{label}: accepted (live value {live}) but a fresh reader sees {back}", f"C03:lost:{label}")
        except Exception as e:  # noqa: BLE001
            ctx.fail(case, f"{label}: assign/close/re-read raised {type(e).__name__}: {str(e)[:100]}", f"C03:raises:{label}:{type(e).__name__}")
    if path.exists():
        os.remove(path)


def run(ctx: Ctx):
    import warnings
    warnings.filterwarnings("ignore")
    ctx.extra["generated_tables"] = regenerate()
    sweep(ctx)
    orders(ctx)
    ctx.traces = ctx.hist.get("pairs_checked", 0) + ctx.hist.get("orders_checked", 0)
    attr_writer(ctx)
    aux_assignments(ctx)


def replay(ctx: Ctx, payload):
    run(ctx)
