"""C20 — linked surveys stay mutually consistent.

Correspondence: the concrete survey class pairs (receivers/transmitters, receivers/base
stations, potential/current electrodes) are discovered by reflection over `geoh5py.objects`.
For every pair x both linking directions, random sequences of {edit a shared parameter through
a random side, close + re-open, copy through a random side (plain, masked via `mask=` or
`copy_from_extent`, into the same or another workspace)} are applied to the REAL objects.
After every step the harness reads, on the real objects, the partner identifiers and the
parameters seen through both sides (live `metadata` dicts), and the same from a byte copy of
the flushed file opened with a fresh `Workspace` (stored state).  The same sequence is replayed
on the Lean model `Pair` (Model/Pair.lean) and the two snapshots must be equal (uuids
canonicalised to small integers in order of first appearance).  Independently of the model an
oracle checks the property on the real objects and reports concrete violations (`ctx.fail`).
"""
from __future__ import annotations

import inspect
import os
import shutil
import uuid

import numpy as np

from harness.core import Ctx

ID = "C20"
LEAN_MODULES = ["GeoVerif.Props.C20"]
THEOREMS = [
    "GeoVerif.Pair.link_symmetric",
    "GeoVerif.Pair.link_shares",
    "GeoVerif.Pair.link_params",
    "GeoVerif.Pair.edit_visible_and_stored",
    "GeoVerif.Pair.edit_keeps_ids",
    "GeoVerif.Pair.edit_frame",
    "GeoVerif.Pair.reopen_view",
    "GeoVerif.Pair.reopen_resolves",
    "GeoVerif.Pair.copy_links_copies",
    "GeoVerif.Pair.copy_carries_params",
    "GeoVerif.Pair.copy_without_link_data",
    "GeoVerif.Pair.consistent_stored",
    "GeoVerif.Pair.consistent_linked_of_partner",
    "GeoVerif.Pair.step_consistent",
    "GeoVerif.Pair.run_consistent",
    "GeoVerif.Pair.run_keeps_links",
    "GeoVerif.Pair.asFound_edit_not_stored",
]
RULE = (
    "every concrete survey class pair found by reflection (EM: grouped by default_receiver_type, side by `type`; DC: "
    "BaseElectrode subclasses) in every geometry variant (tipper: base stations with n or 1 vertices; large-loop / DC: "
    "with and without the Transmitter ID / A-B Cell ID link data) x both linking directions (a third of the EM and tipper pairs "
    "linked in the constructor call of the second side, Cls.create(..., partner=other)) x random sequences: optional "
    "pre-link edit, link, then up to 5 of {edit (components added to the receivers, unit, input_type, channels, loop_radius, relative_to_bearing, pitch, "
    "timing_mark, free key set/delete - whichever the class has; direct-current pairs have no shared parameter and get no edits), re-open, copy (plain / mask= / "
    "copy_from_extent, same / other workspace) of any existing pair incl. copies}, an epilogue re-pairing side A with a new partner "
    "from either side, and after every operation the components each receivers entity was given must still be listed and "
    "readable; each pair is first probed with the "
    "witness of asFound_edit_not_stored to select the write-through variant of the model; distinct by hash of "
    "(pair, direction, ops); non-trivial when the sequence has an edit after the link and a re-open or copy"
)
ASSUMPTIONS = [
    "direct-current electrodes: their metadata holds the two identifiers only; a free key assigned through one electrode's metadata is not a shared survey parameter and is not exercised (it is written for that electrode only although both live objects show it until the next re-open: recorded in DESIGN.md as observed, not claimed)",
    "parameter values are compared as repr() strings of JSON-able Python values (floats are k+0.5 tokens, no arithmetic)",
    "uuid-valued and None-valued metadata entries other than the partner identifiers ('Tx ID property', 'Property groups') are not compared",
    "before linking, direct-current electrodes have no metadata at all; the model's unlinked state (own identifier recorded) is only observed for EM pairs",
    "geometry of masked copies (which vertices/cells survive) is checked by the oracle only as far as the partner references need (loops / dipoles referred to exist on the copied partner)",
    "one process, one writer; every workspace is closed and re-opened by 're-open'",
    "an entity is (workspace, uuid): copy_to_parent keeps the uuid when the target workspace does not have it yet, so 'not the originals' is checked on entity identity (workspace + object), not on the uuid alone",
    "copy_from_extent returning None (nothing selected; seen for a single tipper base station whose only vertex counts as an orphan of a Curve) is 'no copy made': counted in extent_copies_selecting_nothing, world unchanged",
    "large-loop loop names: the copies must agree with each other and sit on the right loop geometrically; that the names equal the source's names is not required (they are regenerated as 'Loop <value>' on a copy of a masked copy; counted in loop_names_regenerated_on_copy)",
]
LEVEL_TEXT = (
    "Lean theorems over an executable two-sided model (live shared/split metadata records + stored records per side): "
    "linking records both identifiers live and stored on both sides and makes the record shared (link_symmetric, link_shares), "
    "an edit through either side of a linked pair is visible through both and stored for both (edit_visible_and_stored, "
    "edit_keeps_ids, edit_frame), re-opening shows the same records and resolves the partner (reopen_view, reopen_resolves), "
    "copies reference each other and not the originals under the explicit preconditions partner-resolves and link-data-exists "
    "(copy_links_copies, copy_without_link_data), and the invariant Consistent / linkedness is preserved by every operation "
    "sequence by induction (run_consistent, run_keeps_links). The non write-through setter found on direct-current electrodes is "
    "refuted by asFound_edit_not_stored. Tied to the code by differential runs on all class pairs."
)
LEVEL_NOTE = "Trusted: Lean kernel, harness (pair discovery, canonicalisation, snapshot readers), h5py/HDF5. The model abstracts geometry and data children; masks only enter through the link-data precondition."
TECHNIQUE = "Lean 4 invariant proof by induction over operation sequences of an executable aliasing model + differential correspondence on reflected class pairs"

N_LINE = 8
VARIANT: dict = {}          # pair name -> write-through? (probed)


# ----------------------------------------------------------------------------------
# discovery
# ----------------------------------------------------------------------------------

def discover(scratch):
    """[(descriptor)] for every concrete pair and geometry variant; unpaired classes listed too."""
    from geoh5py import objects
    from geoh5py.objects import Curve
    from geoh5py.objects.surveys.direct_current import BaseElectrode
    from geoh5py.objects.surveys.electromagnetics.base import TYPE_MAP, BaseEMSurvey
    from geoh5py.workspace import Workspace

    concrete = sorted(
        (c for c in vars(objects).values()
         if inspect.isclass(c) and not inspect.isabstract(c) and hasattr(c, "default_type_uid")),
        key=lambda c: c.__name__)
    em = [c for c in concrete if issubclass(c, BaseEMSurvey)]
    dc = [c for c in concrete if issubclass(c, BaseElectrode)]
    pairs, unpaired = [], []
    path = scratch / "c20_discover.geoh5"
    v = np.c_[np.arange(3.0), np.zeros(3), np.zeros(3)]
    try:
        with Workspace.create(path) as ws:
            info = {}
            for c in em:
                e = c.create(ws, vertices=v)
                info[c] = (e.type, e.default_receiver_type, getattr(e, "base_transmitter_type", Curve))
            groups: dict = {}
            for c, (typ, rx, _) in info.items():
                groups.setdefault(rx, {"A": None, "B": []})
                if typ == "Receivers":
                    groups[rx]["A"] = c
                else:
                    groups[rx]["B"].append((c, typ))
            for rx, g in sorted(groups.items(), key=lambda kv: kv[0].__name__):
                if g["A"] is None:
                    unpaired += [c.__name__ for c, _ in g["B"]]
                    continue
                if not g["B"]:
                    unpaired.append(g["A"].__name__)
                    continue
                for cb, typ in g["B"]:
                    base = {"A": g["A"].__name__, "B": cb.__name__, "kind": "em", "keyA": "Receivers", "keyB": typ,
                            "attrB": TYPE_MAP[typ], "attrA": "receivers"}
                    if hasattr(g["A"], "tx_id_property"):
                        pairs.append({**base, "geom": "largeloop", "linkdata": True})
                        pairs.append({**base, "geom": "largeloop", "linkdata": False})
                    elif not issubclass(info[cb][2], Curve):
                        pairs.append({**base, "geom": "line", "linkdata": True})
                        pairs.append({**base, "geom": "single", "linkdata": True})
                    else:
                        pairs.append({**base, "geom": "line", "linkdata": True})
            a_dc = [c for c in dc if type(c.potential_electrodes) is property and c.potential_electrodes.fset is None]
            b_dc = [c for c in dc if c not in a_dc]
            for ca in a_dc:
                for cb in b_dc:
                    base = {"A": ca.__name__, "B": cb.__name__, "kind": "dc", "keyA": "Potential Electrodes",
                            "keyB": "Current Electrodes", "attrB": "current_electrodes", "attrA": "potential_electrodes",
                            "geom": "dc"}
                    pairs.append({**base, "linkdata": True})
                    pairs.append({**base, "linkdata": False})
    finally:
        if path.exists():
            os.remove(path)
    for d in pairs:
        d["name"] = f"{d['A']}/{d['B']}"
        d["variant"] = d["geom"] + ("" if d["linkdata"] else "-nolinkdata")
    return pairs, unpaired


# ----------------------------------------------------------------------------------
# building the real entities
# ----------------------------------------------------------------------------------

def build(desc, ws, kw_side=None):
    """`kw_side`: that side is created second and names its partner in the constructor call (`Cls.create(..., partner=other)`)
    instead of being linked by an assignment afterwards."""
    from geoh5py import objects
    ca, cb = getattr(objects, desc["A"]), getattr(objects, desc["B"])
    g = desc["geom"]
    if g in ("line", "single"):
        x = np.arange(float(N_LINE))
        v = np.c_[x, np.zeros(N_LINE), np.zeros(N_LINE)]
        vb = v + np.r_[0.0, 0.0, 1.0]
        vb = vb if g == "line" else vb[:1]
        if kw_side == "A":
            b = cb.create(ws, vertices=vb, name="side_b")
            a = ca.create(ws, vertices=v, name="side_a", **{desc["attrB"]: b})
        elif kw_side == "B":
            a = ca.create(ws, vertices=v, name="side_a")
            b = cb.create(ws, vertices=vb, name="side_b", **{desc["attrA"]: a})
        else:
            a = ca.create(ws, vertices=v, name="side_a")
            b = cb.create(ws, vertices=vb, name="side_b")
        return a, b
    if g == "largeloop":
        verts, loops, txid, cells, count = [], [], [], [], 0
        for ind in range(2):
            off = 500.0 * ind
            x = np.linspace(-1000, 1000, 5)
            verts.append(np.c_[x, np.zeros(5) + off, np.zeros(5)])
            txid.append(np.ones(5) * (ind + 1))
            loc = np.array([[-100.0, -100.0], [-100.0, 100.0], [100.0, 100.0], [100.0, -100.0]])
            loops.append(np.c_[loc[:, 0], loc[:, 1] + off, np.zeros(4)])
            cells.append(np.c_[np.arange(3) + count, np.arange(3) + count + 1])
            cells.append(np.c_[count + 3, count])
            count += 4
        a = ca.create(ws, vertices=np.vstack(verts), name="side_a")
        b = cb.create(ws, vertices=np.vstack(loops), cells=np.vstack(cells), name="side_b")
        if desc["linkdata"]:
            b.tx_id_property = b.parts + 1
            a.tx_id_property = np.hstack(txid)
        return a, b
    # direct current: two lines (y = 0, 1) of 6 electrodes
    n = 6
    x, y = np.meshgrid(np.arange(float(n)), np.arange(2.0))
    v = np.c_[x.ravel(), y.ravel(), np.zeros(2 * n)]
    parts = np.kron(np.arange(2), np.ones(n)).astype(int)
    b = cb.create(ws, name="side_b", vertices=v, parts=parts)
    b.add_default_ab_cell_id()
    dip, cid = [], []
    for val in b.ab_cell_id.values:
        cell = int(val) - 1
        for d in range(2):
            ids = b.cells[cell, :] + 2 + d
            if any(ids > 2 * n - 1) or len(np.unique(parts[np.r_[b.cells[cell, 0], ids]])) > 1:
                continue
            dip.append(ids)
            cid.append(val)
    a = ca.create(ws, name="side_a", vertices=v, cells=np.vstack(dip).astype("uint32"))
    if desc["linkdata"]:
        a.ab_cell_id = np.hstack(cid).astype("int32")
    return a, b


def loop_names(d):
    vm = d.entity_type.value_map.map
    vm = dict(vm) if not isinstance(vm, dict) else vm
    return {int(k): _dec(v) for k, v in vm.items()}


def selection(desc, side, sel, ent):
    """(mask over ent's vertices, extent selecting the same vertices, loop names selected / all loop names)."""
    g = desc["geom"]
    n = ent.n_vertices
    want = allnames = None
    m = np.ones(n, dtype=bool)
    if g in ("line", "single"):
        if n > 3:
            lo = sel % (n - 3)
            hi = lo + 3 + (sel // 7) % (n - lo - 2)
            m = np.zeros(n, dtype=bool)
            m[lo:hi] = True
    elif g == "largeloop":
        d = ent.tx_id_property
        if d is not None and d.values is not None:
            vals = sorted({int(x) for x in d.values if int(x) != 0})
            names = loop_names(d)
            allnames = sorted(names.get(v, f"?{v}") for v in vals)
            chosen = vals[sel % len(vals)]
            want = [names.get(chosen, f"?{chosen}")]
            if side == "A":
                m = np.asarray(d.values) == chosen
            else:
                m = np.zeros(n, dtype=bool)
                m[ent.cells[np.asarray(d.values) == chosen, :]] = True
        else:
            ys = sorted(set(ent.vertices[:, 1] // 250))
            m = (ent.vertices[:, 1] // 250) == ys[sel % len(ys)]
    else:
        ys = sorted(set(ent.vertices[:, 1]))
        m = ent.vertices[:, 1] == ys[sel % len(ys)]
    xy = ent.vertices[m][:, :2]
    extent = np.vstack([xy.min(axis=0) - 0.25, xy.max(axis=0) + 0.25])
    return m, extent, want, allnames


# ----------------------------------------------------------------------------------
# observation
# ----------------------------------------------------------------------------------

class Uids:
    """canonical entity numbers; an entity is (workspace, uuid): a copy into another workspace keeps its uuid"""

    def __init__(self):
        self.map = {}

    def num(self, ws, u):
        if u is None:
            return None
        if isinstance(u, str):
            try:
                u = uuid.UUID(u)
            except ValueError:
                return "str:" + u
        if (ws, u) not in self.map:
            return "unknown:" + str(u)[:8]
        return self.map[(ws, u)]

    def add(self, ws, u, n):
        self.map[(ws, u)] = n


def md_dict(desc, ent):
    m = ent.metadata
    if m is None:
        return None
    return m.get("EM Dataset") if desc["kind"] == "em" else m


def rec_of(desc, ent, uids, ws):
    d = md_dict(desc, ent)
    if d is None:
        return {"idA": None, "idB": None, "p": {}}
    skip = (desc["keyA"], desc["keyB"], "Property groups")     # the components of an entity: judged by `check_components`
    return {"idA": uids.num(ws, d.get(desc["keyA"])), "idB": uids.num(ws, d.get(desc["keyB"])),
            "p": {k: repr(v) for k, v in d.items()
                  if k not in skip and not isinstance(v, (uuid.UUID, type(None)))}}


def partner_of(desc, ent, side):
    return getattr(ent, desc["attrB"] if side == "A" else desc["attrA"])


# ----------------------------------------------------------------------------------
# edits
# ----------------------------------------------------------------------------------

EM_PARAMS = ["unit", "input_type", "channels", "loop_radius", "relative_to_bearing", "pitch", "timing_mark", "custom", "custom",
             "components", "components"]


COMPONENTS: dict = {}       # id(workspace) -> entity uid -> names of the components added through the harness


def check_components(run, where):
    """An entity keeps the components it was given, whatever is edited through its partner and across re-opens."""
    for p in run.pairs:
        for side in "AB":
            ent = p["ents"][side]
            # (a copy in another workspace keeps the identifier of its source: the registry is kept per file)
            names = [n for n in COMPONENTS.get(str(ent.workspace.h5file), {}).get(ent.uid, []) if n != "<copy>"]
            is_copy = "<copy>" in COMPONENTS.get(str(ent.workspace.h5file), {}).get(ent.uid, [])
            if not names:
                continue
            try:
                have = set((ent.components or {}).keys())
                listed = set(ent.metadata["EM Dataset"].get("Property groups") or [])
            except Exception as e:  # noqa: BLE001
                run.fail(f"reading the components of side {side} raised {type(e).__name__}: {str(e)[:80]} ({where})", "components-raise")
                continue
            lost = sorted(set(names) - have) or sorted(set(names) - listed)
            if lost:
                run.fail(f"side {side} lost its components {lost} ({where}): components {sorted(have)}, listed {sorted(listed)}",
                         "components-lost" + (":linked-from-the-partner" if where == "after link" or is_copy else ""))
                COMPONENTS.get(str(ent.workspace.h5file), {}).pop(ent.uid, None)      # reported once


def available_params(desc):
    from geoh5py import objects
    if desc["kind"] == "dc":
        # direct-current electrodes have no shared survey parameters: their metadata holds the two identifiers only.
        # Free keys put into that dictionary are not covered by the property (see DESIGN.md, observed/unclaimed).
        return []
    ca, cb = getattr(objects, desc["A"]), getattr(objects, desc["B"])
    return [p for p in EM_PARAMS if p == "custom" or (hasattr(ca, p) and hasattr(cb, p))
            or (p == "components" and hasattr(ca, "add_components_data"))]


def apply_edit(desc, ent, param, k):
    """Perform the edit on the real entity; returns (model key/value pairs, getter check)."""
    if desc["kind"] == "dc":
        val = f"text-{k}"
        ent.metadata = {"Comment": val}
        return [("Comment", repr(val))], None
    if param == "unit":
        val = ent.default_units[k % len(ent.default_units)]
        ent.unit = val
        return [("Unit", repr(val))], ("unit", val)
    if param == "input_type":
        val = ent.default_input_types[k % len(ent.default_input_types)]
        ent.input_type = val
        return [("Input type", repr(val))], ("input_type", val)
    if param == "channels":
        # once components exist (one data set per channel) the number of channels stays what it is
        n_ch = len(ent.channels) if (ent.channels and any(COMPONENTS.values())) else 1 + k % 3
        val = [float(k % 5 + i) + 0.5 for i in range(n_ch)]
        ent.channels = val
        return [("Channels", repr(val))], ("channels", val)
    if param == "loop_radius":
        val = float(k) + 0.5
        ent.loop_radius = val
        return [("Loop radius", repr(val))], ("loop_radius", val)
    if param == "relative_to_bearing":
        val = bool(k % 2)
        ent.relative_to_bearing = val
        return [("Angles relative to bearing", repr(val))], ("relative_to_bearing", val)
    if param == "pitch":
        val = float(k) + 0.5
        ent.pitch = val
        return [("Pitch value", repr(val)), ("Pitch property", None)], ("pitch", val)
    if param == "timing_mark":
        val = float(k) + 0.5
        ent.timing_mark = val
        return [("Waveform", repr({"Timing mark": val}))], ("timing_mark", val)
    if param == "components":
        # a component (a property group of one data set per channel) is added to the entity: its name joins the shared
        # 'Property groups' list
        have = list(ent.metadata["EM Dataset"].get("Property groups") or [])
        name = f"comp{k}"
        if name in have or name in [g.name for g in (ent.property_groups or [])] or not ent.n_vertices \
                or "Receivers" not in type(ent).__name__:
            # components are data of the receivers (groups on both sides of a pair share one name list: not exercised)
            val = f"text-{k}"
            ent.edit_em_metadata({"Comment": val})
            return [("Comment", repr(val))], None
        out = []
        if not ent.channels:
            ent.channels = [float(k % 5) + 0.5]
            out.append(("Channels", repr(ent.channels)))
        data = {f"{name}_{i}": {"values": np.full(ent.n_vertices, float(i))} for i in range(len(ent.channels))}
        ent.add_components_data({name: data})
        COMPONENTS.setdefault(str(ent.workspace.h5file), {}).setdefault(ent.uid, []).append(name)
        if not out:
            val = f"text-{k}"
            ent.edit_em_metadata({"Comment": val})
            out.append(("Comment", repr(val)))
        return out, None
    val = None if k % 4 == 3 else f"text-{k}"
    ent.edit_em_metadata({"Comment": val})
    return [("Comment", None if val is None else repr(val))], None


# ----------------------------------------------------------------------------------
# case generation
# ----------------------------------------------------------------------------------

def gen_case(rng, desc, direction, max_ops=6):
    params = available_params(desc)
    ops = []
    # a third of the pairs that allow it are linked in the constructor call of the second side, not by a later assignment
    kwlink = desc.get("geom") in ("line", "single") and rng.random() < 0.34
    if desc["kind"] == "em" and rng.random() < 0.35 and not kwlink:
        ops.append({"t": "edit", "i": 0, "s": rng.choice("AB"), "param": rng.choice(params), "k": rng.randrange(40)})
    ops.append({"t": "link", "i": 0, "s": direction})
    npairs = 1
    for _ in range(rng.randrange(2, max_ops)):
        r = rng.random()
        if r < 0.4 and params:
            ops.append({"t": "edit", "i": rng.randrange(npairs), "s": rng.choice("AB"), "param": rng.choice(params),
                        "k": rng.randrange(40)})
        elif r < 0.6:
            ops.append({"t": "reopen"})
        else:
            ops.append({"t": "copy", "i": rng.randrange(npairs), "s": rng.choice("AB"),
                        "how": rng.choice(["plain", "mask", "extent"]), "ws": rng.choice(["same", "same", "other"]),
                        "sel": rng.randrange(40)})
            if desc["linkdata"]:
                npairs += 1
    return {"pair": desc["name"], "variant": desc["variant"], "dir": direction, "ops": ops, "lazy": rng.random() < 0.5,
            "repair": rng.choice(["no", "cached", "uncached"]), "repair_from": rng.choice(["A", "partner"]), "kwlink": kwlink}


def witness(desc):
    return {"pair": desc["name"], "variant": desc["variant"], "dir": "A",
            "ops": [{"t": "link", "i": 0, "s": "A"},
                    {"t": "edit", "i": 0, "s": "B", "param": "custom", "k": 1},
                    {"t": "reopen"}]}


# ----------------------------------------------------------------------------------
# running one case on the real objects
# ----------------------------------------------------------------------------------

class Run:
    def __init__(self, ctx, desc, case, tag):
        self.ctx, self.desc, self.case = ctx, desc, case
        self.paths = {"main": ctx.scratch / f"c20_{tag}_main.geoh5", "other": ctx.scratch / f"c20_{tag}_other.geoh5"}
        self.snap_path = ctx.scratch / f"c20_{tag}_snap.geoh5"
        self.wss = {}
        self.uids = Uids()
        self.next = 0
        self.pairs = []      # {"ws": name, "A": uid, "B": uid, "ents": {"A": obj, "B": obj}}
        self.lones = []      # {"ws", "s", "uid", "ent"}
        self.failures = []   # (what, signature)
        self.model_ops = []
        self.marks = []
        self.snaps = []
        self.keys = set()

    # -- helpers
    def sig(self, what):
        if what.startswith("components-lost:linked-from-the-partner"):
            return "C20:em-pairs:" + what          # one recorded finding for every pair of classes
        return f"C20:{self.desc['name']}:{what}"

    def fail(self, what, sig):
        self.failures.append((f"[{self.desc['variant']}] {what}", self.sig(sig)))

    def ws(self, name):
        from geoh5py.workspace import Workspace
        if name not in self.wss:
            p = self.paths[name]
            self.wss[name] = Workspace(p) if p.exists() else Workspace.create(p)
        return self.wss[name]

    def close_all(self):
        for w in self.wss.values():
            try:
                w.close()
            except Exception:  # noqa: BLE001
                pass
        self.wss = {}

    def cleanup(self):
        self.close_all()
        for p in list(self.paths.values()) + [self.snap_path]:
            if p.exists():
                os.remove(p)

    def alloc(self, ws, ua, ub):
        na, nb = self.next, self.next + 1
        self.next += 2
        if ua is not None:
            self.uids.add(ws, ua, na)
        if ub is not None:
            self.uids.add(ws, ub, nb)
        return na, nb

    # -- snapshots
    def stored_records(self):
        """{uid: (record, partner uid resolved from the file or None)} from byte copies of the flushed files"""
        from geoh5py.workspace import Workspace
        out = {}
        for name, w in self.wss.items():
            w.geoh5.flush()
            shutil.copyfile(self.paths[name], self.snap_path)
            with Workspace(self.snap_path, mode="r") as fresh:
                for p in self.pairs:
                    if p["ws"] != name:
                        continue
                    for s in "AB":
                        e = fresh.get_entity(p[s])[0]
                        if e is None:
                            out[(name, p[s])] = ({"idA": "missing", "idB": "missing", "p": {}}, None)
                            continue
                        try:
                            q = partner_of(self.desc, e, s)
                        except Exception:  # noqa: BLE001
                            q = None
                        out[(name, p[s])] = (rec_of(self.desc, e, self.uids, name), getattr(q, "uid", None))
            os.remove(self.snap_path)
        return out

    def snapshot(self):
        stored = self.stored_records()
        snap = {"pairs": [], "lones": []}
        for p in self.pairs:
            snap["pairs"].append({
                "a": self.uids.num(p["ws"], p["A"]), "b": self.uids.num(p["ws"], p["B"]),
                "liveA": rec_of(self.desc, p["ents"]["A"], self.uids, p["ws"]),
                "liveB": rec_of(self.desc, p["ents"]["B"], self.uids, p["ws"]),
                "storedA": stored[(p["ws"], p["A"])][0], "storedB": stored[(p["ws"], p["B"])][0]})
        for l in self.lones:
            snap["lones"].append({"s": l["s"], "u": self.uids.num(l["ws"], l["uid"]), "rec": rec_of(self.desc, l["ent"], self.uids, l["ws"])})
        return snap, stored

    def mark(self):
        snap, stored = self.snapshot()
        self.marks.append(len(self.model_ops))
        self.snaps.append(snap)
        return snap, stored

    # -- oracle pieces (on the real objects, independent of the model)
    def linked_pairs(self, snap_before):
        return [i for i, q in enumerate(snap_before["pairs"])
                if q["liveA"]["idB"] == q["b"] and q["liveB"]["idA"] == q["a"]] if snap_before else []

    def check_ids(self, i, snap, stored, where):
        q, p = snap["pairs"][i], self.pairs[i]
        for lab in ("liveA", "liveB", "storedA", "storedB"):
            if q[lab]["idA"] != q["a"] or q[lab]["idB"] != q["b"]:
                self.fail(f"after {where}: {lab} of pair {i} records ({q[lab]['idA']}, {q[lab]['idB']}), entities are ({q['a']}, {q['b']})",
                          f"{where}-ids-{'live' if lab.startswith('live') else 'stored'}")
        for s, o in (("A", "B"), ("B", "A")):
            if self.case.get("lazy") and where != "final":
                # 'lazy' cases do not read the partner attribute of the live objects between operations (reading it
                # caches the link on the object): the live resolution is checked once, at the end of the case
                if stored[(p["ws"], p[s])][1] != p[o]:
                    self.fail(f"after {where}: side {s} of pair {i}, read from the file, resolves its partner to {stored[(p['ws'], p[s])][1]}",
                              f"{where}-unresolved-file")
                continue
            try:
                live_partner = partner_of(self.desc, p["ents"][s], s)
            except Exception as e:  # noqa: BLE001
                live_partner = e
            if live_partner is not p["ents"][o]:
                self.fail(f"after {where}: side {s} of pair {i} resolves its partner to {live_partner!r}", f"{where}-unresolved-live")
            if stored[(p["ws"], p[s])][1] != p[o]:
                self.fail(f"after {where}: side {s} of pair {i}, read from the file, resolves its partner to {stored[(p['ws'], p[s])][1]}",
                          f"{where}-unresolved-file")

    # -- operations
    def start(self):
        w = self.ws("main")
        self.kwlink = bool(self.case.get("kwlink")) and self.case["ops"] and self.case["ops"][0]["t"] == "link"
        a, b = build(self.desc, w, self.case["ops"][0]["s"] if self.kwlink else None)
        if self.kwlink:
            self.ctx.count("linked-in-the-constructor-call")
        self.alloc("main", a.uid, b.uid)
        self.pairs.append({"ws": "main", "A": a.uid, "B": b.uid, "ents": {"A": a, "B": b}})
        ra, rb = rec_of(self.desc, a, self.uids, "main"), rec_of(self.desc, b, self.uids, "main")
        self.init = {"pa": ra["p"], "pb": rb["p"]}
        self.keys |= set(ra["p"]) | set(rb["p"])

    def do_link(self, op):
        p = self.pairs[op["i"]]
        src, dst = p["ents"][op["s"]], p["ents"]["B" if op["s"] == "A" else "A"]
        if getattr(self, "kwlink", False) and op["i"] == 0 and not getattr(self, "kw_done", False):
            self.kw_done = True          # the link was made when side `s` was created
        else:
            setattr(src, self.desc["attrB"] if op["s"] == "A" else self.desc["attrA"], dst)
        self.model_ops.append({"t": "link", "i": op["i"], "s": op["s"]})
        snap, stored = self.mark()
        self.check_ids(op["i"], snap, stored, "link")

    def do_edit(self, op, prev):
        p = self.pairs[op["i"]]
        ent = p["ents"][op["s"]]
        other = "B" if op["s"] == "A" else "A"
        was_linked = op["i"] in self.linked_pairs(prev)
        try:
            kvs, getter = apply_edit(self.desc, ent, op["param"], op["k"])
        except Exception as e:  # noqa: BLE001
            self.fail(f"editing '{op['param']}' through side {op['s']} raised {type(e).__name__}: {str(e)[:120]}",
                      f"edit-raises:{op['param']}:{type(e).__name__}")
            return False
        for k, v in kvs:
            self.keys.add(k)
            self.model_ops.append({"t": "edit", "i": op["i"], "s": op["s"], "k": k, "v": v})
        snap, stored = self.mark()
        if was_linked:
            q = snap["pairs"][op["i"]]
            for k, v in kvs:
                if q["live" + op["s"]]["p"].get(k) != v:
                    self.fail(f"edit {k}={v} through side {op['s']} is not seen through that side ({q['live' + op['s']]['p'].get(k)})", "edit-not-applied")
                if q["live" + other]["p"].get(k) != v:
                    self.fail(f"edit {k}={v} through side {op['s']} is not visible through side {other} ({q['live' + other]['p'].get(k)})",
                              "edit-not-visible-on-partner")
                if q["stored" + op["s"]]["p"].get(k) != v:
                    self.fail(f"edit {k}={v} through side {op['s']} is not stored for that side ({q['stored' + op['s']]['p'].get(k)})", "edit-not-stored")
                if q["stored" + other]["p"].get(k) != v:
                    self.fail(f"edit {k}={v} through side {op['s']} is not stored for side {other} ({q['stored' + other]['p'].get(k)})",
                              "edit-not-stored-on-partner")
            if getter is not None:
                for s in "AB":
                    try:
                        got = getattr(p["ents"][s], getter[0])
                    except Exception as e:  # noqa: BLE001
                        got = e
                    if not (got == getter[1]):
                        self.fail(f"{getter[0]} read through side {s} gives {got!r} after setting {getter[1]!r} through side {op['s']}",
                                  "edit-getter")
            self.check_ids(op["i"], snap, stored, "edit")
        return True

    def do_reopen(self, prev):
        linked = self.linked_pairs(prev)
        self.close_all()
        for p in self.pairs:
            w = self.ws(p["ws"])
            for s in "AB":
                p["ents"][s] = w.get_entity(p[s])[0]
        for l in self.lones:
            l["ent"] = self.ws(l["ws"]).get_entity(l["uid"])[0]
        self.model_ops.append({"t": "reopen"})
        snap, stored = self.mark()
        for i in linked:
            self.check_ids(i, snap, stored, "reopen")
            for s in "AB":
                if snap["pairs"][i]["live" + s]["p"] != prev["pairs"][i]["live" + s]["p"]:
                    self.fail(f"after re-open side {s} of pair {i} sees {snap['pairs'][i]['live' + s]['p']}, before {prev['pairs'][i]['live' + s]['p']}",
                              "reopen-params-changed")

    def do_copy(self, op, prev):
        p = self.pairs[op["i"]]
        s = op["s"]
        o = "B" if s == "A" else "A"
        ent = p["ents"][s]
        was_linked = op["i"] in self.linked_pairs(prev)
        target = p["ws"] if op["ws"] == "same" else ("other" if p["ws"] == "main" else "main")
        parent = None if op["ws"] == "same" else self.ws(target)
        mask, extent, want, allnames = selection(self.desc, s, op["sel"], ent)
        want = allnames if op["how"] == "plain" else want
        try:
            if op["how"] == "plain":
                new = ent.copy(parent=parent)
            elif op["how"] == "mask":
                new = ent.copy(parent=parent, mask=mask)
            else:
                new = ent.copy_from_extent(extent, parent=parent)
            partner = partner_of(self.desc, new, s) if new is not None else None
        except Exception as e:  # noqa: BLE001
            self.fail(f"{op['how']} copy through side {s} raised {type(e).__name__}: {str(e)[:120]}",
                      f"copy-raises:{op['how']}:{type(e).__name__}")
            return False
        if new is None and op["how"] == "extent":
            # documented outcome "nothing selected": no copy exists, the world is unchanged.  (Seen for a
            # single tipper base station, which is a Curve by MRO: its only vertex is an orphan.)
            key = f"{self.desc['name']}[{self.desc['variant']}] side {s}"
            none = self.ctx.extra.setdefault("extent_copies_selecting_nothing", {})
            none[key] = none.get(key, 0) + 1
            return True
        if new is None:
            self.fail(f"{op['how']} copy through side {s} returned None", f"copy-none:{op['how']}")
            return False
        expect_partner = was_linked and self.desc["linkdata"]
        self.model_ops.append({"t": "copy", "i": op["i"], "s": s, "na": self.next, "nb": self.next + 1, "ld": self.desc["linkdata"]})
        if partner is not None:
            ents = {s: new, o: partner}
            self.alloc(target, ents["A"].uid, ents["B"].uid)
            self.pairs.append({"ws": target, "A": ents["A"].uid, "B": ents["B"].uid, "ents": ents})
            # the copies carry the components of their sources (a copied pair is linked from the side that was copied: a loss
            # there is the recorded linking finding)
            for side_ in "AB":
                src_ = p["ents"][side_]
                names_ = [n for n in COMPONENTS.get(str(src_.workspace.h5file), {}).get(src_.uid, []) if n != "<copy>"]
                if names_ and op["how"] == "plain":
                    COMPONENTS.setdefault(str(ents[side_].workspace.h5file), {})[ents[side_].uid] = names_ + ["<copy>"]
        else:
            self.alloc(target, new.uid if s == "A" else None, new.uid if s == "B" else None)
            self.lones.append({"ws": target, "s": s, "uid": new.uid, "ent": new})
            if expect_partner:
                self.fail(f"{op['how']} copy through side {s} did not copy the partner", "copy-no-partner")
        snap, stored = self.mark()
        if partner is not None:
            j = len(self.pairs) - 1
            self.check_ids(j, snap, stored, "copy")
            q = snap["pairs"][j]
            olds = {prev["pairs"][op["i"]]["a"], prev["pairs"][op["i"]]["b"]}
            if {q["a"], q["b"]} & olds:
                self.fail("the copy re-uses an original entity as partner", "copy-reuses-original")
            if partner.workspace is not new.workspace or new.workspace is not self.ws(target):
                self.fail("the copied partner is not in the target workspace", "copy-partner-workspace")
            try:
                back = partner_of(self.desc, partner, o)
            except Exception as e:  # noqa: BLE001
                back = e
            if back is not new:
                self.fail(f"the copied partner resolves its partner to {back!r}, not to the copy", "copy-back-reference")
            self.check_refs(new, partner, s, want)
        # the originals are untouched
        if snap["pairs"][op["i"]] != prev["pairs"][op["i"]]:
            self.fail(f"copy changed the original pair: {snap['pairs'][op['i']]} was {prev['pairs'][op['i']]}", "copy-changed-original")
        return True

    def check_refs(self, new, partner, s, want):
        """large-loop: the loops the copied receivers refer to are on the copied transmitters (and v.v.); DC: dipoles."""
        g = self.desc["geom"]
        ents = {s: new, ("B" if s == "A" else "A"): partner}
        if g == "largeloop":
            a, b = ents["A"].tx_id_property, ents["B"].tx_id_property
            if a is None or b is None or a.values is None or b.values is None:
                self.fail("a copied large-loop entity has no Transmitter ID data", "copy-loops")
                return

            def names(d):
                vm = loop_names(d)
                return sorted({vm.get(int(x), f"?{int(x)}") for x in d.values})
            got_a, got_b = names(a), names(b)
            if got_a != got_b or len(got_a) != len(want):
                self.fail(f"copied receivers refer to loops {got_a}, copied transmitters carry loops {got_b}, selected {want}", "copy-loops")
            elif got_a != want:
                # referentially consistent, but the loop names were regenerated from the renumbered values
                # (copy of a masked copy): outside C20, recorded for the report
                self.ctx.extra["loop_names_regenerated_on_copy"] = self.ctx.extra.get("loop_names_regenerated_on_copy", 0) + 1
            if ents["B"].n_vertices != 4 * len(want):
                self.fail(f"copied transmitters have {ents['B'].n_vertices} vertices for loops {want}", "copy-loops")
            ida, idb = np.asarray(a.values), np.asarray(b.values)
            for v in sorted({int(x) for x in ida}):
                cells = ents["B"].cells[idb == v]
                ya = ents["A"].vertices[ida == v, 1]
                if cells.size == 0 or not np.allclose(ya, ents["B"].vertices[cells.flatten(), 1].mean()):
                    self.fail(f"copied receivers with Transmitter ID {v} (y={sorted(set(ya))}) do not sit on the copied loop with that id", "copy-loops")
        elif g == "dc":
            a, b = ents["A"].ab_cell_id, ents["B"].ab_cell_id
            if a is None or b is None or a.values is None or b.values is None:
                self.fail("a copied electrode object has no A-B Cell ID data", "copy-dipoles")
                return
            if not set(int(x) for x in a.values) <= set(int(x) for x in b.values):
                self.fail(f"copied potentials refer to dipoles {sorted(set(a.values))} not all on the copied currents {sorted(set(b.values))}",
                          "copy-dipoles")

    def execute(self):
        COMPONENTS.clear()
        self.start()
        prev = None
        for op in self.case["ops"]:
            if op.get("i", 0) >= len(self.pairs):
                continue
            ok = True
            if op["t"] == "link":
                self.do_link(op)
            elif op["t"] == "edit":
                ok = self.do_edit(op, prev)
            elif op["t"] == "reopen":
                self.do_reopen(prev)
            else:
                ok = self.do_copy(op, prev)
            self.ctx.count("op:" + op["t"] + (":" + op["how"] + ":" + op["ws"] if op["t"] == "copy" else ""))
            if not ok:
                break
            check_components(self, f"after {op['t']}")
            prev = self.snaps[-1] if self.snaps else None
        if self.case.get("lazy") and prev is not None and self.snaps:
            snap, stored = self.snapshot()
            for i in self.linked_pairs(snap):
                self.check_ids(i, snap, stored, "final")
        try:
            self.do_repair()
        except Exception as e:  # noqa: BLE001
            self.fail(f"linking side A to a new partner raised {type(e).__name__}: {str(e)[:100]}", "repair-raises")

    def do_repair(self):
        """Epilogue, oracle only (a third entity is outside the two-entity model): side A of the first pair is linked, from
        its own side, to a NEW partner of side B's class.  The new pair must record both identifiers on both entities, live
        and in the file, and each must resolve the other after re-opening."""
        d = self.desc
        if self.case.get("repair", "no") == "no" or d["kind"] != "em" or d["geom"] not in ("line", "single") or not self.pairs:
            return
        p = self.pairs[0]
        if p["ws"] != "main":
            return
        a, b_old = p["ents"]["A"], p["ents"]["B"]
        da = md_dict(d, a)
        if da is None or da.get(d["keyB"]) != b_old.uid:
            return                                   # not linked (the history never linked this pair)
        if self.case["repair"] == "cached":
            _ = partner_of(d, a, "A")                # the partner has been read once: it is cached on the entity
        w = self.ws("main")
        b2 = type(b_old).create(w, vertices=np.asarray(b_old.vertices).copy(), name="side_b2")
        if self.case.get("repair_from", "A") == "partner":
            setattr(b2, d["attrA"], a)          # the new partner names side A: side A must follow
        else:
            setattr(a, d["attrB"], b2)
        self.ctx.count("op:repair:" + self.case["repair"] + ":from-" + self.case.get("repair_from", "A"))
        ua, ub = a.uid, b2.uid

        def ids(ent):
            m = md_dict(d, ent)
            return (None, None) if m is None else (m.get(d["keyA"]), m.get(d["keyB"]))
        for lab, ent in (("side A", a), ("the new partner", b2)):
            if ids(ent) != (ua, ub):
                self.fail(f"after linking side A to a new partner, {lab} records {ids(ent)} instead of both identifiers", "repair-ids-live")
        pa_live = partner_of(d, a, "A")
        if getattr(pa_live, "uid", None) != ub:
            self.fail(f"after linking side A to a new partner (from {self.case.get('repair_from', 'A')}), side A still resolves its partner to "
                      f"{getattr(pa_live, 'uid', pa_live)} (the former partner)" , "repair-partner-stale")
        self.close_all()
        w = self.ws("main")
        a2, b2r = w.get_entity(ua)[0], w.get_entity(ub)[0]
        for lab, ent in (("side A", a2), ("the new partner", b2r)):
            if ent is None or ids(ent) != (ua, ub):
                self.fail(f"after linking side A to a new partner and re-opening, {lab} records {None if ent is None else ids(ent)}", "repair-ids-stored")
        if a2 is not None and b2r is not None:
            pa, pb = partner_of(d, a2, "A"), partner_of(d, b2r, "B")
            if getattr(pa, "uid", None) != ub or getattr(pb, "uid", None) != ua:
                self.fail(f"after re-pairing and re-opening the partners resolve to {getattr(pa, 'uid', pa)} / {getattr(pb, 'uid', pb)}", "repair-unresolved")
        # keep the runner's handles valid for the final checks
        for q in self.pairs:
            if q["ws"] == "main":
                for s_ in "AB":
                    q["ents"][s_] = w.get_entity(q[s_])[0]

    def model_line(self, wt):
        return {"m": "pair", "op": "run", "wt": wt, "carry": self.desc["kind"] == "em", "keys": sorted(self.keys),
                "a": 0, "b": 1,
                "pa": [{"k": k, "v": v} for k, v in sorted(self.init["pa"].items())],
                "pb": [{"k": k, "v": v} for k, v in sorted(self.init["pb"].items())],
                "ops": self.model_ops}


def _dec(x):
    return x.decode() if isinstance(x, bytes) else str(x)


def run_case(ctx, desc, case, tag):
    r = Run(ctx, desc, case, tag)
    try:
        r.execute()
    finally:
        r.cleanup()
    return r


def nontrivial(case):
    seen_link = False
    e = o = False
    for op in case["ops"]:
        if op["t"] == "link":
            seen_link = True
        elif seen_link and op["t"] == "edit":
            e = True
        elif seen_link:
            o = True
    return e and o


def probe(ctx, descs):
    """Select the write-through variant per pair with the witness of asFound_edit_not_stored."""
    for name in sorted({d["name"] for d in descs}):
        d = next(x for x in descs if x["name"] == name and x["linkdata"])
        r = run_case(ctx, d, witness(d), "probe")
        local = any(sig.endswith(":edit-not-stored-on-partner") for _, sig in r.failures)
        VARIANT[name] = not local
    ctx.extra["variant_selected"] = {k: ("write-through" if v else "asFound (edit stored for the editing side only)") for k, v in VARIANT.items()}


def process(ctx, cases, descs):
    import gc
    by = {(d["name"], d["variant"]): d for d in descs}
    probe(ctx, descs)
    runs = []
    for n, case in enumerate(cases):
        desc = by.get((case["pair"], case["variant"]))
        if desc is None:
            ctx.disagree(case, "pair not found by reflection", model=None, impl=sorted(k[0] for k in by))
            continue
        r = run_case(ctx, desc, case, str(n % 4))
        ctx.case(case, nontrivial(case))
        ctx.count("pair:" + desc["name"] + "[" + desc["variant"] + "]")
        ctx.count("dir:" + case["dir"])
        for what, sig in r.failures:
            ctx.fail(case, what, sig)
        runs.append((case, r))
        if n % 20 == 0:
            gc.collect()
    outs = ctx.driver.run([r.model_line(VARIANT.get(case["pair"], True)) for case, r in runs])
    for (case, r), out in zip(runs, outs):
        ctx.traces += 1
        if not isinstance(out, list):
            ctx.disagree(case, "Pair model rejected the operation list", model=out, impl=r.model_ops)
            continue
        for step, (m, snap) in enumerate(zip(r.marks, r.snaps)):
            mod = out[m - 1] if m >= 1 else None
            if mod != snap:
                ctx.disagree(case, f"Pair correspondence after API step {step} (model op {m})", model=mod, impl=snap)
                break


def run(ctx: Ctx):
    import warnings
    warnings.filterwarnings("ignore")
    descs, unpaired = discover(ctx.scratch)
    ctx.extra["pairs_found"] = sorted({d["name"] for d in descs})
    ctx.extra["variants"] = sorted({d["name"] + "[" + d["variant"] + "]" for d in descs})
    ctx.extra["unpaired_survey_classes"] = sorted(unpaired)
    per = ctx.n(3, 90)
    cases = []
    for d in descs:
        k = per if d["linkdata"] else max(1, per // 3)
        for direction in "AB":
            for _ in range(k):
                cases.append(gen_case(ctx.rng, d, direction))
    process(ctx, cases, descs)


def replay(ctx: Ctx, payload):
    import warnings
    warnings.filterwarnings("ignore")
    descs, _ = discover(ctx.scratch)
    process(ctx, [payload["case"]], descs)
