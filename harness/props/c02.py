"""C02 — every file the library writes is a structurally valid geoh5 file.

The raw file is read by an independent reader (plain h5py, HDF5 object addresses for hard-link
identity) at every close of every history; validity is judged twice: by that reader's own
checks (containers, ID attribute, shared Type node, child entries hard-linked to the flat nodes)
and by the Lean predicate `wfCheck` evaluated by the driver on the raw snapshot (one root, no
identifier twice, every link resolves, exactly one parent, reachable from Root, property groups
list only children).  The model's `fileOf` must have the same structure as the raw file.
"""
from harness import wscheck
from harness.core import Ctx

ID = "C02"
LEAN_MODULES = ["GeoVerif.Props.C02"]
THEOREMS = [
    "GeoVerif.Ws.file_keys",
    "GeoVerif.Ws.file_keys_nodup",
    "GeoVerif.Ws.file_root",
    "GeoVerif.Ws.links_stored",
    "GeoVerif.Ws.has_parent",
    "GeoVerif.Ws.node_has_parent",
    "GeoVerif.Ws.all_reachable",
    "GeoVerif.Ws.wf_after_history",
    "GeoVerif.Ws.reopen_identity",
    "GeoVerif.Ws.run_nodup",
    "GeoVerif.Ws.parents_count",
    "GeoVerif.Ws.parentsOf_length",
    "GeoVerif.Ws.wfCheck_fileOf",
    "GeoVerif.Ws.update_frame_back",
    "GeoVerif.Ws.PGok_step",
    "GeoVerif.Ws.PGok_run",
    "GeoVerif.Ws.wf_run",
]
RULE = (
    "histories as for C01 with more removals (through the workspace and through the parent), re-parenting, copies and "
    "property-group edits, closed 1-4 times; every closed file is read raw; distinct by hash of the op list; non-trivial when the "
    "history has a successful move/remove/copy and a close"
)
ASSUMPTIONS = [
    "byte-level HDF5 validity (superblock, B-trees) is h5py's; the link/attribute/dataset graph is what is checked",
    "drillhole (concatenated) groups are validated by C04's raw checks; cross-workspace copies by C12",
    "detached entities are released by the history before the close (a handle the user keeps to a detached entity keeps its node)",
]
LEVEL_TEXT = (
    "Lean theorems about the file image of any tree with distinct identifiers, hence (run_nodup) after any history: one node per "
    "entity under its identifier, no identifier twice (file_keys_nodup), a Root link to a stored node (file_root), every child entry "
    "resolves to the stored node of that identifier and kind (links_stored), every non-root entity is linked from a stored parent "
    "(node_has_parent), every stored node is reachable from Root (all_reachable). The same predicate, executable as wfCheck, is "
    "evaluated by Lean on the raw h5py snapshot of every real file written; hard-link identity (Type, child entries) is checked by "
    "the independent reader through HDF5 object addresses. The root has no parent and every other node exactly one "
    "(parents_count: a counting argument over the identifiers), property groups list only children of their object, and this "
    "clause is an invariant of every operation (PGok_step, by the backward frame lemmas of C09); together: wfCheck (fileOf (run t "
    "ops)) = true for every history from a valid tree (wf_run) - the complete executable check, the one that judges the real files, "
    "accepts every file image the model can reach."
)
LEVEL_NOTE = "Trusted: Lean kernel, the independent raw reader, h5py/HDF5."
TECHNIQUE = "Lean 4 proof that the executable validity check accepts the file image after every history (counting argument for the unique parent, invariant by induction over operations for the property-group clause) + the same check evaluated by Lean on raw snapshots of real files"
WANT = {"C02"}
WEIGHTS = {"remove_ws": 4, "remove_parent": 4, "move": 4, "copy": 4, "pg_add": 4, "reopen": 3}


def directed(rng, ops):
    """A third of the histories get a block that makes a data move possible: two objects of one class and size, data on
    the first, one of them put into a property group, then moves (biased to data listed in a property group)."""
    if rng.random() < 0.66:
        return ops
    r = lambda: rng.randrange(1 << 20)  # noqa: E731
    b, c = r(), r()
    block = [{"k": "create_object", "a": r(), "b": b, "c": c, "uid": None}, {"k": "create_object", "a": r(), "b": b, "c": c, "uid": None}]
    block += [{"k": "add_data", "a": r(), "b": r(), "c": 1 + 3 * r(), "uid": None} for _ in range(rng.randrange(2, 5))]
    block += [{"k": "pg_add", "a": r(), "b": r(), "c": r(), "uid": None} for _ in range(rng.randrange(1, 4))]
    block += [{"k": "move", "a": r(), "b": r(), "c": 2 * r(), "uid": None} for _ in range(rng.randrange(1, 3))]
    at = rng.randrange(0, len(ops) + 1)
    return ops[:at] + block + ops[at:]


def run(ctx: Ctx):
    wscheck.run_props(ctx, WANT, weights=WEIGHTS, shape=directed)


def replay(ctx: Ctx, payload):
    wscheck.replay_props(ctx, payload, WANT)
