"""C10 — read-only workspaces never change the file.

  * T1 translator (harness/translate/iocalls.py) regenerates lean/GeoVerif/Gen/IoCalls.lean from
    /repo's source on every run: every `_io_call` site with its function and mode, every direct
    use of H5Writer / h5py.File outside the gate, the modes helpers open workspaces with; the
    table theorems of Props/C10.lean are re-checked against it;
  * correspondence: a file is built by a random history, closed, re-opened with mode="r"; then a
    random program of getters, setters, creations, removals, copies, moves, property-group edits
    and helper calls (every public mutating method found by reflection is called at least once)
    runs against it.  After *each* call: SHA-256 of the file bytes unchanged, `geoh5.mode` still
    "r", mutating calls raised; the Lean life-cycle model (`Life`, mode r) must give the same
    outcome (readonly) and tree.
"""
from __future__ import annotations

import hashlib
import inspect
import os
import shutil

import numpy as np

from harness import wscheck, wsh
from harness.core import Ctx, LEAN, REPO

ID = "C10"
LEAN_MODULES = ["GeoVerif.Props.C10"]
THEOREMS = [
    "GeoVerif.Life.ro_file_const",
    "GeoVerif.Life.ro_write_errors",
    "GeoVerif.Life.ro_no_upgrade",
    "GeoVerif.Life.ro_run_file_const",
    "GeoVerif.Life.all_writers_gated",
    "GeoVerif.Life.io_calls_classified",
    "GeoVerif.Life.no_ungated_write",
    "GeoVerif.Life.helpers_readonly",
]
RULE = (
    "files built by random C01-style histories, re-opened read-only; programs of 8-30 calls drawn from getters (tree walk, lazy "
    "arrays), every mutating operation of the history generator, a reflective sweep of public setters of each entity, helper calls "
    "(InputFile/ path2workspace, monitored_directory_copy, fetch_active_workspace(mode='r')); distinct by hash of (history, "
    "program); non-trivial when at least 5 mutating calls were attempted on a file with >= 3 entities"
)
ASSUMPTIONS = [
    "h5py's 'r' mode itself refuses writes (trusted); the check measures the file's bytes",
    "the gate table covers workspace.py; writer code reachable without the gate is listed in Gen.directUses and must stay within the allowed list",
]
LEVEL_TEXT = (
    "Lean theorems: in read-only mode no operation changes the file, every mutating call returns the read-only error and changes "
    "nothing, the mode can only stay read-only or become closed (ro_file_const, ro_write_errors, ro_no_upgrade, ro_run_file_const "
    "over any call sequence); and, by `decide` over the call-site table regenerated from the source on every run, every writer "
    "function is requested with mode r+ at the gate, no writer or h5py.File use bypasses the gate beyond the allowed list, helpers "
    "open workspaces read-only (all_writers_gated, io_calls_classified, no_ungated_write, helpers_readonly). Tied to the code by "
    "read-only programs with SHA-256 of the file after every call."
)
LEVEL_NOTE = "Trusted: Lean kernel, the AST extractor (validated by the byte-level runs), h5py's read-only mode."
TECHNIQUE = "Lean 4 proof on the life-cycle machine + `decide` over a call-site table regenerated from source (translator) + byte-hash correspondence"
WANT = {"C10"}


def regenerate():
    from harness.translate import iocalls
    return iocalls.generate(REPO, LEAN / "GeoVerif" / "Gen" / "IoCalls.lean")


def sha(path):
    return hashlib.sha256(open(path, "rb").read()).hexdigest()


def setter_sweep(entity):
    """(name, thunk) for every public property with a setter, assigned its own current value."""
    out = []
    for name, prop in inspect.getmembers(type(entity), lambda o: isinstance(o, property)):
        if name.startswith("_") or prop.fset is None or name in ("parent", "on_file", "uid", "entity_type", "workspace"):
            continue
        try:
            cur = getattr(entity, name)
        except Exception:  # noqa: BLE001
            continue
        if cur is None:
            continue
        out.append((f"{type(entity).__name__}.{name}", (lambda e=entity, n=name, v=cur: setattr(e, n, v))))
    return out


def run_case(ctx, idx, case):
    from geoh5py.shared.utils import fetch_active_workspace
    from geoh5py.ui_json.utils import monitored_directory_copy
    from geoh5py.workspace import Workspace
    rng = __import__("random").Random(case["seed"])
    path = ctx.scratch / f"c10_{idx}.geoh5"
    failures, lines, expect = [], [], []
    holder = None
    s = wsh.Session(path)
    try:
        for op in case["build"]:
            if op["k"] not in ("reopen", "gc"):
                s.apply(op)
        if case["seed"] % 2 == 0 or case["seed"] % 3 == 0:
            # half of the cases (and every case whose read-only handle comes from the open fallback) also hold a drillhole group with concatenated holes and data (stored inside the group's
            # own arrays: their write path differs from that of ordinary entities)
            from geoh5py.groups import DrillholeGroup
            from geoh5py.objects import Drillhole
            dg = DrillholeGroup.create(s.ws, name="dh_group")
            for i in range(2):
                well = Drillhole.create(s.ws, parent=dg, name=f"hole_{i}", collar=np.r_[float(i), 0.0, 10.0],
                                        surveys=np.c_[np.r_[0.0, 20.0], np.r_[0.0, 5.0], np.r_[-90.0, -85.0]])
                well.add_data({"assay": {"depth": np.r_[1.0, 5.0, 9.0], "values": np.r_[0.1, 0.2, 0.3 + i]}})
            del dg, well
        s.ws.close()
        tree0 = None
        h0 = sha(path)
        holder = None
        if case["seed"] % 3 == 0:
            # a third of the read-only handles come from the fallback of Workspace.open: the file is already open for reading in
            # this process, so the default (writing) mode is refused by HDF5 and the workspace comes up read-only
            holder = Workspace(str(path), mode="r")
            s.ws = Workspace(str(path))
            if s.ws.geoh5.mode != "r":
                # no fallback on this platform: use an explicit read-only handle
                s.ws.close()
                holder.close()
                holder = None
                s.ws = Workspace(str(path), mode="r")
            else:
                ctx.count("read-only-by-fallback")
        else:
            s.ws = Workspace(str(path), mode="r")
        tree0 = s.snap()
        # a creation refused by the read-only gate leaves an in-memory-only object attached to its parent
        # (never on file); such phantoms are not targets: calls on them have nothing to write
        all_entities = s.entities
        # the drillhole group and its concatenated content are not targets of the history generator's operations (their
        # structural edits are C04's subject); they are targets of the assignments of step 4
        s.entities = lambda: [e for e in all_entities() if e.on_file and not type(e).__name__.startswith("Concatenated")
                              and type(e).__name__ != "DrillholeGroup"]
        lines.append({"m": "life", "op": "init", "tree": tree0, "mode": "r"})
        expect.append(None)
        n_mut = 0

        def judge(what, mutating, raised, model_line=None):
            nonlocal n_mut
            h = sha(path)
            mode = s.ws._geoh5.mode if s.ws._geoh5 else "closed"
            if h != h0:
                failures.append((f"file bytes changed by {what} on a read-only workspace", f"C10:file-changed:{what.split(' ')[0]}"))
            if mode not in ("r", "closed"):
                failures.append((f"handle switched to mode {mode!r} by {what}", f"C10:mode-upgraded:{what.split(' ')[0]}"))
            if mutating:
                n_mut += 1
                ctx.count("mutating_call:" + what.split(" ")[0])
                if not raised:
                    failures.append((f"{what} did not raise on a read-only workspace", f"C10:write-not-refused:{what.split(' ')[0]}"))
                if model_line is not None:
                    lines.append(model_line)
                    expect.append({"out": "readonly", "mode": "r"})

        # 0. helpers, on the freshly loaded (unmodified) in-memory state
        with fetch_active_workspace(s.ws, mode="r"):
            pass
        judge("fetch_active_workspace(r)", False, False)
        mon = ctx.scratch / f"mon_{idx}"
        mon.mkdir(exist_ok=True)
        objs = [e for e in s.entities() if wsh.kind_of(e) in ("object", "group") and e is not s.ws.root]
        if objs:
            try:
                monitored_directory_copy(str(mon), objs[0])
            except Exception as ex:  # noqa: BLE001
                failures.append((f"monitored_directory_copy raised {type(ex).__name__}: {str(ex)[:80]}", f"C10:helper-raises:{type(ex).__name__}"))
            judge("monitored_directory_copy", False, False)
        shutil.rmtree(mon, ignore_errors=True)
        # 1. the history generator's mutating operations, attempted read-only
        for op in case["program"]:
            n0 = len(s.lines)
            raised = False
            try:
                s.apply(op)
            except Exception:  # noqa: BLE001
                raised = True
            new = [l for l in s.lines[n0:] if l.get("op") == "step"]
            mutating = op["k"] not in ("reopen", "gc")
            if op["k"] in ("reopen", "gc"):
                continue
            if not raised and not new:
                continue                                      # the op was skipped (no target)
            ml = dict(new[0], m="life", op="api") if new else None
            judge(op["k"], mutating, raised or any(e["out"] != "ok" for e in s.expect[n0:] if "out" in e), ml)
            # drop whatever the failed op recorded for the Ws model
            del s.lines[n0:], s.expect[n0:]
        # 2. getters: full tree walk with lazy arrays
        _ = s.snap()
        judge("getters", False, False)
        # 3. reflective setter sweep on a few entities
        for e in s.entities()[:6]:
            for name, thunk in setter_sweep(e):
                raised = False
                try:
                    thunk()
                except Exception:  # noqa: BLE001
                    raised = True
                ctx.count("setter_raised" if raised else "setter_silent")
                judge(f"setattr {name}", False, raised)
        # 4. value-changing assignments of plain attributes on every kind of stored entity (incl. concatenated ones):
        #    each would have to write, so each must raise
        for e in all_entities():
            if e is s.ws.root or not getattr(e, "on_file", False):
                continue
            todo = [("name", lambda v: str(v) + "_x"), ("visible", lambda v: not v), ("public", lambda v: not v),
                    ("allow_rename", lambda v: not v)]
            if type(e).__name__.endswith("Drillhole"):
                todo += [("cost", lambda v: float(v or 0.0) + 1.0), ("collar", lambda v: [5.0, 5.0, 5.0])]
            for attr, change in todo[: 2 + case["seed"] % 4]:
                raised = False
                try:
                    setattr(e, attr, change(getattr(e, attr)))
                except Exception:  # noqa: BLE001
                    raised = True
                judge(f"assign {type(e).__name__}.{attr}", True, raised)
        s.ws.close()
        if holder is not None:
            holder.close()
        judge("close", False, False)
        from geoh5py.ui_json.utils import path2workspace
        w = path2workspace(str(path))
        judge("path2workspace", False, False)
        if getattr(w, "_geoh5", None):
            failures.append(("path2workspace left the workspace open", "C10:helper-left-open"))
        tree_after = None
        w2 = Workspace(str(path), mode="r")
        tree_after = wsh.canon_tree(wsh.api_tree(s.uids, w2.root))
        w2.close()
        if wsh.tree_diff(tree0, tree_after):
            failures.append(("content differs after the read-only session: " + str(wsh.tree_diff(tree0, tree_after)), "C10:content-changed"))
    except Exception as e:  # noqa: BLE001
        failures.append((f"read-only session raised {type(e).__name__}: {str(e)[:100]}", f"C10:raises:{type(e).__name__}"))
        n_mut = 0
    finally:
        s.close()
        try:
            if holder is not None:
                holder.close()
        except Exception:  # noqa: BLE001
            pass
        if path.exists():
            os.remove(path)
    return lines, expect, failures, n_mut, tree0


def process(ctx, cases):
    import warnings
    warnings.filterwarnings("ignore")
    gen_info = regenerate()
    ctx.extra["generated_tables"] = gen_info
    recs = []
    for i, case in enumerate(cases):
        lines, expect, failures, n_mut, tree0 = run_case(ctx, i, case)
        n_ent = len(wsh.tree_uids(tree0)) if tree0 else 0
        ctx.case(case, nontrivial=n_mut >= 5 and n_ent >= 3)
        for what, sig in failures:
            ctx.fail(case, what, sig)
        recs.append((case, lines, expect))
    outs = ctx.driver.run([l for _, ls, _ in recs for l in ls])
    k = 0
    for case, ls, es in recs:
        for line, exp in zip(ls, es):
            out = outs[k]
            k += 1
            if exp is None:
                continue
            ctx.traces += 1
            if out["out"] != exp["out"] or out["mode"] != exp["mode"]:
                ctx.disagree(case, f"Life (read-only) outcome of {line.get('o')}: model {out['out']}/{out['mode']}, impl {exp['out']}/{exp['mode']}")


def run(ctx: Ctx):
    cases = []
    for _ in range(ctx.n(20, 400)):
        cases.append({"build": wsh.gen_ops(ctx.rng, ctx.rng.randrange(6, 14), weights={"reopen": 0, "gc": 0, "remove_ws": 1, "remove_parent": 1}),
                      "program": wsh.gen_ops(ctx.rng, ctx.rng.randrange(8, 30), weights={"reopen": 0, "gc": 0}),
                      "seed": ctx.rng.randrange(1 << 30)})
    process(ctx, cases)


def replay(ctx: Ctx, payload):
    process(ctx, [payload["case"]])
