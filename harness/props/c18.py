"""C18 — drillhole positions follow the survey.

Correspondence: collars and survey tables with non-decreasing depth (single-row, repeated depths,
first depth 0 or not, any azimuth/dip) x query depths (0, stations, inside legs, beyond the last
survey).  `Drillhole.desurvey` / `Drillhole.locations` of the real package against the Lean
model `Survey` (Model/Survey.lean) in exact rationals, per coordinate; the station direction
components come from the implementation's `deviation_x/y/z` (trigonometry is not modelled) and
are passed exactly.  Tolerance 2^-36 (1+|model|), evaluated with Fractions.
The oracle checks the property's clauses on the implementation directly, including vertex/cell
positions and value attachment after sequences of depth and interval data additions.
"""
from __future__ import annotations

import os
from fractions import Fraction

import numpy as np

from harness.core import Ctx

ID = "C18"
LEAN_MODULES = ["GeoVerif.Props.C18"]
THEOREMS = [
    "GeoVerif.Survey.dev_mean",
    "GeoVerif.Survey.dev_straight",
    "GeoVerif.Survey.legs_length",
    "GeoVerif.Survey.legs_len",
    "GeoVerif.Survey.locs_succ",
    "GeoVerif.Survey.locs_zero",
    "GeoVerif.Survey.searchLeft_eq",
    "GeoVerif.Survey.searchLeft_in_leg",
    "GeoVerif.Survey.desurvey_leg",
    "GeoVerif.Survey.desurvey_station",
    "GeoVerif.Survey.searchLeft_spec",
    "GeoVerif.Survey.locs_const",
    "GeoVerif.Survey.desurvey_piece",
    "GeoVerif.Survey.desurvey_station_any",
    "GeoVerif.Survey.desurvey_after_station",
    "GeoVerif.Survey.desurvey_zero",
    "GeoVerif.Survey.desurvey_beyond",
    "GeoVerif.Survey.invPerm_spec",
    "GeoVerif.Survey.sort_cells_coords",
]
THEOREMS += [
    "GeoVerif.Depths.place_matched",
    "GeoVerif.Depths.place_other",
    "GeoVerif.Depths.addLog_attached",
    "GeoVerif.Depths.addLog_keeps",
    "GeoVerif.Depths.sortBy_att",
    "GeoVerif.Depths.argsort_perm",
    "GeoVerif.Depths.addLogs_attached",
    "GeoVerif.Depths.addCall_attached",
    "GeoVerif.Depths.addCall_keeps",
]
RULE = (
    "collar on a quarter lattice; survey tables of 1-6 rows with non-decreasing float32-exact depths (25% with a repeated depth, "
    "50% starting at depth 0), azimuth/dip from a pool incl. 0/90/-90/45/negative; 8-14 query depths per table (0, each station, "
    "leg midpoints, beyond the end); then 1-4 additions of depth or interval data in shuffled order with overlaps; distinct by "
    "hash of the case; non-trivial when the table has >= 2 rows with at least one change of direction"
)
ASSUMPTIONS = [
    "station directions (cos/sin) are the implementation's; only sums/products are compared (tolerance 2^-36 relative)",
    "zero-length legs: np.divide(where=...) leaves uninitialised memory that is multiplied by 0; exact in the model, NaN in IEEE if the garbage is non-finite - the oracle checks for NaN, the model cannot exhibit it",
    "Euclidean path length (needs cos^2+sin^2=1) is outside the model",
    "interval tables (validate_interval_data) are checked by the oracle, not modelled; depth logs are modelled (Depths) for holes without interval tables, under the separation the theorems state (depths present more than twice the collocation distance apart)",
]
LEVEL_TEXT = (
    "Lean theorems over exact rationals for every sorted augmented table and every depth: depth 0 is the collar (desurvey_zero), "
    "within a leg the position moves by (b-a) x the leg deviation, which is the mean of the two station directions and the "
    "direction itself where they coincide (desurvey_leg, dev_mean, dev_straight), the left piece reaches the next station and the "
    "right piece starts there - continuity (desurvey_station, desurvey_after_station, locs_succ; with repeated depths: every depth inside the table is computed from the last station strictly above it and the position at any station's depth is that station's position, desurvey_piece, desurvey_station_any), beyond the last survey the last "
    "leg's direction continues (desurvey_beyond); re-sorting by any permutation with the inverse applied to cells keeps every cell "
    "on the same positions (sort_cells_coords). Data additions (model Depths = validate_depth_data + match_values/merge_arrays + "
    "sort_depths): after one add_data call with any number of depth logs, sampled at new or existing depths in any order, every "
    "sample sits at a vertex whose depth is the sample's and everything attached before still is (addCall_attached, addCall_keeps), "
    "for any permutation of the vertices (sortBy_att). Tied to the code by exact-rational differential runs of desurvey and of "
    "sequences of add_data calls; interval tables by oracle."
)
LEVEL_NOTE = "Trusted: Lean kernel (+Mathlib ring/linarith/field_simp), harness, NumPy. Continuity at stations holds for tables with repeated depths too (desurvey_piece, desurvey_station_any, locs_const). Not proved: trigonometry of the station directions, float rounding."
TECHNIQUE = "Lean 4 proof (induction on the survey table, linear arithmetic over Rat; induction over the samples and logs of add_data calls, permutation argument for the sort) on executable models of desurvey and of the depth-log bookkeeping + exact-rational differential correspondence"

TOL = Fraction(1, 2 ** 36)


def fr(x):
    f = Fraction(float(x))
    return f"{f.numerator}/{f.denominator}"


def pf(s):
    n, d = s.split("/")
    return Fraction(int(n), int(d))


def gen_case(rng):
    n = rng.choice([1, 1, 2, 3, 3, 4, 5, 6])
    depth = 0.0 if rng.random() < 0.5 else rng.choice([0.5, 2.0, 10.0])
    rows = []
    for i in range(n):
        if i:
            depth += 0.0 if rng.random() < 0.12 else rng.choice([0.5, 1.0, 4.0, 12.5, 30.0])
        rows.append([depth, rng.choice([0.0, 45.0, 90.0, 123.0, 270.0, 359.0, -30.0, 400.0]),
                     rng.choice([-90.0, -89.0, -60.0, -45.0, 0.0, -10.0, 30.0])])
    if rng.random() < 0.3 and n > 1:      # a straight stretch
        rows[1][1], rows[1][2] = rows[0][1], rows[0][2]
    collar = [rng.randrange(-40, 41) / 4.0 for _ in range(3)]
    depths = {r[0] for r in rows} | {0.0}
    ts = sorted(depths)
    qs = set(ts)
    for a, b in zip(ts[:-1], ts[1:]):
        qs.add((a + b) / 2)
        qs.add(a + (b - a) / 4)
    qs.add(ts[-1] + 1.0)
    qs.add(ts[-1] + 37.5)
    adds = []
    known = []
    known_depths = []
    for _ in range(rng.randrange(0, 5)):
        m = rng.randrange(1, 5)
        if rng.random() < 0.5:
            # later logs are sampled at depths that exist already (in any order) as often as at new ones
            ds = []
            for _ in range(m):
                x = rng.choice(known_depths) if known_depths and rng.random() < 0.6 else rng.randrange(0, 200) / 4.0
                if x not in ds:
                    ds.append(x)
            known_depths += [x for x in ds if x not in known_depths]
            adds.append({"kind": "depth", "depth": ds, "text": rng.random() < 0.3})      # a log may hold text (lithology codes)
        else:
            fs = sorted(rng.randrange(0, 200) / 4.0 for _ in range(m))
            rows_ = [[f, f + rng.choice([0.25, 1.0, 5.0])] for f in fs]
            for j in range(len(rows_)):
                # later tables relate to the intervals that exist already: same top, same bottom, repeated, adjoining,
                # enclosing (nested / overlapping tables such as assays inside lithology)
                if known and rng.random() < 0.5:
                    a, b = rng.choice(known)
                    h = (b - a) / 2 if b - a > 0.25 else 0.125
                    rows_[j] = rng.choice([[a, a + h], [b - h, b], [a, b], [b, b + h], [a - h, b + h] if a - h >= 0 else [a, b + h]])
            seen_, uniq = set(), []
            for r_ in rows_:
                if tuple(r_) not in seen_:
                    seen_.add(tuple(r_))
                    uniq.append(r_)
            adds.append({"kind": "interval", "from_to": uniq})
            known += uniq
    # additions are handed to add_data one at a time or several in one call (one dictionary with several entries):
    # inside one call the depth table is not re-sorted between the entries
    batches, i = [], 0
    while i < len(adds):
        n = 1 if rng.random() < 0.5 else rng.randrange(2, 4)
        batches.append(list(range(i, min(len(adds), i + n))))
        i += n
    return {"collar": collar, "surveys": rows, "queries": sorted(qs), "adds": adds, "batches": batches}


def run_case(ctx, ws, case, idx):
    from geoh5py.objects import Drillhole
    from geoh5py.objects.drillhole import deviation_x, deviation_y, deviation_z

    failures = []
    dh = Drillhole.create(ws, collar=case["collar"], surveys=np.array(case["surveys"], dtype=float), name=f"dh{idx}")
    sv = dh.surveys
    given = np.array(case["surveys"], dtype=np.float32).astype(float)
    if sv.shape != given.shape or not np.array_equal(np.asarray(sv, dtype=float), given):
        # the path is the one surveyed: the stations the caller gave, in the order given (depths are non-decreasing)
        failures.append((f"the survey table of the hole {np.asarray(sv).tolist()} is not the table given {given.tolist()}",
                         "C18:survey-table-altered"))
    aug = np.vstack([sv[0, :], sv])
    aug[0, 0] = 0.0
    t = [float(x) for x in aug[:, 0]]
    comps = [f(aug[:, 1], aug[:, 2]) for f in (deviation_x, deviation_y, deviation_z)]
    q = np.array(case["queries"], dtype=float)
    pos = np.asarray(dh.desurvey(q))
    loc = np.asarray(dh.locations)
    if np.isnan(pos).any() or np.isnan(loc).any():
        failures.append((f"desurvey/locations contain NaN for table {case['surveys']}", "C18:nan"))
    # ---- oracle on the implementation
    col = np.array(case["collar"], dtype=float)
    p0 = np.asarray(dh.desurvey(np.array([0.0])))[0]
    if not np.allclose(p0, col, atol=1e-9):
        failures.append((f"desurvey(0) = {p0}, collar {col}", "C18:zero-not-collar"))
    scale = 1.0 + float(np.abs(pos).max()) if len(pos) else 1.0
    for i in range(len(t) - 1):
        a, b = t[i], t[i + 1]
        if b > a:
            x1, x2 = a + (b - a) * 0.25, a + (b - a) * 0.75
            p = np.asarray(dh.desurvey(np.array([x1, x2, b, a])))
            mean_dir = np.array([(c[i] + c[i + 1]) / 2 for c in comps])
            if not np.allclose(p[1] - p[0], (x2 - x1) * mean_dir, atol=1e-9 * scale):
                failures.append((f"leg {i}: displacement {p[1] - p[0]} for depth difference {x2 - x1}, mean direction {mean_dir}", "C18:leg-direction"))
            # continuity at both ends of the leg
            eps = (b - a) * 1e-7
            pe = np.asarray(dh.desurvey(np.array([b - eps, b + eps, a + eps])))
            if np.abs(pe[0] - p[2]).max() > 10 * eps + 1e-9 * scale or np.abs(pe[1] - p[2]).max() > 10 * eps + 1e-9 * scale:
                failures.append((f"discontinuity at station depth {b}: {pe[0]} | {p[2]} | {pe[1]}", "C18:discontinuous"))
            if np.abs(pe[2] - p[3]).max() > 10 * eps + 1e-9 * scale:
                failures.append((f"discontinuity just after station depth {a}", "C18:discontinuous"))
    # beyond
    last = t[-1]
    pb = np.asarray(dh.desurvey(np.array([last, last + 3.0])))
    nl = len(t) - 2
    lens = [t[i + 1] - t[i] for i in range(len(t) - 1)]
    last_dir = np.array([(c[nl] + c[nl + 1]) / 2 if lens[nl] != 0 else c[nl] for c in comps])
    if not np.allclose(pb[1] - pb[0], 3.0 * last_dir, atol=1e-9 * scale):
        failures.append((f"beyond the last survey: moved {pb[1] - pb[0]} for 3 m, last leg direction {last_dir}", "C18:beyond"))
    # ---- data additions: vertices at their depth, cells joining from/to, values attached
    truth = {}
    for batch in case.get("batches") or [[k] for k in range(len(case["adds"]))]:
        entries = {}
        for k in batch:
            add = case["adds"][k]
            name = f"d{k}"
            if add["kind"] == "depth":
                # the expectation is fixed before the call, from the case's own numbers: the library is handed copies
                # (it may adjust the arrays it is given to the depths it matched)
                ds = np.array(add["depth"], dtype=float)
                vals = ds * 10.0 + k
                if add.get("text"):
                    tv = np.array([f"t{int(round(x * 4))}_{k}" for x in ds])
                    truth[name] = ("depth-text", dict(zip(ds.tolist(), tv.tolist())))
                    entries[name] = {"depth": ds.copy(), "values": tv.copy()}
                    ctx.count("add:depth-text")
                else:
                    truth[name] = ("depth", dict(zip(ds.tolist(), vals.tolist())))
                    entries[name] = {"depth": ds.copy(), "values": vals.copy()}
            else:
                ft = np.array(add["from_to"], dtype=float)
                vals = ft[:, 0] * 10.0 + k + 0.5
                truth[name] = ("interval", {tuple(r): v for r, v in zip(ft.tolist(), vals.tolist())})
                entries[name] = {"from-to": ft.copy(), "values": vals.copy()}
            ctx.count("add:" + add["kind"])
        ctx.count(f"add_data-call-with-{min(len(batch), 3)}{'+' if len(batch) > 3 else ''}-entries")
        try:
            dh.add_data(entries)
        except Exception as e:  # noqa: BLE001
            kinds = "+".join(case["adds"][k]["kind"] for k in batch)
            text_collocated = (isinstance(e, ValueError) and "could not convert string to float" in str(e)
                               and any(case["adds"][k].get("text") for k in batch))
            failures.append((f"add_data of {kinds} raised {type(e).__name__}: {str(e)[:80]}",
                             f"C18:add-raises-{type(e).__name__}" + (":text-log-at-existing-depth" if text_collocated else "")))
            break
        kinds = sorted({case["adds"][k]["kind"] for k in batch})
        failures += check_data(dh, truth, f"after the call adding {batch} ({'+'.join(kinds)})")
    model_line = [{"m": "survey", "op": "desurvey", "collar": fr(case["collar"][a]), "t": [fr(x) for x in t],
                   "d": [fr(x) for x in comps[a]], "xs": [fr(x) for x in q]} for a in range(3)]
    nontrivial = len(case["surveys"]) >= 2 and len({(r[1], r[2]) for r in case["surveys"]}) > 1
    return model_line, (pos, loc), failures, nontrivial


def check_data(dh, truth, tag):
    out = []
    verts = np.asarray(dh.vertices) if dh.vertices is not None else np.zeros((0, 3))
    dep = dh.get_data("DEPTH")
    if dep and dep[0] is not None and dep[0].values is not None:
        dv = np.asarray(dep[0].values, dtype=float)
        ok = ~np.isnan(dv)
        if ok.any():
            exp = np.asarray(dh.desurvey(dv[ok]))
            if len(dv) > len(verts) or not np.allclose(verts[: len(dv)][ok], exp, atol=1e-6):
                out.append((f"vertices of depth data are not at the position of their depth {tag}", "C18:vertex-not-at-depth"))
        for name, (kind, m) in truth.items():
            if kind == "depth-text":
                tvals = dh.get_data(name)[0].values
                tvals = [] if tvals is None else [x.decode() if isinstance(x, bytes) else str(x) for x in np.atleast_1d(tvals)]
                for depth, v in m.items():
                    hit = np.where(np.abs(dv[: len(tvals)] - depth) < 1e-3)[0]
                    if not any(tvals[h] == v for h in hit):
                        out.append((f"{name}: text value {v!r} is no longer attached to depth {depth} {tag}", "C18:value-detached:text"))
                        break
                continue
            if kind != "depth":
                continue
            d = dh.get_data(name)[0]
            vals = np.asarray(d.values, dtype=float)
            for depth, v in m.items():
                hit = np.where(np.abs(dv[: len(vals)] - depth) < 1e-3)[0]
                if not any(abs(vals[h] - v) < 1e-6 for h in hit):
                    out.append((f"{name}: value {v} is no longer attached to depth {depth} {tag}", "C18:value-detached"))
                    break
    fr_, to_ = dh.get_data("FROM"), dh.get_data("TO")
    if fr_ and to_ and dh.cells is not None:
        f = np.asarray(fr_[0].values, dtype=float)
        t = np.asarray(to_[0].values, dtype=float)
        cells = np.asarray(dh.cells)
        if len(cells) != len(f):
            out.append((f"{len(cells)} cells for {len(f)} intervals {tag}", "C18:cells-count"))
        else:
            ef, et = np.asarray(dh.desurvey(f)), np.asarray(dh.desurvey(t))
            if not (np.allclose(verts[cells[:, 0]], ef, atol=1e-6) and np.allclose(verts[cells[:, 1]], et, atol=1e-6)):
                out.append((f"interval cells do not join the positions of their from/to depths {tag}", "C18:cell-not-at-interval"))
            for name, (kind, m) in truth.items():
                if kind != "interval":
                    continue
                vals = np.asarray(dh.get_data(name)[0].values, dtype=float)
                for (a, b), v in m.items():
                    hit = np.where((np.abs(f[: len(vals)] - a) < 1e-3) & (np.abs(t[: len(vals)] - b) < 1e-3))[0]
                    if not any(abs(vals[h] - v) < 1e-6 for h in hit):
                        out.append((f"{name}: value {v} is no longer attached to interval {(a, b)} {tag}", "C18:value-detached"))
                        break
    return out


def process(ctx, cases):
    from geoh5py.workspace import Workspace
    path = ctx.scratch / "c18.geoh5"
    recs, lines = [], []
    with Workspace.create(path) as ws:
        for i, case in enumerate(cases):
            ml, impl, failures, nt = run_case(ctx, ws, case, i)
            ctx.case(case, nt)
            ctx.count("rows:%d" % len(case["surveys"]))
            for what, sig in failures:
                ctx.fail(case, what, sig)
            recs.append((case, impl, len(lines)))
            lines += ml
    os.remove(path)
    outs = ctx.driver.run(lines)
    worst = Fraction(0)
    for case, (pos, loc), start in recs:
        ctx.traces += 1
        bad = None
        for a in range(3):
            out = outs[start + a]
            for key, arr in (("pos", pos[:, a]), ("locs", loc[:, a])):
                model = [pf(x) for x in out[key]]
                if len(model) != len(arr):
                    bad = f"{key}[{a}]: {len(arr)} values vs {len(model)} in the model"
                    break
                for x, m in zip(arr, model):
                    if np.isnan(x):
                        continue
                    err = abs(Fraction(float(x)) - m)
                    worst = max(worst, err)
                    if err > TOL * (1 + abs(m)):
                        bad = f"{key} coordinate {a}: impl {float(x)} model {float(m)}"
                        break
                if bad:
                    break
            if bad:
                break
        if bad:
            ctx.disagree(case, "Survey correspondence: " + bad)
    ctx.extra["worst_abs_error"] = float(worst)


def frs(x):
    f = Fraction(float(x))
    return f"{f.numerator}/{f.denominator}"


def depth_logs(ctx: Ctx, only=None):
    """Correspondence of the `Depths` model (validate_depth_data, match_values/merge_arrays, sort_depths): holes that carry
    depth logs only; every add_data call hands over 1-3 logs sampled at new and at existing depths, in any order; after
    every call the DEPTH record and every column of the real hole must be the model's."""
    from geoh5py.objects import Drillhole
    from geoh5py.workspace import Workspace
    rng = ctx.rng
    eps = 1e-4
    path = ctx.scratch / "c18_logs.geoh5"
    lines, pend = [], []
    cases = only or []
    if not only:
        for _ in range(ctx.n(60, 1500)):
            known, calls, k = [], [], 0
            for _c in range(rng.randrange(1, 5)):
                logs = []
                for _l in range(rng.choice([1, 1, 2, 3])):
                    ds = []
                    for _s in range(rng.randrange(1, 5)):
                        x = rng.choice(known) if known and rng.random() < 0.55 else rng.randrange(0, 240) / 4.0
                        if x not in ds:
                            ds.append(x)
                    known += [x for x in ds if x not in known]
                    vals = [None if rng.random() < 0.15 else x * 10.0 + k for x in ds]
                    logs.append({"name": f"L{k}", "depth": ds, "values": vals})
                    k += 1
                calls.append(logs)
            cases.append({"part": "depth-logs", "calls": calls})
    with Workspace.create(path) as ws:
        for ci, case in enumerate(cases):
            dh = Drillhole.create(ws, collar=[0.0, 0.0, 0.0], surveys=np.c_[[0.0, 100.0], [0.0, 0.0], [-90.0, -90.0]], name=f"h{ci}")
            state = {"depth": [], "cols": []}
            nontrivial = False
            for call in case["calls"]:
                entries = {l["name"]: {"depth": np.array(l["depth"], dtype=float),
                                       "values": np.array([np.nan if v is None else v for v in l["values"]], dtype=float)} for l in call}
                line = {"m": "depths", "op": "call", "eps": frs(eps), "depth": list(state["depth"]), "cols": list(state["cols"]),
                        "logs": [[l["name"], [[frs(d), None if v is None else frs(v)] for d, v in zip(l["depth"], l["values"])]] for l in call]}
                try:
                    dh.add_data(entries)
                except Exception as e:  # noqa: BLE001
                    ctx.fail(case, f"add_data of depth logs raised {type(e).__name__}: {str(e)[:80]}", f"C18:add-raises-{type(e).__name__}")
                    break
                dep = dh.get_data("DEPTH")[0].values
                n = dh.n_vertices
                impl_depth = [frs(x) for x in np.asarray(dep, dtype=float)]
                impl_cols = []
                for c in dh.children:
                    if getattr(c, "name", "").startswith("L"):
                        v = np.asarray(c.values, dtype=float)
                        v = np.r_[v, [np.nan] * (n - len(v))]
                        impl_cols.append([c.name, [None if np.isnan(x) else frs(x) for x in v]])
                impl_cols.sort(key=lambda c: int(c[0][1:]))
                lines.append(line)
                pend.append((case, impl_depth, impl_cols))
                state = {"depth": impl_depth, "cols": impl_cols}       # the next call starts from what the hole really holds
                nontrivial = nontrivial or len(call) > 1
                ctx.count(f"depth-logs:call-with-{len(call)}-logs")
            ctx.case(case, nontrivial)
            ctx.traces += 1
    os.remove(path)
    outs = ctx.driver.run(lines)
    for (case, idepth, icols), out in zip(pend, outs):
        mdepth = out.get("depth") if isinstance(out, dict) else None
        mcols = sorted(out.get("cols", []), key=lambda c: int(c[0][1:])) if isinstance(out, dict) else None
        canon = lambda xs: [None if x is None else pf(x) for x in xs]  # noqa: E731
        if mdepth is None or canon(mdepth) != canon(idepth):
            ctx.disagree(case, "Depths correspondence: DEPTH record after the call", model=str(mdepth)[:300], impl=str(idepth)[:300])
        elif [(c[0], canon(c[1])) for c in mcols] != [(c[0], canon(c[1])) for c in icols]:
            ctx.disagree(case, "Depths correspondence: columns after the call", model=str(mcols)[:400], impl=str(icols)[:400])


def run(ctx: Ctx):
    import warnings
    warnings.filterwarnings("ignore")
    process(ctx, [gen_case(ctx.rng) for _ in range(ctx.n(200, 4000))])
    depth_logs(ctx)


def replay(ctx: Ctx, payload):
    import warnings
    warnings.filterwarnings("ignore")
    if (payload.get("case") or {}).get("part") == "depth-logs":
        depth_logs(ctx, only=[payload["case"]])
    else:
        process(ctx, [payload["case"]])
