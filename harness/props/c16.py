"""C16 — merging preserves every input's geometry and data.

Correspondence: lists of 2-5 Points / Curve / Surface inputs (vertex x-coordinate = a unique
vertex id; inputs with vertices that no cell uses, cells in any order, data present on some
inputs only) are merged by the real `PointsMerger` / `CurveMerger` / `SurfaceMerger`; merged
vertices, cells and data arrays must equal the Lean model `Merge` (Model/Merge.lean).  The
oracle recomputes, by coordinates, that every merged cell connects what the corresponding
input cell connected and that the inputs are unchanged.
"""
from __future__ import annotations

import math
import os

import numpy as np

from harness.core import Ctx

ID = "C16"
LEAN_MODULES = ["GeoVerif.Props.C16"]
THEOREMS = [
    "GeoVerif.Merge.merge_vertices",
    "GeoVerif.Merge.merge_vertices_length",
    "GeoVerif.Merge.coords_shift",
    "GeoVerif.Merge.merge_cell_coords_from",
    "GeoVerif.Merge.merge_cell_coords",
    "GeoVerif.Merge.merge_cells_count",
    "GeoVerif.Merge.merge_vdata_length",
    "GeoVerif.Merge.merge_vdata_split",
    "GeoVerif.Merge.merge_cdata_split",
    "GeoVerif.Merge.merge_cells_asFound_partial",
    "GeoVerif.Merge.merge_cell_coords_partial",
    "GeoVerif.Merge.merge_offset_counterexample",
]
VARIANT = {"asFound": None}      # selected by probing the implementation with the theorem's witness
RULE = (
    "2-5 same-class inputs (Points/Curve/Surface), 1-6 vertices each, 60% of cell inputs leave some vertices unused "
    "(including the last one), cells in random order, vertex/cell data from a pool of 3 names present on a random subset "
    "of inputs; the implementation is first probed with the witness of merge_offset_counterexample to select the model "
    "variant (as-found nanmax+1 offset vs repaired); distinct by hash of the input list; non-trivial when at least one input has an unreferenced vertex or a "
    "data set is missing on some input"
)
ASSUMPTIONS = [
    "coordinates/values are tokens (vertex id in x); no float arithmetic involved",
    "duplicate data labels inside one input (the '(ind)' renaming branch) are not generated",
    "DrapeModelMerger (ghost prisms) is exercised by the repository tests only; not modelled",
]
LEVEL_TEXT = (
    "Lean theorems for all input lists: merged vertices are the inputs' vertices in order (merge_vertices), the coordinate "
    "tuples of the merged cells equal those of the input cells in input order whatever vertices are unreferenced "
    "(merge_cell_coords, by induction over the input list with a generalised offset), data arrays are the per-input "
    "values or no-data fill at each input's offset (merge_*data_split, merge_vdata_length). The as-found offset rule "
    "nanmax(cells)+1 is refuted by merge_offset_counterexample. Tied to the code by differential runs of the real mergers."
)
LEVEL_NOTE = "Trusted: Lean kernel, harness, NumPy/h5py. merge_data is modelled at the level of its result (slice assignment into a no-data array = concatenation), validated by correspondence."
TECHNIQUE = "Lean 4 structural-induction proof over an executable model of CellMerger/PointsMerger + differential correspondence"


def tok(x):
    x = float(x)
    return "nan" if math.isnan(x) else repr(x)


def gen_case(rng):
    cls = rng.choice(["Points", "Curve", "Curve", "Surface", "Surface"])
    k = {"Points": 0, "Curve": 2, "Surface": 3}[cls]
    inputs = []
    vid = 0
    names_v = ["va", "vb", "vc"]
    names_c = ["ca", "cb"]
    for _ in range(rng.randrange(2, 6)):
        n = rng.randrange(max(1, k), 7)
        verts = list(range(vid, vid + n))
        vid += n + 3
        cells = []
        if k:
            pool = list(range(n))
            if n > k and rng.random() < 0.6:
                drop = rng.sample(pool, rng.randrange(1, n - k + 1))
                if rng.random() < 0.5 and (n - 1) not in drop and len(pool) - len(drop) > k:
                    drop.append(n - 1)             # the trailing vertex unused: the as-found trigger
                pool = [p for p in pool if p not in drop] if len(pool) - len(drop) >= k else pool
            for _ in range(rng.randrange(1, 5)):
                cells.append(rng.sample(pool, k))
        vdata = {nm: [rng.randrange(10000) / 4.0 for _ in range(n)] for nm in names_v if rng.random() < 0.5}
        cdata = {nm: [rng.randrange(10000) / 4.0 for _ in range(len(cells))] for nm in names_c if k and rng.random() < 0.5}
        inputs.append({"verts": verts, "cells": cells, "vdata": vdata, "cdata": cdata})
    return {"cls": cls, "inputs": inputs}


def snap(obj):
    out = {"verts": [int(round(v[0])) for v in obj.vertices],
           "cells": [[int(x) for x in c] for c in obj.cells] if getattr(obj, "cells", None) is not None and hasattr(obj, "cells") and obj.__class__.__name__ != "Points" else [],
           "vdata": {}, "cdata": {}}
    for ch in obj.children:
        if hasattr(ch, "values") and ch.values is not None and hasattr(ch, "association"):
            if ch.association.name == "VERTEX":
                out["vdata"][ch.name] = [tok(x) for x in ch.values]
            elif ch.association.name == "CELL":
                out["cdata"][ch.name] = [tok(x) for x in ch.values]
    return out


def run_case(ctx, case, path):
    from geoh5py import objects
    from geoh5py.shared import merging
    from geoh5py.workspace import Workspace

    failures = []
    merger = {"Points": merging.PointsMerger, "Curve": merging.CurveMerger, "Surface": merging.SurfaceMerger}[case["cls"]]
    with Workspace.create(path) as ws:
        objs = []
        for n_i, inp in enumerate(case["inputs"]):
            n = len(inp["verts"])
            kw = {"vertices": np.c_[np.array(inp["verts"], dtype=float), np.zeros(n), np.zeros(n)], "name": f"in{n_i}"}
            if case["cls"] != "Points":
                kw["cells"] = np.array(inp["cells"], dtype="uint32")
            o = getattr(objects, case["cls"]).create(ws, **kw)
            for nm, vals in inp["vdata"].items():
                o.add_data({nm: {"values": np.array(vals), "association": "VERTEX"}})
            for nm, vals in inp["cdata"].items():
                o.add_data({nm: {"values": np.array(vals), "association": "CELL"}})
            objs.append(o)
        before = [snap(o) for o in objs]
        try:
            merged = merger.merge_objects(ws, objs, name="merged")
        except Exception as e:  # noqa: BLE001
            failures.append((f"merge_objects raised {type(e).__name__}: {str(e)[:100]}", f"C16:raises-{type(e).__name__}"))
            return None, failures
        got = snap(merged)
        after = [snap(o) for o in objs]
        if after != before:
            failures.append(("merging changed an input object", "C16:input-changed"))
        # oracle by coordinates
        exp_coords = [[inp["verts"][v] for v in c] for inp in case["inputs"] for c in inp["cells"]]
        got_coords = [[got["verts"][v] if 0 <= v < len(got["verts"]) else None for v in c] for c in got["cells"]]
        if got["verts"] != [v for inp in case["inputs"] for v in inp["verts"]]:
            failures.append((f"merged vertices {got['verts']} are not the inputs' vertices in order", "C16:vertices"))
        if case["cls"] != "Points" and got_coords != exp_coords:
            sig = "C16:cell-coordinates"
            if any(max(v for c in inp["cells"] for v in c) < len(inp["verts"]) - 1 for inp in case["inputs"][:-1]):
                sig = "C16:cell-coordinates:input-with-unreferenced-trailing-vertex"
            failures.append((f"merged cells connect {got_coords}, inputs connected {exp_coords}", sig))
        for kind, key in (("vdata", "verts"), ("cdata", "cells")):
            names = sorted({nm for inp in case["inputs"] for nm in inp[kind]})
            for nm in names:
                exp = []
                for inp in case["inputs"]:
                    exp += [tok(x) for x in inp[kind][nm]] if nm in inp[kind] else ["nan"] * len(inp[key])
                if got[kind].get(nm) != exp:
                    failures.append((f"merged {kind} {nm} = {got[kind].get(nm)}, expected {exp}", f"C16:{kind}"))
    return got, failures


def model_line(case):
    vl = sorted({nm for inp in case["inputs"] for nm in inp["vdata"]})
    cl = sorted({nm for inp in case["inputs"] for nm in inp["cdata"]})
    return {"m": "merge", "op": "merge", "asFound": bool(VARIANT["asFound"]), "vlabels": vl, "clabels": cl, "inputs": [
        {"verts": inp["verts"], "cells": inp["cells"],
         "vdata": [{"n": k, "v": [tok(x) for x in v]} for k, v in inp["vdata"].items()],
         "cdata": [{"n": k, "v": [tok(x) for x in v]} for k, v in inp["cdata"].items()]}
        for inp in case["inputs"]]}


def nontrivial(case):
    for inp in case["inputs"]:
        used = {v for c in inp["cells"] for v in c}
        if inp["cells"] and len(used) < len(inp["verts"]):
            return True
    names = {nm for inp in case["inputs"] for nm in inp["vdata"]}
    return any(nm not in inp["vdata"] for inp in case["inputs"] for nm in names)


WITNESS = {"cls": "Curve", "inputs": [
    {"verts": [10, 11, 12], "cells": [[0, 1]], "vdata": {}, "cdata": {}},
    {"verts": [20, 21], "cells": [[0, 1]], "vdata": {}, "cdata": {}}]}


def probe(ctx):
    """Which offset rule does the implementation exhibit? (merge_offset_counterexample's witness)"""
    path = ctx.scratch / "c16_probe.geoh5"
    try:
        got, failures = run_case(ctx, WITNESS, path)
    finally:
        if path.exists():
            os.remove(path)
    VARIANT["asFound"] = any(sig.startswith("C16:cell-coordinates") for _, sig in failures)
    ctx.extra["variant_selected"] = "asFound (previous = nanmax(cells)+1)" if VARIANT["asFound"] else "repaired (previous += n_vertices)"
    for what, sig in failures:
        ctx.fail(WITNESS, what, sig)


def process(ctx, cases):
    probe(ctx)
    recs = []
    for i, case in enumerate(cases):
        path = ctx.scratch / f"c16_{i}.geoh5"
        try:
            got, failures = run_case(ctx, case, path)
        finally:
            if path.exists():
                os.remove(path)
        ctx.case(case, nontrivial(case))
        ctx.count("class:" + case["cls"])
        ctx.count("n_inputs:%d" % len(case["inputs"]))
        for what, sig in failures:
            ctx.fail(case, what, sig)
        if got is not None:
            recs.append((case, got))
    outs = ctx.driver.run([model_line(c) for c, _ in recs])
    for (case, got), out in zip(recs, outs):
        ctx.traces += 1
        if out != got:
            ctx.disagree(case, "Merge correspondence", model=out, impl=got)


def run(ctx: Ctx):
    import warnings
    warnings.filterwarnings("ignore")
    process(ctx, [gen_case(ctx.rng) for _ in range(ctx.n(150, 4000))])


def replay(ctx: Ctx, payload):
    import warnings
    warnings.filterwarnings("ignore")
    process(ctx, [payload["case"]])
