"""C12 — a copy equals its source and never disturbs it.

Three ties to the code:
  * copy-biased histories against the Lean model `Ws` (copy = subtree with identifiers renamed,
    inserted under the target; source untouched), tree and file compared as for C01;
  * per copy, the oracle compares source-before, source-after and copy: same class, attributes,
    arrays, names, property groups referencing the copied children, source unchanged;
  * a class sweep: every concrete object/group class the package exports (found by reflection)
    x target {same parent, other group, other workspace} x copy_children, followed by in-place
    edits of every mutable attribute of the copy (arrays, metadata dict) and a re-read of the source.
"""
import inspect
import os

import numpy as np

from harness import wscheck, wsh
from harness.core import Ctx

ID = "C12"
LEAN_MODULES = ["GeoVerif.Props.C12", "GeoVerif.Props.C06", "GeoVerif.Props.C12Heap"]
THEOREMS = [
    "GeoVerif.Ws.renameEnt_same",
    "GeoVerif.Ws.renameEnt_pgs",
    "GeoVerif.Ws.copy_subtree",
    "GeoVerif.Ws.copy_size",
    "GeoVerif.Ws.copy_frame",
    "GeoVerif.Ws.edit_copy_frame",
    "GeoVerif.Ws.insert_frame",
    "GeoVerif.Ws.copy_fresh",
    "GeoVerif.Heap.edit_frame",
    "GeoVerif.Heap.aliasFree_sound",
    "GeoVerif.Heap.copy_edit_frame",
    "GeoVerif.Heap.copy_edits_frame",
    "GeoVerif.Heap.deepCopy_correct",
    "GeoVerif.Heap.aliasCopy_counterexample",
]
RULE = (
    "copy-biased histories (copies of data, objects with children and property groups, nested groups, into the same parent or "
    "another group) + a sweep over every object/group class found by reflection x 3 targets (same parent, other group, other "
    "workspace) x copy_children in {True, False} with in-place edits of the copy; distinct by hash; non-trivial when the copied "
    "entity has children or the target differs from the source parent"
)
ASSUMPTIONS = [
    "GeoImage pixel data, drillhole groups (C04) and survey pairs (C20) are outside this check; classes whose default construction "
    "needs extra input are listed in the evidence as skipped",
    "NumPy copy semantics are exercised, not proved",
]
LEVEL_TEXT = (
    "Lean theorems: the copy reproduces the source subtree entity by entity with class, type, name, flags, attribute and array "
    "tokens unchanged and identifiers renamed, property groups referencing the renamed children (copy_subtree, renameEnt_same, "
    "renameEnt_pgs, copy_size), with fresh identifiers (copy_fresh); every stored node other than the receiving parent's is "
    "unchanged by the copy (copy_frame/insert_frame) and by later edits of the copy (edit_copy_frame). Aliasing (heap model M10): "
    "when a copy shares no mutable container with its source, no sequence of in-place edits of the copy's containers changes "
    "anything the source shows (copy_edits_frame, for every heap and entity); a deep copy shows what the source shows, leaves the "
    "source as it was and is alias free (deepCopy_correct); handing the same containers over is refuted as a copy "
    "(aliasCopy_counterexample). The hypothesis aliasFree is evaluated by Lean on the identities of every mutable container "
    "(dictionaries and lists recursively, arrays, colour maps, value maps, also of the children and of their types) of each real "
    "source/copy pair of the class sweep. Tied to the code by differential histories and a reflective class sweep (every object and "
    "group class incl. Drillhole with logs, locked data, referenced data with colour and value maps) with in-place edit probes."
)
LEVEL_NOTE = "Trusted: Lean kernel, harness (container discovery by reflection over private attributes, Python object identities), NumPy/h5py. The heap model knows containers, not views: two NumPy arrays that are different objects over one buffer would pass aliasFree; the in-place edit probes cover that case."
TECHNIQUE = "Lean 4 proof (mapEnts/insert on the tree model; frame theorem for in-place edits on a heap model with Lean-evaluated aliasFree on real object identities) + differential copy histories + reflective class sweep with aliasing probes"
WANT = {"C12"}
WEIGHTS = {"copy": 10, "add_data": 8, "pg_add": 5, "create_object": 6, "create_group": 4, "move": 1, "remove_ws": 1,
           "remove_parent": 1, "rename": 1, "flag": 1}


def equal_mod_ids(src, cp, idmap, path="copy"):
    m = {a: b for a, b in idmap}
    for key in ("kind", "cls", "name", "ad"):
        if src[key] != cp[key]:
            return f"{path}: {key} {src[key]!r} became {cp[key]!r}"
    for key in ("attrs", "dsets"):
        for k in sorted(set(src[key]) | set(cp[key])):
            if src[key].get(k) != cp[key].get(k) and k not in ("Current line property ID",):
                return f"{path}: {key}[{k}] {src[key].get(k)!r} became {cp[key].get(k)!r}"
    sp = sorted((g["name"], tuple(sorted(m.get(p, p) for p in g["props"]))) for g in src["pgs"])
    cpg = sorted((g["name"], tuple(sorted(g["props"]))) for g in cp["pgs"])
    if sp != cpg:
        return f"{path}: property groups {sp} became {cpg}"
    # the order of the members is part of a group (dip direction before dip, x y z of a vector)
    so = {name: [m.get(p, p) for p in order] for name, order in (src.get("pg_order") or {}).items()}
    co = cp.get("pg_order") or {}
    for name in sorted(so):
        if name in co and so[name] != co[name] and sorted(so[name]) == sorted(co[name]):
            return f"{path}: pgorder of {name} {so[name]} became {co[name]}"
    sk = sorted(src["kids"], key=wsh.shape_sig)
    ck = sorted(cp["kids"], key=wsh.shape_sig)
    if len(sk) != len(ck):
        return f"{path}: {len(sk)} children became {len(ck)}"
    for a, b in zip(sk, ck):
        d = equal_mod_ids(a, b, idmap, path + "/" + a["name"])
        if d:
            return d
    return None


def copy_oracle(ctx, s, case):
    for c in s.copies:
        if c["src_before"] != c["src_after"]:
            ctx.fail(case, "copying changed the source: " + str(wsh.tree_diff(c["src_before"], c["src_after"])), "C12:source-changed")
        d = equal_mod_ids(c["src_before"], c["copy"], c["idmap"])
        if d:
            ctx.fail(case, "copy differs from its source: " + d, "C12:copy-differs:" + d.split(": ")[1].split(" ")[0].split("[")[0])
        if set(wsh.tree_uids(c["src_before"])) & set(wsh.tree_uids(c["copy"])):
            ctx.fail(case, "a copy into the same workspace kept an identifier of its source", "C12:same-workspace-identifier-kept")


def shared_mutables(src, cp):
    """Private attributes of the copy (and of its children, and of their types when the types are different objects) that are
    the very same mutable Python object as in the source: dictionaries, lists, arrays, colour maps, value maps."""
    from geoh5py.shared.entity import Entity
    out = []

    def mutable(v):
        return isinstance(v, (dict, list, np.ndarray)) or type(v).__name__ in ("ColorMap", "ReferenceValueMap")

    def pair(a, b, label):
        for k, v in vars(b).items():
            if k in ("_children", "_property_groups", "_parent", "_workspace", "_entity_type"):
                continue
            if mutable(v) and k in vars(a) and vars(a)[k] is v and (not isinstance(v, list) or v) \
                    and (not isinstance(v, np.ndarray) or v.size):
                out.append(f"{label}.{k} ({type(v).__name__})")
        ta, tb = getattr(a, "entity_type", None), getattr(b, "entity_type", None)
        if ta is not None and tb is not None and ta is not tb:
            for k, v in vars(tb).items():
                if mutable(v) and k in vars(ta) and vars(ta)[k] is v:
                    out.append(f"type-of-{label}.{k} ({type(v).__name__})")

    pair(src, cp, type(cp).__name__)
    kids_a = [c for c in getattr(src, "children", []) if isinstance(c, Entity)]
    kids_b = [c for c in getattr(cp, "children", []) if isinstance(c, Entity)]
    for a in kids_a:
        for b in kids_b:
            if a.name == b.name and type(a) is type(b):
                pair(a, b, type(b).__name__)
    return sorted(set(out))


def containers(ent, include_type):
    """`path -> identity` of every mutable container reachable from the private attributes of an entity (dictionaries and
    lists, recursively; arrays; colour maps; value maps), of its data children and - when asked - of their types: the `Obj`
    of model M10 (`Model/Heap.lean`)."""
    from geoh5py.shared.entity import Entity
    out = []

    def mutable(v):
        return isinstance(v, (dict, list, np.ndarray)) or type(v).__name__ in ("ColorMap", "ReferenceValueMap")

    def walk(v, path, depth=0):
        if not mutable(v) or depth > 4:
            return
        if (isinstance(v, list) and not v) or (isinstance(v, np.ndarray) and v.size == 0):
            return
        out.append([path, id(v)])
        if isinstance(v, dict):
            for k, x in v.items():
                walk(x, f"{path}[{k!r}]", depth + 1)
        elif isinstance(v, list):
            for i, x in enumerate(v):
                walk(x, f"{path}[{i}]", depth + 1)
        elif type(v).__name__ in ("ColorMap", "ReferenceValueMap"):
            for k, x in vars(v).items():
                if k != "_parent":
                    walk(x, f"{path}.{k}", depth + 1)

    def one(e, label):
        for k, v in vars(e).items():
            if k in ("_children", "_property_groups", "_parent", "_workspace", "_entity_type", "_visual_parameters", "_depths"):
                continue
            walk(v, f"{label}.{k}")
        t = getattr(e, "entity_type", None)
        if include_type and t is not None:
            for k, v in vars(t).items():
                if k not in ("_workspace",):
                    walk(v, f"type-of-{label}.{k}")

    one(ent, type(ent).__name__)
    for c in getattr(ent, "children", []) or []:
        if isinstance(c, Entity):
            one(c, f"{type(c).__name__}:{c.name}")
    return out


def class_sweep(ctx):
    """Every concrete object / group class x targets x copy_children, with aliasing probes."""
    import warnings
    warnings.filterwarnings("ignore")
    from geoh5py import groups, objects
    from geoh5py.objects import ObjectBase
    from geoh5py.groups import Group
    from geoh5py.workspace import Workspace
    skip = {"GeoImage", "DrillholeGroup", "IntegratorDrillholeGroup", "RootGroup", "CustomGroup", "PropertyGroup"}
    classes = []
    for mod in (objects, groups):
        for name, c in inspect.getmembers(mod, inspect.isclass):
            if issubclass(c, (ObjectBase, Group)) and not inspect.isabstract(c) and hasattr(c, "default_type_uid") \
                    and name not in skip and "Survey" not in name and "Receivers" not in name and "Transmitters" not in name \
                    and "Electrode" not in name and "Tipper" not in name and "MT" not in name and "Magnetics" not in name:
                try:
                    c.default_type_uid()
                except Exception:  # noqa: BLE001
                    continue
                classes.append((name, c))
    skipped = []
    heap_jobs = []
    p1, p2 = ctx.scratch / "c12_a.geoh5", ctx.scratch / "c12_b.geoh5"
    for name, cls in classes:
        for target in ("same", "group", "other_ws"):
            for cc in (True, False):
                case = {"sweep": name, "target": target, "copy_children": cc}
                for p in (p1, p2):
                    if p.exists():
                        os.remove(p)
                uids = wsh.Uids()
                try:
                    with Workspace.create(p1) as ws, Workspace.create(p2) as ws2:
                        kw = {"name": "src"}
                        if issubclass(cls, ObjectBase):
                            n = 4
                            v = np.c_[np.arange(n, dtype=float), np.zeros(n), np.zeros(n)]
                            if hasattr(cls, "vertices") and name not in ("Grid2D", "BlockModel", "Octree", "DrapeModel", "Label", "NoTypeObject"):
                                kw["vertices"] = v
                            if name == "Surface":
                                kw["cells"] = np.array([[0, 1, 2], [1, 2, 3]], dtype="uint32")
                            if name == "Grid2D":
                                kw.update(u_count=2, v_count=2, u_cell_size=1.0, v_cell_size=1.0)
                            if name == "BlockModel":
                                kw.update(u_cell_delimiters=np.r_[0.0, 1, 2], v_cell_delimiters=np.r_[0.0, 1], z_cell_delimiters=np.r_[0.0, 1])
                            if name == "Octree":
                                kw.update(u_count=2, v_count=2, w_count=2, u_cell_size=1.0, v_cell_size=1.0, w_cell_size=1.0)
                            if name == "Drillhole":
                                kw.pop("vertices", None)
                                kw.update(collar=[1.0, 2.0, 3.0], surveys=np.c_[[0.0, 20.0, 48.0], [0.0, 10.0, 20.0], [-90.0, -80.0, -70.0]])
                            if name == "DrapeModel":
                                kw.update(layers=np.c_[[0, 0, 1, 1], [0, 1, 0, 1], [-1.0, -2.0, -1.5, -3.0]],
                                          prisms=np.c_[[0.0, 1.0], [0.0, 0.0], [0.0, 0.5], [0, 2], [2, 2]])
                        try:
                            src = cls.create(ws, **kw)
                        except Exception as e:  # noqa: BLE001
                            skipped.append(f"{name}: create raised {type(e).__name__}")
                            continue
                        src.metadata = {"k": {"inner": 1}}
                        if name == "Drillhole":
                            # a depth log and an interval log (the hole's vertices and cells are created by them)
                            src.add_data({"log": {"depth": np.r_[5.0, 12.5, 30.0], "values": np.r_[1.0, 2.0, 3.0]}})
                            src.add_data({"assay": {"from-to": np.c_[[2.0, 8.0], [4.0, 9.0]], "values": np.r_[0.5, 0.25]}})
                        elif issubclass(cls, ObjectBase):
                            nval = getattr(src, "n_vertices", None) or getattr(src, "n_cells", None)
                            if nval:
                                d = src.add_data({"d": {"values": np.arange(nval, dtype=float),
                                                        "association": "VERTEX" if getattr(src, "n_vertices", None) else "CELL"}})
                                src.add_data_to_group(d, "pg")
                                if target != "same":
                                    d.modifiable = False          # a locked data set is copied like any other
                                r = src.add_data({"ref": {"values": (np.arange(nval) % 2 + 1).astype("int32"), "type": "REFERENCED",
                                                          "value_map": {1: "A", 2: "B"},
                                                          "association": "VERTEX" if getattr(src, "n_vertices", None) else "CELL"}})
                                r.entity_type.color_map = np.array(
                                    [(1.0, 0, 0, 255, 255), (2.0, 255, 0, 0, 255)],
                                    dtype=[("Value", "f8"), ("Red", "u1"), ("Green", "u1"), ("Blue", "u1"), ("Alpha", "u1")])
                        else:
                            objects.Points.create(ws, parent=src, name="child", vertices=np.zeros((2, 3)))
                        parent = {"same": None, "group": groups.ContainerGroup.create(ws, name="tgt"), "other_ws": ws2}[target]
                        before = wsh.canon_tree(wsh.api_tree(uids, src))
                        cp = src.copy(parent=parent, copy_children=cc)
                        after = wsh.canon_tree(wsh.api_tree(uids, src))
                        ctree = wsh.canon_tree(wsh.api_tree(uids, cp))
                        ctx.count("sweep_copies")
                        ctx.case(case, True, sample_cap=6)
                        if before != after:
                            ctx.fail(case, f"copy changed the source: {wsh.tree_diff(before, after)}", "C12:source-changed")
                        exp = before if cc else dict(before, kids=[], pgs=[])
                        sess = wsh.Session.__new__(wsh.Session)
                        idmap = wsh.Session.match_copy(sess, exp, ctree)
                        d_ = equal_mod_ids(exp, ctree, idmap)
                        if d_:
                            ctx.fail(case, f"{name} copy ({target}, copy_children={cc}) differs: {d_}", "C12:copy-differs:" + d_.split(": ")[1].split(" ")[0].split("[")[0])
                        if target == "other_ws" and cp.uid != src.uid:
                            ctx.fail(case, "copy into another workspace did not keep the free identifier", "C12:other-workspace-identifier-not-kept")
                        if target != "other_ws" and cp.uid == src.uid:
                            ctx.fail(case, "copy into the same workspace kept the identifier", "C12:same-workspace-identifier-kept")
                        # ---- no mutable object may be reachable from both the source and the copy: the identities of the real
                        #      containers are judged by Lean's `aliasFree` (the hypothesis of copy_edits_frame)
                        heap_jobs.append((dict(case), containers(src, target == "other_ws"), containers(cp, target == "other_ws")))
                        for what in shared_mutables(src, cp):
                            ctx.fail(case, f"{name} copy ({target}, copy_children={cc}) shares the mutable object {what} with its source",
                                     "C12:shares-mutable-object:" + what.split(" ")[0])
                        # ---- later edits of the copy must not show through in the source
                        if name == "Drillhole" and cc:
                            # the copy gets a further log: the source keeps its own depths, vertices and values
                            try:
                                cp.add_data({"later": {"depth": np.r_[40.0, 1.0], "values": np.r_[7.0, 8.0]}})
                            except Exception as e:  # noqa: BLE001
                                ctx.fail(case, f"adding a log to the copy of a drillhole raised {type(e).__name__}: {str(e)[:80]}",
                                         "C12:edit-of-copy-raises:" + type(e).__name__)
                        if cp.metadata is not None:
                            try:
                                cp.metadata["k"]["inner"] = 99
                            except Exception:  # noqa: BLE001
                                pass
                        for attr in ("vertices", "cells", "u_cell_delimiters", "octree_cells", "layers", "prisms"):
                            arr = getattr(cp, "_" + attr, None)
                            if isinstance(arr, np.ndarray) and arr.size:
                                try:
                                    if arr.dtype.names:
                                        arr[arr.dtype.names[0]][0] += 7
                                    else:
                                        arr.flat[0] += 7
                                except Exception:  # noqa: BLE001
                                    pass
                        for ch in getattr(cp, "children", []):
                            v_ = getattr(ch, "_values", None)
                            if isinstance(v_, np.ndarray) and v_.size and v_.dtype.kind == "f":
                                v_[0] += 7
                        again = wsh.canon_tree(wsh.api_tree(uids, src))
                        if again != before:
                            ctx.fail(case, f"editing the copy in place changed the source: {wsh.tree_diff(before, again)}",
                                     "C12:edit-shows-through:" + str(wsh.tree_diff(before, again)).split(": ")[1].split(" ")[0].split("[")[0])
                except Exception as e:  # noqa: BLE001
                    ctx.fail(case, f"{name} copy ({target}, copy_children={cc}) raised {type(e).__name__}: {str(e)[:100]}",
                             f"C12:copy-raises-{type(e).__name__}:{name}")
    for p in (p1, p2):
        if p.exists():
            os.remove(p)
    if heap_jobs:
        outs = ctx.driver.run([{"m": "heap", "op": "aliasFree", "o": o, "cp": c} for _, o, c in heap_jobs])
        for (case_, o, c), out in zip(heap_jobs, outs):
            ctx.count("copies_judged_by_lean_aliasFree")
            ctx.count("containers_compared", len(o) + len(c))
            if out is not True:
                shared = sorted({p for p, i in c if i in {j for _, j in o}})
                ctx.fail(case_, f"copy shares mutable containers with its source (aliasFree = false): {shared[:4]}",
                         "C12:shares-mutable-object:" + (shared[0].split(" ")[0] if shared else "unknown"))
    ctx.extra["sweep_classes"] = [n for n, _ in classes]
    ctx.extra["sweep_skipped"] = sorted(set(skipped))


def directed(rng, ops):
    """Half of the histories start with an object that has several data sets and a property group listing some of them in
    reverse order, followed by copies."""
    if rng.random() < 0.5:
        return ops
    r = lambda: rng.randrange(1 << 20)  # noqa: E731
    a1, a2 = r(), r()
    block = [{"k": "create_object", "a": r(), "b": r(), "c": r(), "uid": None}]
    block += [{"k": "add_data", "a": a1, "b": r(), "c": 1 + 3 * r(), "uid": None} for _ in range(rng.randrange(2, 5))]
    block += [{"k": "pg_add", "a": a2, "b": r(), "c": 4 * r(), "uid": None} for _ in range(rng.randrange(2, 4))]
    block += [{"k": "copy", "a": r(), "b": r(), "c": r(), "uid": None} for _ in range(rng.randrange(1, 4))]
    return block + ops


def run(ctx: Ctx):
    class_sweep(ctx)
    wscheck.run_props(ctx, WANT, weights=WEIGHTS, n_quick=40, n_thorough=1000, post=copy_oracle, shape=directed)


def replay(ctx: Ctx, payload):
    if "sweep" in payload.get("case", {}):
        class_sweep(ctx)
    else:
        wscheck.replay_props(ctx, payload, WANT, post=copy_oracle)
