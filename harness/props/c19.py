"""C19 — the reader tolerates missing optional content.

Small files are produced by random API histories; then *every single deletion* of one attribute,
one dataset or one link (thorough: all of them, `exhaustive` per file; quick: a sample) is applied
with plain h5py to a copy, and the copy is opened with the real `Workspace`.
  * optional item (project / entity / type attribute other than ID and Name, a dataset, the
    PropertyGroups block, a colour or value map, an empty child container, the Root link): the file
    must open and every entity not described by the item must come back with unchanged content;
  * mandatory item (ID, Name, a Type link, a flat container) or a child entry: the reader may
    raise, or leave out the entities the item describes and their descendants - never alter others.
For child-entry faults the Lean reader `load` is run on the raw snapshot of the damaged file and
must return the same set of entities as the implementation (theorem `missing_link_fault`).
"""
from __future__ import annotations

import os
import shutil

import numpy as np

from harness import wsh
from harness.core import Ctx

ID = "C19"
LEAN_MODULES = ["GeoVerif.Props.C19"]
THEOREMS = [
    "GeoVerif.Ws.find_mapEnt",
    "GeoVerif.Ws.loadFrom_mapEnt",
    "GeoVerif.Ws.optional_fault_local",
    "GeoVerif.Ws.mapAt_other",
    "GeoVerif.Ws.optional_fault_others_unchanged",
    "GeoVerif.Ws.find_dropLinks",
    "GeoVerif.Ws.loadFrom_ent_uid",
    "GeoVerif.Ws.loadFrom_dropLinks",
    "GeoVerif.Ws.missing_link_fault",
]
RULE = (
    "files from histories of 5-9 operations (groups, objects of several classes, float/integer/text/referenced data, property "
    "groups); per file the complete list of single faults (delete one attribute / dataset / link) is enumerated; quick runs a "
    "seeded stratified sample (up to 5 per kind of fault) per file, thorough all of them (exhaustive: true); distinct by (file hash, fault); non-trivial when the "
    "file has at least 4 entities and the fault is not on the project header"
)
ASSUMPTIONS = [
    "classification of items follows the property text: mandatory = ID, Name, Type link, flat container; everything else optional; a child entry is judged as 'describes the child and its descendants'",
    "content of an entity = the API-level record used by C01 (class, name, flags, attribute and array tokens, property groups, parent)",
    "HDF5-level corruption other than a missing attribute/link/dataset is out of scope",
]
LEVEL_TEXT = (
    "Lean theorems on the reader model: altering or removing anything stored inside one entity's node leaves the reader's result "
    "identical except for that entity (optional_fault_local, optional_fault_others_unchanged - for every file and every such "
    "fault), and a missing child entry yields exactly the same tree minus that child's subtree (missing_link_fault, by mutual "
    "induction over the reader's recursion). Tied to the code by an exhaustive single-fault sweep on real files, with the Lean "
    "reader evaluated on the damaged raw snapshot for link faults."
)
LEVEL_NOTE = "Trusted: Lean kernel, harness fault injector (plain h5py), independent raw reader. Class defaults substituted for missing attributes are the implementation's; the theorem says only *which* entity may differ."
TECHNIQUE = "Lean 4 proof (reader commutes with node-local faults; link removal = subtree removal) + exhaustive single-fault enumeration on real files"


def baseline(path, uids):
    from geoh5py.workspace import Workspace
    w = Workspace(str(path), mode="r")
    try:
        tree = wsh.canon_tree(wsh.api_tree(uids, w.root))
    finally:
        w.close()
    return tree


def flatten(tree, parent=None, out=None, anc=()):
    out = {} if out is None else out
    rec = {k: tree[k] for k in ("kind", "cls", "typ", "name", "ad", "attrs", "dsets", "pgs")}
    rec["typ_real"] = tree.get("typ_real", tree["typ"])      # comments / visual parameters are compared with typ 0
    rec["parent"] = parent
    rec["anc"] = anc
    out[tree["uid"]] = rec
    for k in tree["kids"]:
        flatten(k, tree["uid"], out, anc + (tree["uid"],))
    return out


def enumerate_faults(path, uids):
    """[(fault id, kind, class, described uids (as numbers), path steps)]"""
    import h5py
    faults = []
    with h5py.File(path, "r") as f:
        name = list(f.keys())[0]
        proj = f[name]
        for a in proj.attrs:
            faults.append((f"header attr {a}", "attr", "optional", [], ("attr", [name], a)))
        for cont in ("Data", "Groups", "Objects", "Types"):
            faults.append((f"container {cont}", "container", "mandatory", "ALL", ("link", [name], cont)))
        faults.append(("Root link", "root", "optional", "ROOT", ("link", [name], "Root")))
        for cont, kind in wsh.KINDS.items():
            for key in proj[cont]:
                node = proj[cont][key]
                u = uids.num(key.strip("{}"))
                for a in node.attrs:
                    cls = "mandatory" if a in ("ID", "Name") else "optional"
                    faults.append((f"{cont}/{u} attr {a}", "attr:" + a, cls, [u], ("attr", [name, cont, key], a)))
                faults.append((f"{cont}/{u} flat entry", "flat-entry", "child", [u], ("link", [name, cont], key)))
                for sub in node:
                    item = node.get(sub, getlink=False)
                    if sub == "Type":
                        faults.append((f"{cont}/{u} Type link", "type-link", "mandatory", [u], ("link", [name, cont, key], sub)))
                    elif isinstance(item, h5py.Dataset):
                        faults.append((f"{cont}/{u} dataset {sub}", "dataset:" + sub, "optional", [u], ("link", [name, cont, key], sub)))
                    elif sub == "PropertyGroups":
                        faults.append((f"{cont}/{u} PropertyGroups block", "pg-block", "optional", [u], ("link", [name, cont, key], sub)))
                    elif sub in wsh.KINDS:
                        if len(item) == 0:
                            faults.append((f"{cont}/{u} empty container {sub}", "empty-container", "optional", [u], ("link", [name, cont, key], sub)))
                        for ck in item:
                            cu = uids.num(ck.strip("{}"))
                            faults.append((f"{cont}/{u} child entry {sub}/{cu}", "child-entry", "child", [cu], ("link", [name, cont, key, sub], ck)))
        for tk in proj["Types"]:
            for tid in proj["Types"][tk]:
                tnode = proj["Types"][tk][tid]
                tn = uids.num(tid.strip("{}"))
                for a in tnode.attrs:
                    cls = "mandatory" if a in ("ID",) else "optional"
                    faults.append((f"type {tn} attr {a}", "type-attr:" + a, cls, ("TYPE", tn), ("attr", [name, "Types", tk, tid], a)))
                for sub in tnode:
                    faults.append((f"type {tn} dataset {sub}", "type-dataset:" + sub, "optional", ("TYPE", tn), ("link", [name, "Types", tk, tid], sub)))
    return faults


def apply_fault(path, step):
    import h5py
    what, where, key = step
    with h5py.File(path, "r+") as f:
        node = f
        for p in where:
            node = node[p]
        if what == "attr":
            del node.attrs[key]
        else:
            del node[key]


def judge(ctx, case, base, fault, dst, uids, model_jobs):
    from geoh5py.workspace import Workspace
    fid, kind, cls, described, _ = fault
    flat = flatten(base)
    root_uid = base["uid"]
    if described == "ALL":
        desc = set(flat)
    elif described == "ROOT":
        desc = {root_uid}
    elif isinstance(described, tuple):
        desc = {u for u, r in flat.items() if r["typ_real"] == described[1]}
    else:
        desc = set(described)
    desc_down = {u for u, r in flat.items() if u in desc or set(r["anc"]) & desc}
    try:
        w = Workspace(str(dst), mode="r")
        try:
            got = flatten(wsh.canon_tree(wsh.api_tree(uids, w.root)))
        finally:
            w.close()
    except Exception as e:  # noqa: BLE001
        ctx.count("outcome:raises:" + cls)
        if cls == "optional":
            ctx.fail(case, f"file with missing optional item ({fid}) does not open: {type(e).__name__}: {str(e)[:80]}",
                     f"C19:optional-missing-raises:{kind}:{type(e).__name__}")
        return
    ctx.count("outcome:opens:" + cls)
    allowed_missing = set() if cls == "optional" else desc_down
    for u, rec in flat.items():
        if u in desc and cls == "optional":
            continue                       # the described entity itself may differ (defaults)
        if u in desc_down and cls != "optional":
            continue                       # may be left out or differ
        g = got.get(u)
        if g is None:
            if u not in allowed_missing:
                ctx.fail(case, f"{fid} missing: entity {u} ({rec['cls']}) not described by the item was left out",
                         f"C19:unrelated-entity-lost:{kind}")
                return
            continue
        for key in ("cls", "name", "ad", "attrs", "dsets", "pgs"):
            if g[key] != rec[key]:
                if key == "pgs" and kind in ("child-entry", "flat-entry") and g["cls"] == rec["cls"]:
                    continue               # a property group of the parent may lose the left-out child
                ctx.fail(case, f"{fid} missing: entity {u} ({rec['cls']}) came back with altered {key}: {rec[key]!r} -> {g[key]!r}",
                         f"C19:unrelated-entity-altered:{kind}:{key}")
                return
        if g["parent"] != rec["parent"] and kind != "root" and rec["parent"] not in desc_down:
            ctx.fail(case, f"{fid} missing: entity {u} moved from parent {rec['parent']} to {g['parent']}", f"C19:unrelated-entity-moved:{kind}")
            return
    extra = set(got) - set(flat)
    if kind == "child-entry":
        model_jobs.append((case, fid, dst, set(got)))


def process(ctx, cases):
    import warnings
    warnings.filterwarnings("ignore")
    exhaustive = ctx.tier == "thorough"
    per_file = None if exhaustive else 40
    lines, jobs = [], []
    for i, case in enumerate(cases):
        path = ctx.scratch / f"c19_{i}.geoh5"
        import uuid as _uuid
        s = wsh.Session(path, uid_pool=[_uuid.UUID(u) for u in case["pool_uids"]] if case.get("pool_uids") else None)
        try:
            for op in case["ops"]:
                try:
                    s.apply(op)
                except Exception:  # noqa: BLE001
                    break
        finally:
            s.close()
        uids = s.uids
        base = baseline(path, uids)
        faults = enumerate_faults(path, uids)
        ctx.count("faults_enumerated", len(faults))
        only = case.get("fault")
        if only is not None:
            chosen = [f for f in faults if f[0] == only]
        elif per_file is not None and len(faults) > per_file:
            # stratified: every kind of fault is represented (rare kinds completely)
            by_kind = {}
            for f_ in faults:
                by_kind.setdefault(f_[1].split(":")[0], []).append(f_)
            chosen = []
            for kind_, fs in sorted(by_kind.items()):
                chosen += fs if len(fs) <= 5 else ctx.rng.sample(fs, 5)
        else:
            chosen = faults
        n_ent = len(wsh.tree_uids(base))
        for fault in chosen:
            dst = ctx.scratch / f"c19_{i}_f.geoh5"
            shutil.copy(path, dst)
            fcase = {"ops": case["ops"], "fault": fault[0]}
            if case.get("pool_uids"):
                fcase["pool_uids"] = case["pool_uids"]
            try:
                apply_fault(dst, fault[4])
            except Exception as e:  # noqa: BLE001
                ctx.count("fault_not_applicable")
                os.remove(dst)
                continue
            ctx.case(fcase, nontrivial=n_ent >= 4 and not fault[0].startswith("header"), sample_cap=6)
            ctx.count("fault:" + fault[1].split(":")[0])
            model_jobs = []
            judge(ctx, fcase, base, fault, dst, uids, model_jobs)
            for (c_, fid, d_, got_uids) in model_jobs:
                try:
                    raw, _ = wsh.raw_file(str(d_), uids)
                    lines.append(dict(raw, m="ws", op="loadraw"))
                    jobs.append((c_, fid, got_uids))
                except Exception:  # noqa: BLE001
                    pass
            os.remove(dst)
        os.remove(path)
    ctx.extra["exhaustive"] = exhaustive
    outs = ctx.driver.run(lines)
    for (c_, fid, got_uids), out in zip(jobs, outs):
        ctx.traces += 1
        m_uids = set(wsh.tree_uids(out)) if isinstance(out, dict) else None
        if m_uids != got_uids:
            ctx.disagree(c_, f"reader correspondence ({fid}): model load returns {sorted(m_uids) if m_uids else None}, implementation {sorted(got_uids)}")


def directed_cases():
    """Files whose groups include plain groups without a type of their own (the root's own class) stored under the lowest and
    the highest possible identifiers, with objects and data below them: whatever the reader does when an item is missing
    must not depend on where an identifier sorts in the flat containers."""
    def op(k, a=0, b=0, c=0, uid=None):
        return {"k": k, "a": a, "b": b, "c": c, "uid": uid}
    pool = ["00000000-0000-4000-8000-000000000001", "ffffffff-ffff-4fff-bfff-fffffffffffe"]
    out = []
    for first in (0, 1):
        out.append({"pool_uids": pool, "ops": [
            op("create_group", 0, 4, 0, uid=first), op("create_group", 0, 0), op("create_group", 1, 4, 0, uid=1 - first),
            op("create_object", 1, 0, 1), op("create_object", 2, 2, 1), op("add_data", 0, 0, 1), op("add_data", 1, 2, 2),
            op("pg_add", 0, 0, 0), op("comment", 1, 1, 1)]})
    return out


def run(ctx: Ctx):
    weights = {"reopen": 0, "gc": 0, "remove_ws": 1, "remove_parent": 0, "add_data": 9, "pg_add": 7, "create_object": 5,
               "rename": 0, "flag": 1, "set_geometry": 0, "move": 1, "copy": 1}
    cases = directed_cases() + [{"ops": wsh.gen_ops(ctx.rng, ctx.rng.randrange(5, 10), weights=weights)} for _ in range(ctx.n(8, 60))]
    process(ctx, cases)


def replay(ctx: Ctx, payload):
    process(ctx, [payload["case"]])
