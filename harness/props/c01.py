"""C01 — re-opening a file yields exactly the state built through the API."""
from __future__ import annotations

from harness import wscheck, wsh
from harness.core import Ctx

ID = "C01"
LEAN_MODULES = ["GeoVerif.Props.C01"]
THEOREMS = [
    "GeoVerif.Ws.find_fileOf",
    "GeoVerif.Ws.loadFrom_sub",
    "GeoVerif.Ws.reopen_identity",
    "GeoVerif.Ws.insert_uids_perm",
    "GeoVerif.Ws.erase_uids_perm",
    "GeoVerif.Ws.step_nodup",
    "GeoVerif.Ws.run_nodup",
    "GeoVerif.Ws.reopen_after_history",
    "GeoVerif.Ws.reopen_mid_history",
]
RULE = (
    "random API histories (create group/object/data of several classes, rename, flags, values, geometry, move, remove through the "
    "workspace or the parent, copy, property-group add/remove, gc points, intermediate close/re-open); a case is one history, "
    "distinct by hash of its op list, non-trivial when it contains at least one successful move/remove/copy and one re-open"
)
ASSUMPTIONS = [
    "handles are re-fetched by identifier after every re-open (stale handles are C11's business)",
    "array contents and attribute values are opaque tokens (digests); dtype coercions happen before the token is taken",
    "concatenated (drillhole-group) children are covered by C04, survey partners by C20, GeoImage excluded",
]
LEVEL_TEXT = (
    "Lean theorems over the tree model Ws (Model/Ws.lean): the reader applied to the file image returns exactly the tree the API "
    "showed (reopen_identity: same entities, identifiers, classes, parents, names, flags, attribute/array tokens, property groups; "
    "nothing lost, duplicated or resurrected) whenever identifiers are distinct; every operation (create, assign, rename, move, "
    "remove via workspace or parent, copy, property-group edits) preserves that invariant (step_nodup), hence the round trip holds "
    "after any history and for any placement of close/re-open (reopen_after_history, reopen_mid_history) - unbounded in length and "
    "tree size. Tied to the code by differential runs: after every API call the live tree must equal the model's, at every close the "
    "raw file (read with plain h5py) must have the structure of fileOf and a fresh Workspace must show the same tree."
)
LEVEL_NOTE = (
    "Trusted: Lean kernel; harness (snapshot/canonicalisation, independent raw reader); h5py/HDF5. Modelled, not verified: values are "
    "tokens; GC only at explicit points (histories call gc.collect after removals); automatic GC inside a call, concatenated "
    "children (C04), survey partners (C20) outside the model."
)
TECHNIQUE = "Lean 4 proof: invariant by induction over operations + reader/writer round trip on a rose-tree model, with differential correspondence (API tree, raw h5py file, fresh re-open)"
WANT = {"C01"}


def run(ctx: Ctx):
    # a third of the histories pass explicit identifiers from a small pool, so that an identifier whose entity was
    # removed or detached earlier is used again
    wscheck.run_props(ctx, WANT, weights={"remove_parent": 4, "remove_ws": 4, "reopen": 3, "reattach": 3}, pool=lambda rng: 4 if rng.random() < 0.34 else 0)


def replay(ctx: Ctx, payload):
    wscheck.replay_props(ctx, payload, WANT)
