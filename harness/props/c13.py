"""C13 — spatial selection returns exactly what lies inside the box.

Correspondence: Points / Curve / Surface / Grid2D (any rotation, dip) / BlockModel /
Drillhole objects x boxes (2-D and 3-D, degenerate, touching coordinates exactly, disjoint,
cutting through cells, thin).  `mask_by_extent` of the real object must equal the Lean model
(axis loop `maskByExtent`, bounding-box pre-test `boxIntersect`, orphan filter
`cellObjectMask`, Grid2D `uInd/vInd/kron`) evaluated on the *exact rational values* of the
implementation's float coordinates (IEEE comparison of finite floats is exact, so no tolerance
is used for the selection).  The oracle recomputes point-in-box with Python Fractions and
checks `copy_from_extent` results by coordinates.
"""
from __future__ import annotations

import os
from fractions import Fraction

import numpy as np

from harness.core import Ctx

ID = "C13"
LEAN_MODULES = ["GeoVerif.Props.C13"]
THEOREMS = [
    "GeoVerif.Box.foldl_mask_get",
    "GeoVerif.Box.mask_spec",
    "GeoVerif.Box.mask_length",
    "GeoVerif.Box.pretest_sound",
    "GeoVerif.Box.orphan_spec",
    "GeoVerif.Box.cellKept_orphan",
    "GeoVerif.Box.cellObjectMask_none",
    "GeoVerif.Box.kron_get",
    "GeoVerif.Box.kron_length",
    "GeoVerif.Box.countTrue_kron",
    "GeoVerif.Box.fillSpan_iff",
    "GeoVerif.Box.fillSpan_contains",
    "GeoVerif.Box.fillSpan_contiguous",
    "GeoVerif.Box.fillSpan_least",
    "GeoVerif.Box.grid2d_noncontiguous_counterexample",
    "GeoVerif.Reindex.keep_get",
    "GeoVerif.Reindex.rank_lt",
]
RULE = (
    "objects: Points/Curve/Surface (1-8 vertices on a quarter-unit lattice, cells may leave vertices unused), Grid2D "
    "(1-5 x 1-5 cells, rotation from {0,30,45,90,-17.5}, dip from {0,30,90}), BlockModel, Drillhole; boxes: 2-D or 3-D, limits "
    "drawn from the object's own coordinates (touching), midpoints, outside values, degenerate (lo=hi); inverse flag; "
    "distinct by hash of (object, box, inverse); non-trivial when the mask has both True and False entries"
)
ASSUMPTIONS = [
    "finite coordinates (NaN/inf excluded by the generator and by the theorems' use of a total decidable order)",
    "box_intersect is modelled by its four-comparison form; its equivalence with max/min on a linear order is validated by correspondence only",
    "float arithmetic of rotated centroids and of the Grid2D sub-grid origin is the implementation's (centroids are passed to the model exactly; origin is checked with tolerance 1e-9)",
    "octrees and groups are exercised through the generic GridObject/Group code paths only",
]
LEVEL_TEXT = (
    "Lean theorems over any totally ordered coordinate type: the axis loop of mask_by_extent is the closed-box test with zip "
    "truncation and inversion (mask_spec, mask_length), the bounding-box pre-test never hides a qualifying point "
    "(pretest_sound), curves/surfaces keep exactly the cells whose vertices all qualify and the qualifying vertices those "
    "cells use (cellKept_orphan, orphan_spec), None only when nothing qualifies (cellObjectMask_none), Grid2D's kron mask "
    "indexes the sub-grid as j*nU+i with count nv*nu (kron_get, countTrue_kron), the kept columns/rows (span first..last "
    "selected) contain every selected one, are consecutive and are the least such block (fillSpan_contains/_contiguous/"
    "_least); copy re-indexing is M0 (keep_get/rank_lt). The as-found sum(u_ind) sizing is refuted by a proved "
    "counterexample and was repaired in /repo (known_findings.json). Tied to the code by exact-rational differential runs."
)
LEVEL_NOTE = "Trusted: Lean kernel, harness (Fraction conversion), NumPy. Not proved: float arithmetic of the sub-grid origin and of rotated centroids (tolerance-checked by the oracle)."
TECHNIQUE = "Lean 4 proof (induction over axes / cells) on an executable model of mask_by_extent + exact-rational differential correspondence"


def fr(x):
    f = Fraction(float(x))
    return f"{f.numerator}/{f.denominator}"


def gen_object(rng):
    kind = rng.choice(["Points", "Curve", "Surface", "Grid2D", "Grid2D", "BlockModel", "Drillhole"])
    q = lambda: rng.randrange(-8, 9) / 4.0  # noqa: E731
    if kind in ("Points", "Curve", "Surface"):
        k = {"Points": 0, "Curve": 2, "Surface": 3}[kind]
        n = rng.randrange(max(1, k), 9)
        verts = [[q(), q(), q()] for _ in range(n)]
        cells = None
        if k:
            pool = list(range(n))
            if n > k and rng.random() < 0.5:
                pool = rng.sample(pool, max(k, n - 2))
            cells = [rng.sample(pool, k) for _ in range(rng.randrange(1, 6))]
        return {"kind": kind, "verts": verts, "cells": cells}
    if kind == "Grid2D":
        return {"kind": kind, "origin": [q(), q(), q()], "nu": rng.randrange(1, 6), "nv": rng.randrange(1, 6),
                "du": rng.choice([0.5, 1.0, 2.0]), "dv": rng.choice([0.5, 1.0, 1.5]),
                "rotation": rng.choice([0.0, 0.0, 30.0, 45.0, 90.0, -17.5]), "dip": rng.choice([0.0, 0.0, 30.0, 90.0])}
    if kind == "BlockModel":
        return {"kind": kind, "origin": [q(), q(), q()],
                "u": [0.0] + sorted({rng.randrange(1, 9) / 2.0 for _ in range(rng.randrange(1, 4))}),
                "v": [0.0] + sorted({rng.randrange(1, 9) / 2.0 for _ in range(rng.randrange(1, 4))}),
                "z": [0.0] + sorted({rng.randrange(1, 9) / 2.0 for _ in range(rng.randrange(1, 3))}),
                "rotation": rng.choice([0.0, 0.0, 30.0])}
    return {"kind": "Drillhole", "collar": [q(), q(), q()]}


def gen_box(rng, coords):
    """coords: (n,3) array of the object's locations (for touching limits)."""
    dim = rng.choice([2, 3, 3])
    lims = []
    if len(coords) and rng.random() < 0.35:
        # thin box around the segment between two of the object's own locations
        a, b = coords[rng.randrange(len(coords))], coords[rng.randrange(len(coords))]
        w = rng.choice([0.0, 0.0625, 0.25, 0.5])
        return [[float(min(a[k], b[k]) - w), float(max(a[k], b[k]) + w)] for k in range(dim)]
    for a in range(dim):
        vals = sorted(set(float(x) for x in coords[:, a])) if len(coords) else [0.0]
        cand = list(vals) + [v + 0.125 for v in vals] + [v - 0.125 for v in vals] + [vals[0] - 5.0, vals[-1] + 5.0]
        r = rng.random()
        if r < 0.1:
            lo = hi = rng.choice(cand)          # degenerate
        elif r < 0.2:
            lo, hi = vals[-1] + 1.0, vals[-1] + 2.0   # disjoint
        else:
            lo, hi = sorted([rng.choice(cand), rng.choice(cand)])
        lims.append([lo, hi])
    return lims


def build(ws, spec):
    from geoh5py import objects
    if spec["kind"] in ("Points", "Curve", "Surface"):
        kw = {"vertices": np.array(spec["verts"], dtype=float)}
        if spec["cells"] is not None:
            kw["cells"] = np.array(spec["cells"], dtype="uint32")
        return getattr(objects, spec["kind"]).create(ws, **kw)
    if spec["kind"] == "Grid2D":
        return objects.Grid2D.create(ws, origin=spec["origin"], u_cell_size=spec["du"], v_cell_size=spec["dv"],
                                     u_count=spec["nu"], v_count=spec["nv"], rotation=spec["rotation"], dip=spec["dip"])
    if spec["kind"] == "BlockModel":
        return objects.BlockModel.create(ws, origin=spec["origin"], u_cell_delimiters=np.array(spec["u"]),
                                         v_cell_delimiters=np.array(spec["v"]), z_cell_delimiters=np.array(spec["z"]),
                                         rotation=spec["rotation"])
    return objects.Drillhole.create(ws, collar=spec["collar"],
                                    surveys=np.c_[[0.0, 10.0], [0.0, 0.0], [-90.0, -90.0]])


def locations(obj, spec):
    if spec["kind"] in ("Points", "Curve", "Surface"):
        return np.asarray(obj.vertices)
    if spec["kind"] == "Drillhole":
        return np.array([[obj.collar["x"], obj.collar["y"], obj.collar["z"]]])
    return np.asarray(obj.centroids)


def in_box_exact(p, lims):
    return all(Fraction(float(lo)) <= Fraction(float(x)) <= Fraction(float(hi)) for x, (lo, hi) in zip(p, lims))


def run_case(ctx, case, path):
    from geoh5py.workspace import Workspace

    spec, lims, inverse = case["obj"], case["box"], case["inverse"]
    failures, lines, expects = [], [], []
    with Workspace.create(path) as ws:
        edit = case.get("edit")
        if edit:
            # built with other attributes, centres computed (and cached), then edited through the public setters to `spec`;
            # the reference coordinates are those of an object built from `spec` directly
            obj = build(ws, edit["first"])
            _ = obj.centroids
            a = edit["attr"]
            if a == "vertical":
                obj.vertical = True
            elif a == "origin":
                obj.origin = spec["origin"]
            elif a == "du":
                obj.u_cell_size = spec["du"]
            elif a == "nu":
                obj.u_count = spec["nu"]
            elif a == "u":
                obj.u_cell_delimiters = np.array(spec["u"])
            else:
                setattr(obj, a, spec[a])
            ctx.count("edited-after-centres-cached:" + a)
            locs = locations(build(ws, spec), spec)
        else:
            obj = build(ws, spec)
            locs = locations(obj, spec)
        n = len(locs)
        obj.add_data({"d": {"values": np.arange(n, dtype=float) + 0.5,
                            "association": "VERTEX" if spec["kind"] in ("Points", "Curve", "Surface", "Drillhole") and spec["kind"] != "Drillhole" else "CELL"}}) if spec["kind"] != "Drillhole" else None
        extent = np.array(lims, dtype=float).T        # shape (2, dim)
        bbox = obj.extent
        try:
            got = obj.mask_by_extent(extent, inverse=inverse)
        except Exception as e:  # noqa: BLE001
            failures.append((f"mask_by_extent raised {type(e).__name__}: {str(e)[:100]}", f"C13:mask-raises-{type(e).__name__}"))
            return lines, expects, failures, False
        got_l = None if got is None else [bool(x) for x in got]
        # ---- oracle (exact fractions)
        inside = [in_box_exact(p, lims) for p in locs]
        qual = [b != inverse for b in inside]
        if spec["kind"] in ("Curve", "Surface"):
            cells = [[int(x) for x in c] for c in obj.cells]
            kept_cells = [c for c in cells if all(qual[v] for v in c)]
            used = {v for c in kept_cells for v in c}
            exp_mask = [qual[v] and v in used for v in range(n)]
        else:
            cells = None
            exp_mask = qual
        if got_l is None:
            if any(exp_mask) and (any(inside) or not inverse):
                # None is allowed only when the box misses the bounding box or nothing qualifies
                bb_hit = all(max(Fraction(float(bbox[0][a])), Fraction(float(lims[a][0]))) <= min(Fraction(float(bbox[1][a])), Fraction(float(lims[a][1]))) for a in range(len(lims)))
                if bb_hit:
                    failures.append((f"mask_by_extent returned None although elements qualify: {exp_mask}", "C13:none-but-qualifies"))
        elif got_l != exp_mask:
            failures.append((f"mask {got_l} differs from the exact selection {exp_mask}", "C13:mask-wrong"))
        # ---- model lines
        lines.append({"m": "box", "op": "intersect", "a": [[fr(bbox[0][a]), fr(bbox[1][a])] for a in range(3)],
                      "b": [[fr(lo), fr(hi)] for lo, hi in lims]})
        expects.append(("intersect", got_l is not None or None))
        cols = [[fr(p[a]) for p in locs] for a in range(3)]
        lines.append({"m": "box", "op": "mask", "n": n, "cols": cols, "lims": [[fr(lo), fr(hi)] for lo, hi in lims], "inverse": inverse})
        expects.append(("mask", (got_l, cells)))
        # ---- copy_from_extent, judged by coordinates
        try:
            cp = obj.copy_from_extent(extent, inverse=inverse)
        except Exception as e:  # noqa: BLE001
            failures.append((f"copy_from_extent raised {type(e).__name__}: {str(e)[:100]}", f"C13:copy-raises-{type(e).__name__}:{spec['kind']}"))
            cp = "raised"
        if cp is not None and cp != "raised":
            if spec["kind"] in ("Points", "Curve", "Surface"):
                exp_v = [list(map(float, locs[i])) for i in range(n) if exp_mask[i]]
                got_v = [list(map(float, v)) for v in cp.vertices]
                if got_v != exp_v:
                    failures.append((f"copy vertices {got_v} != selection {exp_v}", "C13:copy-vertices"))
                dv = [c for c in cp.children if getattr(c, "name", "") == "d"]
                exp_d = [i + 0.5 for i in range(n) if exp_mask[i]]
                if dv and [float(x) for x in dv[0].values] != exp_d:
                    failures.append((f"copy data {list(dv[0].values)} != {exp_d}", "C13:copy-data"))
                if cells is not None and got_v == exp_v:
                    exp_c = [[list(map(float, locs[v])) for v in c] for c in kept_cells]
                    got_c = [[got_v[int(v)] for v in c] for c in cp.cells]
                    if got_c != exp_c:
                        failures.append((f"copy cells connect {got_c}, expected {exp_c}", "C13:copy-cells"))
            elif spec["kind"] == "Grid2D" and not inverse:
                nu, nv = spec["nu"], spec["nv"]
                sel = np.array(inside).reshape(nv, nu)
                js, is_ = np.where(sel)
                lines.append({"m": "box", "op": "grid", "nU": nu, "sel": [bool(x) for x in inside], "asFound": bool(VARIANT["asFound"])})
                expects.append(("grid", (int(cp.u_count), int(cp.v_count))))
                i0, i1, j0, j1 = is_.min(), is_.max(), js.min(), js.max()
                exp_shape = (i1 - i0 + 1, j1 - j0 + 1)
                contiguous = len(set(is_)) == exp_shape[0] and len(set(js)) == exp_shape[1]
                if (int(cp.u_count), int(cp.v_count)) != tuple(int(x) for x in exp_shape):
                    sig = "C13:grid2d:not-smallest-cover" + ("" if contiguous else ":non-contiguous-selection")
                    failures.append((f"sub-grid is {cp.u_count}x{cp.v_count}, smallest cover of the selection is {exp_shape[0]}x{exp_shape[1]}", sig))
                else:
                    exp_cent = locs.reshape(nv, nu, 3)[j0:j1 + 1, i0:i1 + 1].reshape(-1, 3)
                    if not np.allclose(cp.centroids, exp_cent, atol=1e-9):
                        failures.append(("sub-grid cell centres differ from the selected cells' centres", "C13:grid2d:centres"))
                    dv = [c for c in cp.children if getattr(c, "name", "") == "d"]
                    if dv:
                        vals = (np.arange(n) + 0.5).reshape(nv, nu)[j0:j1 + 1, i0:i1 + 1].ravel()
                        ins = sel[j0:j1 + 1, i0:i1 + 1].ravel()
                        gotv = np.asarray(dv[0].values, dtype=float)
                        # blanking uses the copy's own (recomputed) centres: compare where unambiguous
                        ok = all((np.isnan(g) and not k) or (g == v and k) for g, v, k in zip(gotv, vals, ins)) and len(gotv) == len(vals)
                        if not ok:
                            amb = any(abs(float(p[a]) - float(l)) < 1e-9 for p in exp_cent for a, lim in enumerate(lims) for l in lim)
                            if not amb:
                                failures.append((f"sub-grid values {gotv.tolist()} expected {vals.tolist()} blanked by {ins.tolist()}", "C13:grid2d:values"))
        elif cp is None and got_l is not None and any(got_l) and spec["kind"] != "Grid2D":
            failures.append(("copy_from_extent returned None although the mask selects elements", "C13:copy-none"))
    nontrivial = got_l is not None and any(got_l) and not all(got_l)
    return lines, expects, failures, nontrivial


def compare(ctx, recs):
    all_lines = [l for r in recs for l in r["lines"]]
    outs = ctx.driver.run(all_lines)
    k = 0
    for r in recs:
        hit = None
        for line, (kind, exp) in zip(r["lines"], r["expects"]):
            out = outs[k]
            k += 1
            ctx.traces += 1
            if kind == "intersect":
                hit = out
                if out is False and exp is True:
                    ctx.disagree(r["case"], "boxIntersect says disjoint but the implementation returned a mask", model=out, impl=exp)
                # intersecting but None: decided after the mask line
            elif kind == "mask":
                got_l, cells = exp
                model = out
                if cells is not None and hit:
                    model = ctx.driver.run([{"m": "box", "op": "cellmask", "vm": out, "cells": cells}])[0]
                if not hit:
                    model = None
                if r["case"]["obj"]["kind"] not in ("Curve", "Surface") and model is not None and got_l is None:
                    ctx.disagree(r["case"], "model returns a mask, implementation None", model=model, impl=got_l)
                elif model != got_l:
                    ctx.disagree(r["case"], "mask_by_extent correspondence", model=model, impl=got_l)
            elif kind == "grid":
                if (out["nu"], out["nv"]) != tuple(exp):
                    ctx.disagree(r["case"], "Grid2D sub-grid counts (uInd/vInd) correspondence", model=out, impl=exp)


VARIANT = {"asFound": None}
WITNESS = {"obj": {"kind": "Grid2D", "origin": [0.0, 0.0, 0.0], "nu": 3, "nv": 2, "du": 1.0, "dv": 0.5,
                   "rotation": -17.5, "dip": 0.0},
           "box": [[0.4, 2.8], [-0.1, 0.15]], "inverse": False}


def probe(ctx):
    """Does the implementation size the sub-grid by sum(u_ind) (as found) or by the span (repaired)?"""
    path = ctx.scratch / "c13_probe.geoh5"
    try:
        _, _, failures, _ = run_case(ctx, WITNESS, path)
    finally:
        if path.exists():
            os.remove(path)
    VARIANT["asFound"] = any("non-contiguous" in sig for _, sig in failures)
    ctx.extra["variant_selected"] = "asFound (sum of u_ind/v_ind)" if VARIANT["asFound"] else "repaired (span first..last selected)"
    for what, sig in failures:
        ctx.fail(WITNESS, what, sig)


def process(ctx, cases):
    probe(ctx)
    recs = []
    for i, case in enumerate(cases):
        path = ctx.scratch / f"c13_{i}.geoh5"
        try:
            lines, expects, failures, nt = run_case(ctx, case, path)
        finally:
            if path.exists():
                os.remove(path)
        ctx.case(case, nt)
        ctx.count("kind:" + case["obj"]["kind"])
        ctx.count("dim:%d" % len(case["box"]))
        ctx.count("inverse:%s" % case["inverse"])
        for what, sig in failures:
            ctx.fail(case, what, sig)
        recs.append({"case": case, "lines": lines, "expects": expects})
    compare(ctx, recs)


def gen_case(ctx, rng, path):
    """Needs the implementation's coordinates to draw touching boxes: build once to read them."""
    from geoh5py.workspace import Workspace
    spec = gen_object(rng)
    edit = None
    if spec["kind"] in ("Grid2D", "BlockModel") and rng.random() < 0.4:
        # the object is edited after its cell centres were computed once: the selection must follow the edited object
        spec = dict(spec)
        first = dict(spec)
        if spec["kind"] == "Grid2D":
            attr = rng.choice(["rotation", "dip", "vertical", "origin", "du", "nu"])
        else:
            attr = rng.choice(["rotation", "origin", "u"])
        if attr == "rotation":
            first["rotation"] = rng.choice([0.0, 15.0, 60.0])
        elif attr == "dip":
            first["dip"] = rng.choice([0.0, 45.0, 60.0])
        elif attr == "vertical":
            first["dip"], spec["dip"] = rng.choice([0.0, 30.0]), 90.0
        elif attr == "origin":
            first["origin"] = [x + 1.25 for x in spec["origin"]]
        elif attr == "du":
            first["du"] = spec["du"] * 2
        elif attr == "nu":
            first["nu"] = spec["nu"] + 1
        elif attr == "u":
            first["u"] = [x * 2 for x in spec["u"]]
        edit = {"attr": attr, "first": first}
    with Workspace.create(path) as ws:
        obj = build(ws, spec)
        locs = np.array(locations(obj, spec), dtype=float)
    os.remove(path)
    case = {"obj": spec, "box": gen_box(rng, locs), "inverse": rng.random() < 0.3}
    if edit is not None:
        case["edit"] = edit
    return case


def directed_edit_cases(path):
    """One case per geometric setter of the grid classes: the object is built with another value, its centres are read, the
    setter is called, and the box is the bounding box of the centres of the edited object (every cell qualifies)."""
    from geoh5py.workspace import Workspace
    g = {"kind": "Grid2D", "origin": [0.5, -1.0, 2.0], "nu": 3, "nv": 2, "du": 1.0, "dv": 0.5, "rotation": 30.0, "dip": 0.0}
    b = {"kind": "BlockModel", "origin": [0.5, -1.0, 2.0], "u": [0.0, 1.0, 2.5], "v": [0.0, 0.5], "z": [0.0, 1.0, 1.5], "rotation": 0.0}
    edits = [(g, "rotation", {"rotation": 75.0}), (g, "dip", {"dip": 60.0}), (g, "vertical", {"dip": 30.0}), (g, "origin", {"origin": [3.0, 3.0, 3.0]}),
             (g, "du", {"du": 4.0}), (g, "nu", {"nu": 5}), (b, "rotation", {"rotation": 45.0}), (b, "origin", {"origin": [3.0, 3.0, 3.0]}),
             (b, "u", {"u": [0.0, 4.0, 9.0]})]
    out = []
    for spec, attr, other in edits:
        spec = dict(spec)
        if attr == "vertical":
            spec["dip"] = 90.0
        first = dict(spec, **other)
        with Workspace.create(path) as ws:
            locs = np.array(locations(build(ws, spec), spec), dtype=float)
        os.remove(path)
        box = [[float(locs[:, a].min()), float(locs[:, a].max())] for a in range(3)]
        out.append({"obj": spec, "box": box, "inverse": False, "edit": {"attr": attr, "first": first}})
    return out


def run(ctx: Ctx):
    import warnings
    warnings.filterwarnings("ignore")
    cases = directed_edit_cases(ctx.scratch / "gen.geoh5")
    cases += [gen_case(ctx, ctx.rng, ctx.scratch / "gen.geoh5") for _ in range(ctx.n(200, 6000))]
    process(ctx, cases)


def replay(ctx: Ctx, payload):
    import warnings
    warnings.filterwarnings("ignore")
    process(ctx, [payload["case"]])
