"""C04 — concatenated drillhole storage keeps each hole's data intact and separate.

Tie between M2 (lean/GeoVerif/Model/Concat.lean) and geoh5py:
  * primitive level: every `Concatenator.update_array_attribute` call made by the real
    package during a random API history is logged (label, lookup kind, identifiers, values,
    remove) and replayed on the Lean model; after *each* call the model's channel
    (index rows + concatenated array) must equal `concatenator.index[label]` /
    `concatenator.data[label]`, and at every close the rows read with raw h5py must equal the
    model and satisfy the theorem's predicate `tiledCheck` (evaluated by Lean on the real file);
  * API level: a reference last-write-wins dict (the `Spec` of `refines_map`) is compared
    with what every hole reads back after each operation and after each re-open.
"""
from __future__ import annotations

import gc
import math
import os
import uuid

import numpy as np

from harness.core import Ctx

ID = "C04"
LEAN_MODULES = ["GeoVerif.Props.C04", "GeoVerif.Props.C04Table", "GeoVerif.Props.C04Records"]
THEOREMS = [
    "GeoVerif.Concat.tiled_empty",
    "GeoVerif.Concat.put_tiled",
    "GeoVerif.Concat.drop_tiled",
    "GeoVerif.Concat.get_put_same",
    "GeoVerif.Concat.get_put_other",
    "GeoVerif.Concat.get_drop_same",
    "GeoVerif.Concat.get_drop_other",
    "GeoVerif.Concat.tiled_no_overlap",
    "GeoVerif.Concat.tiled_exact",
    "GeoVerif.Concat.step_inv",
    "GeoVerif.Concat.step_abs",
    "GeoVerif.Concat.refines_map",
    "GeoVerif.Concat.sortByStart_perm",
    "GeoVerif.Concat.sortByStart_sorted",
    "GeoVerif.Concat.sorted_slices_eq_data",
    "GeoVerif.Concat.holes_nodup",
    "GeoVerif.Concat.mem_holes_iff",
    "GeoVerif.Concat.readObj_eq_slice",
    "GeoVerif.Concat.block_entry",
    "GeoVerif.Concat.block_length",
    "GeoVerif.Concat.table_assoc_column",
    "GeoVerif.Concat.put_objNodup",
    "GeoVerif.Concat.drop_objNodup",
    "GeoVerif.Concat.step_tinv",
    "GeoVerif.Concat.run_tinv",
    "GeoVerif.Concat.table_after_history",
    "GeoVerif.Records.upsert_inv",
    "GeoVerif.Records.remove_inv",
    "GeoVerif.Records.find_upsert_same",
    "GeoVerif.Records.find_upsert_other",
    "GeoVerif.Records.find_remove_same",
    "GeoVerif.Records.find_remove_other",
    "GeoVerif.Records.refines_map",
    "GeoVerif.Records.records_exact",
]
RULE = (
    "random API histories on a DrillholeGroup (1-4 holes, depth-data names from a pool of 4 and interval-data names from a pool "
    "of 2 shared between holes, tables of length 0,1,2,3,7, values shorter than the table are padded; ops add depth data/add "
    "interval data/set/rename/remove via workspace/remove via parent/remove a whole property group/remove hole/copy the group/"
    "re-open, and after every op the table view of every property group, whole and by an arbitrary selection and order of "
    "names; format versions 2.0 and 2.1); a case is one history, "
    "distinct by the hash of its op list, non-trivial when at least one update_array_attribute call replaced or "
    "removed an existing slice (delete+shift path) and at least 2 holes share a label"
)
ASSUMPTIONS = [
    "labels are either data names or object fields (a data set named like an object field, e.g. 'Surveys', is outside the theorem's well-kinded hypothesis)",
    "array contents are opaque tokens; float32 narrowing on disk is C08's business",
    "u4 overflow of 'Start index' (arrays >= 2^32 entries) not modelled",
]
TRUSTED_EXTRA = ["monkey-patched wrapper around Concatenator.update_array_attribute (installed by the harness, not in /repo)"]

ZERO = uuid.UUID(int=0)
NAMES = ["A", "B", "C", "D"]          # depth data (property group depth_0)
INAMES = ["I", "J"]                   # interval data (property group Interval_0)
HIDDEN = ("DEPTH", "FROM", "TO")      # association data the library creates itself


def tok(x):
    if isinstance(x, bytes):
        return x.decode()
    if isinstance(x, (np.void, tuple)):
        return "(" + ",".join(tok(y) for y in x.tolist() if True) + ")" if isinstance(x, np.void) else str(x)
    if isinstance(x, (float, np.floating)):
        return "nan" if math.isnan(x) else repr(float(x))
    if isinstance(x, (int, np.integer)):
        return repr(int(x))
    return str(x)


def toks(arr):
    if arr is None:
        return None
    return [tok(x) for x in arr]


class Tracer:
    """Logs update_array_attribute calls of the real package."""

    def __init__(self):
        from geoh5py.shared.concatenation.concatenator import Concatenator
        from geoh5py.shared.utils import KEY_MAP

        self.KEY_MAP = KEY_MAP
        self.C = Concatenator
        self.orig = Concatenator.update_array_attribute
        self.log = []
        self.uids = {}
        self.depth = 0              # > 0 while inside update_array_attribute
        self.muted = False          # calls made on a copy of the group in another workspace are not part of the model replay

    def num(self, u):
        if isinstance(u, bytes):
            u = u.decode()
        if isinstance(u, str):
            u = uuid.UUID(u)
        if u == ZERO:
            return 0
        if u not in self.uids:
            self.uids[u] = len(self.uids) + 1
        return self.uids[u]

    def install(self):
        tracer = self
        from geoh5py.shared.concatenation import ConcatenatedData

        def wrapped(self, entity, field, remove=False):
            if tracer.muted:
                return tracer.orig(self, entity, field, remove)
            tracer.depth += 1
            try:
                return wrapped_inner(self, entity, field, remove)
            finally:
                tracer.depth -= 1

        def wrapped_inner(self, entity, field, remove=False):
            kd = isinstance(entity, ConcatenatedData)
            if hasattr(entity, f"_{field}"):
                vals = getattr(entity, f"_{field}", None)
                o, d = entity.uid, ZERO
            elif entity.name == field:
                vals = getattr(entity, "values", None)
                o, d = entity.parent.uid, entity.uid
            else:
                return tracer.orig(self, entity, field, remove)
            f2 = field
            if field == "property_groups" and isinstance(vals, list):
                f2 = "property_group_ids"
            alias = tracer.KEY_MAP.get(f2, f2)
            err = None
            try:
                tracer.orig(self, entity, field, remove)
            except Exception as e:  # noqa: BLE001
                err = e
            idx = self.index.get(alias)
            dat = self.data.get(alias)
            rows = None
            if idx is not None:
                rows = [[int(r[0]), int(r[1]), tracer.num(r[2]), tracer.num(r[3])] for r in idx]
            tracer.log.append({
                "label": alias, "kd": bool(kd), "o": tracer.num(o), "d": tracer.num(d),
                "remove": bool(remove) or vals is None,
                "n": None if vals is None else len(vals),
                "rows": rows, "data": toks(dat) if dat is not None else None,
                "err": type(err).__name__ if err else None,
            })
            if err:
                raise err

        self.C.update_array_attribute = wrapped

        # rows deleted directly (outside update_array_attribute): the arrays of a removed hole.  For the model this is the
        # removal of the identifier of that row from the channel.
        def del_rows(self, label, index):
            if tracer.muted or tracer.depth > 0:
                return tracer.orig_del(self, label, index)
            row = self.index[label][index]
            o, d = tracer.num(row[2]), tracer.num(row[3])
            tracer.orig_del(self, label, index)
            idx, dat = self.index.get(label), self.data.get(label)
            rows = [[int(r[0]), int(r[1]), tracer.num(r[2]), tracer.num(r[3])] for r in idx] if idx is not None else None
            tracer.log.append({"label": label, "kd": d != 0, "o": o, "d": d, "remove": True, "n": None, "rows": rows,
                               "data": toks(dat) if dat is not None else None, "err": None})

        self.orig_del = self.C.delete_index_data
        self.C.delete_index_data = del_rows

        # attribute records (model M2c): every update_concatenated_attributes / remove_entity call with the key list and the
        # identifiers of the records afterwards
        def rec_state(conc):
            keys = conc.attributes_keys
            attrs = conc.concatenated_attributes
            if keys is None or attrs is None:
                return None, None
            return ([tracer.num(k) for k in keys],
                    [tracer.num(r["ID"]) if r.get("ID") else 0 for r in attrs["Attributes"]])

        def upd(self, entity):
            tracer.orig_upd(self, entity)
            if not tracer.muted:
                keys, ids = rec_state(self)
                tracer.log.append({"rec": "upsert", "u": tracer.num(entity.uid), "keys": keys, "ids": ids})

        def rem(self, entity):
            u = tracer.num(entity.uid)
            err = None
            try:
                tracer.orig_rem(self, entity)
            except Exception as e:  # noqa: BLE001
                err = e
            if not tracer.muted:
                keys, ids = rec_state(self)
                tracer.log.append({"rec": "remove", "u": u, "keys": keys, "ids": ids, "err": type(err).__name__ if err else None})
            if err:
                raise err

        self.orig_upd = self.C.update_concatenated_attributes
        self.orig_rem = self.C.remove_entity
        self.C.update_concatenated_attributes = upd
        self.C.remove_entity = rem

    def uninstall(self):
        self.C.update_array_attribute = self.orig
        self.C.delete_index_data = self.orig_del
        self.C.update_concatenated_attributes = self.orig_upd
        self.C.remove_entity = self.orig_rem


def gen_history(rng, n_ops):
    """An abstract op list; interpreted against the live state (invalid picks are skipped)."""
    ops = [("add_hole",), ("add_hole",)]
    kinds = ["add_data"] * 10 + ["set"] * 8 + ["rm_ws"] * 3 + ["rm_parent"] * 3 + ["reopen"] * 2 + [
        "add_hole", "rm_hole_ws", "rm_hole_parent", "copy_group", "copy_group"] + ["add_int"] * 5 + ["rm_pg"] * 2
    for _ in range(n_ops):
        k = rng.choice(kinds)
        pool = INAMES if k == "add_int" or (k in ("set", "rm_ws", "rm_parent") and rng.random() < 0.3) else NAMES
        ops.append((k, rng.randrange(4), rng.choice(pool), rng.randrange(1 << 30)))
    if rng.random() < 0.15:
        ops.append(("copy_twice", 0, "A", 0))
        ops.append(("reopen",))
        return ops
    if rng.random() < 0.25:
        # renaming is a recorded finding whose after-effects (stale 'Property:<old>' keys) would
        # contaminate later operations: it is exercised as the last mutation of a history
        ops.append(("rename", rng.randrange(4), rng.choice(NAMES), 0))
    ops.append(("reopen",))
    return ops


def directed_histories():
    """Corpus run before the random histories: (hist_id, ops).  hist_id % 5 == 4 makes the first hole's depth table empty, so a
    data name shared by all holes has a legal zero-length entry for that hole; the name is then removed from every hole that
    holds values (through the workspace, through the parent, by removing the hole) and the group is re-opened."""
    A = lambda h, n="A": ("add_data", h, n, 1)          # noqa: E731
    out = []
    for hid in (4, 9):
        out.append((hid, [("add_hole",)] * 3 + [A(0), A(1), A(2), ("rm_ws", 1, "A", 0), ("rm_parent", 2, "A", 0), ("reopen",),
                          ("set", 0, "A", 0), ("reopen",)]))
        out.append((hid, [("add_hole",)] * 3 + [A(2), A(0), A(1), A(1, "B"), ("rm_parent", 1, "A", 0), ("rm_ws", 2, "A", 0), ("reopen",),
                          A(1), ("rm_ws", 1, "A", 0), ("reopen",)]))
        out.append((hid, [("add_hole",)] * 2 + [A(0), A(1), A(0, "B"), ("rm_hole_ws", 1, "A", 0), ("reopen",), ("rm_ws", 0, "B", 0), ("reopen",)]))
        out.append((hid, [("add_hole",)] * 3 + [A(0), A(1), ("set", 1, "A", 0), ("rm_ws", 1, "A", 0), ("reopen",), A(2), ("reopen",)]))
    for hid in (1, 2):
        # the group is copied to another workspace; the first data set of the copy is rewritten (every later start index moves),
        # then a data set of the source
        out.append((hid, [("add_hole",)] * 3 + [A(0), A(1), A(2), A(1, "B"), ("copy_group", 0, "A", 8), ("reopen",),
                          ("copy_group", 0, "A", 15), ("set", 2, "A", 0), ("reopen",)]))
    return out


def run_history(ctx: Ctx, tracer: Tracer, hist_id: int, version: float, ops, path):
    """Run one history on the real package.  Returns (driver lines, expectations, stats)."""
    from geoh5py.groups import DrillholeGroup
    from geoh5py.objects import Drillhole
    from geoh5py.workspace import Workspace

    rng_vals = np.random.default_rng(hist_id)
    import random as _random
    rng_req = _random.Random(hist_id)
    lines, expect = [{"m": "concat", "op": "reset"}, {"m": "records", "op": "reset"}], [None, None]
    ref: dict[str, dict[str, list]] = {}       # hole name -> data name -> tokens (the Spec)
    depth_len: dict[str, int] = {}
    renamed = False
    tainted: set = set()      # (hole, data) renamed in this history -> known finding, judged separately
    stats = {"replaced": 0, "shared": False, "prims": 0}
    failures = []
    case = {"version": version, "ops": [list(o) for o in ops]}

    def flush_trace(tag):
        for ev in tracer.log:
            stats["prims"] += 1
            if "rec" in ev:
                lines.append({"m": "records", "op": ev["rec"], "u": ev["u"], "fields": []})
                expect.append({"records": True, "keys": ev["keys"], "ids": ev["ids"], "tag": tag, "err": ev.get("err"), "u": ev["u"],
                               "what": ev["rec"]})
                continue
            if ev["remove"]:
                line = {"m": "concat", "op": "drop", "label": ev["label"], "kd": ev["kd"],
                        "u": ev["d"] if ev["kd"] else ev["o"]}
            else:
                n = ev["n"]
                v = (ev["data"] or [])[-n:] if n else []
                line = {"m": "concat", "op": "put", "label": ev["label"], "kd": ev["kd"],
                        "o": ev["o"], "d": ev["d"], "v": v}
            lines.append(line)
            expect.append({"rows": ev["rows"], "data": ev["data"], "tag": tag, "err": ev["err"]})
        tracer.log.clear()

    def check_api(ws, tag):
        g = ws.get_entity("G")[0]
        for hname, datas in ref.items():
            h = ws.get_entity(hname)[0]
            if h is None:
                failures.append((f"hole {hname} not found {tag}", f"C04:{tag.split(':')[0]}:hole-lost"))
                continue
            got_list = sorted(n for n in h.get_data_list() if not n.upper().startswith(HIDDEN))
            t_names = {n for (hh, n) in tainted if hh == hname}
            if t_names:
                # a renamed data set keeps its old label on file (known finding): compare the rest
                olds = {n[:-1] for n in t_names}
                if sorted(set(got_list) - olds - t_names) != sorted(set(datas) - t_names):
                    failures.append((f"{hname}: data list {got_list} != expected {sorted(datas)} {tag}",
                                     f"C04:{tag.split(':')[0]}:data-list"))
                elif sorted(got_list) != sorted(datas):
                    failures.append((f"{hname}: after renaming, the data list is {got_list}, expected {sorted(datas)} {tag}",
                                     "C04:rename:values-lost-after-rename"))
            elif got_list != sorted(datas):
                failures.append((f"{hname}: data list {got_list} != expected {sorted(datas)} {tag}",
                                 f"C04:{tag.split(':')[0]}:data-list"))
            for n, vals in datas.items():
                ent = [e for e in h.get_data(n) if e is not None] if n in h.get_data_list() else []
                got = toks(ent[0].values) if ent and ent[0].values is not None else None
                if got != vals and (hname, n) in tainted:
                    failures.append((f"{hname}.{n} (renamed): read {got} expected {vals} {tag}",
                                     "C04:rename:values-lost-after-rename"))
                elif got != vals:
                    failures.append((f"{hname}.{n}: read {got} expected {vals} {tag}",
                                     f"C04:{tag.split(':')[0]}:values"))
        return g

    def compare_group(ws_any, refmap, tag):
        for hname_, datas in refmap.items():
            h_ = ws_any.get_entity(hname_)[0]
            if h_ is None:
                failures.append((f"hole {hname_} not found {tag}", f"C04:{tag.split(':')[0]}:hole-lost"))
                continue
            for n_, vals in datas.items():
                ent = [e for e in h_.get_data(n_) if e is not None] if n_ in h_.get_data_list() else []
                got = toks(ent[0].values) if ent and ent[0].values is not None else None
                if got != vals:
                    failures.append((f"{hname_}.{n_}: read {got} expected {vals} {tag}", f"C04:{tag.split(':')[0]}:values"))

    def check_raw(tag, live=None):
        import h5py
        with h5py.File(path, "r") as f:
            root = f[list(f.keys())[0]]
            for gid in root["Groups"]:
                node = root["Groups"][gid]
                if "Concatenated Data" not in node:
                    continue
                cd = node["Concatenated Data"]
                if "Index" not in cd:
                    continue
                for label in cd["Index"]:
                    idx = cd["Index"][label][:]
                    rows = [[int(r[0]), int(r[1]), tracer.num(r[2]), tracer.num(r[3])] for r in idx]
                    # no stale entry: every index row belongs to a hole that is still in the group
                    if live is not None and str(gid) == live[0]:
                        stale = sorted({r[2] for r in rows if r[2] not in live[1]})
                        if stale:
                            failures.append((f"index '{label}' still holds rows of removed holes {stale}: {rows} {tag}",
                                             "C04:raw:stale-entry:" + ("object-field" if all(r[3] == 0 for r in rows if r[2] in stale) else "data")))
                    if "Data" in cd and label in cd["Data"]:
                        dat = cd["Data"][label][:]
                    elif label in cd:
                        dat = cd[label][:]
                    else:
                        dat = []
                    kd = any(r[3] != 0 for r in rows) or label not in ("Surveys", "Trace", "TraceDepth", "Property Group IDs")
                    lines.append({"m": "concat", "op": "check", "kd": kd, "rows": rows, "data": toks(dat)})
                    expect.append({"raw_check": label, "rows": rows, "tag": tag})
                # exactly one attribute record per live hole / data / property group
                key = "Attributes" if "Attributes" in cd else "Attributes Jsons"
                import json as _json
                recs = cd[key][()]
                if key == "Attributes":
                    recs = _json.loads(recs[0] if isinstance(recs, np.ndarray) else recs)["Attributes"]
                else:
                    recs = [_json.loads(r) for r in recs]
                ids = [r.get("ID") for r in recs]
                if len(ids) != len(set(ids)) or any(i is None for i in ids):
                    failures.append((f"attribute records not one-per-entity {ids} {tag}", "C04:records:duplicate-or-empty"))
                n_holes = sum(1 for r in recs if "Object Type ID" in r)
                n_data = sum(1 for r in recs if "Type ID" in r)
                exp_data = sum(len(d) + (1 if any(x[0] in NAMES for x in d) else 0) + (2 if any(x[0] in INAMES for x in d) else 0)
                               for d in ref.values())      # a renamed data set keeps its first letter
                if n_holes != len(ref) or n_data != exp_data:
                    failures.append((f"records: {n_holes} holes/{n_data} data, expected {len(ref)}/{exp_data} {tag}",
                                     "C04:records:count"))

    def check_table(ws, tag):
        """The group-wide table view (DrillholesGroupTable): (a) correspondence with the model's `table` computed from the
        replayed channels, (b) oracle against the reference per-hole values: one contiguous block per hole that has depths,
        each column labelled `name` holding that hole's values of `name` padded with the no-data value."""
        if renamed:
            return
        g = ws.get_entity("G")[0]
        try:
            tables = g.drillholes_tables
        except Exception as e:  # noqa: BLE001
            failures.append((f"drillholes_tables raised {type(e).__name__}: {str(e)[:100]} {tag}", "C04:table:raises"))
            return
        for tname, tb in tables.items():
            try:
                assoc = list(tb.association)
                props = list(tb.properties)
            except Exception as e:  # noqa: BLE001
                failures.append((f"table {tname}: association/properties raised {type(e).__name__} {tag}", "C04:table:raises"))
                continue
            if not props:
                continue
            # requests: the full table, and a sub-selection of the properties in an arbitrary order
            sel = list(props)
            rng_req.shuffle(sel)
            sel = sel[: max(1, rng_req.randrange(len(sel) + 1))]
            reqs = [("full", assoc + props, True), ("by_name", sel, bool(rng_req.randrange(2)))]
            for kind_, names_, spatial in reqs:
                try:
                    t = tb.depth_table if kind_ == "full" else tb.depth_table_by_name(tuple(names_), spatial_index=spatial)
                except Exception as e:  # noqa: BLE001
                    own_ = INAMES if tname.startswith("Interval") else NAMES
                    total = sum(depth_len[hh] for hh, dd in ref.items() if any(x in dd for x in own_))
                    sig = ("C04:table:raises:IndexError:table-without-rows" if isinstance(e, IndexError) and total == 0
                           else "C04:table:raises")
                    failures.append((f"table {tname} {kind_} {names_} raised {type(e).__name__}: {str(e)[:100]} {tag}", sig))
                    continue
                cols = list(names_) if kind_ == "full" or not spatial else assoc + list(names_)
                labels = (["Drillhole"] if spatial else []) + cols
                if list(t.dtype.names) != labels:
                    failures.append((f"table {tname}: column labels {t.dtype.names} != {labels} {tag}", "C04:table:labels"))
                    continue
                real = []
                for i in range(len(t)):
                    hole = tracer.num(t["Drillhole"][i]) if spatial else 0
                    real.append([hole, [tok(t[c][i]) for c in cols]])
                stats["tables"] = stats.get("tables", 0) + 1
                lines.append({"m": "concat", "op": "table", "assoc": assoc[0], "names": cols,
                              "ndv": [[c, "nan"] for c in cols]})
                expect.append({"table": real, "spatial": spatial, "tag": tag, "req": [tname, kind_, cols]})
                # --- oracle from the reference values (depth tables only: the reference knows their depths)
                if assoc not in (["DEPTH"], ["FROM", "TO"]):
                    continue
                own = NAMES if assoc == ["DEPTH"] else INAMES
                exp_blocks = {}
                for hname, datas in ref.items():
                    n = depth_len[hname]
                    if not any(dn in datas for dn in own) or n == 0:
                        continue
                    hid = tracer.num(ws.get_entity(hname)[0].uid)
                    blk = []
                    for i in range(n):
                        row = []
                        for c in cols:
                            if c == "DEPTH" or c == "TO":
                                row.append(tok(float(i + 1)))
                            elif c == "FROM":
                                row.append(tok(float(i)))
                            else:
                                row.append(datas[c][i] if c in datas else "nan")
                        blk.append(row)
                    exp_blocks[hid] = blk
                if spatial:
                    seen, order = {}, []
                    for hole, row in real:
                        if hole not in seen:
                            seen[hole] = []
                            order.append(hole)
                        elif order[-1] != hole:
                            failures.append((f"table {tname}: rows of one hole are not contiguous {tag}", "C04:table:not-contiguous"))
                            break
                        seen[hole].append(row)
                    if seen != exp_blocks:
                        failures.append((f"table {tname} {kind_} {cols}: blocks {seen} != per-hole values {exp_blocks} {tag}",
                                         "C04:table:values"))
                else:
                    got = sorted(map(tuple, (r for _, r in real)))
                    want = sorted(tuple(r) for b in exp_blocks.values() for r in b)
                    if got != want:
                        failures.append((f"table {tname} {kind_} {cols}: rows {got} != per-hole values {want} {tag}",
                                         "C04:table:values"))

    ws = Workspace.create(path, version=version)
    g = DrillholeGroup.create(ws, name="G")
    flush_trace("init")
    state = {"ws": ws, "g": g, "hole_counter": 0}

    def do_op(step, op):
        nonlocal renamed
        ws, g = state["ws"], state["g"]
        kind = op[0]
        tag = f"{kind}:{step}"
        if True:
            holes = sorted(ref)
            if kind == "add_hole":
                if len(ref) >= 4:
                    return
                state["hole_counter"] += 1
                hole_counter = state["hole_counter"]
                name = f"h{hole_counter}"
                Drillhole.create(ws, parent=g, name=name, collar=[0.0, 0.0, 0.0],
                                 surveys=np.c_[[0.0, 10.0], [0.0, 0.0], [-90.0, -90.0]])
                ref[name] = {}
                depth_len[name] = [0, 1, 2, 3, 7][(hole_counter + hist_id) % 5]      # zero-length tables are legal
                ctx.count("op:add_hole")
            elif kind == "reopen":
                live = ("{%s}" % g.uid, {tracer.num(ws.get_entity(hh)[0].uid) for hh in ref if ws.get_entity(hh)[0] is not None})
                ws.close()
                flush_trace(tag)
                check_raw(tag, live)
                gc.collect()
                ws = Workspace(path)
                state["ws"] = ws
                state["g"] = check_api(ws, "reopen:" + str(step))
                check_table(ws, "reopen:" + str(step))
                ctx.count("op:reopen")
                return
            elif not holes:
                return
            else:
                hname = holes[op[1] % len(holes)]
                h = ws.get_entity(hname)[0]
                dname = op[2]
                if kind == "add_data":
                    if dname in ref[hname]:
                        return
                    n = depth_len[hname]
                    k = n if op[3] % 3 else max(0, n - 1)   # sometimes shorter: padded with nan
                    vals = rng_vals.integers(-800, 800, size=k) / 8.0
                    if k == 0 and n > 0:
                        return
                    h.add_data({dname: {"depth": np.arange(1.0, n + 1.0), "values": vals}})
                    ref[hname][dname] = toks(np.r_[vals, [np.nan] * (n - k)])
                    if sum(1 for hh in ref.values() if dname in hh) > 1:
                        stats["shared"] = True
                    ctx.count("op:add_data")
                elif kind == "add_int":
                    n = depth_len[hname]
                    if dname in ref[hname] or n == 0:
                        return
                    k = n if op[3] % 3 else max(1, n - 1)   # sometimes shorter: padded with nan
                    vals = rng_vals.integers(-800, 800, size=k) / 8.0
                    h.add_data({dname: {"from-to": np.c_[np.arange(n) * 1.0, np.arange(n) + 1.0], "values": vals}})
                    ref[hname][dname] = toks(np.r_[vals, [np.nan] * (n - k)])
                    if sum(1 for hh in ref.values() if dname in hh) > 1:
                        stats["shared"] = True
                    ctx.count("op:add_interval")
                elif kind == "rm_pg":
                    # a whole property group of one hole is removed through the workspace: every data set in it goes
                    pgs_ = [x for x in (h.property_groups or [])]
                    if not pgs_:
                        return
                    pg_ = pgs_[op[3] % len(pgs_)]
                    pool_ = INAMES if pg_.name.startswith("Interval") else NAMES
                    del pgs_
                    ws.remove_entity(pg_)
                    del pg_
                    for x in pool_:
                        ref[hname].pop(x, None)
                    stats["replaced"] += 1
                    ctx.count("op:rm_pg")
                elif kind == "set":
                    if dname not in ref[hname]:
                        return
                    n = depth_len[hname]
                    vals = rng_vals.integers(-800, 800, size=n) / 8.0
                    h.get_data(dname)[0].values = vals
                    ref[hname][dname] = toks(vals)
                    stats["replaced"] += 1
                    ctx.count("op:set_values")
                elif kind in ("rm_ws", "rm_parent"):
                    if dname not in ref[hname]:
                        return
                    d = h.get_data(dname)[0]
                    if kind == "rm_ws":
                        ws.remove_entity(d)
                    else:
                        h.remove_children([d])
                    del d
                    del ref[hname][dname]
                    stats["replaced"] += 1
                    ctx.count("op:" + kind)
                    # the hole must no longer list the removed data among its children
                    left = [c.name for c in h.children if getattr(c, "name", None) == dname]
                    if left:
                        failures.append((f"{hname}.children still lists removed data {dname} after {kind}",
                                         f"C04:{kind}:children-still-listed"))
                elif kind in ("rm_hole_ws", "rm_hole_parent"):
                    if len(ref) <= 1:
                        return
                    if kind == "rm_hole_ws":
                        ws.remove_entity(h)
                    else:
                        g.remove_children([h])
                    del ref[hname]
                    stats["replaced"] += 1
                    ctx.count("op:" + kind)
                elif kind == "copy_group":
                    # the group is copied into another workspace; a data set is then rewritten in the copy and one in the
                    # source: each group must keep reading its own values (live and, for the copy, after re-opening)
                    if renamed or not any(ref[x] for x in ref):
                        return
                    cands = sorted((hh, nn) for hh in ref for nn in ref[hh])
                    h2name, d2name = cands[op[3] % len(cands)]
                    hs_name, ds_name = cands[(op[3] // 7) % len(cands)]
                    path2 = str(path) + ".copy.geoh5"
                    ref2 = {hh: dict(dd) for hh, dd in ref.items()}
                    tracer.muted = True
                    try:
                        ws2 = Workspace.create(path2)
                        g.copy(parent=ws2)
                        compare_group(ws2, ref2, "copy_group:fresh-copy")

                        n2 = depth_len[h2name]
                        v2 = rng_vals.integers(-800, 800, size=n2) / 8.0
                        ws2.get_entity(h2name)[0].get_data(d2name)[0].values = v2
                        ref2[h2name][d2name] = toks(v2)
                        if op[3] % 2 == 0:
                            # the copy's hole also gets a new name: the source's hole must keep its own
                            ws2.get_entity(h2name)[0].name = h2name + "_in_copy"
                            ref2[h2name + "_in_copy"] = ref2.pop(h2name)
                    finally:
                        tracer.muted = False
                    # values the caller has not read yet are fetched from the concatenated arrays: drop the cached copies
                    for hh in ref:
                        hx = ws.get_entity(hh)[0]
                        for nn in (hx.get_data_list() if hx is not None else []):
                            for ee in hx.get_data(nn):
                                if ee is not None and hasattr(ee, "_values"):
                                    ee._values = None  # pylint: disable=protected-access
                    check_api(ws, "copy_group:source-after-edit-of-copy")
                    ns = depth_len[hs_name]
                    vs_ = rng_vals.integers(-800, 800, size=ns) / 8.0
                    ws.get_entity(hs_name)[0].get_data(ds_name)[0].values = vs_
                    ref[hs_name][ds_name] = toks(vs_)
                    stats["replaced"] += 1
                    tracer.muted = True
                    try:
                        compare_group(ws2, ref2, "copy_group:copy-after-edit-of-source")
                        ws2.close()
                        ws2 = Workspace(path2)
                        compare_group(ws2, ref2, "copy_group:copy-reopened")
                        ws2.close()
                    finally:
                        tracer.muted = False
                        if os.path.exists(path2):
                            os.remove(path2)
                    ctx.count("op:copy_group")
                elif kind == "copy_twice":
                    # the group is copied twice into one other workspace: the second time the identifiers of the group and of
                    # its holes are taken there
                    path2 = str(path) + ".twice.geoh5"
                    tracer.muted = True
                    try:
                        ws2 = Workspace.create(path2)
                        g.copy(parent=ws2)
                        try:
                            g.copy(parent=ws2)
                        except Exception as e:  # noqa: BLE001
                            failures.append((f"a second copy of the group into the same other workspace raised {type(e).__name__}: "
                                             f"{str(e)[:80]}", f"C04:copy_group:second-copy-raises:{type(e).__name__}"))
                        ws2.close()
                    finally:
                        tracer.muted = False
                        if os.path.exists(path2):
                            os.remove(path2)
                    ctx.count("op:copy_twice")
                    renamed = True          # nothing after this operation is compared (the group may be left half copied)
                    return
                elif kind == "rename":
                    if dname not in ref[hname]:
                        return
                    new = dname + "r"
                    if new in ref[hname]:
                        return
                    h.get_data(dname)[0].name = new
                    ref[hname][new] = ref[hname].pop(dname)
                    renamed = True
                    tainted.add((hname, new))
                    ctx.count("op:rename")
                del h
            flush_trace(tag)
            check_api(ws, tag)
            check_table(ws, tag)

    try:
        for step, op in enumerate(ops):
            try:
                do_op(step, op)
            except Exception as e:  # noqa: BLE001  an API call that must succeed raised
                failures.append((f"{op[0]} at step {step} raised {type(e).__name__}: {str(e)[:120]}",
                                 f"C04:{op[0]}:raises-{type(e).__name__}"))
                break
    finally:
        ws = state["ws"]
        try:
            ws.close()
        except Exception:  # noqa: BLE001
            pass
        tracer.log.clear()
    return case, lines, expect, stats, failures, renamed


def compare(ctx: Ctx, cases):
    all_lines = []
    for c in cases:
        all_lines.extend(c["lines"])
    outs = ctx.driver.run(all_lines)
    i = 0
    for c in cases:
        stop = False      # after the first disagreement of a case the model state is no longer comparable: skip the rest
        for line, exp in zip(c["lines"], c["expect"]):
            out = outs[i]
            i += 1
            if exp is None or stop:
                continue
            if "raw_check" in exp:
                ctx.count("raw_channels_judged_by_lean")
                if out is not True:
                    ctx.fail(c["case"], f"raw file channel '{exp['raw_check']}' is not exactly tiled ({exp['tag']}): {exp['rows']}",
                             "C04:raw:not-tiled", observed=exp["rows"])
                continue
            if "records" in exp:
                ctx.count("record_calls_compared_with_model")
                if exp.get("err") or exp["keys"] is None:
                    ctx.count("record_call_raised_or_no_list")
                    continue
                if not isinstance(out, dict) or out.get("keys") != exp["keys"] or out.get("ids") != exp["ids"]:
                    ctx.disagree(c["case"], f"M2c correspondence: attribute records after {exp['what']} of {exp['u']} ({exp['tag']})",
                                 model=out, impl={"keys": exp["keys"], "ids": exp["ids"]})
                    stop = True
                elif out.get("inv") is not True:
                    ctx.fail(c["case"], f"attribute records are not one per identifier after {exp['what']} of {exp['u']} ({exp['tag']}): "
                             f"keys {exp['keys']} ids {exp['ids']}", "C04:records:duplicate-or-empty", observed=exp)
                continue
            if "table" in exp:
                ctx.count("tables_compared_with_model")
                model_rows = [[r["o"] if exp["spatial"] else 0, r["v"]] for r in out] if isinstance(out, list) else None
                if model_rows != exp["table"]:
                    ctx.disagree(c["case"], f"M2b correspondence: table {exp['req']} ({exp['tag']})",
                                 model=model_rows, impl=exp["table"])
                continue
            ctx.traces += 1
            if isinstance(out, dict) and out.get("wk") is False:
                ctx.count("hypothesis-WellKeyed-false")
                ctx.disagree(c["case"], f"hypothesis WellKeyed of run_tinv does not hold for the real call {line} ({exp['tag']}): "
                             "a hole is given a second data set under a label it already holds", model=out, impl=None)
                stop = True
            if exp.get("err"):
                ctx.count("prim_raised")
                continue
            m_rows = out["rows"] if isinstance(out, dict) else None
            m_data = out["data"] if isinstance(out, dict) else None
            if exp["rows"] is None and (out is None or m_rows == []):
                continue
            if m_rows != exp["rows"] or m_data != (exp["data"] if exp["data"] is not None else m_data):
                ctx.disagree(c["case"], f"M2 correspondence: update_array_attribute {line} ({exp['tag']})",
                             model=out, impl={"rows": exp["rows"], "data": exp["data"]})
                stop = True


def run(ctx: Ctx):
    import warnings
    warnings.filterwarnings("ignore")
    n_hist = ctx.n(40, 300)          # thorough: 300 histories of up to 45 operations (the table view is read after every one)
    max_ops = 30 if ctx.tier == "quick" else 45
    tracer = Tracer()
    tracer.install()
    cases = []
    try:
        directed = [(hid, ops, v) for hid, ops in directed_histories() for v in (2.0, 2.1)]
        for i in range(n_hist + len(directed)):
            if i < len(directed):
                hist_id, ops, version = directed[i]
                ops = [("add_hole",)] * 0 + list(ops)
                ctx.count("directed-histories")
            else:
                version = 2.0 if i % 2 == 0 else 2.1
                ops = gen_history(ctx.rng, ctx.rng.randrange(8, max_ops))
                hist_id = ctx.rng.randrange(1 << 30)
            path = ctx.scratch / f"c04_{i}.geoh5"
            try:
                case, lines, expect, stats, failures, renamed = run_history(ctx, tracer, hist_id, version, ops, path)
            finally:
                if path.exists():
                    os.remove(path)
            case["hist_id"] = hist_id
            ctx.case(case, nontrivial=stats["replaced"] > 0 and stats["shared"])
            ctx.count(f"version:{version}")
            ctx.count("prims", stats["prims"])
            for what, sig in failures:
                ctx.fail(case, what, sig)
            cases.append({"case": case, "lines": lines, "expect": expect})
    finally:
        tracer.uninstall()
    compare(ctx, cases)


def replay(ctx: Ctx, payload):
    import warnings
    warnings.filterwarnings("ignore")
    case = payload["case"]
    tracer = Tracer()
    tracer.install()
    try:
        path = ctx.scratch / "c04_replay.geoh5"
        ops = [tuple(o) for o in case["ops"]]
        c, lines, expect, stats, failures, renamed = run_history(ctx, tracer, case.get("hist_id", 0), case["version"], ops, path)
        c["hist_id"] = case.get("hist_id", 0)
        ctx.case(c, True)
        for what, sig in failures:
            ctx.fail(c, what, sig)
        compare(ctx, [{"case": c, "lines": lines, "expect": expect}])
    finally:
        tracer.uninstall()

LEVEL_TEXT = (
    "Lean theorems (unbounded in holes, names, lengths and number of calls): the concatenated index/data arrays stay "
    "exactly tiled under every update_array_attribute call (put_tiled/drop_tiled), in a tiled channel every array position "
    "belongs to exactly one index row - no gap, overlap or duplicate (tiled_exact, tiled_no_overlap), a hole/data reads back "
    "exactly the values last written (get_put_same), writes/removals never alter another identifier's values (get_put_other/"
    "get_drop_other), and any call sequence refines a last-write-wins map (refines_map). Table view (model M2b of "
    "DrillholesGroupTable): after any history in which no hole holds two data sets of one name, each hole appears once, in the "
    "order of its association entry, with as many rows as it has depths/intervals; row i lists entry i of what the API reads "
    "for each requested data set of that hole and the no-data value where it has none or fewer (block_entry, "
    "table_after_history, holes_nodup, mem_holes_iff), and the association column is the stored association array itself "
    "(sorted_slices_eq_data, table_assoc_column). The models are tied to the code by replaying every real "
    "update_array_attribute call of random API histories on the model and comparing rows+data after each call, by comparing "
    "the real depth_table / depth_table_by_name (arbitrary column selections and orders) with the model's table after every "
    "operation, by Lean's tiledCheck judging the raw file rows at every close, and by comparing API reads and table blocks "
    "with the abstract map. Attribute records (model M2c of attributes_keys / the Attributes list): under any sequence of "
    "record updates and removals the two parallel lists stay aligned and duplicate-free and read like a finite map identifier -> "
    "last record, so an identifier is listed iff its entity is live - exactly one record per live hole, data set and property "
    "group (Records.refines_map, records_exact); every real update_concatenated_attributes / remove_entity call is replayed on "
    "the model and the key and record lists compared after each. Partial: the 'Property:<name>' entries of a hole's record and "
    "depth collocation are exercised by the oracle only."
)
LEVEL_NOTE = (
    "Trusted: Lean kernel; harness wrapper/canonicalisation; NumPy/h5py. Modelled not verified: float32 narrowing, "
    "u4 overflow, labels colliding with object fields, NumPy's tie-break among index rows with equal start (such rows "
    "contribute no table row); interval tables are compared with the model but have no reference oracle."
)
TECHNIQUE = "Lean 4 invariant + refinement proof (Tiled, refines_map, counting argument for exact tiling, table view as a function of the abstract map) with trace-replay and table correspondence against the real Concatenator / DrillholesGroupTable"
