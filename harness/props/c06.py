"""C06 — identifiers are unique within a workspace and stable across copies.

Collision-biased histories: half of the creations ask for an identifier from a pool of 6, so
re-use of an identifier in use (same kind, other kind), re-use after removal + GC and copies into
the same workspace are the common case.  After each call: census of identifiers over the tree
(no duplicates), one type per object/group class, a refused request must leave the snapshot
unchanged; the model `Ws` must agree on outcome (ok / refused) and tree.
"""
from harness import wscheck, wsh
from harness.core import Ctx

ID = "C06"
LEAN_MODULES = ["GeoVerif.Props.C06"]
THEOREMS = [
    "GeoVerif.Ws.uniq_run",
    "GeoVerif.Ws.create_in_use_refused",
    "GeoVerif.Ws.refused_no_effect",
    "GeoVerif.Ws.lookup_owner",
    "GeoVerif.Ws.copy_fresh",
    "GeoVerif.Ws.copy_collision_refused",
    "GeoVerif.Ws.step_nodup",
]
RULE = (
    "histories where 50% of create_group/create_object/add_data calls pass uid= from a pool of 6 identifiers, mixed with removals, "
    "gc points, copies and re-opens; distinct by hash of the op list; non-trivial when at least one creation was refused and one "
    "copy or re-creation after removal succeeded"
)
ASSUMPTIONS = [
    "cross-workspace copies (identifier kept when free in the target) are exercised by C12's correspondence",
    "type identifiers: one type per object/group class is checked by census on the real workspace; data types are per data name",
]
LEVEL_TEXT = (
    "Lean theorems: no two live entities share an identifier after any history (uniq_run/step_nodup), an explicit request to reuse "
    "an identifier in use is refused (create_in_use_refused) and a refused request has no side effect (refused_no_effect), a lookup "
    "returns the one owner (lookup_owner), a copy's identifiers are fresh and pairwise distinct, a colliding copy is refused "
    "(copy_fresh, copy_collision_refused). Tied to the code by collision-biased differential histories with identifier census."
)
LEVEL_NOTE = "Trusted: Lean kernel, harness. The model has one identifier space for groups, objects and data (as the property states)."
TECHNIQUE = "Lean 4 invariant proof (Nodup of identifiers under every operation) + collision-biased differential histories"
WANT = {"C06"}
WEIGHTS = {"create_group": 5, "create_object": 6, "add_data": 6, "remove_ws": 4, "remove_parent": 2, "copy": 4, "gc": 2,
           "rename": 0, "flag": 0, "set_geometry": 0, "set_values": 0, "pg_add": 1, "move": 1}


def census(ctx, s, case):
    for exp in s.expect:
        t = exp.get("tree") or exp.get("fresh")
        if not t:
            continue
        uids = wsh.tree_uids(t)
        if len(uids) != len(set(uids)):
            dup = sorted({u for u in uids if uids.count(u) > 1})
            ctx.fail(case, f"identifiers {dup} occur twice in the workspace tree", "C06:duplicate-identifier")
            return
        types = {}

        def walk(n):
            if n["kind"] in ("group", "object"):
                types.setdefault(n["cls"], set()).add(n["typ"])
            for k in n["kids"]:
                walk(k)
        walk(t)
        for cls, ts in types.items():
            if len(ts) > 1:
                ctx.fail(case, f"entities of class {cls} have {len(ts)} different types", "C06:several-types-for-one-class")
                return


def run(ctx: Ctx):
    wscheck.run_props(ctx, WANT, weights=WEIGHTS, pool=6, post=census)


def replay(ctx: Ctx, payload):
    wscheck.replay_props(ctx, payload, WANT, post=census)
