"""C06 — identifiers are unique within a workspace and stable across copies.

Collision-biased histories: half of the creations ask for an identifier from a pool of 6, so
re-use of an identifier in use (same kind, other kind), re-use after removal + GC and copies into
the same workspace are the common case.  After each call: census of identifiers over the tree
(no duplicates), one type per object/group class, a refused request must leave the snapshot
unchanged; the model `Ws` must agree on outcome (ok / refused) and tree.
"""
from harness import wscheck, wsh
from harness.core import Ctx

ID = "C06"
LEAN_MODULES = ["GeoVerif.Props.C06"]
THEOREMS = [
    "GeoVerif.Ws.uniq_run",
    "GeoVerif.Ws.create_in_use_refused",
    "GeoVerif.Ws.create_pg_uid_refused",
    "GeoVerif.Ws.pgSet_in_use_refused",
    "GeoVerif.Ws.refused_no_effect",
    "GeoVerif.Ws.lookup_owner",
    "GeoVerif.Ws.copy_fresh",
    "GeoVerif.Ws.copy_collision_refused",
    "GeoVerif.Ws.step_nodup",
    "GeoVerif.Ws.cross_keeps_free",
    "GeoVerif.Ws.cross_replaces_used",
    "GeoVerif.Ws.cross_not_used",
    "GeoVerif.Ws.crossIds_nodup",
]
RULE = (
    "histories where 50% of create_group/create_object/add_data calls pass uid= from a pool of 6 identifiers, mixed with removals, "
    "gc points, copies and re-opens; distinct by hash of the op list; non-trivial when at least one creation was refused and one "
    "copy or re-creation after removal succeeded; plus two-workspace scenarios (make in A / copy into B / remove the copy in B and drop it / list B / re-open B / "
    "create an entity in B under an identifier of A) judged by the identifier policy crossIds"
)
ASSUMPTIONS = [
    "cross-workspace copies: identifiers of the copied object and its data children are judged (kept iff free in the target by the harness's own account of what lives there); property-group identifiers of cross-workspace copies are not judged",
    "type identifiers: one type per object/group class is checked by census on the real workspace; data types are per data name",
]
LEVEL_TEXT = (
    "Lean theorems: no two live entities share an identifier after any history (uniq_run/step_nodup), an explicit request to reuse "
    "an identifier in use is refused (create_in_use_refused) and a refused request has no side effect (refused_no_effect), a lookup "
    "returns the one owner (lookup_owner), a copy's identifiers are fresh and pairwise distinct, a colliding copy is refused "
    "(copy_fresh, copy_collision_refused). Property groups draw from the same space: an entity cannot take the identifier of a property "
    "group, a property group neither that of an entity nor that of a group of another object (create_pg_uid_refused, "
    "pgSet_in_use_refused), both refusals without effect. Tied to the code by collision-biased differential histories (identifiers "
    "named by the caller as uid=, ID=<UUID> or ID='<string>', for entities and for property groups) with identifier census over "
    "entities and property groups."
)
LEVEL_NOTE = "Trusted: Lean kernel, harness. The model has one identifier space for groups, objects, data and property groups (as the property states); types are censused on the real workspace only."
TECHNIQUE = "Lean 4 invariant proof (Nodup of identifiers under every operation) + collision-biased differential histories"
WANT = {"C06"}
WEIGHTS = {"create_group": 5, "create_object": 6, "add_data": 6, "remove_ws": 4, "remove_parent": 2, "copy": 4, "gc": 2,
           "rename": 0, "flag": 0, "set_geometry": 0, "set_values": 0, "pg_add": 1, "move": 1, "pg_create": 5, "comment": 0, "visual": 0}


def census(ctx, s, case):
    for exp in s.expect:
        t = exp.get("tree") or exp.get("fresh")
        if not t:
            continue
        uids = wsh.tree_uids(t)
        if len(uids) != len(set(uids)):
            dup = sorted({u for u in uids if uids.count(u) > 1})
            ctx.fail(case, f"identifiers {dup} occur twice in the workspace tree", "C06:duplicate-identifier")
            return
        # property groups draw their identifiers from the same space

        def pg_uids(n):
            out = [g["uid"] for g in n.get("pgs", [])]
            for k in n["kids"]:
                out += pg_uids(k)
            return out
        pgs = pg_uids(t)
        clash = sorted(set(pgs) & set(uids)) + sorted({u for u in pgs if pgs.count(u) > 1})
        if clash:
            ctx.fail(case, f"identifiers {clash} are held by a property group and by another entity or property group",
                     "C06:duplicate-identifier:property-group")
            return
        types = {}

        def walk(n):
            if n["kind"] in ("group", "object"):
                types.setdefault(n["cls"], set()).add(n["typ"])
            for k in n["kids"]:
                walk(k)
        walk(t)
        for cls, ts in types.items():
            if len(ts) > 1:
                ctx.fail(case, f"entities of class {cls} have {len(ts)} different types", "C06:several-types-for-one-class")
                return


def cross_workspace(ctx: Ctx):
    """Copies from workspace A into workspace B: an identifier is kept exactly when it is free in B.

    The harness keeps its own account of the identifiers alive in B (what it created or copied there and did not
    remove); the Lean policy `crossIds` and the real copy must agree entity by entity."""
    import gc
    import os
    import warnings

    import numpy as np
    warnings.filterwarnings("ignore")
    from geoh5py.objects import Points
    from geoh5py.workspace import Workspace
    n = ctx.n(30, 600)
    lines, recs = [], []
    for i in range(n):
        rng = ctx.rng
        ops = [rng.choice(["make", "make", "copy", "copy", "copy", "remove", "remove", "list", "reopen", "squat"]) for _ in range(rng.randrange(4, 12))]
        case = {"cross": True, "ops": ops, "r": [rng.randrange(1 << 16) for _ in ops]}
        pa, pb = ctx.scratch / f"c06a_{i}.geoh5", ctx.scratch / f"c06b_{i}.geoh5"
        for p in (pa, pb):
            if p.exists():
                os.remove(p)
        uids = wsh.Uids()
        wa, wb = Workspace.create(pa), Workspace.create(pb)
        srcs, live_b, copies_b = [], set(), []          # copies_b: uuids of copied objects alive in B
        kept = fresh = 0
        try:
            for op, r in zip(ops, case["r"]):
                if op == "make" or not srcs:
                    v = np.c_[np.arange(3.0), np.zeros(3), np.zeros(3)] + r % 5
                    o = Points.create(wa, vertices=v, name=f"o{len(srcs)}")
                    for j in range(r % 3):
                        o.add_data({f"d{j}": {"values": np.arange(3.0) + j}})
                    srcs.append(o.uid)
                    del o
                elif op == "copy":
                    src = wa.get_entity(srcs[r % len(srcs)])[0]
                    members = [src] + list(src.children)
                    before = set(live_b)
                    new = src.copy(parent=wb)
                    got = [new] + [next(c for c in new.children if c.name == m.name) for m in members[1:]]
                    pairs, actual = [], []
                    for m, g in zip(members, got):
                        actual.append(uids.num(g.uid))
                        pairs.append([uids.num(m.uid), uids.num(g.uid) if g.uid != m.uid else uids.num(__import__("uuid").uuid4())])
                    lines.append({"m": "ws", "op": "crossids", "used": sorted(uids.num(u) for u in before), "pairs": pairs})
                    recs.append((case, actual, [m.name for m in members]))
                    used = set(before)
                    for m, g in zip(members, got):
                        if m.uid not in used and g.uid != m.uid:
                            ctx.fail(case, f"copy into another workspace: identifier of {m.name} was free there but the copy got a new one",
                                     "C06:cross-copy:free-identifier-not-kept")
                        if g.uid in used:
                            ctx.fail(case, f"copy into another workspace: {m.name} got an identifier that is in use there", "C06:cross-copy:identifier-in-use")
                        kept += g.uid == m.uid
                        fresh += g.uid != m.uid
                        used.add(g.uid)
                    live_b |= {g.uid for g in got}
                    copies_b.append(new.uid)
                    del src, members, new, got, m, g
                elif op == "remove" and copies_b:
                    u = copies_b.pop(r % len(copies_b))
                    e = wb.get_entity(u)[0]
                    gone = {e.uid} | {c.uid for c in e.children}
                    wb.remove_entity(e)
                    del e
                    gc.collect()
                    live_b -= gone
                elif op == "list":
                    _ = (len(wb.objects), len(wb.data), len(wb.groups))
                elif op == "reopen":
                    wb.close()
                    wb = Workspace(str(pb))
                elif op == "squat":
                    # an entity created in B under the identifier of an entity of A: copies of that one must not keep it
                    cand = [u for u in srcs if u not in live_b]
                    if cand:
                        u = cand[r % len(cand)]
                        Points.create(wb, vertices=np.zeros((2, 3)), name="squatter", uid=u)
                        live_b.add(u)
            ctx.case(case, nontrivial=kept > 0 and fresh > 0)
            ctx.count("cross_copy_identifier_kept", kept)
            ctx.count("cross_copy_identifier_fresh", fresh)
        except Exception as e:  # noqa: BLE001
            ctx.case(case, nontrivial=False)
            ctx.fail(case, f"cross-workspace scenario raised {type(e).__name__}: {str(e)[:120]}", f"C06:cross-copy:raises:{type(e).__name__}")
        finally:
            for w in (wa, wb):
                try:
                    w.close()
                except Exception:  # noqa: BLE001
                    pass
            for p in (pa, pb):
                if p.exists():
                    os.remove(p)
    outs = ctx.driver.run(lines) if lines else []
    for (case, actual, names), out in zip(recs, outs):
        ctx.traces += 1
        if list(out) != actual:
            ctx.disagree(case, f"crossIds: model {out} implementation {actual} for {names}")


def run(ctx: Ctx):
    wscheck.run_props(ctx, WANT, weights=WEIGHTS, pool=6, post=census)
    cross_workspace(ctx)


def replay(ctx: Ctx, payload):
    if payload.get("case", {}).get("cross"):
        cross_workspace(ctx)          # scenarios are re-derived from the seed recorded in the replay file
    else:
        wscheck.replay_props(ctx, payload, WANT, post=census)
