"""C14 — ui.json files round-trip.

Ties of the model `UiFile` (lean/GeoVerif/Model/UiFile.lean) to /repo:
  T. the scalar mappers, the three mapper lists and `flatten` are regenerated from the source by the T2 translator on every
     run (lean/GeoVerif/Gen/UiJson.lean); the theorems of Props/C14.lean are re-checked against the regenerated code;
  A. every translated / hand-modelled mapper is run against the Python original on values of every kind (strings that look
     like other value kinds included), and `dict_mapper` with each mapper list on nested values;
  B. whole files: ui.json dictionaries assembled from the template functions of geoh5py/ui_json/templates.py (found by
     reflection) with random member combinations and values from each form's domain are loaded into a real `InputFile`,
     given new data, written, and read back; the model is run on the same dictionary and every stage is compared:
     `update_ui_values` (form after the write), the JSON on disk, the numified dictionary, the flattened + promoted data and the
     form after the read;
  C. `update_ui_values` alone on adversarial switch combinations (optional / enabled / group / groupOptional / dependency /
     isValue) x values x `update_enabled`, model against implementation.
Oracle (the property itself, on the implementation): data and enabled states read back must equal what was written.
"""
from __future__ import annotations

import copy
import inspect
import json
import math
import os
import random
import uuid
import warnings
from pathlib import Path

import numpy as np

from harness import pyval
from harness.core import LEAN, REPO, ToolFailure, sh

ID = "C14"
LEAN_MODULES = ["GeoVerif.Props.C14"]
THEOREMS = [
    "GeoVerif.UiFile.demote_spec",
    "GeoVerif.UiFile.stringify_spec",
    "GeoVerif.UiFile.numify_spec",
    "GeoVerif.UiFile.dictMapper_spec",
    "GeoVerif.UiFile.writeRead_spec",
    "GeoVerif.UiFile.scalar_roundtrip",
    "GeoVerif.UiFile.tree_roundtrip",
    "GeoVerif.UiFile.file_roundtrip",
    "GeoVerif.UiFile.flatten_loop",
    "GeoVerif.UiFile.flatten_canon",
    "GeoVerif.UiFile.data_roundtrip",
    "GeoVerif.UiFile.enabled_roundtrip",
    "GeoVerif.UiFile.promote_demote",
    "GeoVerif.UiFile.demote_promote",
    "GeoVerif.UiFile.ambiguous_nan",
    "GeoVerif.UiFile.ambiguous_empty_string",
    "GeoVerif.UiFile.ambiguous_inf_string",
    "GeoVerif.UiFile.ambiguous_neg_inf_string",
    "GeoVerif.UiFile.ambiguous_uuid_string",
    "GeoVerif.UiFile.ambiguous_geoh5_string",
    "GeoVerif.UiFile.int32digits_roundtrip",
    "GeoVerif.UiFile.nested_list_not_demoted",
]
RULE = (
    "A: each mapper x ~90 values of every kind; B: ui.json dictionaries of 1-8 template forms (every template function found by "
    "reflection, random optional/enabled/group/dependency members) with new data from each form's domain (15 % from the ambiguous "
    "classes), validate on/off, update_enabled on/off; C: random switch combinations x values for update_ui_values. Distinct by "
    "hash of the case; non-trivial when a file has at least two forms and one value that differs from the template default."
)
ASSUMPTIONS = [
    "`json.dump`/`json.load` are the identity on None/bool/int/float/str/list/dict (floats by repr, Infinity accepted) and refuse anything else (trusted, exercised)",
    "form validation inside numify (`ui_validation`) and data validation are C15's business: the model leaves them out, generated forms pass them",
    "`uuid.UUID(str)`: strings whose 32 remaining characters contain whitespace, a sign, `0x` or underscores are outside the model and are not generated",
    "tuples are taken as lists (json writes them as lists)",
    "NaN is the documented exception of the property (it is written as \"\" and read as None)",
]
LEVEL_TEXT = (
    "Lean theorem file_roundtrip: for every ui.json dictionary (any number of forms, any members, nested dictionaries, lists of "
    "values) whose values are unambiguous, read(write(ui)) = canon(ui) in the model, so every value, enabled state and other member is "
    "preserved, entities return as their identifiers and are promoted back (data_roundtrip, promote_demote), infinities and None "
    "survive; the ambiguous classes are refuted by concrete witnesses. The model's scalar mappers, mapper lists and flatten are "
    "regenerated from /repo on every run (T2), dict_mapper/demote/numify/update_ui_values/promote are hand-modelled and compared "
    "with the implementation stage by stage on generated files."
)
LEVEL_NOTE = ("Trusted: Lean kernel, harness, T2 translator (checked by running translated functions against the originals), json. "
              "Partial: the strings the encoding cannot tell from other value kinds are a recorded finding; form validation is C15.")
TECHNIQUE = ("Lean 4 proof (mutual structural induction over the nested dictionary, total specifications of the regenerated mappers, "
             "forIn-loop lemma for the regenerated flatten) + T2 translator + stage-by-stage differential write/read of generated files")
TRUSTED_EXTRA = ["harness/translate/py2lean.py (Python -> Lean translation of the mappers, mapper lists and flatten)"]

SCALAR_MAPPERS = ["none2str", "nan2str", "inf2str", "as_str_if_uuid", "str2none", "str2inf", "str2uuid", "is_uuid", "entity2uuid",
                  "path2workspace", "workspace2path"]
U1 = "c3fc4282-890f-4ac2-9013-aa8539758c6d"
AMBIGUOUS = ["", "inf", "-inf", U1, "{" + U1 + "}", U1.replace("-", ""), "urn:uuid:" + U1, U1.upper(), "model.geoh5", "sub/dir/x.geoh5"]
PLAIN = ["abc", "Inf", "nan", "None", "infinity", "-Inf", " ", "a b", "déjà vu ✓", "x.geoh5x", ".geoh5", "x/.geoh5", "a.geoh5.", "a.GEOH5",
         U1[:-1], U1 + "0", "a{" + U1.replace("-", "")[1:], U1.replace("-", "")[:16] + "{" + U1.replace("-", "")[16:], "{}", "-", "1e5", "0",
         "a.txt;b.txt", "C:\\data\\file.txt"]


def regenerate():
    rc, out = sh(["/venv/bin/python", str(LEAN.parent / "harness/translate/py2lean.py"), str(REPO)], env={"PYTHONPATH": str(REPO)})
    if rc != 0:
        raise ToolFailure("py2lean.py failed: " + out[-400:])


# ----------------------------------------------------------------------------------------------
# world and value conversion
# ----------------------------------------------------------------------------------------------

class World:
    def __init__(self, ctx):
        from geoh5py.groups import ContainerGroup, DrillholeGroup
        from geoh5py.objects import Curve, Points
        from geoh5py.workspace import Workspace
        warnings.filterwarnings("ignore")
        self.dir = ctx.scratch / "c14"
        self.dir.mkdir(exist_ok=True)
        (self.dir / "sub" / "dir").mkdir(parents=True, exist_ok=True)
        BASE[0] = str(self.dir)
        self.path = self.dir / "world.geoh5"
        if self.path.exists():
            self.path.unlink()
        ws = Workspace.create(self.path)
        g = ContainerGroup.create(ws, name="G")
        dh = DrillholeGroup.create(ws, name="DH")
        o1 = Points.create(ws, vertices=np.zeros((4, 3)), parent=g, name="O1")
        d1, d2 = o1.add_data({"d1": {"values": np.arange(4.0)}, "d2": {"values": np.arange(4.0)}})
        pg1 = o1.create_property_group(name="pg1", properties=[d1.uid, d2.uid], property_group_type="Multi-element")
        o2 = Curve.create(ws, vertices=np.ones((3, 3)), name="O2")
        d3 = o2.add_data({"d3": {"values": np.arange(3.0)}})
        self.ws = ws
        self.obj = {"G": g, "DH": dh, "O1": o1, "O2": o2, "d1": d1, "d2": d2, "d3": d3, "pg1": pg1}
        self.known = [e.uid.hex for e in self.obj.values()] + [ws.root.uid.hex]
        ws.close()

    def reopen(self):
        """a fresh handle on the world file (entities looked up by uid)"""
        from geoh5py.workspace import Workspace
        return Workspace(self.path)


BASE = [None]          # directory relative paths are resolved against (the scratch directory of the run)


def canon_path(p):
    try:
        q = Path(p)
        if not q.is_absolute() and BASE[0] is not None:
            q = Path(BASE[0]) / q
        return str(q.resolve())
    except Exception:  # noqa: BLE001
        return str(p)


def pv(v):
    """Python value -> PyVal JSON with workspace paths resolved and tuples as lists."""
    j = pyval.to_pyval(v)
    return _fix(j)


def _fix(j):
    t = j.get("t")
    if t == "ws":
        return {"t": "ws", "v": canon_path(j["v"])}
    if t == "list":
        return {"t": "list", "v": [_fix(x) for x in j["v"]]}
    if t == "dict":
        return {"t": "dict", "v": [[k, _fix(x)] for k, x in j["v"]]}
    return j


def cmp_form(j):
    """comparable form of a PyVal JSON; `None` when it contains a value the model does not carry"""
    t = j.get("t")
    if t == "str" and j["v"].startswith("<unsupported"):
        return ("unsupported",)
    if t == "ws":
        return ("ws", canon_path(j["v"]))
    if t == "list":
        return ("list", tuple(cmp_form(x) for x in j["v"]))
    if t == "dict":
        return ("dict", tuple((k, cmp_form(x)) for k, x in j["v"]))
    return pyval.canon(j)


def res_cmp(r):
    if isinstance(r, dict) and "ok" in r:
        return ("ok", cmp_form(r["ok"]))
    if isinstance(r, dict) and "err" in r:
        return ("err", r["err"])
    return ("bad", str(r))


def impl_res(fn):
    try:
        return ("ok", cmp_form(pv(fn())))
    except Exception as e:  # noqa: BLE001
        return ("err", type(e).__name__)


# ----------------------------------------------------------------------------------------------
# A. mappers
# ----------------------------------------------------------------------------------------------

def scalar_values(world, ws):
    ents = {k: ws.get_entity(v.uid)[0] for k, v in world.obj.items() if k != "pg1"}
    vals = [None, True, False, 0, 1, -1, 3, 2**31, 10**31, 10**32 - 1, 10**30, -(10**31), 0.0, -0.0, 2.5, 1e308, 5e-324, -1.5e-7,
            float("inf"), -float("inf"), np.nan, float("nan"), np.inf]
    vals += AMBIGUOUS + PLAIN
    vals += [uuid.UUID(U1), world.obj["O1"].uid, ents["O1"], ents["d1"], ents["G"], ws]
    vals += [[], [None, "", "inf"], ["abc", uuid.UUID(U1)], [[None]], {}, {"a": None, "b": "inf"}, {"label": "x", "value": ""},
             {"n": {"m": [None, float("inf")]}}]
    return vals


def part_a(ctx, world, lines, pend):
    from geoh5py.shared import utils as su
    from geoh5py.ui_json import utils as uu
    from geoh5py.ui_json.input_file import InputFile
    ws = world.reopen()
    cwd = os.getcwd()
    os.chdir(world.dir)
    try:
        fns = {n: getattr(su, n, None) or getattr(uu, n) for n in SCALAR_MAPPERS}
        vals = scalar_values(world, ws)
        for name, f in fns.items():
            for v in vals:
                if isinstance(v, (list, dict)) and name in ("path2workspace",):
                    continue
                if isinstance(v, float) and math.isnan(v) and v is not np.nan:
                    continue                      # only the `np.nan` object is what nan2str recognises; other NaNs are not modelled
                case = {"part": "A", "mapper": name, "value": repr(v)[:80]}
                impl = impl_res(lambda: f(copy.deepcopy(v) if isinstance(v, (list, dict)) else v))
                ctx.case(case, nontrivial=True)
                ctx.count("A:" + name)
                lines.append({"m": "uifile", "op": "mapper", "f": name, "v": pv(v)})
                pend.append((case, impl, "mapper " + name))
        # dict_mapper with the three mapper lists on nested values (the lists themselves are read from the source)
        lists = {
            "stringify_list": [su.nan2str, su.inf2str, su.as_str_if_uuid, su.none2str],
            "numify_list": [su.str2none, uu.str2inf, su.str2uuid, uu.path2workspace],
            "demote_list": [su.entity2uuid, su.as_str_if_uuid, uu.workspace2path, uu.container_group2name],
        }
        plain_vals = [v for v in vals if not (isinstance(v, float) and math.isnan(v) and v is not np.nan)]
        nested = [v for v in vals if isinstance(v, (list, dict))] + [[v] for v in plain_vals[:40]] + [{"k": v} for v in plain_vals[:60]]
        for lname, fs in lists.items():
            for v in nested + vals:
                if lname == "numify_list" and isinstance(v, float) and math.isnan(v):
                    continue
                if isinstance(v, float) and math.isnan(v) and v is not np.nan:
                    continue
                case = {"part": "A", "dict_mapper": lname, "value": repr(v)[:80]}
                impl = impl_res(lambda: su.dict_mapper(copy.deepcopy(v) if isinstance(v, (list, dict)) else v, fs))
                ctx.case(case, nontrivial=True)
                ctx.count("A:dict_mapper:" + lname)
                lines.append({"m": "uifile", "op": "dictMapper", "f": lname, "v": pv(v)})
                pend.append((case, impl, "dict_mapper " + lname))
        # InputFile.stringify / demote / numify as wholes on small dictionaries
        trees = [{"a": None, "f": {"label": "x", "value": float("inf"), "l": [None, uuid.UUID(U1)]}, "u": uuid.UUID(U1)},
                 {"geoh5": ws, "o": {"label": "o", "value": ents_of(world, ws)["O1"], "many": [ents_of(world, ws)["d1"], None]}, "t": ("a", None)},
                 {"s": {"label": "s", "value": ""}, "t": {"label": "t", "value": "inf", "enabled": False}, "w": "model.geoh5",
                  "n": {"label": "n", "value": {"label": "deep", "value": "-inf"}}}]
        for tr in trees:
            case = {"part": "A", "tree": repr(tr)[:120]}
            ctx.case(case, nontrivial=True)
            lines.append({"m": "uifile", "op": "demote", "ui": pv(tr)})
            pend.append((case, impl_res(lambda: InputFile.demote(_copy_ui(tr))), "demote"))
            if not any(isinstance(x, (uuid.UUID,)) or hasattr(x, "uid") or hasattr(x, "h5file") for x in _leaves(tr)):
                lines.append({"m": "uifile", "op": "numify", "ui": pv(tr)})
                pend.append((case, impl_res(lambda: InputFile.numify(_copy_ui(tr))), "numify"))
    finally:
        os.chdir(cwd)
        ws.close()


def ents_of(world, ws):
    return {k: ws.get_entity(v.uid)[0] for k, v in world.obj.items() if k != "pg1"}


def _leaves(v):
    if isinstance(v, dict):
        for x in v.values():
            yield from _leaves(x)
    elif isinstance(v, (list, tuple)):
        for x in v:
            yield from _leaves(x)
    else:
        yield v


# ----------------------------------------------------------------------------------------------
# B. whole files
# ----------------------------------------------------------------------------------------------

def template_table():
    """template functions of geoh5py/ui_json/templates.py by reflection -> (name, function)"""
    from geoh5py.ui_json import templates
    out = {}
    for n, f in inspect.getmembers(templates, inspect.isfunction):
        if f.__module__ != templates.__name__ or n in ("optional_parameter",):
            continue
        out[n] = f
    return out


def rnd_string(rng, ambiguous_ok):
    if ambiguous_ok and rng.random() < 0.5:
        return rng.choice(AMBIGUOUS)
    return rng.choice(PLAIN)


def rnd_float(rng):
    return rng.choice([0.0, 1.0, -2.5, 1e-9, 123456.789, 1e308, 5e-324, float("inf"), -float("inf"), rng.uniform(-10, 10)])


def rnd_int(rng, ambiguous_ok):
    if ambiguous_ok and rng.random() < 0.3:
        return rng.choice([10**31, 10**32 - 1, 12345678901234567890123456789012])
    return rng.choice([0, 1, -1, 7, 2**31, -(2**40), 10**30, 10**32])


class FileCase:
    """One generated file: the ui.json dictionary (template defaults), the data to assign, options."""

    def __init__(self, rng, world, tier):
        self.rng = rng
        self.world = world
        self.spec = []            # JSON description for the replay file
        self.ambiguous = rng.random() < 0.15
        self.validate = rng.random() < 0.6
        self.update_enabled = rng.random() < 0.75
        n = rng.choice([1, 2, 3, 4, 6, 8]) if tier == "quick" else rng.choice([1, 2, 3, 5, 8, 12])
        names = sorted(template_table())
        self.forms = [(f"p{i}", rng.choice(names)) for i in range(n)]

    def build(self, ws):
        """-> (ui, newdata) as Python objects bound to workspace handle `ws`"""
        from geoh5py.ui_json.constants import default_ui_json
        rng = self.rng
        T = template_table()
        ent = ents_of(self.world, ws)
        ui = copy.deepcopy(default_ui_json)
        ui["geoh5"] = ws
        ui["obj"] = T["object_parameter"](value=ent["O1"].uid)
        new = {}
        group_open = None
        for key, tname in self.forms:
            optional = rng.choice([None, None, "enabled", "disabled"])
            kw = {}
            val = None
            amb = self.ambiguous and rng.random() < 0.6
            if tname == "bool_parameter":
                optional = None
                val = rng.random() < 0.5
            elif tname == "integer_parameter":
                val = rnd_int(rng, amb)
            elif tname == "float_parameter":
                val = rnd_float(rng)
            elif tname == "string_parameter":
                val = rnd_string(rng, amb)
            elif tname == "choice_string_parameter":
                choices = rng.choice([("Option A", "Option B"), ("x", "y y", "ž"), ("inf", "b")])
                kw["choice_list"] = choices
                if rng.random() < 0.5:
                    kw["multi_select"] = True
                    kw["value"] = [choices[0]]
                    ok = [c for c in choices if amb or c not in AMBIGUOUS]
                    val = rng.sample(ok, rng.randrange(1, len(ok) + 1))
                else:
                    kw["value"] = choices[0]
                    val = rng.choice([c for c in choices if amb or c not in AMBIGUOUS])
            elif tname == "file_parameter":
                kw["value"] = "a.txt"
                val = rng.choice(["a.txt;b.txt", "C:\\data\\file.txt", "dir/with space/f.csv"] + (["model.geoh5"] if amb else []))
            elif tname == "group_parameter":
                kw["value"] = ent["G"].uid
                val = rng.choice([ent["G"], ent["DH"], ent["G"].uid])
            elif tname == "object_parameter":
                kw["value"] = ent["O1"].uid
                if rng.random() < 0.3:
                    kw["multi_select"] = True
                    kw["value"] = [ent["O1"].uid]
                    val = rng.choice([[ent["O1"], ent["O2"]], [ent["O2"].uid], [ent["O1"]]])
                else:
                    val = rng.choice([ent["O1"], ent["O2"], ent["O2"].uid])
            elif tname == "data_parameter":
                kw["parent"] = "obj"
                kw["value"] = ent["d1"].uid
                val = rng.choice([ent["d1"], ent["d2"], ent["d2"].uid])
            elif tname == "data_value_parameter":
                kw["parent"] = "obj"
                if rng.random() < 0.5:
                    kw["is_value"] = False
                    kw["prop"] = ent["d1"].uid
                val = rng.choice([ent["d1"], ent["d2"].uid, rnd_float(rng), 3, None if (optional or not self.validate) else 1.5])
            elif tname == "drillhole_group_data":
                kw["group_value"] = ent["DH"].uid
                kw["value"] = ["a"]
                val = rng.choice([["a", "b"], ["depth"], []])
            elif tname == "range_label_template":
                kw["parent"] = "obj"
                kw["property_"] = ent["d1"].uid
                kw["value"] = [0.0, 1.0]
                val = [rnd_float(rng), rnd_float(rng)]
            try:
                form = T[tname](**kw, **({"optional": optional} if "optional" in inspect.signature(T[tname]).parameters and optional else {}))
            except Exception:  # noqa: BLE001
                form = T[tname](**kw)
                optional = None
            # extra members: groups / group-optional / dependency
            r = rng.random()
            if r < 0.2:
                form["group"] = "grp"
                if group_open is None and rng.random() < 0.6:
                    form["groupOptional"] = True
                    form["enabled"] = rng.random() < 0.7
                    group_open = key
            elif r < 0.3 and "flag" in ui:
                form["dependency"] = "flag"
                form["dependencyType"] = rng.choice(["enabled", "disabled"])
                if rng.random() < 0.5:
                    form["enabled"] = rng.random() < 0.5
            if rng.random() < 0.15 and "flag" not in ui:
                ui["flag"] = T["bool_parameter"](value=True)
                new["flag"] = rng.random() < 0.5
            ui[key] = form
            if "enabled" in form and rng.random() < 0.25:
                val = None
            new[key] = val
            self.spec.append({"key": key, "template": tname, "optional": optional, "members": sorted(form), "value": repr(val)[:60]})
        return ui, new


def snapshot_enabled(ui):
    return {k: v.get("enabled") for k, v in ui.items() if isinstance(v, dict) and "enabled" in v}


def classify(v):
    """class of a written value that did not come back (signature of a finding)"""
    from geoh5py.shared.utils import is_uuid
    if isinstance(v, str):
        if v == "":
            return "string-empty"
        if v in ("inf", "-inf"):
            return "string-inf"
        if Path(v).suffix == ".geoh5":
            return "string-geoh5-path"
        if is_uuid(v):
            return "string-uuid-like"
        return "string-other"
    if isinstance(v, bool):
        return "bool"
    if isinstance(v, int):
        if len(str(abs(v))) == 32:
            return "int-32-digits"
        return "int-beyond-64-bit" if not -2**63 <= v < 2**64 else "int-other"
    if isinstance(v, float):
        return "float-nan" if math.isnan(v) else "float"
    if isinstance(v, list):
        cl = sorted({classify(x) for x in v})
        amb = [c for c in cl if c.startswith("string-") and c != "string-other" or c in ("int-32-digits", "int-beyond-64-bit")]
        return "list-of-" + (amb[0] if amb else "other")
    if v is None:
        return "none"
    return type(v).__name__


def part_b(ctx, world, lines, pend, only_seeds=None):
    from geoh5py.ui_json.input_file import InputFile
    n = ctx.n(220, 6000)
    cwd = os.getcwd()
    os.chdir(world.dir)
    try:
        seeds = list(only_seeds) if only_seeds else [ctx.rng.getrandbits(40) for _ in range(n)]
        for i, case_seed in enumerate(seeds):
            fc = FileCase(random.Random(case_seed), world, ctx.tier)
            ws = world.reopen()
            case = {"part": "B", "case_seed": case_seed, "tier": ctx.tier, "forms": fc.spec, "validate": fc.validate, "update_enabled": fc.update_enabled}
            try:
                ui, new = fc.build(ws)
                case["forms"] = fc.spec
                opts = {"update_enabled": fc.update_enabled}
                try:
                    ifile = InputFile(ui_json=_copy_ui(ui), validate=fc.validate, validation_options=opts)
                    data = dict(ifile.data)
                except Exception as e:  # noqa: BLE001
                    ctx.count("B:construction-raises:" + type(e).__name__)
                    ctx.case(case, nontrivial=False)
                    continue
                data.update(new)
                try:
                    ifile.data = data
                except Exception as e:  # noqa: BLE001
                    ctx.count("B:assignment-rejected:" + type(e).__name__)
                    ctx.case(case, nontrivial=False)
                    continue
                written_data = dict(ifile.data)
                u0 = pv(ifile.ui_json)
                d0 = pv(written_data)
                name = f"f{i}.ui.json"
                try:
                    path = ifile.write_ui_json(name=name, path=str(world.dir))
                except Exception as e:  # noqa: BLE001
                    # model must predict the failure too
                    lines.append({"m": "uifile", "op": "cycle", "ui": u0, "data": d0, "updEnabled": fc.update_enabled, "known": world.known})
                    pend.append((case, {"write": ("err", type(e).__name__)}, "cycle"))
                    ctx.count("B:write-raises:" + type(e).__name__)
                    ctx.case(case, nontrivial=False)
                    cls = sorted({"int-beyond-64-bit" for v in written_data.values() if isinstance(v, int) and not isinstance(v, bool) and not -2**63 <= v < 2**64})
                    ctx.fail(case, f"write_ui_json raises {type(e).__name__} on accepted data", f"C14:write-raises:{type(e).__name__}:{cls[0] if cls else 'unexplained'}",
                             observed=str(e)[:200])
                    continue
                u1 = pv(ifile.ui_json)
                with open(path, encoding="utf-8") as fh:
                    disk = json.load(fh)
                impl = {"write": ("ok", cmp_form(u1)), "disk": ("ok", cmp_form(pv(disk)))}
                # read
                try:
                    raw = InputFile(validate=False, promotion=False)
                    raw.ui_json = json.loads(json.dumps(disk))
                    impl["numified"] = ("ok", cmp_form(pv(raw._ui_json)))  # pylint: disable=protected-access
                    gh = raw._ui_json.get("geoh5")  # pylint: disable=protected-access
                except Exception as e:  # noqa: BLE001
                    impl["numified"] = ("err", type(e).__name__)
                back = None
                try:
                    back = InputFile.read_ui_json(path, validate=fc.validate, validation_options={"update_enabled": fc.update_enabled})
                    bdata = dict(back.data)
                    impl["data"] = ("ok", cmp_form(pv(bdata)))
                    impl["form_after_read"] = ("ok", cmp_form(pv(back.ui_json)))
                except Exception as e:  # noqa: BLE001
                    impl["data"] = ("err", type(e).__name__)
                    bdata = None
                nontrivial = len(fc.forms) >= 2 and any(v is not None for v in new.values())
                ctx.case(case, nontrivial=nontrivial)
                ctx.count("B:files")
                ctx.count(f"B:forms:{len(fc.forms)}")
                for s in fc.spec:
                    ctx.count("B:template:" + s["template"])
                lines.append({"m": "uifile", "op": "cycle", "ui": u0, "data": d0, "updEnabled": fc.update_enabled, "known": world.known})
                pend.append((case, impl, "cycle"))
                ctx.traces += 1
                # ---- the property itself, on the implementation
                before = len(ctx.failures)
                oracle(ctx, case, written_data, ifile.ui_json, bdata, back.ui_json if back is not None else None, impl)
                if len(ctx.failures) > before and not ctx.failures[-1]["signature"].startswith("C14:group-switch"):
                    case["_oracle_failed"] = ctx.failures[-1]["signature"]
                os.unlink(path)
            finally:
                try:
                    ws.close()
                except Exception:  # noqa: BLE001
                    pass
    finally:
        os.chdir(cwd)


def _copy_ui(ui):
    """deep copy of the nested dictionaries (entities / workspaces shared)"""
    if isinstance(ui, dict):
        return {k: _copy_ui(v) for k, v in ui.items()}
    if isinstance(ui, list):
        return [_copy_ui(v) for v in ui]
    return ui


AMBIGUOUS_CLASSES = ("string-empty", "string-inf", "string-geoh5-path", "string-uuid-like", "int-32-digits", "float-nan")


def ambiguous_class(values):
    """the first ambiguous class among the written values (lists looked into), or None"""
    for v in values:
        c = classify(v)
        if c.startswith("list-of-"):
            c = c[len("list-of-"):]
        if c in AMBIGUOUS_CLASSES:
            return c
    return None


def invalid_in_memory(ui_written, case):
    """True when the written dictionary, taken as a new input file without touching the disk, is refused as well: the data
    assigned by the generator was not valid for its own form (e.g. None for a parameter that a dependency makes required)."""
    from geoh5py.ui_json.input_file import InputFile
    try:
        f = InputFile(ui_json=_copy_ui(ui_written), validate=True)
        _ = f.data
        return False
    except Exception as e:  # noqa: BLE001
        return type(e).__name__.endswith("ValidationError")


def oracle(ctx, case, written, ui_written, read, ui_read, impl):
    """The property on the implementation: what is read back equals what was written.  Expected value of a parameter:
    None when its form is disabled in the written dictionary, the written value otherwise (a None assigned to a form
    without an `enabled` member is not a legal assignment - validation refuses it - and is skipped)."""
    from geoh5py.ui_json.utils import truth
    if read is None:
        err = impl["data"][1]
        amb = ambiguous_class(written.values())
        none_member = any(isinstance(f, dict) and any(v is None for k, v in f.items() if k not in ("value", "property"))
                          for f in ui_written.values())
        if amb:
            ctx.fail(case, f"the written file cannot be read back ({err}): a {amb} value reads as another kind", f"C14:string-reads-as-other-kind:{amb}", observed=err)
        elif err == "JSONParameterValidationError" and none_member:
            ctx.fail(case, "the written file cannot be read back: a form member that is None is written as \"\" and refused by the form "
                     "validation on reading", "C14:none-valued-member-unreadable", observed=err)
        elif err.endswith("ValidationError") and invalid_in_memory(ui_written, case):
            ctx.count("B:oracle-skipped-data-invalid-for-its-own-form")
        else:
            ctx.fail(case, f"the written file cannot be read back ({err})", "C14:read-raises:unexplained", observed=err)
        return
    for k, w in written.items():
        form = ui_written.get(k)
        if isinstance(form, dict) and "label" in form and "value" in form:
            if not truth(ui_written, k, "enabled"):
                w = None
            elif w is None and "enabled" not in form:
                ctx.count("B:oracle-skipped-illegal-none")
                continue
        r = read.get(k, "<missing>")
        if cmp_form(pv(w)) != cmp_form(pv(r)):
            cls = classify(w)
            amb = ambiguous_class([w])
            if amb == "int-32-digits":
                sig = "C14:int-32-digits-read-as-uuid"
            elif amb:
                sig = f"C14:string-reads-as-other-kind:{amb}"
            elif w is None and in_switched_group(ui_written, k):
                sig = "C14:group-switch-overwrites-member-enabled"
            else:
                sig = f"C14:value-changed:{cls}"
            ctx.fail(case, f"parameter {k}: wrote {w!r}, read {r!r}", sig, observed=repr(r)[:80], expected=repr(w)[:80])
    ew, er = snapshot_enabled(ui_written), snapshot_enabled(ui_read)
    if ew != er:
        kinds = set()
        for k in ew:
            if ew.get(k) != er.get(k):
                kinds.add("group" if in_switched_group(ui_written, k) else "other")
        sig = "C14:group-switch-overwrites-member-enabled" if kinds == {"group"} else "C14:enabled-changed:other"
        ctx.fail(case, f"enabled states differ: written {ew}, read {er}", sig, observed=er, expected=ew)


def in_switched_group(ui, k):
    """the form is a member of a group whose switch (groupOptional) is carried by another form"""
    f = ui.get(k)
    g = f.get("group") if isinstance(f, dict) else None
    return bool(g) and any(isinstance(o, dict) and o.get("group") == g and "groupOptional" in o for n, o in ui.items() if n != k)


# ----------------------------------------------------------------------------------------------
# C. update_ui_values alone
# ----------------------------------------------------------------------------------------------

def part_c(ctx, world, lines, pend):
    from geoh5py.ui_json.input_file import InputFile
    rng = ctx.rng
    ws = world.reopen()
    ent = ents_of(world, ws)
    n = ctx.n(500, 15000)
    try:
        for _ in range(n):
            ui = {"title": "t", "geoh5": None, "plain": 3}
            names = ["a", "b", "c"][: rng.randrange(1, 4)]
            first_go = True
            for nm in names:
                form = {"label": nm, "value": rng.choice([1, 2.5, "x", None, ent["d1"].uid])}
                if rng.random() < 0.5:
                    form["optional"] = rng.random() < 0.8
                if rng.random() < 0.6:
                    form["enabled"] = rng.choice([True, False])
                if rng.random() < 0.4:
                    form["group"] = rng.choice(["g1", "g1", "g2", ""])
                    if rng.random() < 0.5 and first_go:
                        form["groupOptional"] = rng.random() < 0.8
                        first_go = rng.random() < 0.3
                if rng.random() < 0.3:
                    form["dependency"] = rng.choice([x for x in names + ["plain", "missing"] if x != nm] or ["missing"])
                    if rng.random() < 0.5:
                        form["dependencyType"] = rng.choice(["enabled", "disabled"])
                if rng.random() < 0.4:
                    form["isValue"] = rng.random() < 0.5
                    form["property"] = rng.choice([None, ent["d2"].uid])
                ui[nm] = form
            keys = [k for k in ui if rng.random() < 0.7] or ["a"]
            rng.shuffle(keys)
            data = {k: rng.choice([None, None, 5, 0.5, "y", True, ent["d1"], ent["d2"].uid, [1, 2]]) for k in keys}
            upd = rng.random() < 0.6
            case = {"part": "C", "ui": repr(ui)[:400], "data": repr(data)[:200], "update_enabled": upd}
            ifile = InputFile(validate=False, promotion=False, validation_options={"update_enabled": upd})
            ifile._ui_json = _copy_ui(ui)  # pylint: disable=protected-access
            u0 = pv(ifile._ui_json)  # pylint: disable=protected-access

            def run():
                ifile.update_ui_values(data)
                return ifile._ui_json  # pylint: disable=protected-access
            impl = impl_res(run)
            ctx.case(case, nontrivial=len(names) >= 2)
            ctx.count("C:" + impl[0])
            if impl[0] == "ok":
                in_step(ctx, case, ifile._ui_json, data)  # pylint: disable=protected-access
            lines.append({"m": "uifile", "op": "update", "ui": u0, "data": pv(data), "updEnabled": upd})
            pend.append((case, impl, "update_ui_values"))
    finally:
        ws.close()


# ----------------------------------------------------------------------------------------------

def in_step(ctx, case, ui, data):
    """The anchor of the property: after update_ui_values the flat view of the form dictionary (what a file written now would
    read back as) must be the data that was assigned: None for a disabled form, the assigned value otherwise."""
    from geoh5py.ui_json.utils import flatten, truth
    try:
        flat = flatten(ui)
    except Exception:  # noqa: BLE001
        return
    for k, w in data.items():
        form = ui.get(k)
        if not (isinstance(form, dict) and "label" in form and "value" in form):
            continue
        try:
            enabled = truth(ui, k, "enabled")
        except Exception:  # noqa: BLE001
            continue
        if not enabled:
            w = None
        elif w is None and "enabled" not in form:
            continue
        r = flat.get(k, "<missing>")
        if cmp_form(pv(w)) != cmp_form(pv(r)):
            sig = "C14:group-switch-overwrites-member-enabled" if in_switched_group(ui, k) else "C14:data-and-form-out-of-step"
            ctx.fail(case, f"after update_ui_values parameter {k} was assigned {w!r} but the form dictionary flattens to {r!r}", sig,
                     observed=repr(r)[:80], expected=repr(w)[:80])


def compare(ctx, lines, pend):
    outs = ctx.driver.run(lines)
    for (case, impl, what), out in zip(pend, outs):
        if what == "cycle":
            if isinstance(out, dict) and out.get("clean") is True:
                ctx.count("B:files-meeting-the-theorem-hypothesis(cleanKV)")
                if case.get("_oracle_failed"):
                    ctx.disagree(case, "file_roundtrip applies (cleanKV holds for the written dictionary) but the implementation did not give the values back",
                                 model="cleanKV = true", impl=case.get("_oracle_failed"))
            elif isinstance(out, dict):
                ctx.count("B:files-outside-the-hypothesis")
            for stage, got in impl.items():
                model = res_cmp(out.get(stage, "missing")) if isinstance(out, dict) else ("bad", str(out))
                if got[0] == "err" and got[1].endswith("ValidationError"):
                    break                       # validation is outside the model (C15); the oracle judges the outcome
                if stage == "write" and got[0] == "err":
                    ok = model[0] == "err"
                else:
                    ok = model == got or (model[0] == "err" and got[0] == "err")
                if not ok:
                    # later stages depend on earlier ones: report the first that differs
                    ctx.disagree(case, f"file cycle, stage {stage}", model=_short(model), impl=_short(got))
                    break
        else:
            model = res_cmp(out)
            ok = model == impl or (model[0] == "err" and impl[0] == "err")
            if impl[0] == "ok" and impl[1] == ("unsupported",):
                ok = True
            if not ok:
                ctx.disagree(case, what, model=_short(model), impl=_short(impl))


def _short(x):
    s = repr(x)
    return s if len(s) < 1500 else s[:1500] + "…"


def run(ctx):
    world = World(ctx)
    lines, pend = [], []
    part_a(ctx, world, lines, pend)
    part_b(ctx, world, lines, pend)
    part_c(ctx, world, lines, pend)
    compare(ctx, lines, pend)
    ctx.extra["exhaustive"] = False
    ctx.extra["templates"] = sorted(template_table())


def replay(ctx, payload):
    """re-runs the recorded file case (part B cases carry their own seed); anything else re-runs the whole check"""
    case = payload.get("case") or {}
    if case.get("part") == "B" and "case_seed" in case:
        world = World(ctx)
        lines, pend = [], []
        ctx.tier = case.get("tier", ctx.tier)
        part_b(ctx, world, lines, pend, only_seeds=[case["case_seed"]])
        compare(ctx, lines, pend)
    else:
        run(ctx)
