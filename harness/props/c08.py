"""C08 — values survive storage unchanged; gaps use the format's no-data codes.

Correspondence with the Lean model `Codec` (Model/Codec.lean), entry by entry:
  FloatData     arrays of every float/int dtype incl. +-0, sub-normals, +-inf, NaN, the float sentinel
  IntegerData   arrays of int8..int64/uint8..uint64/float with 32-bit boundary values, NaN gaps, fractions
  BooleanData   0/1 arrays and arrays containing anything else
  ReferencedData value maps (valid, negative keys, relabelled key 0, missing key 0)
  TextData      Unicode strings from all planes (UTF-8 bytes compared with Lean's String.toUTF8)
For each accepted assignment: live value, raw dataset (dtype and contents, read with h5py) and the
value after re-opening the file are compared with the model; rejected assignments must raise and
leave the stored value unchanged.
"""
from __future__ import annotations

import math
import os
from fractions import Fraction

import numpy as np

from harness.core import Ctx

ID = "C08"
LEAN_MODULES = ["GeoVerif.Props.C08"]
THEOREMS = [
    "GeoVerif.Codec.float_roundtrip",
    "GeoVerif.Codec.float_nan_stored",
    "GeoVerif.Codec.float_sentinel",
    "GeoVerif.Codec.float_inf",
    "GeoVerif.Codec.complex_reject",
    "GeoVerif.Codec.real_accept",
    "GeoVerif.Codec.wrap32_id",
    "GeoVerif.Codec.int_roundtrip",
    "GeoVerif.Codec.int_gap",
    "GeoVerif.Codec.gap_float",
    "GeoVerif.Codec.gap_int",
    "GeoVerif.Codec.prefix_kept",
    "GeoVerif.Codec.padTo_length",
    "GeoVerif.Codec.nonintegral_reject",
    "GeoVerif.Codec.int_reject",
    "GeoVerif.Codec.int_wraps_counterexample",
    "GeoVerif.Codec.int_accept_exact",
    "GeoVerif.Codec.bool_roundtrip",
    "GeoVerif.Codec.bool_reject",
    "GeoVerif.Codec.bool_gap",
    "GeoVerif.Codec.too_long_reject",
    "GeoVerif.Codec.normalise_valid",
    "GeoVerif.Codec.valuemap_roundtrip",
    "GeoVerif.Codec.valuemap_reject",
    "GeoVerif.Codec.valuemap_keys_fit",
    "GeoVerif.Codec.valuemap_wraps_counterexample",
    "GeoVerif.Codec.utf8_roundtrip",
]
RULE = (
    "per data class, arrays of 1-6 entries drawn from a pool of boundary values for the class (floats: 0,-0,sub-normal, "
    "float32/64 extremes, +-inf, NaN, the sentinel 1.17549435e-38; integers: 0,+-1, 2^31-1, 2^31, -2^31, -2^31-1, 2^32, 2^40, NaN, "
    "x.5) in a random NumPy dtype that can hold them; value-map dicts with valid/invalid keys; Unicode strings with characters "
    "from the BMP, astral planes, combining marks; distinct by hash of (class, dtype, entries); non-trivial when the array has "
    "at least one special (non-ordinary) entry"
)
ASSUMPTIONS = [
    "IEEE comparison values == FLOAT_NDV under NumPy 1.26 casting rules is exercised, not proved",
    "out-of-range integers are offered in integer dtypes (float->int32 conversion of out-of-range values is undefined behaviour in C and not modelled for the as-found code)",
    "h5py/HDF5 store bytes faithfully; float32 narrowing in the concatenated writer is outside this model",
    "a trailing NUL in a NumPy fixed-width string is dropped by NumPy before geoh5py sees it (not generated)",
]
LEVEL_TEXT = (
    "Lean theorems for all values: floats other than the sentinel read back as written, NaN <-> no-data code, infinities kept "
    "(float_roundtrip, float_nan_stored, float_sentinel, float_inf), a complex array is refused as float data rather than "
    "stripped of its imaginary part (complex_reject); integers in the 32-bit range are stored as themselves, gaps "
    "use the integer no-data code, non-integral and out-of-range values are rejected, never altered (int_roundtrip, int_gap, "
    "nonintegral_reject, int_reject, int_accept_exact; the as-found silent wrap is refuted by int_wraps_counterexample and was "
    "repaired); booleans only 0/1 (bool_*); accepted value maps keep every label, reserve key 0 for Unknown and hold only keys that fit the "
    "unsigned 32-bit integer they are stored in (valuemap_*, valuemap_keys_fit; the as-found wrap of larger keys is "
    "valuemap_wraps_counterexample and was repaired); an array shorter than the geometry is completed with the no-data code, "
    "entry by entry beyond the array given (padTo: gap_float, gap_int, prefix_kept); any "
    "Unicode text survives UTF-8 (utf8_roundtrip, from core Lean). Tied to the code by per-entry differential runs incl. raw h5py reads."
)
LEVEL_NOTE = "Trusted: Lean kernel, harness, NumPy casting, h5py. The model is per entry (plus the padding of short arrays); array-level rejection = any entry rejected (TypeError before ValueError), checked by correspondence."
TECHNIQUE = "Lean 4 proof (case analysis, omega) on an executable codec model + per-entry differential correspondence with raw-file reads"

FLOAT_POOL = [0.0, -0.0, 1.0, -2.5, 5e-324, 2.2250738585072014e-308, 1.17549435e-38, float(np.float32(1.17549435e-38)),
              3.4028234663852886e38, 1.7976931348623157e308, float("inf"), float("-inf"), float("nan"), 1e-40, 123456.789]
INT_POOL = [0, 1, -1, 7, 2 ** 31 - 1, 2 ** 31, -2 ** 31, -2 ** 31 - 1, 2 ** 32, 2 ** 32 + 5, 2 ** 40, -2 ** 40, "nan", "frac", 255, -128]
VARIANT = {"checked": None}


def ftok(x):
    x = float(x)
    if math.isnan(x):
        return "nan"
    if math.isinf(x):
        return "inf" if x > 0 else "-inf"
    f = Fraction(x)
    return f"{f.numerator}/{f.denominator}"


def gen_case(rng):
    kind = rng.choice(["float", "float", "int", "int", "int", "bool", "vmap", "text"])
    n = rng.randrange(1, 7)
    if kind == "float":
        xs = [rng.choice(FLOAT_POOL) for _ in range(n)]
        dt = rng.choice(["float64", "float64", "float32", "int"])
        if dt == "int":
            # every NumPy numeric dtype: whole numbers in an integer array are float values like any other
            dt = rng.choice(["int64", "int32", "int16", "uint8", "uint32"])
            xs = [float(rng.choice([0, 1, 7, 100, 255] if dt.startswith("u") else [0, 1, -1, 7, -100, 32767])) for _ in range(n)]
        if dt == "float32":
            xs = [x for x in xs if math.isnan(x) or math.isinf(x) or abs(x) < 3e38] or [0.0]
        # now and then the array is complex (an unsupported type, to be refused): with an imaginary part somewhere or all real
        cplx = rng.choice(["imag", "real"]) if rng.random() < 0.08 else None
        return {"kind": kind, "dtype": dt, "xs": [ftok(np.array([x], dtype=dt)[0]) for x in xs],
                "extra": rng.choice([0, 0, 0, 1, 3]), **({"complex": cplx} if cplx else {})}
    if kind == "int":
        xs = [rng.choice(INT_POOL) for _ in range(n)]
        # `extra`: the geometry has that many more vertices than the array has entries (the gap is padded with no-data)
        return {"kind": kind, "xs": [str(x) for x in xs], "dtype_hint": rng.randrange(4), "extra": rng.choice([0, 0, 0, 1, 3])}
    if kind == "bool":
        xs = [rng.choice([0, 1, 0, 1, 1, 2, -1, "nan", "frac"]) for _ in range(n)]
        return {"kind": kind, "xs": [str(x) for x in xs]}
    if kind == "vmap":
        # keys are stored as unsigned 32-bit integers: the largest one that fits, and the first ones that do not
        keys = rng.sample([0, 1, 2, 3, 7, -1, 2 ** 20, 2 ** 32 - 1, 2 ** 32, 2 ** 32 + 5], rng.randrange(1, 5))
        m = []
        for k in keys:
            v = rng.choice(["Unknown", "A", "Bé", "", "x y"]) if k == 0 and rng.random() < 0.5 else ("Unknown" if k == 0 else rng.choice(["A", "Bé", "雪", "", "Unknown"]))
            m.append([k, v])
        return {"kind": kind, "map": m}
    chars = ["a", "Z", " ", "é", "ß", "€", "雪", "́", "😀", "𝔘", "​", "\t", "􏿿".encode("utf-16", "surrogatepass").decode("utf-16"), "\x7f"]
    return {"kind": kind, "strings": ["".join(rng.choice(chars) for _ in range(rng.randrange(1, 6))) for _ in range(rng.randrange(1, 4))],
            "extra": rng.choice([0, 0, 0, 1, 2, -1, -2])}


def int_array(tokens, hint):
    """Build a NumPy array holding the requested entries in a dtype that can represent them exactly."""
    has_nan = "nan" in tokens or "frac" in tokens
    ints = [int(t) for t in tokens if t not in ("nan", "frac")]
    if has_nan:
        if any(abs(v) > 2 ** 53 for v in ints):
            return None
        return np.array([float("nan") if t == "nan" else (0.5 if t == "frac" else float(t)) for t in tokens], dtype=np.float64)
    lo, hi = (min(ints), max(ints)) if ints else (0, 0)
    cands = [d for d in ("int8", "uint8", "int16", "int32", "uint32", "int64", "uint64", "float64")
             if (d == "float64" and max(abs(lo), abs(hi)) <= 2 ** 31 - 1) or (d != "float64" and np.iinfo(d).min <= lo and hi <= np.iinfo(d).max)]
    return np.array(ints, dtype=cands[hint % len(cands)])


def raw_data(path, uid):
    import h5py
    with h5py.File(path, "r") as f:
        root = f[list(f.keys())[0]]
        node = root["Data"]["{" + str(uid) + "}"]
        if "Data" not in node:
            return None, None
        ds = node["Data"]
        return str(ds.dtype), ds[()]


def array_verdict(per_entry):
    if any(e == "typeError" for e in per_entry):
        return "typeError"
    if any(e == "valueError" for e in per_entry):
        return "valueError"
    return "ok"


def run_case(ctx, case, path):
    from geoh5py.objects import Points
    from geoh5py.workspace import Workspace

    failures, lines, checks = [], [], []
    kind = case["kind"]
    ERR = {"TypeError": "typeError", "ValueError": "valueError", "KeyError": "keyError"}
    if kind == "text":
        extra = int(case.get("extra", 0))
        n_str = len(case["strings"])
        if n_str + extra < 1:
            extra = 0
        ws = Workspace.create(path)
        p = Points.create(ws, vertices=np.zeros((n_str + extra, 3)))
        arr = np.array(case["strings"])
        if extra:
            # the text array is shorter (gap: padded with the empty string) or longer (refused) than the geometry
            d = p.add_data({"t": {"values": np.array(["seed"] * (n_str + extra)), "type": "TEXT", "association": "VERTEX"}})
            status = "ok"
            try:
                d.values = arr.copy()
            except Exception as e:  # noqa: BLE001
                status = ERR.get(type(e).__name__, "other:" + type(e).__name__)
            live = None if d.values is None else [str(x) for x in np.atleast_1d(d.values)]
            uid = d.uid
            ws.close()
            ws = Workspace(path)
            back_l = [str(x) for x in np.atleast_1d(ws.get_entity(uid)[0].values)]
            ws.close()
            if extra < 0:
                if status == "ok":
                    failures.append((f"text array of {n_str} entries accepted on {n_str + extra} vertices (live {live}, re-read {back_l})",
                                     "C08:too-long-accepted:text"))
                elif back_l != ["seed"] * (n_str + extra):
                    failures.append((f"refused text assignment changed the stored values to {back_l}", "C08:rejected-but-changed"))
            else:
                want = case["strings"] + [""] * extra
                if status != "ok":
                    failures.append((f"text array of {n_str} entries refused on {n_str + extra} vertices: {status}", "C08:text-short-rejected"))
                elif live != want or back_l != want:
                    failures.append((f"text array of {n_str} entries on {n_str + extra} vertices: live {live}, re-read {back_l}, "
                                     f"expected the entries followed by empty strings", "C08:gap-not-no-data:text"))
            return lines, checks, failures
        d = p.add_data({"t": {"values": arr, "type": "TEXT"}})
        uid = d.uid
        ws.close()
        dt, raw = raw_data(path, uid)
        ws = Workspace(path)
        back = ws.get_entity(uid)[0].values
        ws.close()
        back_l = [str(x) for x in np.atleast_1d(back)]
        if back_l != case["strings"]:
            failures.append((f"text {case['strings']!r} read back as {back_l!r}", "C08:text-roundtrip"))
        raw_l = [bytes(x) if isinstance(x, (bytes, np.bytes_)) else str(x).encode("utf-8") for x in np.atleast_1d(raw)]
        for s_, rb in zip(case["strings"], raw_l):
            lines.append({"m": "codec", "op": "utf8", "s": s_})
            checks.append(("utf8", list(rb), s_))
        return lines, checks, failures
    if kind == "vmap":
        ws = Workspace.create(path)
        p = Points.create(ws, vertices=np.zeros((2, 3)))
        m = {k: v for k, v in case["map"]}
        status, got = "ok", None
        try:
            d = p.add_data({"r": {"values": np.array([1, 2], dtype="int32"), "type": "referenced", "value_map": dict(m)}})
            uid = d.uid
            ws.close()
            ws = Workspace(path)
            vm = ws.get_entity(uid)[0].value_map
            got = [[int(k), str(v)] for k, v in vm.map.items()]
        except Exception as e:  # noqa: BLE001
            status = ERR.get(type(e).__name__, "other:" + type(e).__name__)
        finally:
            ws.close()
        lines.append({"m": "codec", "op": "vmap", "map": case["map"]})
        checks.append(("vmap", status, got))
        if status == "ok":
            gm = {k: v for k, v in got}
            for k, v in m.items():
                if gm.get(k) != v:
                    failures.append((f"value map {m}: key {k} reads {gm.get(k)!r}", "C08:valuemap-label-lost"))
            if gm.get(0) != "Unknown":
                failures.append((f"value map {m}: key 0 reads {gm.get(0)!r}", "C08:valuemap-key0"))
        elif not any(k < 0 or k > 2 ** 32 - 1 or (k == 0 and v != "Unknown") for k, v in m.items()):
            # a key that does not fit the unsigned 32-bit integer it is stored in cannot be represented: refusing it is right
            failures.append((f"valid value map {m} rejected with {status}", "C08:valuemap-valid-rejected"))
        return lines, checks, failures
    # numeric classes
    if kind == "float":
        arr = np.array([float("nan") if t == "nan" else (float("inf") if t == "inf" else (float("-inf") if t == "-inf" else float(Fraction(t)))) for t in case["xs"]], dtype=case["dtype"])
        typ = "FLOAT"
        if case.get("complex"):
            arr = arr.astype("complex128")
            if case["complex"] == "imag":
                arr[0] = complex(0.0 if not np.isfinite(arr[0].real) else arr[0].real, 2.0)
    elif kind == "int":
        arr = int_array(case["xs"], case["dtype_hint"])
        typ = "INTEGER"
    else:
        arr = int_array(case["xs"], 0)
        typ = "BOOLEAN"
    if arr is None:
        return lines, checks, failures
    case["np_dtype"] = str(arr.dtype)
    ws = Workspace.create(path)
    extra = int(case.get("extra", 0)) if kind in ("float", "int") else 0
    p = Points.create(ws, vertices=np.zeros((len(arr) + extra, 3)))
    base = np.zeros(len(arr) + extra, dtype="float64" if kind == "float" else ("int32"))
    d = p.add_data({"d": {"values": base.astype(bool) if kind == "bool" else base, "type": typ}})
    uid = d.uid
    status = "ok"
    try:
        d.values = arr.copy()
    except Exception as e:  # noqa: BLE001
        status = ERR.get(type(e).__name__, "other:" + type(e).__name__)
    live = None if d.values is None else np.array(d.values)
    ws.close()
    dt, raw = raw_data(path, uid)
    ws = Workspace(path)
    back = np.array(ws.get_entity(uid)[0].values)
    ws.close()
    if extra and status == "ok":
        # the entries beyond the array given are gaps: the format's no-data code in the file, NaN / the integer code when read
        n0 = len(arr)
        tail_live = None if live is None else live[n0:]
        tail_raw, tail_back = (None if raw is None else raw[n0:]), back[n0:]
        if kind == "float":
            ok = (len(tail_back) == extra and all(math.isnan(float(x)) for x in tail_back)
                  and tail_raw is not None and all(float(x) == 1.17549435e-38 for x in tail_raw)
                  and tail_live is not None and all(math.isnan(float(x)) for x in tail_live))
        else:
            ok = (len(tail_back) == extra and all(int(x) == -2147483648 for x in tail_back)
                  and tail_raw is not None and all(int(x) == -2147483648 for x in tail_raw)
                  and tail_live is not None and all(int(x) == -2147483648 for x in tail_live))
        if not ok:
            failures.append((f"{kind} array of {n0} entries ({arr.dtype}) on {n0 + extra} vertices: the gap reads live {tail_live}, "
                             f"stored {tail_raw}, re-read {tail_back} instead of the no-data code", "C08:gap-not-no-data:" + kind))
        # the whole padded array goes to the model as well (padTo in Model/Codec.lean; theorems gap_float / gap_int)
    elif extra:
        back = back[: len(arr)]
        raw = None if raw is None else raw[: len(arr)]
    if kind == "float" and case.get("complex"):
        # an array of an unsupported type is refused as a whole (model: acceptF .complex), nothing is stored
        lines.append({"m": "codec", "op": "float", "complex": True, "ndv": ftok(1.17549435e-38), "xs": []})
        checks.append(("complex", status))
        if status == "ok":
            failures.append((f"complex array {arr} accepted as float data and stored as {back} (the imaginary part is dropped)",
                             "C08:complex-silently-altered"))
        elif [float(x) for x in back] != [0.0] * len(back):
            failures.append((f"rejected complex assignment changed the stored values to {back}", "C08:rejected-but-changed"))
    elif kind == "float":
        lines.append({"m": "codec", "op": "float", "ndv": ftok(1.17549435e-38), "xs": [ftok(x) for x in arr.astype("float64")],
                      "n": len(arr) + extra})
        checks.append(("float", status, dt, [ftok(x) for x in raw], [ftok(x) for x in back]))
        for x, b in zip(arr.astype("float64"), back):
            same = (math.isnan(x) and math.isnan(b)) or x == b
            if not same and float(x) != 1.17549435e-38:
                failures.append((f"float {x!r} ({arr.dtype}) read back as {b!r}", "C08:float-altered"))
        if status != "ok":
            failures.append((f"float array {arr} rejected: {status}", "C08:float-rejected"))
    else:
        lines.append({"m": "codec", "op": "int" if kind == "int" else "bool", "checked": bool(VARIANT["checked"]), "xs": case["xs"],
                      **({"n": len(arr) + extra} if kind == "int" else {})})
        checks.append((kind, status, dt, None if raw is None else [int(x) for x in raw], [int(x) for x in back]))
        exact = [t for t in case["xs"]]
        if status == "ok":
            for t, b in zip(exact, back):
                if t == "nan":
                    ok = int(b) == (-2147483648 if kind == "int" else 0)
                elif t == "frac":
                    ok = False
                else:
                    ok = int(t) == int(b)
                if not ok:
                    sig = "C08:int-silently-altered" if kind == "int" else "C08:bool-silently-altered"
                    if kind == "int" and t not in ("nan", "frac") and not (-2 ** 31 <= int(t) <= 2 ** 31 - 1):
                        sig = "C08:int-silently-altered:outside-int32"
                    failures.append((f"{kind} entry {t} ({arr.dtype}) accepted and stored as {int(b)}", sig))
                    break
        else:
            if [int(x) for x in back] != [0] * len(arr):
                failures.append((f"rejected assignment changed the stored values to {back}", "C08:rejected-but-changed"))
    return lines, checks, failures


def compare(ctx, recs):
    all_lines = [l for r in recs for l in r[1]]
    outs = ctx.driver.run(all_lines)
    k = 0
    for case, lines, checks in recs:
        for line, chk in zip(lines, checks):
            out = outs[k]
            k += 1
            ctx.traces += 1
            if chk[0] == "utf8":
                if out["bytes"] != chk[1] or out["back"] is not True:
                    ctx.disagree(case, f"UTF-8 bytes of {chk[2]!r}", model=out["bytes"], impl=chk[1])
            elif chk[0] == "vmap":
                _, status, got = chk
                if isinstance(out, str):
                    if status != out:
                        ctx.disagree(case, "value map verdict", model=out, impl=status)
                elif status != "ok" or sorted(map(tuple, out)) != sorted(map(tuple, got)):
                    ctx.disagree(case, "value map content", model=out, impl=(status, got))
            elif chk[0] == "complex":
                if out != chk[1]:
                    ctx.disagree(case, "complex array given as float data", model=out, impl=chk[1])
            elif chk[0] == "float":
                _, status, dt, raw, back = chk
                if status != "ok" or raw != out["stored"] or back != out["read"] or dt != "float64":
                    ctx.disagree(case, "float codec", model=out, impl={"status": status, "dtype": dt, "stored": raw, "read": back})
            else:
                kind, status, dt, raw, back = chk
                verdict = array_verdict(out)
                if verdict != status:
                    ctx.disagree(case, f"{kind} verdict", model=out, impl=status)
                elif status == "ok":
                    exp = [int(x) for x in out]
                    if raw != exp or back != exp or dt != ("int32" if kind == "int" else "int8"):
                        ctx.disagree(case, f"{kind} stored values/dtype", model=exp, impl={"dtype": dt, "stored": raw, "read": back})


def special(case):
    if case["kind"] == "float":
        return any(t in ("nan", "inf", "-inf") or "/" in t and t.split("/")[1] != "1" for t in case["xs"])
    if case["kind"] in ("int", "bool"):
        return any(t in ("nan", "frac") or abs(int(t)) > 1 for t in case["xs"])
    return True


def probe(ctx):
    """Range check present? (witness of int_wraps_counterexample: 2^31 in an int64 array)"""
    case = {"kind": "int", "xs": [str(2 ** 31)], "dtype_hint": 0}
    path = ctx.scratch / "c08_probe.geoh5"
    VARIANT["checked"] = True
    try:
        _, checks, failures = run_case(ctx, case, path)
    finally:
        if path.exists():
            os.remove(path)
    VARIANT["checked"] = checks[0][1] != "ok"
    ctx.extra["variant_selected"] = "repaired (range check)" if VARIANT["checked"] else "asFound (astype(int32) wraps)"
    for what, sig in failures:
        ctx.fail(case, what, sig)


def process(ctx, cases):
    probe(ctx)
    recs = []
    for i, case in enumerate(cases):
        path = ctx.scratch / f"c08_{i}.geoh5"
        try:
            lines, checks, failures = run_case(ctx, case, path)
        finally:
            if path.exists():
                os.remove(path)
        ctx.case(case, special(case))
        ctx.count("kind:" + case["kind"])
        if "np_dtype" in case:
            ctx.count("dtype:" + case["np_dtype"])
        for what, sig in failures:
            ctx.fail(case, what, sig)
        recs.append((case, lines, checks))
    compare(ctx, recs)


def run(ctx: Ctx):
    import warnings
    warnings.filterwarnings("ignore")
    process(ctx, [gen_case(ctx.rng) for _ in range(ctx.n(250, 6000))])


def replay(ctx: Ctx, payload):
    import warnings
    warnings.filterwarnings("ignore")
    process(ctx, [payload["case"]])
