"""C15 — ui.json validation accepts exactly the valid values, statelessly.

Correspondence (model `Valid`, lean/GeoVerif/Model/Valid.lean, and the T2-translated `requires_value`):
  A. `InputValidation.validate` on random rule dictionaries x values of every kind (None, bool, int, float, inf, strings incl.
     identifier-like ones, identifiers, entities, property groups, workspaces, lists, dictionaries) - verdict (error class) must
     be the model's; and on the rules the code infers from template forms.
  B. `requires_value`: the real function on *every* combination of the ten switches (1024 dictionaries, the same the Lean
     theorem `requires_value_table` enumerates) against the readable rule and the translated code; plus random dictionaries
     with extra members / parameters / value kinds against the translated code (errors included).
  C. sequences of calls on one object: `InputValidation.validate_data`, `EnforcerPool.enforce`, `Parameter.value = ...`,
     `InputFile.set_data_value` / `InputFile.data = ...` - every verdict must equal the verdict of a fresh object, and a
     rejected assignment must leave the stored value / data / form unchanged.
"""
from __future__ import annotations

import copy
import itertools
import uuid
import warnings

import numpy as np

from harness import pyval
from harness.core import Ctx, LEAN, REPO, sh, ToolFailure

ID = "C15"
LEAN_MODULES = ["GeoVerif.Props.C15"]
THEOREMS = [
    "GeoVerif.Valid.validate_accept_iff",
    "GeoVerif.Valid.none_accepted_iff",
    "GeoVerif.Valid.requires_value_table",
    "GeoVerif.Valid.requires_value_spec",
    "GeoVerif.Valid.validateData_table",
    "GeoVerif.Valid.runData_independent",
    "GeoVerif.Valid.pool_clean",
    "GeoVerif.Valid.pool_accept_iff",
    "GeoVerif.Valid.pool_run_independent",
    "GeoVerif.Valid.param_rejected_unchanged",
    "GeoVerif.Valid.param_accepted_stored",
    "GeoVerif.Valid.asFound_validateData_stateful",
    "GeoVerif.Valid.asFound_pool_stateful",
    "GeoVerif.Valid.asFound_param_keeps_rejected",
]
RULE = (
    "A: random rule dictionaries (each of the 9 validator keys present or absent) x values of 20 kinds, and rules inferred by the "
    "code from every template form x the same values; B: all 1024 switch combinations (exhaustive) + random ui.json dictionaries; "
    "C: random call sequences (good after bad, bad after good, repeats) on one InputValidation / EnforcerPool / Parameter / "
    "InputFile object; distinct by hash of the case; non-trivial when a case has both an accepted and a rejected call (A: when the "
    "rule dictionary has at least two keys)"
)
ASSUMPTIONS = [
    "Python classes in `types` lists are abstracted to tags (str, UUID, int, float, bool, NoneType, Entity, PropertyGroup, list, Workspace, dict)",
    "pydantic BaseForm classes (geoh5py/ui_json/forms.py BaseModel subclasses) are not modelled",
    "the association validator's view of the workspace (which identifiers live under an entity) is supplied by the harness from the tree it built",
    "numpy array values (shape validator) are not generated: lists and scalars only",
]
LEVEL_TEXT = (
    "Lean theorems: a value passes InputValidation.validate iff it satisfies every constraint of its rule dictionary "
    "(validate_accept_iff); with inferred rules None is accepted iff the form does not require a value (none_accepted_iff); the "
    "translated requires_value (regenerated from /repo every run) equals the readable rule on all 1024 switch combinations "
    "(requires_value_table/_spec, decide +kernel); validating never changes the rule table, the enforcer pool or - when it "
    "rejects - the stored parameter value, so every verdict is that of a fresh object (validateData_table, runData_independent, "
    "pool_clean, pool_run_independent, param_rejected_unchanged); the three stateful behaviours of the code as found are refuted "
    "by concrete witnesses (asFound_*). Tied to the code by the T2 translator and by differential runs A-C."
)
LEVEL_NOTE = "Trusted: Lean kernel, harness, T2 translator (checked by running the translated functions against the originals). Partial: rule inference (_validations_from_uijson) is exercised through the real code, only its optional/NoneType part is a theorem."
TECHNIQUE = "Lean 4 proof (accept-iff by staged validators, statelessness by induction over call sequences, decide +kernel over the regenerated switch table) + T2 translator + differential call sequences"
TRUSTED_EXTRA = ["harness/translate/py2lean.py (Python -> Lean translation of ui_json/utils.py and the mappers of shared/utils.py)"]

ERR = {
    "RequiredValidationError": "required", "AtLeastOneValidationError": "one_of", "OptionalValidationError": "optional",
    "TypeValidationError": "type", "UUIDValidationError": "uuid", "AssociationValidationError": "association",
    "PropertyGroupValidationError": "property_group", "ValueValidationError": "value", "ShapeValidationError": "shape",
    "ValueError": "ValueError", "AttributeError": "python-error", "TypeError": "python-error", "AggregateValidationError": "aggregate",
}
TYPES = ["str", "UUID", "int", "float", "bool", "NoneType", "Entity", "PropertyGroup", "list", "Workspace", "dict"]


def regenerate():
    rc, out = sh(["/venv/bin/python", str(LEAN.parent / "harness/translate/py2lean.py"), str(REPO)], env={"PYTHONPATH": str(REPO)})
    if rc != 0:
        raise ToolFailure("py2lean.py failed: " + out[-400:])


def verdict_of(fn):
    try:
        fn()
        return "ok"
    except Exception as e:  # noqa: BLE001
        return ERR.get(type(e).__name__, "other:" + type(e).__name__)


# ----------------------------------------------------------------------------------------------
# the world: a small workspace whose entities the value specs name
# ----------------------------------------------------------------------------------------------

class World:
    def __init__(self, ctx):
        from geoh5py.groups import ContainerGroup
        from geoh5py.objects import Points
        from geoh5py.workspace import Workspace
        warnings.filterwarnings("ignore")
        self.path = ctx.scratch / "c15_world.geoh5"
        if self.path.exists():
            self.path.unlink()
        ws = Workspace.create(self.path)
        g = ContainerGroup.create(ws, name="G")
        o1 = Points.create(ws, vertices=np.zeros((4, 3)), parent=g, name="O1")
        d1, d2 = o1.add_data({"d1": {"values": np.arange(4.0)}, "d2": {"values": np.arange(4.0)}})
        pg1 = o1.create_property_group(name="pg1", properties=[d1.uid, d2.uid], property_group_type="Multi-element")
        o2 = Points.create(ws, vertices=np.ones((3, 3)), name="O2")
        d3 = o2.add_data({"d3": {"values": np.arange(3.0)}})
        pg2 = o2.create_property_group(name="pg2", properties=[d3.uid], property_group_type="Interval table")
        self.ws = ws
        self.obj = {"ws": ws, "G": g, "O1": o1, "O2": o2, "d1": d1, "d2": d2, "d3": d3, "pg1": pg1, "pg2": pg2}
        tree = {"G": ["O1", "d1", "d2", "pg1"], "O1": ["d1", "d2", "pg1"], "O2": ["d3", "pg2"], "d1": [], "d2": [], "d3": [],
                "pg1": [], "pg2": []}
        self.env = [{"uid": self.obj[n].uid.hex, "kind": "pg" if n.startswith("pg") else "entity",
                     "desc": [self.obj[c].uid.hex for c in kids],
                     "pgType": getattr(self.obj[n], "property_group_type", "") if n.startswith("pg") else ""}
                    for n, kids in tree.items()]
        # the root group is an entity of the workspace too
        self.env.append({"uid": ws.root.uid.hex, "kind": "entity", "desc": [e["uid"] for e in self.env], "pgType": ""})

    def close(self):
        self.ws.close()


VALUE_SPECS = [
    {"k": "none"}, {"k": "bool", "v": True}, {"k": "bool", "v": False}, {"k": "int", "v": 0}, {"k": "int", "v": 3},
    {"k": "float", "v": 2.5}, {"k": "float", "v": "inf"}, {"k": "str", "v": "abc"}, {"k": "str", "v": ""}, {"k": "str", "v": "Vertex"},
    {"k": "uuidstr_of", "e": "d1"}, {"k": "uuidstr_of", "e": "d3", "braces": True}, {"k": "str", "v": "1234-not-a-uuid"},
    {"k": "uuid_of", "e": "d1"}, {"k": "uuid_of", "e": "d3"}, {"k": "uuid_of", "e": "O1"}, {"k": "uuid_of", "e": "pg1"},
    {"k": "uuid", "v": "00000000-0000-0000-0000-0000000000aa"},
    {"k": "ent", "e": "d1"}, {"k": "ent", "e": "d3"}, {"k": "ent", "e": "O1"}, {"k": "ent", "e": "O2"}, {"k": "ent", "e": "G"},
    {"k": "ent", "e": "pg1"}, {"k": "ent", "e": "pg2"}, {"k": "ws", "e": "ws"},
    {"k": "list", "v": []}, {"k": "list", "v": [{"k": "str", "v": "abc"}, {"k": "str", "v": "Vertex"}]},
    {"k": "list", "v": [{"k": "int", "v": 1}, {"k": "none"}]}, {"k": "list", "v": [{"k": "uuid_of", "e": "d1"}, {"k": "ent", "e": "d2"}]},
    {"k": "dict", "v": [["a", {"k": "bool", "v": True}], ["b", {"k": "none"}]]}, {"k": "dict", "v": [["a", {"k": "none"}]]},
]
ASSOC_SPECS = [{"k": "none"}, {"k": "ent", "e": "O1"}, {"k": "ent", "e": "O2"}, {"k": "ent", "e": "G"}, {"k": "ws", "e": "ws"},
               {"k": "list", "v": [{"k": "ent", "e": "O1"}]}, {"k": "str", "v": "obj_name"}, {"k": "uuid_of", "e": "O1"},
               {"k": "ent", "e": "pg1"}]


def py_types(names):
    from geoh5py.groups import PropertyGroup
    from geoh5py.shared import Entity
    from geoh5py.workspace import Workspace
    m = {"str": str, "UUID": uuid.UUID, "int": int, "float": float, "bool": bool, "NoneType": type(None), "Entity": Entity,
         "PropertyGroup": PropertyGroup, "list": list, "Workspace": Workspace, "dict": dict}
    return [m[n] for n in names]


def type_names(types):
    out = []
    for t in types if isinstance(types, (list, tuple)) else [types]:
        n = getattr(t, "__name__", str(t))
        out.append({"Path": None, "PosixPath": None, "ndarray": None}.get(n, n) if n in ("Path", "PosixPath", "ndarray") else n)
    return [n for n in out if n in TYPES]


def assoc_json(world, v):
    from geoh5py.shared import Entity
    from geoh5py.workspace import Workspace
    if v is None:
        return {"k": "none"}
    if isinstance(v, list):
        return {"k": "list"}
    if isinstance(v, Workspace):
        return {"k": "ws"}
    if isinstance(v, Entity):
        return {"k": "ent", "u": v.uid.hex}
    return {"k": "other"}


def rules_spec(rng):
    """An abstract rule dictionary (JSON); None = key absent."""
    r = {}
    if rng.random() < 0.25:
        r["required"] = rng.random() < 0.7
    if rng.random() < 0.5:
        r["optional"] = rng.random() < 0.5
    if rng.random() < 0.7:
        r["types"] = sorted(rng.sample(TYPES, rng.randrange(1, 5)))
    if rng.random() < 0.35:
        r["uuid"] = True
    if rng.random() < 0.4:
        r["association"] = rng.choice(ASSOC_SPECS)
    if rng.random() < 0.2:
        r["pg"] = rng.choice(["Multi-element", "Interval table"])
    if rng.random() < 0.3:
        r["values"] = rng.choice([[{"k": "str", "v": "abc"}, {"k": "str", "v": "Vertex"}], [{"k": "int", "v": 1}, {"k": "int", "v": 3}, {"k": "float", "v": 2.5}],
                                  [{"k": "bool", "v": True}], []])
    if rng.random() < 0.2:
        r["shape"] = rng.choice([[1], [2], [0]])
    if rng.random() < 0.08:
        r["one_of"] = "grp"
    return r


def rules_py(world, r):
    out = {}
    if "required" in r:
        out["required"] = r["required"]
    if "optional" in r:
        out["optional"] = r["optional"]
    if "types" in r:
        out["types"] = py_types(r["types"])
    if r.get("uuid"):
        out["uuid"] = None
    if "association" in r:
        out["association"] = pyval.from_spec(r["association"], world.obj)
    if "pg" in r:
        out["property_group_type"] = r["pg"]
    if "values" in r:
        out["values"] = [pyval.from_spec(x, world.obj) for x in r["values"]]
    if "shape" in r:
        out["shape"] = tuple(r["shape"])
    if "one_of" in r:
        out["one_of"] = r["one_of"]
    return out


def rules_json(world, py_rules):
    """Python rule dictionary (as the code holds it) -> model Rules JSON."""
    j = {"uuid": "uuid" in py_rules}
    for k in ("required", "optional"):
        if k in py_rules:
            j[k] = bool(py_rules[k])
    if "types" in py_rules:
        j["types"] = type_names(py_rules["types"])
    if "association" in py_rules:
        j["association"] = assoc_json(world, py_rules["association"])
    if "property_group_type" in py_rules:
        j["pg"] = py_rules["property_group_type"]
    if "values" in py_rules:
        j["values"] = [pyval.to_pyval(x) for x in py_rules["values"]]
    if "shape" in py_rules:
        j["shape"] = list(py_rules["shape"])
    if "one_of" in py_rules:
        j["one_of"] = str(py_rules["one_of"])
    return j


# ----------------------------------------------------------------------------------------------
# A. single validations
# ----------------------------------------------------------------------------------------------

def part_a(ctx, world, lines, pend):
    from geoh5py.ui_json.validation import InputValidation
    n = ctx.n(400, 12000)
    for _ in range(n):
        r = rules_spec(ctx.rng)
        vs = ctx.rng.choice(VALUE_SPECS)
        opts = {"ignore_requirements": ctx.rng.random() < 0.1, "ignored": ctx.rng.random() < 0.05}
        case = {"part": "A", "rules": r, "value": vs, "opts": opts}
        pr = rules_py(world, r)
        v = pyval.from_spec(vs, world.obj)
        iv = InputValidation(validations={"p": copy.copy(pr)},
                             validation_options={"ignore_requirements": opts["ignore_requirements"], "ignore_list": ("p",) if opts["ignored"] else ()})
        impl = verdict_of(lambda: iv.validate("p", v, pr))
        ctx.case(case, nontrivial=len(r) >= 2)
        ctx.count("A:verdict:" + impl)
        lines.append({"m": "valid", "op": "validate", "env": world.env, "opts": opts, "rules": rules_json(world, pr), "v": pyval.to_pyval(v)})
        pend.append((case, impl, "validate"))


def template_forms():
    from geoh5py.ui_json import templates
    return {
        "bool": lambda **k: templates.bool_parameter(**k), "int": lambda **k: templates.integer_parameter(**k),
        "float": lambda **k: templates.float_parameter(**k), "string": lambda **k: templates.string_parameter(**k),
        "choice": lambda **k: templates.choice_string_parameter(**k), "multichoice": lambda **k: templates.choice_string_parameter(multi_select=True, **k),
        "file": lambda **k: templates.file_parameter(**k), "object": lambda **k: templates.object_parameter(**k),
        "group": lambda **k: templates.group_parameter(**k), "data": lambda **k: templates.data_parameter(parent="obj", **k),
        "data_value": lambda **k: templates.data_value_parameter(parent="obj", **k),
        "pg_data": lambda **k: templates.data_parameter(parent="obj", data_group_type="Multi-element", **k),
    }


def part_a_inferred(ctx, world, lines, pend):
    """Rules as the code infers them from template forms (all forms x optional states), judged on every value kind."""
    from geoh5py.ui_json.constants import default_ui_json
    from geoh5py.ui_json.utils import requires_value
    from geoh5py.ui_json.validation import InputValidation
    forms = template_forms()
    for fname, optional in itertools.product(sorted(forms), (None, "enabled", "disabled")):
        ui = copy.deepcopy(default_ui_json)
        ui["geoh5"] = world.ws
        ui["obj"] = forms["object"](value=world.obj["O1"].uid)
        ui["p"] = forms[fname](optional=optional) if fname != "bool" else forms[fname]()
        try:
            table = InputValidation._validations_from_uijson(ui)  # pylint: disable=protected-access
        except Exception as e:  # noqa: BLE001
            ctx.count("A:inference-raises:" + type(e).__name__)
            continue
        pr = dict(table["p"])
        req = bool(requires_value(ui, "p"))
        if pr.get("optional") != (not req) or (("types" in pr) and ((type(None) in pr["types"]) != (not req))):
            ctx.fail({"part": "A-inferred", "form": fname, "optional": optional},
                     f"inferred rules of form {fname} (optional={optional}): optional={pr.get('optional')}, NoneType in types="
                     f"{type(None) in pr.get('types', [])}, requires_value={req}", "C15:inference:optional-differs-from-requires-value")
        # resolve the association the way validate_data does
        if "association" in pr:
            pr["association"] = {"geoh5": world.ws, "obj": world.obj["O1"]}.get(pr["association"], pr["association"])
        iv = InputValidation(validations={"p": copy.copy(pr)})
        specs = VALUE_SPECS if ctx.tier != "quick" else ctx.rng.sample(VALUE_SPECS, 10) + [{"k": "none"}]
        for vs in specs:
            case = {"part": "A-inferred", "form": fname, "optional": optional, "value": vs}
            v = pyval.from_spec(vs, world.obj)
            impl = verdict_of(lambda: iv.validate("p", v, pr))
            ctx.case(case, nontrivial=True)
            ctx.count("A:inferred:" + impl)
            if vs["k"] == "none" and (impl == "ok") != (not req):
                ctx.fail(case, f"form {fname} (optional={optional}): None is {'accepted' if impl == 'ok' else 'rejected'} although requires_value is {req}",
                         "C15:none-accepted-iff-not-required")
            lines.append({"m": "valid", "op": "validate", "env": world.env, "opts": {}, "rules": rules_json(world, pr), "v": pyval.to_pyval(v)})
            pend.append((case, impl, "validate"))


# ----------------------------------------------------------------------------------------------
# B. requires_value
# ----------------------------------------------------------------------------------------------

def sw_ui(c):
    form = {"label": "P", "value": 1}
    if c["hasGroup"]:
        form["group"] = "G"
    if c["hasDep"]:
        form["dependency"] = "dep"
        form["dependencyType"] = "disabled" if c["depDisabled"] else "enabled"
    if c["hasOptional"]:
        form["optional"] = True
        form["enabled"] = c["enabled"]
    lead = {"label": "L", "value": 0, "group": "G", "enabled": c["groupEnabled"]}
    if c["leaderKey"]:
        lead["groupOptional"] = c["groupOptional"]
    dep = {"label": "D", "value": True, "optional": True, "enabled": c["depState"]} if c["depOptional"] else {"label": "D", "value": c["depState"]}
    return {"title": "t", "lead": lead, "dep": dep, "p": form}


def sw_spec(c):
    own = c["enabled"] if c["hasOptional"] else True
    dep = (not c["depState"]) if c["depDisabled"] else c["depState"]
    base = ((c["enabled"] if (c["hasOptional"] and dep) else dep) if c["hasDep"] else own)
    return False if (c["hasGroup"] and c["leaderKey"] and c["groupOptional"] and not c["groupEnabled"]) else base


SW = ["hasGroup", "leaderKey", "groupOptional", "groupEnabled", "hasDep", "depDisabled", "depOptional", "depState", "hasOptional", "enabled"]


def req_result(fn):
    try:
        return {"ok": bool(fn())}
    except Exception as e:  # noqa: BLE001
        return {"err": type(e).__name__}


def part_b(ctx, lines, pend):
    from geoh5py.ui_json.utils import requires_value
    for bits in itertools.product([False, True], repeat=len(SW)):
        c = dict(zip(SW, bits))
        case = {"part": "B", "switches": c}
        ui = sw_ui(c)
        impl = req_result(lambda: requires_value(ui, "p"))
        ctx.case(case, nontrivial=True, sample_cap=2)
        ctx.count("B:exhaustive")
        if impl != {"ok": sw_spec(c)}:
            ctx.fail(case, f"requires_value = {impl} for switches {c}, the rule says {sw_spec(c)}", "C15:requires-value:switch-table")
        lines.append({"m": "valid", "op": "requires", "ui": pyval.to_pyval(ui), "p": "p"})
        pend.append((case, impl, "requires"))
    ctx.extra["switch_space"] = {"switches": SW, "combinations": 2 ** len(SW), "exhaustive": True}
    # random dictionaries: extra members, other value kinds, several groups, missing targets
    for _ in range(ctx.n(150, 4000)):
        rng = ctx.rng
        names = ["a", "b", "c", "d"][: rng.randrange(1, 5)]
        ui = {"title": "x", "plain": rng.choice([1, "s", None])}
        for nm in names:
            f = {"label": nm.upper(), "value": rng.choice([0, 1, True, False, "txt", "", None, 2.5, [1], []])}
            if rng.random() < 0.5:
                f["group"] = rng.choice(["G1", "G2"])
            if rng.random() < 0.3:
                f["groupOptional"] = rng.choice([True, False])
            if rng.random() < 0.5:
                f["enabled"] = rng.choice([True, False])
            if rng.random() < 0.4:
                f["optional"] = rng.choice([True, False])
            if rng.random() < 0.4:
                f["dependency"] = rng.choice(names + ["missing"] if rng.random() < 0.1 else names)
                if rng.random() < 0.6:
                    f["dependencyType"] = rng.choice(["enabled", "disabled"])
            if rng.random() < 0.1:
                del f["label"]
            ui[nm] = f
        target = rng.choice(names + ["plain"])
        case = {"part": "B-random", "ui": ui, "p": target}
        impl = req_result(lambda: requires_value(ui, target))
        ctx.case(case, nontrivial="ok" in impl)
        ctx.count("B:random:" + ("ok" if "ok" in impl else impl["err"]))
        lines.append({"m": "valid", "op": "requires", "ui": pyval.to_pyval(ui), "p": target})
        pend.append((case, impl, "requires"))


# ----------------------------------------------------------------------------------------------
# C. call sequences on one object
# ----------------------------------------------------------------------------------------------

def probe_variants(ctx):
    """Which behaviour does /repo show on the three witnesses of the asFound_* theorems?"""
    from geoh5py.shared.utils import SetDict
    from geoh5py.ui_json.enforcers import EnforcerPool
    from geoh5py.ui_json.parameters import StringParameter
    from geoh5py.ui_json.validation import InputValidation
    v = InputValidation(validations={"p1": {"one_of": "g", "types": [str, type(None)]}, "p2": {"one_of": "g", "types": [str, type(None)]}})
    seq = [verdict_of(lambda: v.validate_data({"p1": None, "p2": None})) for _ in range(2)]
    data_var = "asFound" if seq == ["one_of", "ok"] else "repaired"
    pool = EnforcerPool.from_validations("x", SetDict(type=str, value=["a", "b"]))
    seq = [verdict_of(lambda: pool.enforce(3)), verdict_of(lambda: pool.enforce("a"))]
    pool_var = "asFound" if seq == ["aggregate", "aggregate"] else "repaired"
    p = StringParameter("a", "ok")
    verdict_of(lambda: setattr(p, "value", 3))
    param_var = "asFound" if p.value == 3 else "repaired"
    ctx.extra["variant_selected"] = {"validate_data": data_var, "enforcer_pool": pool_var, "parameter": param_var}
    return data_var, pool_var, param_var


def part_c_data(ctx, world, var, lines, pend):
    from geoh5py.ui_json.validation import InputValidation
    for _ in range(ctx.n(60, 2000)):
        rng = ctx.rng
        params = ["obj", "dat", "s", "t"]
        table_spec = {
            "obj": {"types": ["Entity", "UUID", "str"], "assoc": "geoh5", "uuid": True},
            "dat": {"types": ["Entity", "UUID", "str", "NoneType"], "assoc": "obj", "uuid": True},
            "s": {"types": ["str", "NoneType"]}, "t": {"types": ["str", "NoneType"]},
        }
        if rng.random() < 0.7:
            table_spec["s"]["one_of"] = "g"
            table_spec["t"]["one_of"] = "g"
        if rng.random() < 0.3:
            table_spec["dat"]["one_of"] = "h"
        if rng.random() < 0.3:
            table_spec["s"]["required"] = True
        if rng.random() < 0.3:
            table_spec["t"]["values"] = [{"k": "str", "v": "abc"}, {"k": "str", "v": "Vertex"}]
        datas = []
        for _k in range(rng.randrange(2, 6)):
            d = {"geoh5": {"k": "ws", "e": "ws"},
                 "obj": rng.choice([{"k": "ent", "e": "O1"}] * 5 + [{"k": "ent", "e": "O2"}] * 2 + [{"k": "uuid_of", "e": "O1"}, {"k": "str", "v": "bad"}]),
                 "dat": rng.choice([{"k": "ent", "e": "d1"}] * 3 + [{"k": "ent", "e": "d3"}, {"k": "none"}, {"k": "none"}, {"k": "uuid_of", "e": "d2"}]),
                 "s": rng.choice([{"k": "none"}] * 3 + [{"k": "str", "v": "abc"}] * 2 + [{"k": "int", "v": 3}]),
                 "t": rng.choice([{"k": "none"}] * 3 + [{"k": "str", "v": "Vertex"}, {"k": "str", "v": "zzz"}])}
            for k in list(d):
                if k != "geoh5" and rng.random() < 0.08:
                    del d[k]
            datas.append(d)
        if rng.random() < 0.5:
            datas.append(copy.deepcopy(datas[0]))
        case = {"part": "C-data", "table": table_spec, "datas": datas}

        def table_py():
            t = {}
            for nm in params:
                sp = table_spec[nm]
                r = {"types": py_types(sp["types"])}
                if "assoc" in sp:
                    r["association"] = sp["assoc"]
                if sp.get("uuid"):
                    r["uuid"] = None
                for k in ("one_of", "required"):
                    if k in sp:
                        r[k] = sp[k]
                if "values" in sp:
                    r["values"] = [pyval.from_spec(x, world.obj) for x in sp["values"]]
                t[nm] = r
            t["geoh5"] = {"types": py_types(["Workspace"])}
            return t
        iv = InputValidation(validations=table_py())
        verdicts, fresh = [], []
        for d in datas:
            dv = {k: pyval.from_spec(x, world.obj) for k, x in d.items()}
            verdicts.append(verdict_of(lambda: iv.validate_data(dict(dv))))
            f = InputValidation(validations=table_py())
            fresh.append(verdict_of(lambda: f.validate_data(dict(dv))))
        ctx.case(case, nontrivial="ok" in verdicts and any(v != "ok" for v in verdicts))
        ctx.count("C:data:calls", len(datas))
        for i, (a, b) in enumerate(zip(verdicts, fresh)):
            if a != b:
                ctx.fail(case, f"validate_data call {i} on a used validator gives {a}, a fresh validator gives {b} for the same data (earlier verdicts {verdicts[:i]})",
                         "C15:stateful:validate_data")
                break
        tj = []
        for nm in params + ["geoh5"]:
            py_r = table_py()[nm]
            assoc = py_r.pop("association", None)
            e = {"name": nm, "rules": rules_json(world, py_r)}
            if assoc is not None:
                e["assoc"] = assoc
            tj.append(e)
        lines.append({"m": "valid", "op": "validateData", "var": var, "env": world.env, "opts": {}, "table": tj,
                      "datas": [[[k, pyval.to_pyval(pyval.from_spec(x, world.obj))] for k, x in d.items()] for d in datas]})
        pend.append((case, verdicts, "validateData"))


POOLS = [
    {"type": ["str"]}, {"type": ["int", "float"]}, {"type": ["str"], "value": [{"k": "str", "v": "a"}, {"k": "str", "v": "b"}]},
    {"value": [{"k": "int", "v": 1}, {"k": "int", "v": 3}]}, {"type": ["str"], "uuid": True}, {"uuid": True},
    {"type": ["bool"], "value": [{"k": "bool", "v": True}]},
]
POOL_VALUES = [{"k": "none"}, {"k": "str", "v": "a"}, {"k": "str", "v": "zz"}, {"k": "int", "v": 3}, {"k": "int", "v": 1}, {"k": "float", "v": 2.5},
               {"k": "bool", "v": True}, {"k": "uuidstr_of", "e": "d1"}, {"k": "uuid_of", "e": "d1"}, {"k": "list", "v": []}]


def make_pool(world, spec):
    from geoh5py.shared.utils import SetDict
    from geoh5py.ui_json.enforcers import EnforcerPool
    kw = {}
    if "type" in spec:
        kw["type"] = py_types(spec["type"])
    if "value" in spec:
        kw["value"] = [pyval.from_spec(x, world.obj) for x in spec["value"]]
    if spec.get("uuid"):
        kw["uuid"] = ""
    return EnforcerPool.from_validations("x", SetDict(**kw))


def pool_json(world, spec):
    out = []
    if "type" in spec:
        out.append({"k": "type", "v": spec["type"]})
    if "value" in spec:
        out.append({"k": "value", "v": [pyval.to_pyval(pyval.from_spec(x, world.obj)) for x in spec["value"]]})
    if spec.get("uuid"):
        out.append({"k": "uuid"})
    return out


def part_c_pool(ctx, world, pool_var, param_var, lines, pend):
    from geoh5py.ui_json.parameters import Parameter
    for _ in range(ctx.n(80, 3000)):
        rng = ctx.rng
        spec = rng.choice(POOLS)
        vals = [rng.choice(POOL_VALUES) for _ in range(rng.randrange(2, 7))]
        case = {"part": "C-pool", "pool": spec, "values": vals}
        pool = make_pool(world, spec)
        verdicts, fresh = [], []
        for vs in vals:
            v = pyval.from_spec(vs, world.obj)
            verdicts.append(verdict_of(lambda: pool.enforce(v)))
            f = make_pool(world, spec)
            fresh.append(verdict_of(lambda: f.enforce(v)))
        ctx.case(case, nontrivial="ok" in verdicts and any(v != "ok" for v in verdicts))
        ctx.count("C:pool:calls", len(vals))
        for i, (a, b) in enumerate(zip(verdicts, fresh)):
            if a != b:
                ctx.fail(case, f"EnforcerPool.enforce call {i} gives {a}, a fresh pool gives {b} for the same value (earlier verdicts {verdicts[:i]})",
                         "C15:stateful:enforcer-pool")
                break
        lines.append({"m": "valid", "op": "pool", "var": pool_var, "env": world.env, "enforcers": pool_json(world, spec),
                      "values": [pyval.to_pyval(pyval.from_spec(x, world.obj)) for x in vals]})
        pend.append((case, verdicts, "pool"))
        # the same sequence as assignments to a Parameter
        case2 = {"part": "C-param", "pool": spec, "values": vals}

        class P(Parameter):  # pylint: disable=too-few-public-methods
            static_validations = {}
        kw = {}
        if "type" in spec:
            kw["type"] = py_types(spec["type"])
        if "value" in spec:
            kw["value"] = [pyval.from_spec(x, world.obj) for x in spec["value"]]
        if spec.get("uuid"):
            kw["uuid"] = ""
        P.static_validations = kw
        try:
            p = P("x")
        except Exception as e:  # noqa: BLE001
            ctx.count("C:param:construct-raises:" + type(e).__name__)
            continue
        steps = []
        flagged = False
        for vs in vals:
            v = pyval.from_spec(vs, world.obj)
            before = p.value
            verdict = verdict_of(lambda: setattr(p, "value", v))
            after = p.value
            steps.append([verdict, pyval.to_pyval(after)])
            if verdict != "ok" and not (after is before or after == before) and not flagged:
                ctx.fail(case2, f"Parameter.value = {v!r} was rejected ({verdict}) but the parameter now holds it (before: {before!r})",
                         "C15:rejected-value-stored:parameter")
                flagged = True
            if verdict == "ok" and not (after is v or after == v) and not flagged:
                ctx.fail(case2, f"Parameter.value = {v!r} was accepted but the parameter holds {after!r}", "C15:accepted-value-not-stored:parameter")
                flagged = True
        ctx.case(case2, nontrivial=any(s[0] == "ok" for s in steps) and any(s[0] != "ok" for s in steps))
        lines.append({"m": "valid", "op": "param", "var": param_var, "env": world.env, "enforcers": pool_json(world, spec), "init": {"t": "none"},
                      "values": [pyval.to_pyval(pyval.from_spec(x, world.obj)) for x in vals]})
        pend.append((case2, steps, "param"))


def part_c_inputfile(ctx, world):
    """InputFile: a rejected set_data_value / data assignment leaves data and forms unchanged; verdicts do not depend on history."""
    from geoh5py.ui_json import InputFile
    from geoh5py.ui_json.constants import default_ui_json
    forms = template_forms()

    def build():
        ui = copy.deepcopy(default_ui_json)
        ui["geoh5"] = world.ws
        ui["obj"] = forms["object"](value=world.obj["O1"].uid)
        ui["dat"] = forms["data"](value=world.obj["d1"].uid, optional="enabled")
        ui["s"] = forms["string"](value="abc")
        ui["i"] = forms["int"](value=3, optional="enabled")
        ui["f"] = forms["float"](value=1.5)
        ui["ch"] = forms["choice"](value="Option A")
        ui["b"] = forms["bool"](value=True)
        return InputFile(ui_json=ui)
    candidates = {
        "obj": [{"k": "ent", "e": "O1"}, {"k": "ent", "e": "O2"}, {"k": "int", "v": 3}, {"k": "str", "v": "not-a-uuid"}, {"k": "none"}],
        "dat": [{"k": "ent", "e": "d1"}, {"k": "ent", "e": "d2"}, {"k": "ent", "e": "d3"}, {"k": "none"}, {"k": "float", "v": 2.5}],
        "s": [{"k": "str", "v": "xyz"}, {"k": "int", "v": 3}, {"k": "none"}, {"k": "list", "v": []}],
        "i": [{"k": "int", "v": 7}, {"k": "str", "v": "7"}, {"k": "none"}, {"k": "float", "v": 2.5}],
        "f": [{"k": "float", "v": 2.5}, {"k": "int", "v": 3}, {"k": "str", "v": "x"}, {"k": "none"}],
        "ch": [{"k": "str", "v": "Option B"}, {"k": "str", "v": "Option Z"}, {"k": "int", "v": 1}],
        "b": [{"k": "bool", "v": False}, {"k": "int", "v": 1}, {"k": "str", "v": "True"}],
    }

    def snap(ifile):
        return (pyval.canon(pyval.to_pyval(ifile.data)), pyval.canon(pyval.to_pyval(ifile.ui_json)))
    for _ in range(ctx.n(25, 600)):
        rng = ctx.rng
        steps = [(k, rng.choice(candidates[k])) for k in (rng.choice(list(candidates)) for _ in range(rng.randrange(2, 7)))]
        case = {"part": "C-inputfile", "steps": [[k, v] for k, v in steps]}
        ifile = build()
        verdicts = []
        bad = False
        for k, vs in steps:
            v = pyval.from_spec(vs, world.obj)
            before = snap(ifile)
            verdict = verdict_of(lambda: ifile.set_data_value(k, v))
            verdicts.append(verdict)
            if verdict != "ok" and snap(ifile) != before:
                ctx.fail(case, f"set_data_value({k!r}, {v!r}) was rejected ({verdict}) but data / forms changed", "C15:rejected-value-stored:input-file")
                bad = True
                break
            fresh = build()
            fv = verdict_of(lambda: fresh.set_data_value(k, v))
            # a fresh file is in the initial state; the used one may have other values - only parameters whose verdict cannot
            # depend on other parameters are compared (everything but the data parameter, which depends on the object)
            if k != "dat" and fv != verdict:
                ctx.fail(case, f"set_data_value({k!r}, {v!r}) gives {verdict} after {verdicts[:-1]}, {fv} on a fresh input file", "C15:stateful:input-file")
                bad = True
                break
        ctx.case(case, nontrivial=(not bad) and "ok" in verdicts and any(v != "ok" for v in verdicts))
        ctx.count("C:inputfile:calls", len(verdicts))
        for v in verdicts:
            ctx.count("C:inputfile:" + v)


# ----------------------------------------------------------------------------------------------

def canon_verdicts(x):
    """the model reports the Python errors a validator can run into as AttributeError; the code raises AttributeError or
    TypeError depending on the value's class - one class for the comparison"""
    if isinstance(x, str):
        return "python-error" if x == "AttributeError" else x
    if isinstance(x, list):
        return [canon_verdicts(y) for y in x]
    return x


def compare(ctx, lines, pend):
    outs = ctx.driver.run(lines)
    for (case, impl, kind), out in zip(pend, outs):
        ctx.traces += 1
        out = canon_verdicts(out) if kind != "requires" else out
        if kind == "param":
            m = [[canon_verdicts(s[0]), pyval.canon(s[1])] for s in out]
            i = [[s[0], pyval.canon(s[1])] for s in impl]
            if m != i:
                ctx.disagree(case, f"Parameter sequence: model {out} impl {impl}")
        elif out != impl:
            ctx.disagree(case, f"{kind}: model {out} impl {impl}", model=out, impl=impl)


def run(ctx: Ctx):
    warnings.filterwarnings("ignore")
    world = World(ctx)
    try:
        lines, pend = [], []
        data_var, pool_var, param_var = probe_variants(ctx)
        part_a(ctx, world, lines, pend)
        part_a_inferred(ctx, world, lines, pend)
        part_b(ctx, lines, pend)
        part_c_data(ctx, world, data_var, lines, pend)
        part_c_pool(ctx, world, pool_var, param_var, lines, pend)
        part_c_inputfile(ctx, world)
        compare(ctx, lines, pend)
    finally:
        world.close()


def replay(ctx: Ctx, payload):
    # cases are derived from the seed stored in the replay file: run the same tier again
    run(ctx)
