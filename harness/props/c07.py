"""C07 — data stay aligned with the geometry they are attached to.

Correspondence: random Points / Curve / Surface objects (vertex coordinate x = vertex id, so
coordinates are trackable), vertex and cell data with distinct values, random sequences of
remove_vertices / remove_cells / value assignments (shorter, exact, longer) / re-opens.
After every operation the implementation's vertices, cells and every data array must equal
the Lean model `Geom` (Model/Geom.lean) driven by the same operations; an independent oracle
recomputes the alignment by vertex id.
"""
from __future__ import annotations

import math
import os

import numpy as np

from harness.core import Ctx

ID = "C07"
LEAN_MODULES = ["GeoVerif.Props.C07", "GeoVerif.Props.C07Mask"]
THEOREMS = [
    "GeoVerif.Geom.mc2_aligned",
    "GeoVerif.Geom.mc2_cells_from_kept",
    "GeoVerif.Geom.mc2_all_cells",
    "GeoVerif.Geom.mc2_refuse",
    "GeoVerif.Reindex.keep_get",
    "GeoVerif.Reindex.rank_lt",
    "GeoVerif.Reindex.rank_inj",
    "GeoVerif.Reindex.maskOfIdx_true_iff",
    "GeoVerif.Geom.rv_aligned",
    "GeoVerif.Geom.rv_survivors",
    "GeoVerif.Geom.rv_cells_same_coords",
    "GeoVerif.Geom.rv_cells_spec",
    "GeoVerif.Geom.rc_aligned",
    "GeoVerif.Geom.formatLength_pad",
    "GeoVerif.Geom.formatLength_refuse",
    "GeoVerif.Geom.setValues_aligned",
    "GeoVerif.Geom.run_consistent",
    "GeoVerif.Geom.mc_aligned",
    "GeoVerif.Geom.mc_survivors",
    "GeoVerif.Geom.mc_cells_spec",
    "GeoVerif.Geom.mc_refuse",
    "GeoVerif.Geom.rv_eq_maskedCopy",
]
RULE = (
    "random Points/Curve/Surface with 1-9 vertices (some used by no cell), vertex and cell float data; op sequences of "
    "remove_vertices/remove_cells with repeated, unsorted, negative, out-of-range, first/last/all-but-one index lists, "
    "assignments of shorter/equal/longer arrays and re-opens; distinct by hash of (class, geometry, ops); non-trivial when "
    "at least one removal succeeded on an object that has data"
)
ASSUMPTIONS = [
    "data entries and coordinates are opaque tokens (no float arithmetic is involved in C07)",
    "NumPy fancy indexing / np.delete semantics are exercised against the model, not proved",
    "masked copies of Points/Curve/Surface are modelled (maskedCopy); masked copies of grids and surveys are covered by C12/C13/C20",
]
LEVEL_TEXT = (
    "Lean theorems for all geometries, all index lists and all operation sequences: after remove_vertices/remove_cells/"
    "value assignment every data array has one entry per vertex/cell, cells reference existing vertices (rv_aligned, "
    "rc_aligned, setValues_aligned, run_consistent), survivors keep coordinates and values (rv_survivors), surviving "
    "cells connect the same coordinates (rv_cells_same_coords, rv_cells_spec), shorter arrays are padded and longer "
    "refused (formatLength_*). Masked copies: the copy holds the selected vertices with their values at their rank, exactly the "
    "cells all of whose vertices are selected, re-indexed onto the same coordinates, with their cell values; it is aligned, a mask "
    "of the wrong length is refused, and remove_vertices is the masked copy by the complement applied in place (mc_aligned, "
    "mc_survivors, mc_cells_spec, mc_refuse, rv_eq_maskedCopy); with a cell mask as well, the cells kept are the selected ones "
    "none of whose vertices is dropped (mc2_aligned, mc2_cells_from_kept, mc2_all_cells, mc2_refuse). Text data ride along "
    "with the geometry as opaque tokens. Tied to the code by differential runs of the real objects "
    "against the executable model."
)
LEVEL_NOTE = "Trusted: Lean kernel, harness, NumPy/h5py. Modelled: np.delete/boolean-mask semantics (validated by the correspondence)."
TECHNIQUE = "Lean 4 invariant proof over an executable model of remove_vertices/remove_cells/format_length/masked copy + differential correspondence"


def tok(x):
    if isinstance(x, (str, bytes)):      # text data: the entry itself is the token
        return x.decode() if isinstance(x, bytes) else str(x)
    x = float(x)
    return "nan" if math.isnan(x) else repr(x)


def gen_case(rng):
    cls = rng.choice(["Points", "Curve", "Curve", "Surface", "Surface"])
    n = rng.choice([1, 2, 3, 4, 5, 6, 7, 9])
    k = {"Points": 0, "Curve": 2, "Surface": 3}[cls]
    cells = None
    if k:
        if n < k:
            n = k + rng.randrange(3)
        m = rng.randrange(1, 6)
        pool = list(range(n))
        if n > k and rng.random() < 0.6:      # leave some vertices unused by any cell
            pool = rng.sample(pool, max(k, n - rng.randrange(1, 3)))
        cells = []
        for _ in range(m):                      # distinct vertex tuples: the oracle keys cell data by them
            c = rng.sample(pool, k)
            if c not in cells:
                cells.append(c)
    vnames = rng.sample(["va", "vb", "vc"], rng.randrange(0, 3))
    cnames = rng.sample(["ca", "cb"], rng.randrange(0, 3)) if k else []
    # text data ride along (never assigned to, only trimmed and copied with the geometry): data kinds other than float take
    # other paths in the writer; created before or after the float data (the order of the children is the order of the edits)
    tnames = [t for t in (["tv", "tc"] if k else ["tv"]) if rng.random() < 0.3]
    text_first = rng.random() < 0.5
    ops = []
    if tnames and k and rng.random() < 0.3:
        ops.append(["rmCells", list(range(6))])      # every cell at once (indices beyond the last are refused by the model too)
    for _ in range(rng.randrange(1, 7)):
        r = rng.random()
        if r < 0.45:
            ops.append(["rmVerts", gen_idx(rng)])
        elif r < 0.65 and k:
            ops.append(["rmCells", gen_idx(rng)])
        elif r < 0.9:
            names = vnames + cnames
            if not names:
                ops.append(["rmVerts", gen_idx(rng)])
                continue
            nm = rng.choice(names)
            ops.append(["set", nm, rng.choice([-2, -1, 0, 0, 0, 1]), rng.randrange(1000)])
        elif r < 0.93:
            # a masked copy: a random selection of the current vertices, now and then all, none, or a mask of the wrong length
            q = rng.random()
            ops.append(["copyMask", rng.randrange(1 << 16), "all" if q < 0.1 else "none" if q < 0.2 else "short" if q < 0.3 else "bits"])
            if k and rng.random() < 0.5:
                # the caller also selects cells: a selected cell that touches a dropped vertex cannot survive
                ops[-1] = ["copyMask", rng.randrange(1 << 16), "bits", rng.randrange(1 << 8)]
        elif r < 0.95:
            ops.append(["reopen"])
        elif r < 0.97:
            ops.append(["readLazy"])          # read the lazily derived arrays (parts of a curve): they are cached on the object
        else:
            ops.append(["clearCache"])        # drop the cached arrays: the next read rebuilds them from the file / the caches left
    if ops and ops[0][0] == "rmCells" and ops[0][1] == list(range(6)):
        ops[0][1] = list(range(len(cells)))
    return {"cls": cls, "n": n, "cells": cells, "vnames": vnames, "cnames": cnames, "tnames": tnames, "text_first": text_first,
            "ops": ops}


def gen_idx(rng):
    r = rng.random()
    if r < 0.1:
        return []
    if r < 0.2:
        return [0]
    if r < 0.3:
        return [-1]
    size = rng.randrange(1, 5)
    idx = [rng.randrange(-3, 9) for _ in range(size)]
    if rng.random() < 0.3:
        idx.append(idx[0])
    return idx


def snapshot(obj):
    try:
        return _snapshot(obj)
    except Exception as e:  # noqa: BLE001  reading the object back must not raise
        return {"verts": [], "cells": None, "vdata": {}, "cdata": {}, "read_error": type(e).__name__ + ": " + str(e)[:80]}


def _snapshot(obj):
    verts = [int(round(v[0])) for v in obj.vertices] if obj.vertices is not None else []
    cells = None
    if hasattr(obj, "cells") and obj.cells is not None:
        cells = [[int(x) for x in c] for c in obj.cells]
    vdata, cdata = {}, {}
    for ch in obj.children:
        if not hasattr(ch, "values") or ch.values is None:
            continue
        if ch.association.name == "VERTEX":
            vdata[ch.name] = [tok(x) for x in ch.values]
        elif ch.association.name == "CELL":
            cdata[ch.name] = [tok(x) for x in ch.values]
    return {"verts": verts, "cells": cells, "vdata": vdata, "cdata": cdata}


ERR = {"ValueError": "valueError", "IndexError": "indexError", "TypeError": "typeError"}


def oracle(snap, truth_v, truth_c, tag):
    """Independent alignment check by vertex id.  truth_v[name][vertex id] = token."""
    out = []
    if "read_error" in snap:
        return [(f"reading the object back raised {snap['read_error']} {tag}", "C07:read-back-raises-" + snap["read_error"].split(":")[0])]
    n = len(snap["verts"])
    for nm, vals in snap["vdata"].items():
        if len(vals) != n:
            out.append((f"vertex data {nm} has {len(vals)} entries for {n} vertices {tag}", "C07:vertex-data-length"))
            continue
        for vid, t in zip(snap["verts"], vals):
            if truth_v[nm].get(vid, "nan") != t:
                out.append((f"vertex data {nm}: vertex {vid} reads {t}, had {truth_v[nm].get(vid)} {tag}", "C07:vertex-value-moved"))
                break
    if snap["cells"] is not None:
        nc = len(snap["cells"])
        for c in snap["cells"]:
            if any(v < 0 or v >= n for v in c):
                out.append((f"cell {c} references a vertex outside 0..{n - 1} {tag}", "C07:cell-dangling"))
                break
        for nm, vals in snap["cdata"].items():
            if len(vals) != nc:
                out.append((f"cell data {nm} has {len(vals)} entries for {nc} cells {tag}", "C07:cell-data-length"))
                continue
            for c, t in zip(snap["cells"], vals):
                key = tuple(snap["verts"][v] for v in c if 0 <= v < n)
                if truth_c[nm].get(key, "nan") != t and len(key) == len(c):
                    out.append((f"cell data {nm}: cell {key} reads {t}, had {truth_c[nm].get(key)} {tag}", "C07:cell-value-moved"))
                    break
    return out


def run_case(ctx: Ctx, case, path):
    from geoh5py import objects
    from geoh5py.workspace import Workspace

    lines, expect, failures = [], [], []
    n = case["n"]
    verts = np.c_[np.arange(n, dtype=float), np.zeros(n), np.zeros(n)]
    ws = Workspace.create(path)
    kw = {"vertices": verts, "name": "obj"}
    if case["cells"] is not None:
        kw["cells"] = np.array(case["cells"], dtype="uint32")
    obj = getattr(objects, case["cls"]).create(ws, **kw)
    truth_v, truth_c = {}, {}

    def add_text():
        for nm in case.get("tnames", []):
            if nm == "tv":
                vals = np.array([f"t{i}" for i in range(n)])
                obj.add_data({nm: {"values": vals, "association": "VERTEX", "type": "text"}})
                truth_v[nm] = {vid: str(v) for vid, v in enumerate(vals)}
            elif case["cells"] is not None:
                vals = np.array([f"c{i}" for i in range(len(case["cells"]))])
                obj.add_data({nm: {"values": vals, "association": "CELL", "type": "text"}})
                truth_c[nm] = {}
                for c, v in zip(case["cells"], vals):
                    truth_c[nm].setdefault(tuple(c), str(v))

    if case.get("text_first"):
        add_text()
    for i, nm in enumerate(case["vnames"]):
        vals = np.arange(n, dtype=float) + 100.0 * (i + 1)
        obj.add_data({nm: {"values": vals, "association": "VERTEX"}})
        truth_v[nm] = {vid: tok(v) for vid, v in enumerate(vals)}
    if case["cells"] is not None:
        m = len(case["cells"])
        for i, nm in enumerate(case["cnames"]):
            vals = np.arange(m, dtype=float) + 1000.0 * (i + 1)
            obj.add_data({nm: {"values": vals, "association": "CELL"}})
            truth_c[nm] = {}
            for c, v in zip(case["cells"], vals):
                truth_c[nm].setdefault(tuple(c), tok(v))
    if not case.get("text_first"):
        add_text()
    s0 = snapshot(obj)
    lines.append({"m": "geom", "op": "init", "verts": s0["verts"], "cells": s0["cells"],
                  "vdata": [{"n": k, "v": v} for k, v in s0["vdata"].items()],
                  "cdata": [{"n": k, "v": v} for k, v in s0["cdata"].items()]})
    expect.append(dict(s0, status="ok"))
    last = s0                 # what the object itself read as after the last operation on it (a masked copy is not one)
    success_removals = 0
    try:
        for step, op in enumerate(case["ops"]):
            tag = f"after op {step} {op}"
            status = "ok"
            if op[0] == "reopen":
                ws.close()
                ws = Workspace(path)
                obj = ws.get_entity("obj")[0]
                snap = snapshot(obj)
                failures += oracle(snap, truth_v, truth_c, tag)
                if {k: snap[k] for k in ("verts", "cells", "vdata", "cdata")} != {k: last[k] for k in ("verts", "cells", "vdata", "cdata")}:
                    failures.append((f"re-open changed the object {tag}", "C07:reopen-differs"))
                continue
            if op[0] in ("readLazy", "clearCache"):
                # neither changes the object: what is read afterwards must be what was read before
                try:
                    if op[0] == "readLazy":
                        _ = getattr(obj, "parts", None)
                        _ = getattr(obj, "unique_parts", None)
                    else:
                        from geoh5py.shared.utils import clear_array_attributes
                        clear_array_attributes(obj, recursive=True)
                except Exception as e:  # noqa: BLE001
                    failures.append((f"{op[0]} raised {type(e).__name__}: {str(e)[:80]} {tag}", f"C07:{op[0]}:raises"))
                    continue
                snap = snapshot(obj)
                failures += oracle(snap, truth_v, truth_c, tag)
                if {k: snap[k] for k in ("verts", "cells", "vdata", "cdata")} != {k: last[k] for k in ("verts", "cells", "vdata", "cdata")}:
                    failures.append((f"{op[0]} changed what the object reads as {tag}", f"C07:{op[0]}-differs"))
                continue
            before = snapshot(obj)
            if "read_error" in before:
                failures += oracle(before, truth_v, truth_c, tag)
                break
            if op[0] == "copyMask":
                nv = len(before["verts"])
                bits = [bool((op[1] >> i) & 1) for i in range(nv)]
                mask = {"all": [True] * nv, "none": [False] * nv, "short": bits[:-1] if nv else [True], "bits": bits}[op[2]]
                lines.append({"m": "geom", "op": "maskCopy", "mask": mask})
                kw_cm = {}
                if len(op) > 3 and before["cells"]:
                    cmask = [bool((op[3] >> i) & 1) for i in range(len(before["cells"]))]
                    lines[-1] = {"m": "geom", "op": "maskCopy2", "mask": mask, "cmask": cmask}
                    kw_cm = {"cell_mask": np.array(cmask, dtype=bool)}
                    ctx.count("masked_copies_with_cell_mask")
                cp = None
                try:
                    cp = obj.copy(mask=np.array(mask, dtype=bool), **kw_cm)
                    csnap = snapshot(cp)
                except Exception as e:  # noqa: BLE001
                    status = ERR.get(type(e).__name__, "other:" + type(e).__name__)
                    csnap = before
                    if len(mask) == nv:
                        # a mask of the right length selects a copy (mc_aligned ... are stated for every such mask): the
                        # copy raising half-way leaves an object without its data in the workspace
                        left = [o for o in ws.objects if o.uid != obj.uid]
                        failures.append((f"masked copy with a mask of the right length raised {type(e).__name__}: {str(e)[:80]}; "
                                         f"{len(left)} half-made object(s) left in the workspace {tag}",
                                         "C07:copy-mask:raises:" + type(e).__name__))
                        for o in left:
                            ws.remove_entity(o)
                if "read_error" in csnap:
                    lines.pop()
                    failures += oracle(csnap, truth_v, truth_c, tag + " (the copy)")
                    break
                expect.append(dict(csnap, status=status))
                if status == "ok":
                    # the copy is aligned like any object: same truth tables, keyed by vertex id
                    failures += oracle(csnap, truth_v, truth_c, tag + " (the copy)")
                    exp_ids = [v for v, b in zip(before["verts"], mask) if b]
                    if csnap["verts"] != exp_ids:
                        failures.append((f"masked copy has vertices {csnap['verts']}, selected {exp_ids} {tag}", "C07:copy-mask:vertices"))
                    ctx.count("masked_copies")
                    ws.remove_entity(cp)
                del cp
                after = snapshot(obj)
                if after != before:
                    failures.append((f"a masked copy changed its source: {before} -> {after} {tag}", "C07:copy-mask:source-changed"))
                continue
            try:
                if op[0] == "rmVerts":
                    lines.append({"m": "geom", "op": "rmVerts", "idx": op[1]})
                    obj.remove_vertices(list(op[1]))
                elif op[0] == "rmCells":
                    lines.append({"m": "geom", "op": "rmCells", "idx": op[1]})
                    obj.remove_cells(list(op[1]))
                elif op[0] == "set":
                    nm = op[1]
                    cell = nm in case["cnames"]
                    cur = len(before["cdata" if cell else "vdata"].get(nm, []))
                    target = (len(before["cells"]) if cell else len(before["verts"]))
                    k = max(0, target + op[2])
                    vals = np.arange(k, dtype=float) + float(op[3]) * 10000.0 + 0.5
                    lines.append({"m": "geom", "op": "set", "cell": cell, "name": nm, "v": [tok(x) for x in vals]})
                    d = obj.get_data(nm)[0]
                    d.values = vals
                    # truth update: ids currently at each position
                    if cell:
                        truth_c[nm] = {}
                        for c, v in zip(before["cells"], list(vals) + [float("nan")] * target):
                            truth_c[nm].setdefault(tuple(before["verts"][x] for x in c), tok(v))
                    else:
                        truth_v[nm] = {vid: tok(v) for vid, v in zip(before["verts"], list(vals) + [float("nan")] * target)}
            except Exception as e:  # noqa: BLE001
                status = ERR.get(type(e).__name__, "other:" + type(e).__name__)
            snap = snapshot(obj)
            if status == "ok" and op[0] in ("rmVerts", "rmCells") and snap != before:
                success_removals += 1
            if "read_error" in snap:
                lines.pop()
                failures += oracle(snap, truth_v, truth_c, tag)
                break
            expect.append(dict(snap, status=status))
            last = snap
            failures += oracle(snap, truth_v, truth_c, tag + (" (operation raised " + status + ")" if status != "ok" else ""))
            if status != "ok" and snap != before:
                failures.append((f"{op} raised {status} but changed the object: {before} -> {snap}", f"C07:{op[0]}:failed-op-changed-state"))
    finally:
        try:
            ws.close()
        except Exception:  # noqa: BLE001
            pass
    return lines, expect, failures, success_removals


def compare(ctx, records):
    all_lines = [l for r in records for l in r["lines"]]
    outs = ctx.driver.run(all_lines)
    i = 0
    for r in records:
        for line, exp in zip(r["lines"], r["expect"]):
            out = outs[i]
            i += 1
            ctx.traces += 1
            if out != exp:
                ctx.disagree(r["case"], f"Geom correspondence at {line}", model=out, impl=exp)
                # keep consuming this record's outputs
        # note: lines and expect have equal length by construction


def run(ctx: Ctx):
    import warnings
    warnings.filterwarnings("ignore")
    n_cases = ctx.n(250, 8000)
    records = []
    for i in range(n_cases):
        case = gen_case(ctx.rng)
        path = ctx.scratch / f"c07_{i}.geoh5"
        try:
            lines, expect, failures, ok_rm = run_case(ctx, case, path)
        finally:
            if path.exists():
                os.remove(path)
        has_data = bool(case["vnames"] or case["cnames"])
        ctx.case(case, nontrivial=ok_rm > 0 and has_data)
        ctx.count("class:" + case["cls"])
        for e in expect[1:]:
            ctx.count("status:" + e["status"])
        for what, sig in failures:
            ctx.fail(case, what, sig)
        assert len(lines) == len(expect), (len(lines), len(expect))
        records.append({"case": case, "lines": lines, "expect": expect})
    compare(ctx, records)


def replay(ctx: Ctx, payload):
    import warnings
    warnings.filterwarnings("ignore")
    case = payload["case"]
    path = ctx.scratch / "c07_replay.geoh5"
    lines, expect, failures, ok_rm = run_case(ctx, case, path)
    ctx.case(case, True)
    for what, sig in failures:
        ctx.fail(case, what, sig)
    compare(ctx, [{"case": case, "lines": lines, "expect": expect}])
