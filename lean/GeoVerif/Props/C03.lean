import GeoVerif.Gen.Setters

/-!
# C03 — no accepted attribute change is lost (write-through completeness)

`Gen/Setters.lean` is regenerated from /repo's source on every run: every property setter as
event paths, the dispatch lists of `H5Writer.update_field`, the scalar attribute names.
Here: what an event path does to the in-memory / stored value of a field (`exec`), the static
criterion `dirtyAfter`, its soundness, and the criterion decided over the whole table.
-/
namespace GeoVerif.Setters
open GeoVerif.Gen

/-- names with a dedicated writer in `update_field` -/
def dispatched (a : String) : Bool := dispatchLists.any (·.contains a) || dispatchSingles.contains a

/-- does `update_attribute(self, a)` write field `f`?  A dedicated writer writes its own field;
    every other name falls to `write_attributes`, which rewrites *all* scalar attributes. -/
def routes (a f : String) : Bool := if dispatched a then a == f else scalarAttrs.contains f

/-- static criterion: is field `f` possibly out of date in the file after the path?
    (`d` = it was before).  A raising path has no obligation. -/
def dirtyAfter (f : String) : List Ev → Bool → Bool
  | [], d => d
  | .store g :: r, d => dirtyAfter f r (d || g == f)
  | .update a :: r, d => dirtyAfter f r (d && !routes a f)
  | .call p :: r, d => dirtyAfter f r (d && !(p == f))
  | .raise :: _, _ => false
  | .other :: r, d => dirtyAfter f r d

/-- abstract state of one entity: the in-memory and the stored token of every field -/
structure St where
  mem : String → Nat
  file : String → Nat

/-- semantics of a path; `vals g` is the value the setter computes for field `g`;
    `call p` runs the setter of another property, which stores and writes `p` -/
def exec (vals : String → Nat) : List Ev → St → Option St
  | [], s => some s
  | .store g :: r, s => exec vals r { s with mem := fun x => if x = g then vals g else s.mem x }
  | .update a :: r, s => exec vals r { s with file := fun x => if routes a x then s.mem x else s.file x }
  | .call p :: r, s => exec vals r { mem := fun x => if x = p then vals p else s.mem x,
                                     file := fun x => if x = p then vals p else s.file x }
  | .raise :: _, _ => none
  | .other :: r, s => exec vals r s

/-- the invariant behind the criterion, for any starting flag -/
theorem exec_synced (vals : String → Nat) (f : String) : ∀ (path : List Ev) (s : St) (d : Bool),
    (d = false → s.file f = s.mem f) → dirtyAfter f path d = false →
    ∀ s', exec vals path s = some s' → s'.file f = s'.mem f := by
  intro path
  induction path with
  | nil =>
    intro s d hd hdirty s' he
    simp only [exec, Option.some.injEq] at he
    subst he
    exact hd (by simpa [dirtyAfter] using hdirty)
  | cons e r ih =>
    intro s d hd hdirty s' he
    cases e with
    | store g =>
      simp only [exec, dirtyAfter] at he hdirty
      refine ih _ _ ?_ hdirty s' he
      intro h
      simp only [Bool.or_eq_false_iff, beq_eq_false_iff_ne] at h
      have hne : f ≠ g := fun e => h.2 e.symm
      simp [hne, hd h.1]
    | update a =>
      simp only [exec, dirtyAfter] at he hdirty
      refine ih _ _ ?_ hdirty s' he
      intro h
      by_cases hr : routes a f = true
      · simp [hr]
      · have hr' : routes a f = false := by simpa using hr
        simp only [hr', Bool.not_false, Bool.and_true] at h
        simp [hr', hd h]
    | call p =>
      simp only [exec, dirtyAfter] at he hdirty
      refine ih _ _ ?_ hdirty s' he
      intro h
      by_cases hp : f = p
      · simp [hp]
      · have : (p == f) = false := by simp; exact fun e => hp e.symm
        simp only [this, Bool.not_false, Bool.and_true] at h
        simp [hp, hd h]
    | raise => simp [exec] at he
    | other =>
      simp only [exec, dirtyAfter] at he hdirty
      exact ih _ _ hd hdirty s' he

/-- **Soundness of the criterion**: starting from an entity whose field `f` is in sync, a
    non-raising path that the criterion accepts leaves the stored value of `f` equal to the
    in-memory value — for paths of any length and any number of attributes. -/
theorem writeThrough_sound (vals : String → Nat) (f : String) (path : List Ev) (s s' : St)
    (hsync : s.file f = s.mem f) (hok : dirtyAfter f path false = false)
    (he : exec vals path s = some s') : s'.file f = s'.mem f :=
  exec_synced vals f path s false (fun _ => hsync) hok s' he

theorem dirtyAfter_append (f : String) : ∀ (p q : List Ev) (d : Bool), (Ev.raise ∉ p) →
    dirtyAfter f (p ++ q) d = dirtyAfter f q (dirtyAfter f p d) := by
  intro p
  induction p with
  | nil => intro q d _; rfl
  | cons e r ih =>
    intro q d hr
    have hr' : Ev.raise ∉ r := fun h => hr (List.mem_cons_of_mem _ h)
    cases e with
    | raise => exact absurd List.mem_cons_self hr
    | store g => simp only [List.cons_append, dirtyAfter]; exact ih q _ hr'
    | update a => simp only [List.cons_append, dirtyAfter]; exact ih q _ hr'
    | call c => simp only [List.cons_append, dirtyAfter]; exact ih q _ hr'
    | other => simp only [List.cons_append, dirtyAfter]; exact ih q _ hr'

theorem clean_stays_clean (f : String) : ∀ (q : List Ev), (Ev.store f ∉ q) → dirtyAfter f q false = false := by
  intro q
  induction q with
  | nil => intro _; rfl
  | cons e r ih =>
    intro h
    have h' : Ev.store f ∉ r := fun x => h (List.mem_cons_of_mem _ x)
    cases e with
    | store g =>
      have : (g == f) = false := by
        simp only [beq_eq_false_iff_ne]; intro e; apply h; rw [e]; exact List.mem_cons_self
      simp only [dirtyAfter, Bool.false_or, this]; exact ih h'
    | update a => simp only [dirtyAfter, Bool.false_and]; exact ih h'
    | call c => simp only [dirtyAfter, Bool.false_and]; exact ih h'
    | raise => rfl
    | other => simp only [dirtyAfter]; exact ih h'

/-- **Order independence**: assigning another attribute afterwards (its setter's path `q` does not
    store `f`) never makes an accepted, written `f` stale — whatever the order of assignments. -/
theorem order_independent (f : String) (p q : List Ev) (hp : dirtyAfter f p false = false)
    (hraise : Ev.raise ∉ p) (hq : Ev.store f ∉ q) : dirtyAfter f (p ++ q) false = false := by
  rw [dirtyAfter_append f p q false hraise, hp]
  exact clean_stays_clean f q hq

/-! ### the criterion over the whole regenerated table -/

def storedFields (p : List Ev) : List String :=
  p.filterMap fun e => match e with | .store g => some g | _ => none

/-- fields the property is about: anything an attribute map or a dispatch list names, except
    identity/bookkeeping fields that are documented as not assignable after creation -/
def excluded : List String := ["uid", "on_file", "parent", "entity_type", "primitive_type", "property_groups",
  "properties", "property_group_type", "concatenated_attributes", "concatenated_object_ids", "property_group_ids"]

def inScopeField (g : String) : Bool := (scalarAttrs.contains g || dispatched g) && !excluded.contains g

def pathOK (p : List Ev) : Bool := (storedFields p).all fun g => !inScopeField g || !dirtyAfter g p false

def setterOK (s : Setter) : Bool := s.paths.all pathOK

/-- project attributes are persisted when the workspace is closed (`Workspace.close` writes them,
    fact `closeWritesHeader` extracted from the source); property groups are stored by
    `add_or_update_property_group`, not by attribute write-through -/
def deferred (s : Setter) : Bool :=
  (s.owner == "Workspace" && ["contributors", "distance_unit", "ga_version", "version"].contains s.prop && closeWritesHeader)
  || s.owner == "PropertyGroup" || s.owner == "ConcatenatedPropertyGroup"

/-- **Every setter of every class writes through on every non-raising path** (the complete,
    reflectively discovered table — a finite quantifier, decided by the kernel). -/
theorem all_setters_write_through : ∀ s ∈ setters, deferred s = true ∨ setterOK s = true := by
  decide +kernel

/-- **Every array field has a writer**: each array/structured field that can be assigned is named
    in a dispatch list of `update_field` (otherwise it would fall to `write_attributes`, which
    does not write arrays). -/
theorem dispatch_total : ∀ f ∈ arrayFields, dispatched f = true := by decide +kernel

/-- what the criterion rejects: the setter of `Octree.origin` as it was before the repair
    (update before store) -/
theorem update_before_store_rejected :
    pathOK [.update "attributes", .store "centroids", .store "origin"] = false := by decide +kernel

/-! ### Non-vacuity -/
example : pathOK [.store "centroids", .store "origin", .update "attributes"] = true := by decide +kernel
example : (exec (fun _ => 7) [.store "origin", .update "attributes"] ⟨fun _ => 0, fun _ => 0⟩).map
    (fun s => (s.mem "origin", s.file "origin")) = some (7, 7) := by decide +kernel
example : setters.length > 100 := by decide +kernel

end GeoVerif.Setters
