import GeoVerif.Model.Pair
/-!
C20 — linked surveys stay mutually consistent.

For the model `GeoVerif.Pair` (receiver/transmitter, receiver/base-station and
potential/current electrode pairs):

* `link_symmetric`, `link_shares`: linking from either side records both identifiers in the
  live and in the stored record of both entities, and both entities hold one record;
* `edit_visible_and_stored`, `edit_keeps_ids`, `edit_frame`: on a linked pair an edit through
  either side (write-through setter) is seen through both sides and is in both stored records;
* `reopen_resolves`, `reopen_view`: after re-opening each side still names the other one and
  sees the same parameters;
* `copy_links_copies`, `copy_carries_params`, `copy_without_link_data`: copying through either
  side yields a second pair whose members name each other and neither original, provided the
  side resolves its partner and the link data exist (explicit hypotheses);
* `step_consistent`, `run_consistent`, `run_keeps_links`: the invariant `Consistent` holds
  after every sequence of links, edits, re-opens and copies;
* `asFound_edit_not_stored`: the as-found (non write-through) edit of the direct-current
  metadata setter is refuted on a concrete pair.
-/
namespace GeoVerif.Pair

/-- record `r` names both members of `p` -/
def Rec.Links (r : Rec) (p : Pair) : Prop := r.idA = some p.uidA ∧ r.idB = some p.uidB

/-- both live records name both members -/
def Pair.Linked (p : Pair) : Prop := ∀ s, (p.view s).Links p

/-- what is visible through a side is what is stored for that side -/
def Pair.Stored (p : Pair) : Prop := ∀ s, p.view s = p.stored s

/-- both sides see the same record -/
def Pair.Agree (p : Pair) : Prop := p.view .A = p.view .B

/-- not yet linked: two records, each with the own identifier only, each stored -/
def Pair.UnlinkedOk (p : Pair) : Prop :=
  ∃ ra rb, p.live = .split ra rb ∧ p.storedA = ra ∧ p.storedB = rb
    ∧ ra.idA = some p.uidA ∧ ra.idB = none ∧ rb.idA = none ∧ rb.idB = some p.uidB

/-- linked: one record naming both members, stored for both, seen by both (as one object or,
    after a re-open, as two equal objects) -/
def Pair.LinkedOk (p : Pair) : Prop :=
  ∃ r, r.Links p ∧ p.storedA = r ∧ p.storedB = r ∧ (p.live = .shared r ∨ p.live = .split r r)

def Consistent (p : Pair) : Prop := p.UnlinkedOk ∨ p.LinkedOk

/-! ### basic facts -/

@[simp] theorem other_other (s : Side) : s.other.other = s := by cases s <;> rfl

theorem id_setId_same (r : Rec) (s : Side) (u : Nat) : (r.setId s u).id s = some u := by
  cases s <;> rfl

theorem id_setId_other (r : Rec) (s : Side) (u : Nat) : (r.setId s u).id s.other = r.id s.other := by
  cases s <;> rfl

@[simp] theorem setParam_idA (r : Rec) (k v) : (r.setParam k v).idA = r.idA := rfl
@[simp] theorem setParam_idB (r : Rec) (k v) : (r.setParam k v).idB = r.idB := rfl
@[simp] theorem setParam_id (r : Rec) (k v) (s : Side) : (r.setParam k v).id s = r.id s := by
  cases s <;> rfl

theorem setParam_get (r : Rec) (k : String) (v : Option String) : (r.setParam k v).params k = v := by
  simp [Rec.setParam, Params.set]

theorem setParam_get_ne (r : Rec) (k k' : String) (v : Option String) (h : k' ≠ k) :
    (r.setParam k v).params k' = r.params k' := by
  simp [Rec.setParam, Params.set, h]

theorem linkedOk_linked {p : Pair} (h : p.LinkedOk) : p.Linked := by
  obtain ⟨r, hl, _, _, hv | hv⟩ := h <;> intro s <;> cases s <;> simpa [Pair.view, hv, Live.view] using hl

theorem linkedOk_agree {p : Pair} (h : p.LinkedOk) : p.Agree := by
  obtain ⟨r, _, _, _, hv | hv⟩ := h <;> simp [Pair.Agree, Pair.view, hv, Live.view]

theorem consistent_stored {p : Pair} (h : Consistent p) : p.Stored := by
  rcases h with ⟨ra, rb, hv, ha, hb, _⟩ | ⟨r, _, ha, hb, hv | hv⟩ <;> intro s <;> cases s <;>
    simp [Pair.view, Pair.stored, hv, Live.view, ha, hb]

/-- a consistent pair in which some side names a partner is linked, and both sides agree -/
theorem consistent_linked_of_partner {p : Pair} (h : Consistent p) (s : Side)
    (hp : (p.view s).id s.other ≠ none) : p.Linked ∧ p.Agree := by
  rcases h with ⟨ra, rb, hv, _, _, _, h2, h3, _⟩ | hl
  · exfalso; apply hp
    cases s <;> simp [Pair.view, hv, Live.view, Side.other, Rec.id, h2, h3]
  · exact ⟨linkedOk_linked hl, linkedOk_agree hl⟩

theorem linked_resolves {p : Pair} (h : p.Linked) (s : Side) : p.resolves s (p.view s) = true := by
  have := h s
  cases s <;> simp [Pair.resolves, Side.other, Rec.id, Pair.uid, this.1, this.2]

/-! ### linking -/

theorem fresh_consistent (a b : Nat) (pa pb : Params) : Consistent (fresh a b pa pb) :=
  .inl ⟨_, _, rfl, rfl, rfl, rfl, rfl, rfl, rfl⟩

/-- linking from either side records both identifiers on both entities, live and stored -/
theorem link_symmetric (src : Side) (p : Pair) (s : Side) :
    ((link src p).view s).Links p ∧ ((link src p).stored s).Links p := by
  cases src <;> cases s <;>
    simp [link, Pair.view, Pair.stored, Live.view, Rec.Links, Rec.setId, Side.other, Pair.uid]

/-- after linking both entities hold one record -/
theorem link_shares (src : Side) (p : Pair) :
    ∃ r, (link src p).live = .shared r ∧ (link src p).storedA = r ∧ (link src p).storedB = r :=
  ⟨_, rfl, rfl, rfl⟩

/-- the parameters of the linking side win -/
theorem link_params (src : Side) (p : Pair) (s : Side) :
    ((link src p).view s).params = (p.view src).params := by
  cases src <;> cases s <;> rfl

theorem link_consistent (src : Side) (p : Pair) : Consistent (link src p) := by
  refine .inr ⟨_, ?_, rfl, rfl, .inl rfl⟩
  cases src <;> simp [Rec.Links, Rec.setId, Side.other, Pair.uid, link]

/-! ### editing -/

theorem edit_linked_eq (via : Side) (k : String) (v : Option String) (p : Pair) (h : p.Linked) :
    edit true via k v p =
      { p with live := .shared ((p.view via).setParam k v),
               storedA := (p.view via).setParam k v, storedB := (p.view via).setParam k v } := by
  have hr : p.resolves via ((p.view via).setParam k v) = true := by
    have := linked_resolves h via
    simpa [Pair.resolves] using this
  simp [edit, hr]

/-- on a linked pair an edit through either side is seen through both sides and is in both
    stored records -/
theorem edit_visible_and_stored (via : Side) (k : String) (v : Option String) (p : Pair)
    (h : p.Linked) (s : Side) :
    ((edit true via k v p).view s).params k = v ∧ ((edit true via k v p).stored s).params k = v := by
  rw [edit_linked_eq via k v p h]
  cases s <;> simp [Pair.view, Pair.stored, Live.view, setParam_get]

/-- ... and leaves the recorded identifiers alone -/
theorem edit_keeps_ids (via : Side) (k : String) (v : Option String) (p : Pair)
    (h : p.Linked) (s : Side) :
    ((edit true via k v p).view s).Links p ∧ ((edit true via k v p).stored s).Links p := by
  rw [edit_linked_eq via k v p h]
  have := h via
  cases s <;> simpa [Pair.view, Pair.stored, Live.view, Rec.Links] using this

/-- ... and the other keys, as seen through the editing side -/
theorem edit_frame (via : Side) (k k' : String) (v : Option String) (p : Pair)
    (h : p.Linked) (hk : k' ≠ k) (s : Side) :
    ((edit true via k v p).view s).params k' = (p.view via).params k' := by
  rw [edit_linked_eq via k v p h]
  cases s <;> simp [Pair.view, Live.view, setParam_get_ne _ _ _ _ hk]

theorem edit_uids (wt : Bool) (via : Side) (k : String) (v : Option String) (p : Pair) :
    (edit wt via k v p).uidA = p.uidA ∧ (edit wt via k v p).uidB = p.uidB := by
  unfold edit
  split
  · exact ⟨rfl, rfl⟩
  · cases via <;> exact ⟨rfl, rfl⟩

theorem edit_consistent (via : Side) (k : String) (v : Option String) (p : Pair)
    (h : Consistent p) : Consistent (edit true via k v p) := by
  rcases h with ⟨ra, rb, hv, ha, hb, h1, h2, h3, h4⟩ | hl
  · -- not linked: the edit stays local to the editing side and is stored for it
    left
    cases via
    · have hr : p.resolves .A (ra.setParam k v) = false := by
        simp [Pair.resolves, Side.other, Rec.id, h2]
      refine ⟨ra.setParam k v, rb, ?_, ?_, ?_, ?_⟩ <;>
        simp [edit, Pair.view, hv, Live.view, hr, Live.setSide, Pair.setStored, hb, h1, h2, h3, h4]
    · have hr : p.resolves .B (rb.setParam k v) = false := by
        simp [Pair.resolves, Side.other, Rec.id, h3]
      refine ⟨ra, rb.setParam k v, ?_, ?_, ?_, ?_⟩ <;>
        simp [edit, Pair.view, hv, Live.view, hr, Live.setSide, Pair.setStored, ha, h1, h2, h3, h4]
  · right
    rw [edit_linked_eq via k v p (linkedOk_linked hl)]
    refine ⟨_, ?_, rfl, rfl, .inl rfl⟩
    have := linkedOk_linked hl via
    simpa [Rec.Links] using this

/-! ### re-opening -/

theorem reopen_consistent (p : Pair) (h : Consistent p) : Consistent (reopen p) := by
  rcases h with ⟨ra, rb, hv, ha, hb, h1, h2, h3, h4⟩ | ⟨r, hl, ha, hb, _⟩
  · exact .inl ⟨ra, rb, by simp [reopen, ha, hb], ha, hb, h1, h2, h3, h4⟩
  · exact .inr ⟨r, hl, ha, hb, .inr (by simp [reopen, ha, hb])⟩

/-- after a re-open every side sees exactly what it saw before -/
theorem reopen_view (p : Pair) (h : Consistent p) (s : Side) : (reopen p).view s = p.view s := by
  have := consistent_stored h s
  cases s <;> simpa [reopen, Pair.view, Live.view, Pair.stored] using this.symm

/-- after a re-open each side's recorded partner is the other side -/
theorem reopen_resolves (p : Pair) (h : Consistent p) (hl : p.Linked) (s : Side) :
    ((reopen p).view s).id s.other = some (p.uid s.other) ∧ ((reopen p).view s).id s = some (p.uid s) := by
  rw [reopen_view p h s]
  have := hl s
  cases s <;> simp [Rec.id, Side.other, Pair.uid, this.1, this.2]

/-! ### copying -/

theorem copy_inl {carry ld : Bool} {via : Side} {newA newB : Nat} {p q : Pair}
    (h : copy carry ld via newA newB p = .inl q) :
    q = copyPair (copyParams carry via p) newA newB := by
  unfold copy at h
  by_cases hc : (p.resolves via (p.view via) && ld) = true
  · rw [if_pos hc] at h; exact (Sum.inl.inj h).symm
  · rw [if_neg hc] at h; cases h

theorem copyPair_linkedOk (ps : Params) (newA newB : Nat) : (copyPair ps newA newB).LinkedOk :=
  ⟨_, ⟨rfl, rfl⟩, rfl, rfl, .inl rfl⟩

/-- Copying through a side that resolves its partner, when the link data exist, gives a pair
    whose members name each other (live and stored), hold one record, and — the new
    identifiers being fresh — do not name the originals. -/
theorem copy_links_copies (carry : Bool) (via : Side) (newA newB : Nat) (p : Pair)
    (hres : p.resolves via (p.view via) = true) :
    ∃ q, copy carry true via newA newB p = .inl q ∧ q.uidA = newA ∧ q.uidB = newB
      ∧ q.LinkedOk
      ∧ (∀ s, (q.view s).idA = some newA ∧ (q.view s).idB = some newB
            ∧ (q.stored s).idA = some newA ∧ (q.stored s).idB = some newB)
      ∧ (newA ≠ p.uidA → newB ≠ p.uidB →
            ∀ s, (q.view s).idA ≠ some p.uidA ∧ (q.view s).idB ≠ some p.uidB) := by
  refine ⟨copyPair (copyParams carry via p) newA newB, by simp [copy, hres], rfl, rfl,
    copyPair_linkedOk _ _ _, ?_, ?_⟩
  · intro s; cases s <;> simp [copyPair, Pair.view, Pair.stored, Live.view]
  · intro ha hb s
    cases s <;> simp [copyPair, Pair.view, Live.view, ha, hb]

/-- the copies see the parameters that were visible through the copied side -/
theorem copy_carries_params (via : Side) (newA newB : Nat) (p q : Pair) (ld : Bool)
    (h : copy true ld via newA newB p = .inl q) (s : Side) :
    (q.view s).params = (p.view via).params ∧ (q.stored s).params = (p.view via).params := by
  rw [copy_inl h]
  cases s <;> simp [copyPair, copyParams, Pair.view, Pair.stored, Live.view]

/-- without the link data (no `Transmitter ID` / `A-B Cell ID`), or from a side that does not
    resolve a partner, only the one entity is copied and it names no partner -/
theorem copy_without_link_data (carry ld : Bool) (via : Side) (newA newB : Nat) (p : Pair)
    (h : ld = false ∨ p.resolves via (p.view via) = false) :
    ∃ l, copy carry ld via newA newB p = .inr l ∧ l.side = via ∧ l.uid = via.pick newA newB
      ∧ l.record.id via.other = none := by
  have hc : (p.resolves via (p.view via) && ld) = false := by
    rcases h with h | h <;> simp [h]
  refine ⟨copyLone carry (copyParams carry via p) via (via.pick newA newB),
    by simp [copy, hc], rfl, rfl, ?_⟩
  cases carry
  · cases via <;> rfl
  · show (Rec.setId _ via _).id via.other = none
    rw [id_setId_other]; cases via <;> rfl

theorem copy_consistent (carry ld : Bool) (via : Side) (newA newB : Nat) (p q : Pair)
    (h : copy carry ld via newA newB p = .inl q) : Consistent q := by
  rw [copy_inl h]; exact .inr (copyPair_linkedOk _ _ _)

/-! ### all operation sequences -/

def World.Ok (w : World) : Prop := ∀ p ∈ w.pairs, Consistent p

theorem onPair_consistent (c : Cfg) (hc : c.writeThrough = true) (op : Op) (j : Nat) (p : Pair)
    (h : Consistent p) : Consistent (onPair c j p op) := by
  cases op with
  | link i s => simp only [onPair]; split; exact link_consistent s p; exact h
  | edit i s k v =>
    simp only [onPair, hc]; split; exact edit_consistent s k v p h; exact h
  | reopen => exact reopen_consistent p h
  | copy => exact h

theorem step_consistent (c : Cfg) (hc : c.writeThrough = true) (w : World) (op : Op)
    (h : w.Ok) : (step c w op).Ok := by
  have hmap : ∀ o : Op, ∀ q ∈ w.pairs.mapIdx (fun j p => onPair c j p o), Consistent q := by
    intro o q hq
    rw [List.mem_mapIdx] at hq
    obtain ⟨i, hi, rfl⟩ := hq
    exact onPair_consistent c hc o i _ (h _ (List.getElem_mem hi))
  cases op with
  | copy i via nA nB ld =>
    simp only [step]
    split
    · exact h
    · rename_i p hp
      split
      · rename_i q hq
        intro x hx
        simp only [List.mem_append, List.mem_singleton] at hx
        rcases hx with hx | rfl
        · exact h x hx
        · exact copy_consistent _ _ _ _ _ _ _ hq
      · exact h
  | link i s => exact hmap _
  | edit i s k v => exact hmap _
  | reopen => exact hmap _

/-- the invariant holds after every sequence of links, edits, re-opens and copies -/
theorem run_consistent (c : Cfg) (hc : c.writeThrough = true) (ops : List Op) (w : World)
    (h : w.Ok) : (run c w ops).Ok := by
  induction ops generalizing w with
  | nil => exact h
  | cons op ops ih => exact ih _ (step_consistent c hc w op h)

theorem onPair_uids (c : Cfg) (op : Op) (j : Nat) (p : Pair) :
    (onPair c j p op).uidA = p.uidA ∧ (onPair c j p op).uidB = p.uidB := by
  cases op with
  | link i s => simp only [onPair]; split <;> exact ⟨rfl, rfl⟩
  | edit i s k v =>
    simp only [onPair]; split
    · exact edit_uids _ _ _ _ _
    · exact ⟨rfl, rfl⟩
  | reopen => exact ⟨rfl, rfl⟩
  | copy => exact ⟨rfl, rfl⟩

theorem onPair_keeps_links (c : Cfg) (hc : c.writeThrough = true) (op : Op) (j : Nat) (p : Pair)
    (h : p.LinkedOk) : (onPair c j p op).LinkedOk := by
  cases op with
  | link i s =>
    simp only [onPair]; split
    · rcases link_consistent s p with ⟨_, _, hv, _⟩ | hl
      · simp [link] at hv
      · exact hl
    · exact h
  | edit i s k v =>
    simp only [onPair, hc]; split
    · rw [edit_linked_eq s k v p (linkedOk_linked h)]
      refine ⟨_, ?_, rfl, rfl, .inl rfl⟩
      have := linkedOk_linked h s
      simpa [Rec.Links] using this
    · exact h
  | reopen =>
    obtain ⟨r, hl, ha, hb, _⟩ := h
    exact ⟨r, hl, ha, hb, .inr (by simp [onPair, reopen, ha, hb])⟩
  | copy => exact h

/-- the pair at index `i` after one step, for the operations that do not add pairs -/
theorem step_getElem? (c : Cfg) (w : World) (op : Op) (i : Nat) (p : Pair)
    (h : w.pairs[i]? = some p) : (step c w op).pairs[i]? = some (onPair c i p op) := by
  cases op with
  | copy j via nA nB ld =>
    simp only [step, onPair]
    split
    · exact h
    · split
      · rw [List.getElem?_append_left]
        · exact h
        · exact (List.getElem?_eq_some_iff.mp h).1
      · exact h
  | link j s => simp [step, List.getElem?_mapIdx, h]
  | edit j s k v => simp [step, List.getElem?_mapIdx, h]
  | reopen => simp [step, List.getElem?_mapIdx, h]

/-- once linked, a pair stays linked — same two identifiers, one record seen through both
    sides and stored for both — through every later sequence of operations on the world -/
theorem run_keeps_links (c : Cfg) (hc : c.writeThrough = true) (ops : List Op) (w : World)
    (i : Nat) (p : Pair) (h : w.pairs[i]? = some p) (hl : p.LinkedOk) :
    ∃ q, (run c w ops).pairs[i]? = some q ∧ q.uidA = p.uidA ∧ q.uidB = p.uidB
      ∧ q.Linked ∧ q.Agree ∧ q.Stored := by
  induction ops generalizing w p with
  | nil => exact ⟨p, h, rfl, rfl, linkedOk_linked hl, linkedOk_agree hl, consistent_stored (.inr hl)⟩
  | cons op ops ih =>
    obtain ⟨q, hq, ha, hb, rest⟩ :=
      ih (step c w op) (onPair c i p op) (step_getElem? c w op i p h) (onPair_keeps_links c hc op i p hl)
    have hu := onPair_uids c op i p
    exact ⟨q, hq, ha.trans hu.1, hb.trans hu.2, rest⟩

/-! ### the as-found direct-current setter and non-vacuity -/

def demo : Pair := link .A (fresh 0 1 (Params.ofList [("Unit", "ms")]) (Params.ofList [("Unit", "s")]))

/-- The as-found edit of the direct-current electrodes (no write-through): after linking,
    an edit through side B is visible through side A while the objects are alive, but is not
    in A's stored record and is gone from A's view after a re-open. -/
theorem asFound_edit_not_stored :
    let p := edit false .B "k" (some "v") demo
    (p.view .A).params "k" = some "v" ∧ (p.stored .B).params "k" = some "v"
      ∧ (p.stored .A).params "k" = none ∧ ((reopen p).view .A).params "k" = none := by
  decide

/-- non-vacuity: link from A, edit through B, re-open, copy through B, edit the copy through A;
    the original keeps `Unit = us`, the copy (identifiers 2, 3) has `Unit = ns` on both sides -/
def demoRun : World :=
  run ⟨true, true⟩ ⟨[fresh 0 1 (Params.ofList [("Unit", "ms")]) Params.empty], []⟩
    [.link 0 .A, .edit 0 .B "Unit" (some "us"), .reopen, .copy 0 .B 2 3 true,
     .edit 1 .A "Unit" (some "ns")]

example :
    (demoRun.pairs.map fun p => (p.uidA, p.uidB, (p.view .A).idB, (p.view .B).idA,
        (p.view .A).params "Unit", (p.stored .B).params "Unit"))
      = [(0, 1, some 1, some 0, some "us", some "us"), (2, 3, some 3, some 2, some "ns", some "ns")] := by
  rfl

end GeoVerif.Pair
