import GeoVerif.Model.Life
import GeoVerif.Props.C01

/-!
# C11 — closing always leaves a complete file and a released handle
-/
namespace GeoVerif.Life
open GeoVerif.Ws

/-- the invariant: the file holds exactly the tree built by the completed operations, and
    identifiers are distinct (so the file can be read back, `reopen_identity`) -/
def Inv (s : LSt) : Prop := s.file = fileOf s.tree ∧ s.tree.uids.Nodup

theorem inv_init (t : Tree) (h : t.uids.Nodup) : Inv (init t) := ⟨rfl, h⟩

/-- **Every operation that completed is in the file — at every point between two operations**
    (whatever happens next: close, an exception escaping the block, a helper re-opening). -/
theorem inv_step (s : LSt) (op : LOp) (h : Inv s) : Inv (lstep s op).1 := by
  obtain ⟨hf, hn⟩ := h
  cases op with
  | api o =>
    simp only [lstep]
    cases hm : s.mode with
    | closed => exact ⟨hf, hn⟩
    | r => exact ⟨hf, hn⟩
    | rw => exact ⟨rfl, step_nodup s.tree o hn⟩
  | read u =>
    simp only [lstep]
    cases s.mode <;> exact ⟨hf, hn⟩
  | close => exact ⟨hf, hn⟩
  | crash => exact ⟨hf, hn⟩
  | «open» m =>
    simp only [lstep]
    cases hm : s.mode with
    | closed =>
      cases m with
      | closed => exact ⟨hf, hn⟩
      | r =>
        simp only
        rw [hf, reopen_identity s.tree hn]
        exact ⟨rfl, hn⟩
      | rw =>
        simp only
        rw [hf, reopen_identity s.tree hn]
        exact ⟨rfl, hn⟩
    | r => cases m <;> exact ⟨hf, hn⟩
    | rw => cases m <;> exact ⟨hf, hn⟩

theorem inv_run (s : LSt) (ops : List LOp) (h : Inv s) : Inv (lrun s ops) := by
  induction ops generalizing s with
  | nil => exact h
  | cons op ops ih => exact ih _ (inv_step s op h)

/-- **The file is valid and can be opened again at every crash point**: after any history, the
    reader rebuilds from the file exactly the tree of the completed operations. -/
theorem file_complete (t : Tree) (ops : List LOp) (h : t.uids.Nodup) :
    load (lrun (init t) ops).file = some (lrun (init t) ops).tree := by
  obtain ⟨hf, hn⟩ := inv_run (init t) ops (inv_init t h)
  rw [hf]; exact reopen_identity _ hn

/-- **Closing releases the handle**, explicitly, on normal exit or because an exception escaped. -/
theorem close_releases (s : LSt) : (lstep s .close).1.mode = .closed ∧ (lstep s .crash).1.mode = .closed :=
  ⟨rfl, rfl⟩

/-- closing never touches the file content -/
theorem close_keeps_file (s : LSt) : (lstep s .close).1.file = s.file ∧ (lstep s .crash).1.file = s.file :=
  ⟨rfl, rfl⟩

/-- **After closing, any call that needs the file raises the closed-file error** and changes
    nothing (no stale or empty result). -/
theorem closed_raises (s : LSt) (h : s.mode = .closed) (u : Nat) (o : Op) :
    lstep s (.read u) = (s, .closedError) ∧ lstep s (.api o) = (s, .closedError) := by
  simp [lstep, h]

/-- **Re-opening restores full access to the same content.** -/
theorem reopen_restores (s : LSt) (h : Inv s) (m : Mode) (hm : m ≠ .closed) :
    (lstep (lstep s .close).1 (.open m)).1.tree = s.tree
    ∧ (lstep (lstep s .close).1 (.open m)).1.mode = m
    ∧ (lstep (lstep s .close).1 (.open m)).2 = .ok := by
  obtain ⟨hf, hn⟩ := h
  cases m with
  | closed => exact absurd rfl hm
  | r => simp [lstep, hf, reopen_identity s.tree hn]
  | rw => simp [lstep, hf, reopen_identity s.tree hn]

example : (lrun (init exTree) [.api (.rename 3 "x"), .crash, .read 3]).mode = .closed := by decide
example : (lstep (lrun (init exTree) [.api (.rename 3 "x"), .crash]) (.read 3)).2 = .closedError := by decide

end GeoVerif.Life
