import GeoVerif.Lemmas.Concat

/-!
# C04 — concatenated drillhole storage keeps each hole's data intact and separate

Property theorems for model M2 (`GeoVerif/Model/Concat.lean`).  They hold for every channel
satisfying the invariant `Tiled`, every identifier, every array length (0 and 1 included)
and every sequence of `update_array_attribute` calls — no bound on sizes or steps.
-/
namespace GeoVerif.Concat

variable {α : Type}

/-- The empty channel is tiled. -/
theorem tiled_empty (kd : Bool) : Tiled kd (⟨[], []⟩ : Chan α) :=
  ⟨rfl, fun r h => (by cases h), List.Pairwise.nil, List.nodup_nil⟩

/-- `remove=True` keeps the channel exactly tiled. -/
theorem drop_tiled (kd : Bool) (c : Chan α) (u : Nat) (h : Tiled kd c) : Tiled kd (drop kd c u) := by
  unfold drop
  cases hf : c.rows.find? (keyP kd u) with
  | none => rw [startIndex_none kd c u h.nodup hf]; exact h
  | some r =>
    rw [startIndex_some kd c u r h.nodup hf]
    obtain ⟨hr, hk⟩ := find?_mem_key hf
    have hrin := h.inside r hr
    have hlen := length_cut c.data r.start r.size hrin
    have hsub : (c.rows.eraseP (keyP kd u)).Sublist c.rows := List.eraseP_sublist
    have hdisj_r : ∀ q ∈ c.rows.eraseP (keyP kd u), Row.disj q r := by
      intro q hq
      have hqm : q ∈ c.rows := hsub.subset hq
      have hne : q ≠ r := by
        intro e
        have := not_mem_keys_eraseP kd u c.rows h.nodup
        apply this
        exact List.mem_map.mpr ⟨q, hq, by rw [e]; exact hk⟩
      exact pairwise_mem_ne (fun _ _ => disj_symm) c.rows h.disj q hqm r hr hne
    refine ⟨?_, ?_, ?_, ?_⟩
    · show sumSizes ((c.rows.eraseP (keyP kd u)).map (shift r)) = (cut c.data r.start r.size).length
      rw [sumSizes_map_shift, hlen]
      have := sumSizes_eraseP (keyP kd u) r c.rows hf
      have := h.total
      omega
    · intro q' hq'
      obtain ⟨q, hq, rfl⟩ := List.mem_map.mp hq'
      show (shift r q).start + (shift r q).size ≤ (cut c.data r.start r.size).length
      rw [hlen]
      exact shift_inside (hdisj_r q hq) (h.inside q (hsub.subset hq)) hrin
    · show ((c.rows.eraseP (keyP kd u)).map (shift r)).Pairwise Row.disj
      rw [List.pairwise_map]
      have hp : (c.rows.eraseP (keyP kd u)).Pairwise Row.disj := h.disj.sublist hsub
      exact hp.imp_of_mem fun {a b} ha hb hab => shift_disj hab (hdisj_r a ha) (hdisj_r b hb)
    · show (((c.rows.eraseP (keyP kd u)).map (shift r)).map (Row.key kd)).Nodup
      rw [List.map_map]
      have : (Row.key kd ∘ shift r) = Row.key kd := by funext q; simp
      rw [this]
      exact h.nodup.sublist (hsub.map _)

/-- After `remove=True` the identifier has no row left. -/
theorem drop_no_key (kd : Bool) (c : Chan α) (u : Nat) (h : Tiled kd c) :
    u ∉ (drop kd c u).rows.map (Row.key kd) := by
  unfold drop
  cases hf : c.rows.find? (keyP kd u) with
  | none =>
    rw [startIndex_none kd c u h.nodup hf]
    intro hm
    obtain ⟨q, hq, hk⟩ := List.mem_map.mp hm
    have := List.find?_eq_none.mp hf q hq
    simp [keyP, hk] at this
  | some r =>
    rw [startIndex_some kd c u r h.nodup hf]
    show u ∉ (((c.rows.eraseP (keyP kd u)).map (shift r)).map (Row.key kd))
    rw [List.map_map]
    have : (Row.key kd ∘ shift r) = Row.key kd := by funext q; simp
    rw [this]
    exact not_mem_keys_eraseP kd u c.rows h.nodup

theorem put_eq (kd : Bool) (c : Chan α) (o d : Nat) (v : List α) (h : Tiled kd c) :
    put kd c o d v =
      ⟨(drop kd c (if kd then d else o)).rows
          ++ [⟨(drop kd c (if kd then d else o)).data.length, v.length, o, d⟩],
        (drop kd c (if kd then d else o)).data ++ v⟩ := by
  cases hf : c.rows.find? (keyP kd (if kd then d else o)) with
  | none =>
    have hs := startIndex_none kd c _ h.nodup hf
    simp only [put, drop, hs, h.total]
  | some r =>
    have hs := startIndex_some kd c _ r h.nodup hf
    simp only [put, drop, hs]

/-- Writing values keeps the channel exactly tiled (any length, 0 included). -/
theorem put_tiled (kd : Bool) (c : Chan α) (o d : Nat) (v : List α) (h : Tiled kd c) :
    Tiled kd (put kd c o d v) := by
  rw [put_eq kd c o d v h]
  have hd := drop_tiled kd c (if kd then d else o) h
  have hnk := drop_no_key kd c (if kd then d else o) h
  generalize drop kd c (if kd then d else o) = c' at hd hnk
  refine ⟨?_, ?_, ?_, ?_⟩
  · have := hd.total
    simp only [sumSizes_append, List.length_append]
    simp only [sumSizes, List.map_cons, List.map_nil, List.sum_cons, List.sum_nil] at this ⊢
    omega
  · intro r hr
    simp only [List.mem_append, List.mem_singleton] at hr
    rcases hr with hr | rfl
    · have := hd.inside r hr; simp only [List.length_append]; omega
    · simp
  · rw [List.pairwise_append]
    refine ⟨hd.disj, List.pairwise_singleton _ _, ?_⟩
    intro a ha b hb
    simp only [List.mem_singleton] at hb
    subst hb
    have := hd.inside a ha
    left; exact this
  · simp only [List.map_append, List.map_cons, List.map_nil]
    rw [List.nodup_append]
    refine ⟨hd.nodup, by simp, ?_⟩
    intro a ha b hb
    simp only [List.mem_singleton] at hb
    subst hb
    intro e
    apply hnk
    have : (Row.key kd ⟨c'.data.length, v.length, o, d⟩) = (if kd then d else o) := by
      unfold Row.key; cases kd <;> rfl
    rw [← this, ← e]; exact ha

/-- **Read-your-write**: a hole/data reads back exactly the values last written. -/
theorem get_put_same (kd : Bool) (c : Chan α) (o d : Nat) (v : List α) (h : Tiled kd c) :
    get kd (put kd c o d v) (if kd then d else o) = some v := by
  have ht := put_tiled kd c o d v h
  rw [get_eq kd _ _ ht.nodup, put_eq kd c o d v h]
  have hnk := drop_no_key kd c (if kd then d else o) h
  generalize drop kd c (if kd then d else o) = c' at hnk
  have hnone : c'.rows.find? (keyP kd (if kd then d else o)) = none := by
    rw [List.find?_eq_none]
    intro q hq hp
    apply hnk
    have : q.key kd = (if kd then d else o) := by simpa [keyP] using hp
    rw [← this]; exact List.mem_map_of_mem hq
  have hk : keyP kd (if kd then d else o) ⟨c'.data.length, v.length, o, d⟩ = true := by
    unfold keyP Row.key; cases kd <;> simp
  simp only [List.find?_append, hnone, Option.none_or, List.find?_cons, hk, Option.map_some]
  rw [slice_append_self]

/-- **Separation** (removal): removing one identifier's values never alters another's. -/
theorem get_drop_other (kd : Bool) (c : Chan α) (u u' : Nat) (h : Tiled kd c) (hne : u' ≠ u) :
    get kd (drop kd c u) u' = get kd c u' := by
  have ht := drop_tiled kd c u h
  rw [get_eq kd _ _ ht.nodup, get_eq kd _ _ h.nodup]
  unfold drop
  cases hf : c.rows.find? (keyP kd u) with
  | none => rw [startIndex_none kd c u h.nodup hf]
  | some r =>
    rw [startIndex_some kd c u r h.nodup hf]
    obtain ⟨hr, hk⟩ := find?_mem_key hf
    show Option.map _ (((c.rows.eraseP (keyP kd u)).map (shift r)).find? (keyP kd u')) = _
    have hcomp : (keyP kd u' ∘ shift r) = keyP kd u' := by funext q; simp [keyP]
    rw [List.find?_map, hcomp,
      find?_eraseP_other (keyP kd u) (keyP kd u') (by
        intro x hx
        simp only [keyP, beq_iff_eq] at hx
        simp only [keyP, beq_eq_false_iff_ne, hx]
        exact hne)]
    cases hq : c.rows.find? (keyP kd u') with
    | none => rfl
    | some q =>
      obtain ⟨hqm, hqk⟩ := find?_mem_key hq
      have hqr : q ≠ r := by intro e; apply hne; rw [← hqk, ← hk, e]
      have hd : Row.disj q r := pairwise_mem_ne (fun _ _ => disj_symm) c.rows h.disj q hqm r hr hqr
      simp only [Option.map_some, Option.some.injEq]
      have := slice_shift c.data ([] : List α) hd (h.inside q hqm) (h.inside r hr)
      simpa using this

/-- **Separation** (write): writing one identifier's values never alters another's. -/
theorem get_put_other (kd : Bool) (c : Chan α) (o d : Nat) (v : List α) (u' : Nat)
    (h : Tiled kd c) (hne : u' ≠ (if kd then d else o)) :
    get kd (put kd c o d v) u' = get kd c u' := by
  have ht := put_tiled kd c o d v h
  rw [← get_drop_other kd c (if kd then d else o) u' h hne]
  have hd := drop_tiled kd c (if kd then d else o) h
  rw [get_eq kd _ _ ht.nodup, get_eq kd _ _ hd.nodup, put_eq kd c o d v h]
  generalize drop kd c (if kd then d else o) = c' at hd
  have hk : keyP kd u' ⟨c'.data.length, v.length, o, d⟩ = false := by
    unfold keyP Row.key
    cases kd <;> simp at hne ⊢ <;> exact fun e => hne e.symm
  simp only [List.find?_append, List.find?_cons, hk, List.find?_nil, Option.or_none]
  cases hq : c'.rows.find? (keyP kd u') with
  | none => rfl
  | some q =>
    simp only [Option.map_some, Option.some.injEq]
    exact slice_append_left _ _ _ _ (hd.inside q (List.mem_of_find?_eq_some hq))

/-- A removed identifier reads back nothing. -/
theorem get_drop_same (kd : Bool) (c : Chan α) (u : Nat) (h : Tiled kd c) :
    get kd (drop kd c u) u = none := by
  have ht := drop_tiled kd c u h
  rw [get_eq kd _ _ ht.nodup]
  have hnk := drop_no_key kd c u h
  generalize drop kd c u = c' at hnk
  have : c'.rows.find? (keyP kd u) = none := by
    rw [List.find?_eq_none]
    intro q hq hp
    apply hnk
    have : q.key kd = u := by simpa [keyP] using hp
    rw [← this]; exact List.mem_map_of_mem hq
  simp [this]

/-- **No overlap / no duplicate**: in a tiled channel no array position belongs to two index
    rows. -/
theorem tiled_no_overlap (kd : Bool) (c : Chan α) (h : Tiled kd c) (a b : Row)
    (ha : a ∈ c.rows) (hb : b ∈ c.rows) (p : Nat)
    (hpa : a.start ≤ p ∧ p < a.start + a.size) (hpb : b.start ≤ p ∧ p < b.start + b.size) :
    a = b := by
  by_cases e : a = b
  · exact e
  · have := pairwise_mem_ne (fun _ _ => disj_symm) c.rows h.disj a ha b hb e
    unfold Row.disj at this; omega

/-- **Exact tiling**: in a tiled channel every array position belongs to exactly one index row
    (no gap, no overlap). -/
theorem tiled_exact (kd : Bool) (c : Chan α) (h : Tiled kd c) (p : Nat) (hp : p < c.data.length) :
    ∃ r, (r ∈ c.rows ∧ r.start ≤ p ∧ p < r.start + r.size) ∧
      ∀ r', (r' ∈ c.rows ∧ r'.start ≤ p ∧ p < r'.start + r'.size) → r' = r := by
  have hsum : ((List.range c.data.length).map fun p => c.rows.countP (·.covers p)).sum
      = c.data.length := by
    rw [sum_countP_swap]
    have : (c.rows.map fun r => (List.range c.data.length).countP r.covers) = c.rows.map (·.size) := by
      apply List.map_congr_left
      intro r hr
      have := h.inside r hr
      rw [countP_range_covers]; omega
    rw [this]; exact h.total
  have hone := all_one_of_sum _ (by
      intro x hx
      obtain ⟨q, _, rfl⟩ := List.mem_map.mp hx
      exact countP_covers_le_one q c.rows h.disj) (by simpa using hsum)
    (c.rows.countP (·.covers p)) (List.mem_map.mpr ⟨p, List.mem_range.mpr hp, rfl⟩)
  have hpos : 0 < c.rows.countP (·.covers p) := by omega
  obtain ⟨r, hr, hc⟩ := List.countP_pos_iff.mp hpos
  simp only [Row.covers, Bool.and_eq_true, decide_eq_true_eq] at hc
  refine ⟨r, ⟨hr, hc⟩, ?_⟩
  intro r' ⟨hr', hc'⟩
  by_cases e : r' = r
  · exact e
  · have := pairwise_mem_ne (fun _ _ => disj_symm) c.rows h.disj r' hr' r hr e
    unfold Row.disj at this; omega

/-! ### The whole store refines a last-write-wins map -/

def SInv (kindOf : String → Bool) (s : Store α) : Prop :=
  ∀ l c, s.find? l = some c → Tiled (kindOf l) c

theorem find_set (s : Store α) (l l' : String) (c : Chan α) :
    (s.set l c).find? l' = if l' = l then some c else s.find? l' := by
  induction s with
  | nil =>
    simp only [Store.set, Store.find?]
    by_cases e : l' = l
    · simp [e]
    · have : (l == l') = false := by simp; exact fun x => e x.symm
      simp [e, this]
  | cons x xs ih =>
    obtain ⟨k, y⟩ := x
    simp only [Store.set]
    by_cases hk : k == l
    · have hkl : k = l := by simpa using hk
      simp only [hk, ↓reduceIte, Store.find?]
      by_cases e : l' = l
      · simp [e, hkl]
      · have : (k == l') = false := by simp [hkl]; exact fun x => e x.symm
        simp [e, this]
    · simp only [hk, Bool.false_eq_true, ↓reduceIte, Store.find?, ih]
      by_cases e : l' = l
      · subst e
        have : (k == l') = false := by simpa using hk
        simp [this]
      · simp [e]

theorem step_inv (kindOf : String → Bool) (s : Store α) (op : Op α)
    (hk : op.kd = kindOf op.label) (h : SInv kindOf s) : SInv kindOf (s.step op) := by
  cases op with
  | put l kd o d v =>
    simp only [Op.kd, Op.label] at hk
    subst hk
    intro l' c' hf
    simp only [Store.step] at hf
    cases hs : s.find? l with
    | none =>
      simp only [hs, find_set] at hf
      split at hf
      · rename_i e; subst e; cases hf; exact put_tiled _ _ _ _ _ (tiled_empty _)
      · exact h l' c' hf
    | some c =>
      simp only [hs, find_set] at hf
      split at hf
      · rename_i e; subst e; cases hf; exact put_tiled _ _ _ _ _ (h _ c hs)
      · exact h l' c' hf
  | drop l kd u =>
    simp only [Op.kd, Op.label] at hk
    subst hk
    intro l' c' hf
    simp only [Store.step] at hf
    cases hs : s.find? l with
    | none => simp only [hs] at hf; exact h l' c' hf
    | some c =>
      simp only [hs, find_set] at hf
      split at hf
      · rename_i e; subst e; cases hf; exact drop_tiled _ _ _ (h _ c hs)
      · exact h l' c' hf

theorem get_empty (kd : Bool) (u : Nat) : get kd (⟨[], []⟩ : Chan α) u = none := rfl

theorem step_abs (kindOf : String → Bool) (s : Store α) (op : Op α)
    (hk : op.kd = kindOf op.label) (h : SInv kindOf s) :
    (s.step op).abs kindOf = specStep (s.abs kindOf) op := by
  funext l' u'
  cases op with
  | put l kd o d v =>
    simp only [Op.kd, Op.label] at hk
    subst hk
    simp only [Store.abs, Store.step, specStep]
    cases hs : s.find? l with
    | none =>
      simp only [find_set]
      by_cases e : l' = l
      · subst e
        simp only [↓reduceIte, Option.bind_some, true_and, hs, Option.bind_none]
        by_cases eu : u' = (if kindOf l' then d else o)
        · rw [eu]; simp [get_put_same _ _ _ _ _ (tiled_empty _)]
        · simp [eu, get_put_other _ _ _ _ _ _ (tiled_empty _) eu, get_empty]
      · simp [e]
    | some c =>
      simp only [find_set]
      by_cases e : l' = l
      · subst e
        simp only [↓reduceIte, Option.bind_some, true_and, hs]
        by_cases eu : u' = (if kindOf l' then d else o)
        · rw [eu]; simp [get_put_same _ _ _ _ _ (h _ c hs)]
        · simp [eu, get_put_other _ _ _ _ _ _ (h _ c hs) eu]
      · simp [e]
  | drop l kd u =>
    simp only [Op.kd, Op.label] at hk
    subst hk
    simp only [Store.abs, Store.step, specStep]
    cases hs : s.find? l with
    | none =>
      by_cases e : l' = l
      · subst e; simp [hs]
      · simp [e]
    | some c =>
      simp only [find_set]
      by_cases e : l' = l
      · subst e
        simp only [↓reduceIte, Option.bind_some, true_and, hs]
        by_cases eu : u' = u
        · rw [eu]; simp [get_drop_same _ _ _ (h _ c hs)]
        · simp [eu, get_drop_other _ _ _ _ (h _ c hs) eu]
      · simp [e]

/-- **Refinement**: for every sequence of `update_array_attribute` calls (any number of
    holes, shared data names, any lengths), what each identifier reads back is what the
    last-write-wins map says, and every channel stays exactly tiled. -/
theorem refines_map (kindOf : String → Bool) (ops : List (Op α))
    (hk : ∀ op ∈ ops, op.kd = kindOf op.label) :
    (ops.foldl Store.step ([] : Store α)).abs kindOf = ops.foldl specStep (fun _ _ => none)
    ∧ SInv kindOf (ops.foldl Store.step ([] : Store α)) := by
  suffices H : ∀ (s : Store α) (m : Spec α), s.abs kindOf = m → SInv kindOf s →
      (ops.foldl Store.step s).abs kindOf = ops.foldl specStep m
      ∧ SInv kindOf (ops.foldl Store.step s) by
    apply H
    · funext l u; rfl
    · intro l c hf; cases hf
  induction ops with
  | nil => intro s m hm hi; exact ⟨hm, hi⟩
  | cons op ops ih =>
    intro s m hm hi
    have hk0 := hk op (List.mem_cons_self)
    simp only [List.foldl_cons]
    apply ih (fun o ho => hk o (List.mem_cons_of_mem _ ho))
    · rw [step_abs kindOf s op hk0 hi, hm]
    · exact step_inv kindOf s op hk0 hi

/-! ### Non-vacuity: a concrete non-trivial channel meets the hypotheses -/

def exChan : Chan Nat :=
  ⟨[⟨0, 2, 1, 10⟩, ⟨2, 0, 2, 20⟩, ⟨2, 3, 3, 30⟩], [5, 6, 7, 8, 9]⟩

example : Tiled true exChan :=
  ⟨by decide, by decide, by decide, by decide⟩

example : get true (put true exChan 1 10 [4]) 30 = some [7, 8, 9] := by decide
example : get true (put true exChan 1 10 [4]) 10 = some [4] := by decide
example : get true (put true exChan 1 10 [4]) 20 = some [] := by decide

/-- Without the invariant the code misbehaves exactly as the model says: two rows for one
    identifier make the lookup fail (`len(ind) == 1` is false). -/
example : get true (⟨[⟨0, 1, 1, 10⟩, ⟨1, 1, 1, 10⟩], [5, 6]⟩ : Chan Nat) 10 = none := by decide

end GeoVerif.Concat
