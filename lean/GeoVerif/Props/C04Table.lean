import GeoVerif.Lemmas.Table
import GeoVerif.Props.C04

/-!
# C04 (table view) — the group-wide table lists exactly the per-hole values in hole order

Theorems about M2b (`GeoVerif/Model/Table.lean`) on top of the channel invariant of `Props/C04.lean`; they hold for any
number of holes, names and lengths and, through `run_tinv`, after every sequence of `update_array_attribute` calls in which
no hole is given two data sets of one name (the API refuses that; the hypothesis is evaluated on every real trace).
-/
namespace GeoVerif.Concat
variable {α : Type}

/-- what the API reads for the data set named `nm` of hole `o` (through the hole's own row) -/
def readObj (st : Store α) (nm : String) (o : Nat) : Option (List α) :=
  (st.find? nm).bind fun c => (c.rows.find? (fun r => r.obj == o)).bind fun r => get true c r.dat

theorem flatMap_congr' {β γ} (l : List β) (f g : β → List γ) (h : ∀ x ∈ l, f x = g x) :
    l.flatMap f = l.flatMap g := by
  induction l with
  | nil => rfl
  | cons x xs ih =>
    simp only [List.flatMap_cons]
    rw [h x (by simp), ih (fun y hy => h y (List.mem_cons_of_mem _ hy))]

theorem holes_nodup (st : Store α) (assoc : String) (c : Chan α) (hc : st.find? assoc = some c)
    (h : ObjNodup c) : (holesInOrder st assoc).Nodup := by
  unfold holesInOrder; rw [hc]
  exact ((sortByStart_perm c.rows).map _).nodup_iff.mpr h

theorem mem_holes_iff (st : Store α) (assoc : String) (c : Chan α) (hc : st.find? assoc = some c) (o : Nat) :
    o ∈ holesInOrder st assoc ↔ ∃ r ∈ c.rows, r.obj = o := by
  unfold holesInOrder; rw [hc]
  simp only [List.mem_map]
  constructor
  · rintro ⟨r, hr, e⟩; exact ⟨r, (sortByStart_perm c.rows).subset hr, e⟩
  · rintro ⟨r, hr, e⟩; exact ⟨r, (sortByStart_perm c.rows).symm.subset hr, e⟩

/-- holes are listed by increasing start of their association entry -/
theorem holes_sorted (c : Chan α) : Sorted (sortByStart c.rows) := sortByStart_sorted _

theorem find_obj_of_mem (c : Chan α) (h : ObjNodup c) (r : Row) (hr : r ∈ c.rows) :
    c.rows.find? (fun q => q.obj == r.obj) = some r := by
  unfold ObjNodup at h
  generalize c.rows = l at h hr
  induction l with
  | nil => cases hr
  | cons x xs ih =>
    simp only [List.map_cons, List.nodup_cons] at h
    rcases List.mem_cons.mp hr with rfl | hr'
    · simp
    · have : x.obj ≠ r.obj := by
        intro e; apply h.1; rw [e]; exact List.mem_map_of_mem hr'
      simp [this, ih h.2 hr']

theorem find_dat_of_mem (c : Chan α) (h : Tiled true c) (r : Row) (hr : r ∈ c.rows) :
    c.rows.find? (keyP true r.dat) = some r := by
  have hn := h.nodup
  generalize c.rows = l at hn hr
  induction l with
  | nil => cases hr
  | cons x xs ih =>
    simp only [List.map_cons, List.nodup_cons] at hn
    rcases List.mem_cons.mp hr with rfl | hr'
    · simp [keyP, Row.key]
    · have : x.key true ≠ r.key true := by
        intro e; apply hn.1; rw [e]; exact List.mem_map_of_mem hr'
      have hx : keyP true r.dat x = false := by
        simp only [keyP, Row.key, ↓reduceIte, beq_eq_false_iff_ne] at this ⊢; exact this
      simp [hx, ih hn.2 hr']

/-- **A table column holds what the API reads**: for a hole with a row in the channel, the stored slice the table takes is
    exactly what a read of that hole's data set returns (the value `refines_map` characterises). -/
theorem readObj_eq_slice (st : Store α) (nm : String) (c : Chan α) (hc : st.find? nm = some c)
    (ht : Tiled true c) (ho : ObjNodup c) (r : Row) (hr : r ∈ c.rows) :
    readObj st nm r.obj = some (slice c.data r.start r.size)
    ∧ infoOf (some c) r.obj = (r.start, r.size) := by
  unfold readObj infoOf
  rw [hc]
  simp only [Option.bind_some, find_obj_of_mem c ho r hr]
  rw [get_eq true c r.dat ht.nodup, find_dat_of_mem c ht r hr]
  constructor <;> first | rfl | trivial

theorem readObj_none (st : Store α) (nm : String) (o : Nat)
    (h : ∀ c, st.find? nm = some c → ∀ r ∈ c.rows, r.obj ≠ o) :
    readObj st nm o = none ∧ infoOf (st.find? nm) o = (0, 0) := by
  unfold readObj infoOf
  cases hc : st.find? nm with
  | none => exact ⟨rfl, rfl⟩
  | some c =>
    have : c.rows.find? (fun r => r.obj == o) = none := by
      rw [List.find?_eq_none]; intro r hr; simpa using h c hc r hr
    simp [this]

theorem pad_get (v : List α) (len i : Nat) (ndv : α) (_hi : i < len) :
    ((pad v len ndv)[i]?).getD ndv = (v[i]?).getD ndv := by
  unfold pad
  by_cases h : i < v.length
  · simp [List.getElem?_append_left h]
  · have hge : v.length ≤ i := by omega
    rw [List.getElem?_append_right hge]
    have : v[i]? = none := List.getElem?_eq_none hge
    rw [this]
    simp only [List.getElem?_replicate]
    split <;> rfl

/-- **Block specification**: row `i` of hole `o`'s block lists, for every requested name, entry `i` of what the API reads
    for that hole's data set of that name, and the no-data value where the hole has no such data set or fewer entries. -/
theorem block_entry (st : Store α) (ndv : String → α) (assoc : String) (names : List String) (o : Nat)
    (hinv : ∀ nm c, st.find? nm = some c → Tiled true c ∧ ObjNodup c) (i : Nat)
    (hi : i < (infoOf (st.find? assoc) o).2) :
    (block st ndv assoc names o)[i]? =
      some (o, names.map fun nm => ((((readObj st nm o).getD [])[i]?).getD (ndv nm))) := by
  unfold block
  simp only [List.getElem?_map, List.getElem?_range hi, Option.map_some, Option.some.injEq, Prod.mk.injEq, true_and]
  apply List.map_congr_left
  intro nm _
  unfold column
  cases hc : st.find? nm with
  | none =>
    have := (readObj_none st nm o (by intro c h; rw [hc] at h; cases h)).1
    rw [this, pad_get _ _ _ _ hi]; rfl
  | some c =>
    simp only
    rw [pad_get _ _ _ _ hi]
    by_cases hex : ∃ r ∈ c.rows, r.obj = o
    · obtain ⟨r, hr, rfl⟩ := hex
      obtain ⟨ht, ho⟩ := hinv nm c hc
      obtain ⟨h1, h2⟩ := readObj_eq_slice st nm c hc ht ho r hr
      rw [h1, h2]; rfl
    · have hne : ∀ c', st.find? nm = some c' → ∀ r ∈ c'.rows, r.obj ≠ o := by
        intro c' h r hr e; rw [hc] at h; cases h; exact hex ⟨r, hr, e⟩
      obtain ⟨h1, h2⟩ := readObj_none st nm o hne
      rw [hc] at h2
      rw [h1, h2]; simp [slice]

theorem block_length (st : Store α) (ndv : String → α) (assoc : String) (names : List String) (o : Nat) :
    (block st ndv assoc names o).length = (infoOf (st.find? assoc) o).2 := by
  simp [block]

/-- **The association column of the table is the stored association array** (every depth of every hole exactly once, in
    storage order): requesting only the association name yields the concatenated array itself. -/
theorem table_assoc_column (st : Store α) (ndv : String → α) (assoc : String) (c : Chan α)
    (hc : st.find? assoc = some c) (ht : Tiled true c) (ho : ObjNodup c) :
    (table st ndv assoc [assoc]).map (fun row => row.2) = c.data.map (fun x => [x]) := by
  unfold table holesInOrder
  rw [hc]
  have key : ∀ r ∈ sortByStart c.rows,
      (block st ndv assoc [assoc] r.obj).map (fun row => row.2) = (slice c.data r.start r.size).map (fun x => [x]) := by
    intro r hr
    have hr' := (sortByStart_perm c.rows).subset hr
    have hinfo' : infoOf (some c) r.obj = (r.start, r.size) := by
      unfold infoOf; simp only [find_obj_of_mem c ho r hr']
    have hinfo : infoOf (st.find? assoc) r.obj = (r.start, r.size) := by rw [hc]; exact hinfo'
    have hlen : (slice c.data r.start r.size).length = r.size := by
      have := ht.inside r hr'
      simp [slice]; omega
    apply List.ext_getElem?
    intro i
    simp only [List.getElem?_map]
    by_cases hi : i < r.size
    · unfold block column
      simp only [hc, hinfo', List.getElem?_map, List.getElem?_range hi, Option.map_some, List.map_cons, List.map_nil]
      rw [pad_get _ _ _ _ hi]
      have : i < (slice c.data r.start r.size).length := by omega
      simp [List.getElem?_eq_getElem this]
    · have h1 : (block st ndv assoc [assoc] r.obj)[i]? = none := by
        apply List.getElem?_eq_none; rw [block_length, hinfo]; simp; omega
      have h2 : (slice c.data r.start r.size)[i]? = none := by
        apply List.getElem?_eq_none; omega
      simp [h1, h2]
  rw [List.map_flatMap, List.flatMap_map]
  have : (sortByStart c.rows).flatMap (fun r => (block st ndv assoc [assoc] r.obj).map (fun row => row.2))
      = (sortByStart c.rows).flatMap (fun r => (slice c.data r.start r.size).map (fun x => [x])) := by
    exact flatMap_congr' _ _ _ key
  rw [this, ← List.map_flatMap, sorted_slices_eq_data true c ht]

/-! invariant `ObjNodup` under the calls, provided a hole never holds two data sets of one name -/

theorem drop_objNodup (c : Chan α) (u : Nat) (ht : Tiled true c) (h : ObjNodup c) : ObjNodup (drop true c u) := by
  unfold drop ObjNodup
  cases hf : c.rows.find? (keyP true u) with
  | none => rw [startIndex_none true c u ht.nodup hf]; exact h
  | some r =>
    rw [startIndex_some true c u r ht.nodup hf]
    show (((c.rows.eraseP (keyP true u)).map (shift r)).map (·.obj)).Nodup
    rw [List.map_map]
    have : ((fun q : Row => q.obj) ∘ shift r) = fun q => q.obj := by
      funext q; simp only [Function.comp, shift]; split <;> rfl
    rw [this]
    exact h.sublist ((List.eraseP_sublist).map _)

theorem put_objNodup (c : Chan α) (o d : Nat) (v : List α) (ht : Tiled true c) (h : ObjNodup c)
    (hwk : ∀ r ∈ c.rows, r.obj = o → r.dat = d) : ObjNodup (put true c o d v) := by
  rw [put_eq true c o d v ht]
  have hd := drop_objNodup c d ht h
  have hnk := drop_no_key true c d ht
  simp only [↓reduceIte] at *
  unfold ObjNodup at *
  simp only [List.map_append, List.map_cons, List.map_nil]
  rw [List.nodup_append]
  refine ⟨hd, by simp, ?_⟩
  intro a ha b hb
  simp only [List.mem_singleton] at hb
  subst hb
  intro e
  subst e
  -- a row of the dropped channel with object `o`: it comes from a row of `c` with object `o`, hence with data `d`
  obtain ⟨q, hq, hqo⟩ := List.mem_map.mp ha
  apply hnk
  have hsub : ∀ q ∈ (drop true c d).rows, ∃ q0 ∈ c.rows, q0.obj = q.obj ∧ q0.dat = q.dat := by
    intro q hq
    unfold drop at hq
    cases hf : c.rows.find? (keyP true d) with
    | none => rw [startIndex_none true c d ht.nodup hf] at hq; exact ⟨q, hq, rfl, rfl⟩
    | some r =>
      rw [startIndex_some true c d r ht.nodup hf] at hq
      obtain ⟨q0, hq0, rfl⟩ := List.mem_map.mp hq
      refine ⟨q0, (List.eraseP_sublist).subset hq0, ?_, ?_⟩ <;> (unfold shift; split <;> rfl)
  obtain ⟨q0, hq0, ho0, hd0⟩ := hsub q hq
  have := hwk q0 hq0 (by rw [ho0]; exact hqo)
  exact List.mem_map.mpr ⟨q, hq, by simp only [Row.key, ↓reduceIte]; rw [← hd0]; exact this⟩


/-! ### the invariant after every history -/

/-- every channel exactly tiled; in data channels no hole has two rows -/
def TInv (kindOf : String → Bool) (s : Store α) : Prop :=
  ∀ l c, s.find? l = some c → Tiled (kindOf l) c ∧ (kindOf l = true → ObjNodup c)

/-- a write to a data channel names the data set the hole already has under that label, if it has one -/
def WellKeyed (s : Store α) : Op α → Prop
  | .put l kd o d _ => kd = true → ∀ c, s.find? l = some c → ∀ r ∈ c.rows, r.obj = o → r.dat = d
  | .drop _ _ _ => True

def WellKeyedRun : Store α → List (Op α) → Prop
  | _, [] => True
  | s, op :: ops => WellKeyed s op ∧ WellKeyedRun (s.step op) ops

theorem objNodup_empty : ObjNodup (⟨[], []⟩ : Chan α) := List.nodup_nil

theorem step_tinv (kindOf : String → Bool) (s : Store α) (op : Op α)
    (hk : op.kd = kindOf op.label) (hw : WellKeyed s op) (h : TInv kindOf s) : TInv kindOf (s.step op) := by
  have hS : SInv kindOf s := fun l c hf => (h l c hf).1
  have hS' := step_inv kindOf s op hk hS
  intro l' c' hf
  refine ⟨hS' l' c' hf, ?_⟩
  intro hkd
  cases op with
  | put l kd o d v =>
    simp only [Op.kd, Op.label] at hk
    subst hk
    simp only [Store.step] at hf
    cases hs : s.find? l with
    | none =>
      simp only [hs, find_set] at hf
      split at hf
      · rename_i e; subst e; cases hf
        rw [hkd]
        exact put_objNodup _ _ _ _ (tiled_empty _) objNodup_empty (by intro r hr; cases hr)
      · exact (h l' c' hf).2 hkd
    | some c =>
      simp only [hs, find_set] at hf
      split at hf
      · rename_i e; subst e; cases hf
        have hc := h l' c hs
        rw [hkd] at hc ⊢
        exact put_objNodup _ _ _ _ hc.1 (hc.2 rfl) (hw hkd c hs)
      · exact (h l' c' hf).2 hkd
  | drop l kd u =>
    simp only [Op.kd, Op.label] at hk
    subst hk
    simp only [Store.step] at hf
    cases hs : s.find? l with
    | none => simp only [hs] at hf; exact (h l' c' hf).2 hkd
    | some c =>
      simp only [hs, find_set] at hf
      split at hf
      · rename_i e; subst e; cases hf
        have hc := h l' c hs
        rw [hkd] at hc ⊢
        exact drop_objNodup _ _ hc.1 (hc.2 rfl)
      · exact (h l' c' hf).2 hkd

/-- after any sequence of calls every channel is exactly tiled and lists each hole at most once -/
theorem run_tinv (kindOf : String → Bool) (ops : List (Op α))
    (hk : ∀ op ∈ ops, op.kd = kindOf op.label) (hw : WellKeyedRun ([] : Store α) ops) :
    TInv kindOf (ops.foldl Store.step ([] : Store α)) := by
  suffices H : ∀ (s : Store α), TInv kindOf s → WellKeyedRun s ops → TInv kindOf (ops.foldl Store.step s) by
    exact H [] (by intro l c hf; cases hf) hw
  clear hw
  induction ops with
  | nil => intro s h _; exact h
  | cons op ops ih =>
    intro s h hw
    simp only [List.foldl_cons]
    exact ih (fun o ho => hk o (List.mem_cons_of_mem _ ho)) _
      (step_tinv kindOf s op (hk op List.mem_cons_self) hw.1 h) hw.2

/-- **The table after any history**: rows of one hole are contiguous and there are as many as the hole has association
    entries; row `i` of hole `o` lists entry `i` of every requested data set of that hole as the API reads it, no-data
    where absent; each hole appears once, in the order of its association entry in the file; the association column is the
    stored association array. -/
theorem table_after_history (kindOf : String → Bool) (ops : List (Op α))
    (hk : ∀ op ∈ ops, op.kd = kindOf op.label) (hw : WellKeyedRun ([] : Store α) ops)
    (hdata : ∀ l, kindOf l = true)
    (ndv : String → α) (assoc : String) (names : List String) :
    let st := ops.foldl Store.step ([] : Store α)
    table st ndv assoc names = (holesInOrder st assoc).flatMap (block st ndv assoc names)
    ∧ (∀ o i, i < (infoOf (st.find? assoc) o).2 →
        (block st ndv assoc names o)[i]? =
          some (o, names.map fun nm => ((((readObj st nm o).getD [])[i]?).getD (ndv nm))))
    ∧ (∀ c, st.find? assoc = some c →
        (holesInOrder st assoc).Nodup
        ∧ (∀ o, o ∈ holesInOrder st assoc ↔ ∃ r ∈ c.rows, r.obj = o)
        ∧ (table st ndv assoc [assoc]).map (fun row => row.2) = c.data.map (fun x => [x])) := by
  intro st
  have hinv := run_tinv kindOf ops hk hw
  have hinv' : ∀ nm c, st.find? nm = some c → Tiled true c ∧ ObjNodup c := by
    intro nm c hc
    have := hinv nm c hc
    rw [hdata nm] at this
    exact ⟨this.1, this.2 rfl⟩
  refine ⟨rfl, ?_, ?_⟩
  · intro o i hi
    exact block_entry st ndv assoc names o hinv' i hi
  · intro c hc
    obtain ⟨ht, ho⟩ := hinv' assoc c hc
    exact ⟨holes_nodup st assoc c hc ho, mem_holes_iff st assoc c hc, table_assoc_column st ndv assoc c hc ht ho⟩

/-! ### Non-vacuity: a concrete two-hole store -/

def exStore : Store Nat :=
  [("DEPTH", ⟨[⟨0, 2, 1, 10⟩, ⟨2, 3, 2, 20⟩], [1, 2, 1, 2, 3]⟩),
   ("A", ⟨[⟨0, 3, 2, 21⟩, ⟨3, 1, 1, 11⟩], [30, 31, 32, 5]⟩)]

example : table exStore (fun _ => 0) "DEPTH" ["DEPTH", "A"]
    = [(1, [1, 5]), (1, [2, 0]), (2, [1, 30]), (2, [2, 31]), (2, [3, 32])] := by decide

example : WellKeyedRun ([] : Store Nat)
    [.put "DEPTH" true 1 10 [1, 2], .put "A" true 1 11 [5], .put "A" true 1 11 [6, 7]] := by
  refine ⟨?_, ?_, ?_, trivial⟩ <;> intro _ <;> decide

end GeoVerif.Concat
