import GeoVerif.Model.Valid
import GeoVerif.Gen.UiJson
/-!
C15 — ui.json validation accepts exactly the valid values, statelessly.

* `validate_accept_iff`: a value passes `InputValidation.validate` iff it satisfies every declared constraint
  (`Satisfies`): no validator is skipped, none is applied that was not declared, the order only decides which
  error is reported.
* `none_accepted_iff`: with the rules inferred from a form, `None` is accepted iff the form does not require a
  value (`optional = ¬ requires_value`).
* `requires_value_table`: the T2-translated `requires_value` (regenerated from /repo on every run) equals the
  readable rule `Switches.spec` on *every* combination of the group / group-optional / group-enabled /
  dependency / dependency-type / dependency-optional / dependency-state / optional / enabled switches.
* statelessness of the repaired code: `validateData_table`, `runData_independent` (rule table),
  `pool_clean`, `pool_run_independent` (enforcer pool), `param_rejected_unchanged`, `param_accepted_stored`;
  the behaviour as found is refuted by `asFound_validateData_stateful`, `asFound_pool_stateful`,
  `asFound_param_keeps_rejected`.
-/
namespace GeoVerif.Valid
open GeoVerif.Py

instance : DecidableEq V := fun a b =>
  match a, b with
  | .ok (), .ok () => isTrue rfl
  | .error x, .error y => if h : x = y then isTrue (by rw [h]) else isFalse (by intro h'; cases h'; exact h rfl)
  | .ok _, .error _ => isFalse (by intro h; cases h)
  | .error _, .ok _ => isFalse (by intro h; cases h)

/-! ### acceptance = satisfaction -/

theorem firstErr_ok_iff (l : List V) : firstErr l = .ok () ↔ ∀ x ∈ l, x = .ok () := by
  induction l with
  | nil => simp [firstErr]
  | cons x xs ih =>
    cases x with
    | error e => simp [firstErr]
    | ok u => cases u; simp [firstErr, ih]

theorem whenSome_ok_iff {α} (x : Option α) (f : α → V) : whenSome x f = .ok () ↔ ∀ a, x = some a → f a = .ok () := by
  cases x <;> simp [whenSome]

theorem vRequired_ok_iff (v : PyVal) (b : Bool) : vRequired v b = .ok () ↔ ¬ (isNone v = true ∧ b = true) := by
  unfold vRequired; split <;> simp_all

theorem vOptional_ok_iff (v : PyVal) (b : Bool) : vOptional v b = .ok () ↔ ¬ (isNone v = true ∧ b = false) := by
  unfold vOptional; split <;> simp_all

theorem vOneOfDirect_ok_iff (v : PyVal) :
    vOneOfDirect v = .ok () ↔ ∃ kv, v = .dict kv ∧ (kv.map fun e => truthy e.2).any id = true := by
  unfold vOneOfDirect
  cases v <;> simp [vAtLeastOne]

/-- **A value is accepted iff it satisfies every constraint its rule dictionary declares.** -/
theorem validate_accept_iff (env : Env) (o : Options) (r : Rules) (v : PyVal) :
    validate env o r v = .ok () ↔ Satisfies env o r v := by
  unfold validate Satisfies
  by_cases hi : o.ignored = true
  · simp [hi]
  · simp only [hi, Bool.false_eq_true, if_false, false_or]
    rw [firstErr_ok_iff]
    simp only [stages, List.mem_cons, List.mem_nil_iff, or_false, forall_eq_or_imp, forall_eq,
      whenSome_ok_iff, vOptional_ok_iff, vOneOfDirect_ok_iff]
    constructor
    · rintro ⟨h1, h2, h3, h4, h5, h6, h7, h8, h9⟩
      refine ⟨?_, fun g hg => h2 g hg, h3, h4, ?_, h6, h7, h8, h9⟩
      · intro b hb hig
        have := h1 b hb
        simp only [hig, Bool.false_eq_true, if_false] at this
        exact (vRequired_ok_iff v b).mp this
      · intro hu; simpa [hu] using h5
    · rintro ⟨h1, h2, h3, h4, h5, h6, h7, h8, h9⟩
      refine ⟨?_, fun g hg => h2 g hg, h3, h4, ?_, h6, h7, h8, h9⟩
      · intro b hb
        by_cases hig : o.ignoreRequirements = true
        · simp [hig]
        · simp only [hig, Bool.false_eq_true, if_false]
          exact (vRequired_ok_iff v b).mpr (h1 b hb (by simpa using hig))
      · by_cases hu : r.uuid = true
        · simpa [hu] using h5 hu
        · simp [hu]

/-- non-vacuity: a concrete rule dictionary and value that are accepted, and one that is not -/
example : validate ⟨[]⟩ {} { types := some [.str, .none], optional := some true } .none = .ok () := by decide
example : validate ⟨[]⟩ {} { types := some [.str], optional := some false } .none = .error .optional := by decide

/-- the rules `_validations_from_uijson` infers for a value form: `optional` is `¬ requires_value` and
    `NoneType` joins the accepted types exactly then -/
def inferred (base : List Ty) (requires : Bool) : Rules :=
  { optional := some (!requires), types := some (if requires then base else base ++ [.none]) }

/-- **`None` is allowed iff the form does not require a value** -/
theorem none_accepted_iff (env : Env) (base : List Ty) (requires : Bool) :
    validate env {} (inferred base requires) .none = .ok () ↔ requires = false := by
  rw [validate_accept_iff]
  simp only [Satisfies, inferred]
  cases requires
  · simp [vTypes, isInst, isNone]
  · simp only [Bool.not_true, Bool.false_eq_true, false_or]
    constructor
    · intro h
      have := h.2.2.1 false rfl
      simp [isNone] at this
    · intro h; cases h

/-! ### `requires_value` on the whole switch space (T2-translated code, regenerated from /repo) -/

/-- the switches that decide whether a form requires a value -/
structure Sw where
  hasGroup : Bool          -- the form is a member of group "G"
  leaderKey : Bool         -- the group's leading form has a `groupOptional` member ...
  groupOptional : Bool     -- ... with this value
  groupEnabled : Bool      -- `enabled` of the leading form
  hasDep : Bool            -- the form has a `dependency` on form "dep"
  depDisabled : Bool       -- `dependencyType` is "disabled" (else "enabled")
  depOptional : Bool       -- the dependency is an optional form (its `enabled` decides) or not (its `value` decides)
  depState : Bool          -- that `enabled` / `value`
  hasOptional : Bool       -- the form has `optional` (and with it `enabled`)
  enabled : Bool
deriving DecidableEq, Repr

def bools : List Bool := [false, true]

def allSw : List Sw :=
  bools.flatMap fun a => bools.flatMap fun b => bools.flatMap fun c => bools.flatMap fun d => bools.flatMap fun e =>
  bools.flatMap fun f => bools.flatMap fun g => bools.flatMap fun h => bools.flatMap fun i => bools.map fun j =>
    ⟨a, b, c, d, e, f, g, h, i, j⟩

def Sw.ui (c : Sw) : PyVal :=
  let b := PyVal.bool
  let form : List (String × PyVal) :=
    [("label", .str "P"), ("value", .int 1)]
    ++ (if c.hasGroup then [("group", .str "G")] else [])
    ++ (if c.hasDep then [("dependency", .str "dep"), ("dependencyType", .str (if c.depDisabled then "disabled" else "enabled"))] else [])
    ++ (if c.hasOptional then [("optional", b true), ("enabled", b c.enabled)] else [])
  let lead : List (String × PyVal) :=
    [("label", .str "L"), ("value", .int 0), ("group", .str "G"), ("enabled", b c.groupEnabled)]
    ++ (if c.leaderKey then [("groupOptional", b c.groupOptional)] else [])
  let dep : List (String × PyVal) :=
    if c.depOptional then [("label", .str "D"), ("value", b true), ("optional", b true), ("enabled", b c.depState)]
    else [("label", .str "D"), ("value", b c.depState)]
  .dict [("title", .str "t"), ("lead", .dict lead), ("dep", .dict dep), ("p", .dict form)]

/-- the readable rule: a disabled optional group switches the requirement off; otherwise the dependency decides
    (and, when it asks for a value, the form's own `enabled`), otherwise the form's own `enabled`, otherwise the
    value is required -/
def Sw.spec (c : Sw) : Bool :=
  let own := if c.hasOptional then c.enabled else true
  let dep := if c.depDisabled then !c.depState else c.depState
  let base := if c.hasDep then (if c.hasOptional && dep then c.enabled else dep) else own
  if c.hasGroup && c.leaderKey && c.groupOptional && !c.groupEnabled then false else base

def Sw.agrees (c : Sw) : Bool :=
  match GeoVerif.Gen.Ui.requires_value c.ui (.str "p") with
  | .ok v => truthy v == c.spec
  | .error _ => false

/-- **`requires_value` follows the readable rule on every one of the 1024 switch combinations** -/
theorem requires_value_table : allSw.all Sw.agrees = true := by decide +kernel

theorem mem_bools (b : Bool) : b ∈ bools := by cases b <;> simp [bools]

theorem allSw_complete (c : Sw) : c ∈ allSw := by
  rcases c with ⟨a, b, c, d, e, f, g, h, i, j⟩
  simp only [allSw, List.mem_flatMap, List.mem_map]
  exact ⟨a, mem_bools a, b, mem_bools b, c, mem_bools c, d, mem_bools d, e, mem_bools e, f, mem_bools f,
    g, mem_bools g, h, mem_bools h, i, mem_bools i, j, mem_bools j, rfl⟩

/-- ... hence for every switch setting -/
theorem requires_value_spec (c : Sw) : c.agrees = true :=
  List.all_eq_true.mp requires_value_table c (allSw_complete c)

/-! ### the rule table is not changed by validating (repaired code) -/

theorem checkEntry_repaired_fst (env : Env) (o : Options) (d) (e : Entry) :
    (checkEntry .repaired env o d e).1 = e := by
  unfold checkEntry; split <;> rfl

theorem checkAll_repaired_fst (env : Env) (o : Options) (d) (t : Table) :
    (checkAll .repaired env o d t).1 = t := by
  induction t with
  | nil => rfl
  | cons e rest ih =>
    unfold checkAll
    have he := checkEntry_repaired_fst env o d e
    rcases hc : checkEntry .repaired env o d e with ⟨e', c, r⟩
    rw [hc] at he
    simp only at he
    subst he
    cases r with
    | error err => rfl
    | ok u =>
      cases u
      rcases hr : checkAll .repaired env o d rest with ⟨rest', cs, r'⟩
      rw [hr] at ih
      simp only at ih
      subst ih
      rfl

/-- **Validating never changes the validator's rule table.** -/
theorem validateData_table (env : Env) (o : Options) (t : Table) (d) :
    (validateData .repaired env o t d).1 = t := by
  unfold validateData
  have := checkAll_repaired_fst env o d t
  rcases hc : checkAll .repaired env o d t with ⟨t', cs, r⟩
  rw [hc] at this
  cases r with
  | error e => simpa using this
  | ok u => simpa using this

/-- **The verdict on a data dictionary does not depend on the calls made before**: after any sequence of
    validations on the same validator object each verdict is the one a fresh object gives. -/
theorem runData_independent (env : Env) (o : Options) (t : Table) (ds : List (List (String × PyVal))) :
    runData .repaired env o t ds = ds.map fun d => (validateData .repaired env o t d).2 := by
  induction ds with
  | nil => rfl
  | cons d ds ih =>
    simp only [runData, List.map_cons]
    rw [validateData_table, ih]

/-- the table of the witness: two parameters of one `one_of` group -/
def witnessTable : Table :=
  [ { name := "p1", rules := { oneOf := some "g", types := some [.str, .none] } },
    { name := "p2", rules := { oneOf := some "g", types := some [.str, .none] } } ]
def witnessData : List (String × PyVal) := [("p1", .none), ("p2", .none)]

/-- as found: the first call rejects the dictionary, the second call on the same object accepts it -/
theorem asFound_validateData_stateful :
    runData .asFound ⟨[]⟩ {} witnessTable [witnessData, witnessData] = [.error .atLeastOne, .ok ()] := by decide

example : runData .repaired ⟨[]⟩ {} witnessTable [witnessData, witnessData] = [.error .atLeastOne, .error .atLeastOne] := by
  decide

/-! ### enforcer pool -/

/-- a call never changes the enforcers -/
theorem pool_enforcers (var : Variant) (env : Env) (p : Pool) (v : PyVal) :
    ((p.enforce var env v).1).enforcers = p.enforcers := by
  unfold Pool.enforce
  simp only []
  split <;> rfl

/-- the verdict as a function of what the loop collected -/
def verdictOf : List VErr × Bool → V
  | (_, true) => .error .attributeError
  | ([], false) => .ok ()
  | ([e], false) => .error e
  | (_, false) => .error .aggregate

theorem enforce_repaired_snd (env : Env) (p : Pool) (v : PyVal) :
    (p.enforce .repaired env v).2 = verdictOf (collect env v p.enforcers []) := by
  unfold Pool.enforce
  simp only []
  split <;> simp_all [verdictOf]

/-- **The verdict of a pool depends on its enforcers and the value only**, not on what earlier calls left behind -/
theorem pool_clean (env : Env) (p q : Pool) (v : PyVal) (h : p.enforcers = q.enforcers) :
    (p.enforce .repaired env v).2 = (q.enforce .repaired env v).2 := by
  rw [enforce_repaired_snd, enforce_repaired_snd, h]

theorem collect_ok (env : Env) (v : PyVal) (l : List Enf) (acc : List VErr)
    (h : ∀ e ∈ l, e.check env v = .ok) : collect env v l acc = (acc, false) := by
  induction l generalizing acc with
  | nil => rfl
  | cons e rest ih =>
    simp only [collect, h e (by simp)]
    exact ih acc (fun x hx => h x (List.mem_cons_of_mem _ hx))

theorem collect_mono (env : Env) (v : PyVal) (l : List Enf) (acc : List VErr) :
    acc.length ≤ (collect env v l acc).1.length := by
  induction l generalizing acc with
  | nil => simp [collect]
  | cons e rest ih =>
    simp only [collect]
    split
    · exact ih acc
    · exact Nat.le_trans (by simp) (ih _)
    · simp

/-- a value is accepted iff every enforcer's rule holds for it -/
theorem pool_accept_iff (env : Env) (p : Pool) (v : PyVal) :
    (p.enforce .repaired env v).2 = .ok () ↔ ∀ e ∈ p.enforcers, e.check env v = .ok := by
  rw [enforce_repaired_snd]
  constructor
  · intro h
    have key : ∀ (l : List Enf) (acc : List VErr), collect env v l acc = ([], false) → (∀ e ∈ l, e.check env v = .ok) := by
      intro l
      induction l with
      | nil => intro _ _ e he; cases he
      | cons e rest ih =>
        intro acc hc x hx
        simp only [collect] at hc
        cases hck : e.check env v with
        | ok =>
          rw [hck] at hc
          simp only at hc
          rcases List.mem_cons.mp hx with rfl | hx'
          · exact hck
          · exact ih acc hc x hx'
        | bad err =>
          rw [hck] at hc
          simp only at hc
          have := collect_mono env v rest (acc ++ [err])
          rw [hc] at this
          simp at this
        | raised => rw [hck] at hc; simp at hc
    rcases hc : collect env v p.enforcers [] with ⟨errs, raised⟩
    rw [hc] at h
    cases raised
    · match errs, h with
      | [], _ => exact key _ _ hc
      | [e], h => simp [verdictOf] at h
      | _ :: _ :: _, h => simp [verdictOf] at h
    · simp [verdictOf] at h
  · intro h
    rw [collect_ok env v p.enforcers [] h]
    rfl

theorem pool_run_independent (env : Env) (p : Pool) (vs : List PyVal) :
    Pool.run .repaired env p vs = vs.map fun v => (p.enforce .repaired env v).2 := by
  induction vs generalizing p with
  | nil => rfl
  | cons v vs ih =>
    simp only [Pool.run, List.map_cons]
    rw [ih]
    congr 1
    apply List.map_congr_left
    intro w _
    exact pool_clean env _ p w (pool_enforcers .repaired env p v)

def witnessPool : Pool := { enforcers := [.type [.str], .value [.str "a", .str "b"]] }

/-- as found: after a value that breaks two rules the pool rejects every later value -/
theorem asFound_pool_stateful :
    Pool.run .asFound ⟨[]⟩ witnessPool [.int 3, .str "a"] = [.error .aggregate, .error .aggregate] := by decide

example : Pool.run .repaired ⟨[]⟩ witnessPool [.int 3, .str "a"] = [.error .aggregate, .ok ()] := by decide

/-- a Python error that escapes the pool (an unhashable value meeting a value rule) leaves no trace either -/
example : Pool.run .repaired ⟨[]⟩ witnessPool [.list [], .str "a"] = [.error .attributeError, .ok ()] := by decide

/-! ### parameter values -/

/-- **A rejected value leaves the stored value unchanged.** -/
theorem param_rejected_unchanged (env : Env) (p : Param) (v : PyVal) (e : VErr)
    (h : (p.set .repaired env v).2 = .error e) : (p.set .repaired env v).1.value = p.value := by
  unfold Param.set at *
  rcases hq : p.pool.enforce .repaired env v with ⟨pool', r⟩
  rw [hq] at h
  cases r with
  | ok u => cases u; simp at h
  | error e' => rfl

theorem param_accepted_stored (env : Env) (p : Param) (v : PyVal)
    (h : (p.set .repaired env v).2 = .ok ()) : (p.set .repaired env v).1.value = v := by
  unfold Param.set at *
  rcases hq : p.pool.enforce .repaired env v with ⟨pool', r⟩
  rw [hq] at h
  cases r with
  | ok u => rfl
  | error e' => simp at h

/-- as found: the rejected value is what the parameter holds afterwards -/
theorem asFound_param_keeps_rejected :
    let p : Param := { pool := { enforcers := [.type [.str]] }, value := .str "ok" }
    (p.set .asFound ⟨[]⟩ (.int 3)).2 = .error .type ∧ pyEq (p.set .asFound ⟨[]⟩ (.int 3)).1.value (.int 3) = true := by
  decide

end GeoVerif.Valid
