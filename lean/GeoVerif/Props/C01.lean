import GeoVerif.Lemmas.Ws

/-!
# C01 — re-opening a file yields exactly the state built through the API

`Tree` is what the API shows from the root, `fileOf` the file image write-through maintains,
`load` the reader.  Identifier uniqueness (`uids.Nodup`) is an invariant of every operation,
and under it reading the file back returns the very same tree — after any history, wherever
closes and re-opens are placed (a re-open is the identity on the tree).
-/
namespace GeoVerif.Ws

/-- **Round trip**: the reader rebuilds from the file image exactly the tree the API showed —
    same entities, identifiers, classes, parents, names, flags, attribute and array tokens and
    property groups; nothing lost, duplicated or resurrected. -/
theorem reopen_identity (t : Tree) (hn : t.uids.Nodup) : load (fileOf t) = some t := by
  unfold load
  have hr : (fileOf t).root = some t.ent.uid := rfl
  rw [hr]
  simp only
  apply loadFrom_sub t hn t _ (self_mem_subs t)
  have : (fileOf t).nodes.length = t.size := by
    simp [fileOf, Tree.flat, size_eq_length]
  omega

theorem nodup_of_perm_append {a b c : List Nat} (h : (a ++ b).Perm c) (hc : c.Nodup) :
    a.Nodup ∧ b.Nodup ∧ ∀ x ∈ a, x ∉ b := by
  have := (h.nodup_iff).mpr hc
  have h2 := List.nodup_append.mp this
  exact ⟨h2.1, h2.2.1, fun x hx hb => h2.2.2 x hx x hb rfl⟩

theorem sub_uids_nodup (t s : Tree) (hs : t.findSub s.ent.uid = some s) (hne : s.ent.uid ≠ t.ent.uid)
    (hn : t.uids.Nodup) : s.uids.Nodup :=
  (nodup_of_perm_append (erase_uids_perm t s.ent.uid s hn hne hs) hn).2.1

theorem insert_nodup (t c : Tree) (p : Nat) (hp : p ∈ t.uids) (hn : t.uids.Nodup) (hc : c.uids.Nodup)
    (hd : ∀ x ∈ c.uids, x ∉ t.uids) : (t.insert p c).uids.Nodup := by
  have := insert_uids_perm c t p hp hn
  rw [this.nodup_iff, List.nodup_append]
  exact ⟨hn, hc, fun a ha b hb e => hd b hb (e ▸ ha)⟩

/-- **Identifier uniqueness is preserved by every operation** (create, assign, rename, move,
    remove through the workspace or the parent, copy, property-group edits), accepted or refused. -/
theorem step_nodup (t : Tree) (op : Op) (hn : t.uids.Nodup) : (step t op).1.uids.Nodup := by
  cases op with
  | create p e =>
    simp only [step]
    split
    · exact hn
    · rename_i hfresh
      split
      · exact hn
      split
      · exact hn
      · rename_i hp
        apply insert_nodup t _ p (by simpa using hp) hn (by simp)
        intro x hx
        simp only [uids_node, uidsL_nil, List.mem_singleton] at hx
        subst hx
        have hf' := hfresh
        simp only [Bool.or_eq_true, not_or] at hf'
        simpa using hf'.1
  | setAttr u k v =>
    simp only [step]; split
    · rw [update_uids]
      · exact hn
      · intro e; rfl
    · exact hn
  | setDset u k v =>
    simp only [step]; split
    · rw [update_uids]
      · exact hn
      · intro e; rfl
    · exact hn
  | rename u n =>
    simp only [step]; split
    · rw [update_uids]
      · exact hn
      · intro e; rfl
    · exact hn
  | setAllowDelete u b =>
    simp only [step]; split
    · rw [update_uids]
      · exact hn
      · intro e; rfl
    · exact hn
  | setTyp u ty =>
    simp only [step]; split
    · rw [update_uids]
      · exact hn
      · intro e; rfl
    · exact hn
  | pgSet o g =>
    simp only [step]
    cases hf : t.findSub o with
    | none => exact hn
    | some s =>
      simp only
      split
      · exact hn
      split
      · exact hn
      · rw [update_uids]
        · exact hn
        · intro e; rfl
  | pgDrop o g =>
    simp only [step]; split
    · rw [update_uids]
      · exact hn
      · intro e; rfl
    · exact hn
  | move u p =>
    simp only [step]
    cases hf : t.findSub u with
    | none => exact hn
    | some s =>
      simp only
      split
      · exact hn
      · rename_i hroot
        split
        · exact hn
        · rename_i hguard
          simp only [Bool.or_eq_true, Bool.not_eq_true', not_or, Bool.not_eq_true,
            Bool.not_eq_false] at hguard
          have hperm := erase_uids_perm t u s hn hroot hf
          obtain ⟨he, hs, hdis⟩ := nodup_of_perm_append hperm hn
          have hpt : p ∈ t.uids := by simpa using hguard.2
          have hps : p ∉ s.uids := by simpa using hguard.1
          have hpe : p ∈ (t.erase u).uids := by
            have := (hperm.mem_iff (a := p)).mpr hpt
            rcases List.mem_append.mp this with h | h
            · exact h
            · exact absurd h hps
          rw [mapEnts_uids]
          · exact insert_nodup _ s p hpe he hs (fun x hx hxe => hdis x hxe hx)
          · intro e; rfl
  | remove u =>
    simp only [step]
    cases hf : t.findSub u with
    | none => exact hn
    | some s =>
      simp only
      split
      · exact hn
      · rw [mapEnts_uids]
        · exact hn.sublist (erase_uids_sublist t u)
        · intro e; rfl
  | detach u =>
    simp only [step]
    cases hf : t.findSub u with
    | none => exact hn
    | some s =>
      simp only
      split
      · exact hn
      · rw [mapEnts_uids]
        · exact hn.sublist (erase_uids_sublist t u)
        · intro e; rfl
  | copy u p m =>
    simp only [step]
    cases hf : t.findSub u with
    | none => exact hn
    | some s =>
      simp only
      split
      · exact hn
      · rename_i hp
        split
        · exact hn
        · rename_i hguard
          simp only [Bool.or_eq_true, List.any_eq_true, Bool.not_eq_true', not_or, not_exists,
            not_and, Bool.not_eq_false, decide_eq_true_eq, decide_eq_false_iff_not,
            Decidable.not_not] at hguard
          apply insert_nodup t _ p (by simpa using hp) hn
          · simpa using hguard.2
          · intro x hx hxt
            exact hguard.1 x hx (by simpa using hxt)

theorem run_nodup (t : Tree) (ops : List Op) (hn : t.uids.Nodup) : (run t ops).uids.Nodup := by
  induction ops generalizing t with
  | nil => exact hn
  | cons op ops ih => exact ih _ (step_nodup t op hn)

/-- **C01**: after any sequence of operations, closing and re-opening yields the same tree. -/
theorem reopen_after_history (t : Tree) (ops : List Op) (hn : t.uids.Nodup) :
    load (fileOf (run t ops)) = some (run t ops) :=
  reopen_identity _ (run_nodup t ops hn)

/-- a close/re-open in the middle of a history changes nothing: the rest of the history runs
    from the re-read tree exactly as from the live one -/
theorem reopen_mid_history (t : Tree) (ops₁ ops₂ : List Op) (hn : t.uids.Nodup) :
    (load (fileOf (run t ops₁))).map (fun t' => run t' ops₂) = some (run t (ops₁ ++ ops₂)) := by
  rw [reopen_after_history t ops₁ hn]
  simp [run, List.foldl_append]

/-! ### Non-vacuity -/
def exEnt (u : Nat) (k : Kind) : Ent :=
  { uid := u, kind := k, cls := "c", typ := 100, name := "n", allowDelete := true,
    attrs := [("Visible", "1")], dsets := [], pgs := [] }
def exTree : Tree :=
  .node (exEnt 1 .group) [.node (exEnt 2 .group) [.node (exEnt 3 .object) [.node (exEnt 4 .data) []]],
                          .node (exEnt 5 .object) []]
example : exTree.uids.Nodup := by decide
example : load (fileOf exTree) = some exTree := reopen_identity _ (by decide)
example : ((step exTree (.move 3 1)).1).uids = [1, 2, 5, 3, 4] := by decide

end GeoVerif.Ws
