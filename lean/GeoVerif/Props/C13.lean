import GeoVerif.Model.Box
import GeoVerif.Lemmas.Reindex

/-!
# C13 — spatial selection returns exactly what lies inside the box
-/
namespace GeoVerif.Box
open GeoVerif.Reindex

variable {K : Type} [LE K] [DecidableRel (α := K) (· ≤ ·)]

/-- the accumulator of the axis loop at position `i` -/
theorem foldl_mask_get (n : Nat) (cls : List (List K × (K × K))) (acc : List Bool) (i : Nat)
    (hacc : acc.length = n) (hcols : ∀ cl ∈ cls, cl.1.length = n) (hi : i < n) :
    (cls.foldl (fun acc cl => List.zipWith (· && ·) acc (cl.1.map (inRange cl.2))) acc)[i]?
      = some (acc[i]?.getD false
              && cls.all fun cl => (cl.1[i]?.map (inRange cl.2)).getD false) := by
  induction cls generalizing acc with
  | nil => simp [List.getElem?_eq_getElem (by omega : i < acc.length)]
  | cons cl cls ih =>
    simp only [List.foldl_cons, List.all_cons]
    have hl : cl.1.length = n := hcols cl List.mem_cons_self
    rw [ih _ (by simp [hacc, hl]) (fun c hc => hcols c (List.mem_cons_of_mem _ hc))]
    have h1 : i < acc.length := by omega
    have h2 : i < cl.1.length := by omega
    simp [List.getElem?_zipWith, List.getElem?_eq_getElem h1, List.getElem?_eq_getElem h2,
      Bool.and_assoc]

/-- **mask_by_extent is the closed-box test**: entry `i` of the mask computed by the axis
    loop is true exactly when point `i` lies in `[lo, hi]` on every axis that both the
    locations and the extent have (a 2-D extent ignores elevation), negated for `inverse`. -/
theorem mask_spec (n : Nat) (cols : List (List K)) (lims : List (K × K)) (inverse : Bool)
    (i : Nat) (hcols : ∀ c ∈ cols, c.length = n) (hi : i < n) :
    (maskByExtent n cols lims inverse)[i]?
      = some (((cols.zip lims).all fun cl => (cl.1[i]?.map (inRange cl.2)).getD false)
              != inverse) := by
  unfold maskByExtent maskLoop
  rw [List.getElem?_map,
    foldl_mask_get n (cols.zip lims) (List.replicate n true) i (by simp)
      (fun cl hcl => hcols cl.1 (List.of_mem_zip hcl).1) hi]
  simp [hi]

theorem mask_length (n : Nat) (cols : List (List K)) (lims : List (K × K)) (inverse : Bool)
    (hcols : ∀ c ∈ cols, c.length = n) : (maskByExtent n cols lims inverse).length = n := by
  unfold maskByExtent maskLoop
  rw [List.length_map]
  suffices H : ∀ (cls : List (List K × (K × K))) (acc : List Bool), acc.length = n →
      (∀ cl ∈ cls, cl.1.length = n) →
      (cls.foldl (fun acc cl => List.zipWith (· && ·) acc (cl.1.map (inRange cl.2))) acc).length = n by
    exact H _ _ (by simp) (fun cl hcl => hcols cl.1 (List.of_mem_zip hcl).1)
  intro cls
  induction cls with
  | nil => intro acc h _; exact h
  | cons cl cls ih =>
    intro acc h hc
    simp only [List.foldl_cons]
    apply ih
    · simp [h, hc cl List.mem_cons_self]
    · exact fun c hcm => hc c (List.mem_cons_of_mem _ hcm)

/-- **The bounding-box pre-test never hides a qualifying element**: if some point lies in the
    object's bounding box (it always does) and in the extent, the two boxes intersect. -/
theorem pretest_sound (trans : ∀ a b c : K, a ≤ b → b ≤ c → a ≤ c)
    (p : List K) (bbox ext : List (K × K)) (hlen : bbox.length = p.length)
    (hb : inBox bbox p = true) (he : inBox ext p = true) : boxIntersect bbox ext = true := by
  induction p generalizing bbox ext with
  | nil => cases bbox with
    | nil => simp [boxIntersect]
    | cons _ _ => simp at hlen
  | cons x xs ih =>
    cases bbox with
    | nil => simp at hlen
    | cons b bs =>
      cases ext with
      | nil => simp [boxIntersect]
      | cons e es =>
        simp only [inBox, List.zip_cons_cons, List.all_cons, Bool.and_eq_true, inRange,
          decide_eq_true_eq] at hb he
        simp only [boxIntersect, List.zip_cons_cons, List.all_cons, Bool.and_eq_true,
          decide_eq_true_eq]
        refine ⟨⟨⟨⟨trans _ _ _ hb.1.1 hb.1.2, trans _ _ _ hb.1.1 he.1.2⟩,
          trans _ _ _ he.1.1 hb.1.2⟩, trans _ _ _ he.1.1 he.1.2⟩, ?_⟩
        exact ih bs es (by simpa using hlen) hb.2 he.2

/-! ### curves and surfaces: cells whose vertices all qualify, and the vertices they use -/

theorem orphan_length (vm : List Bool) (cells : List (List Nat)) :
    (orphanFilter vm cells).length = vm.length := by
  simp [orphanFilter]

/-- **kept vertices** = qualifying vertices used by at least one fully qualifying cell -/
theorem orphan_spec (vm : List Bool) (cells : List (List Nat)) (v : Nat) (hv : v < vm.length) :
    (orphanFilter vm cells)[v]?
      = some ((vm[v]?.getD false) && (cells.any fun c => cellKept vm c && c.contains v)) := by
  simp only [orphanFilter, List.getElem?_map, List.getElem?_range hv, Option.map_some,
    Option.some.injEq]
  congr 1
  induction cells with
  | nil => rfl
  | cons c cs ih =>
    simp only [List.filter_cons, List.any_cons]
    cases hk : cellKept vm c
    · simpa using ih
    · simp only [↓reduceIte, List.flatten_cons, Bool.true_and]
      rw [← ih]
      simp [List.contains_iff_mem, List.mem_append]
      by_cases h1 : v ∈ c <;> by_cases h2 : v ∈ ((cs.filter (cellKept vm)).flatten) <;> simp [h1, h2]

/-- **kept cells are exactly the cells whose vertices all qualify**: removing the orphan
    vertices does not lose or add a cell. -/
theorem cellKept_orphan (vm : List Bool) (cells : List (List Nat)) (c : List Nat)
    (hc : c ∈ cells) : cellKept (orphanFilter vm cells) c = cellKept vm c := by
  cases hk : cellKept vm c
  · -- some vertex of c does not qualify; it stays unqualified
    rw [Bool.eq_false_iff] at hk ⊢
    intro h
    apply hk
    rw [cellKept_iff] at h ⊢
    intro v hv
    have hov := h v hv
    have hlt : v < vm.length := by
      rcases Nat.lt_or_ge v (orphanFilter vm cells).length with hl | hl
      · simpa [orphan_length] using hl
      · rw [List.getElem?_eq_none hl] at hov; cases hov
    rw [orphan_spec vm cells v hlt] at hov
    simp only [Option.some.injEq, Bool.and_eq_true] at hov
    rw [List.getElem?_eq_getElem hlt] at hov ⊢
    simpa using hov.1
  · rw [cellKept_iff] at hk ⊢
    intro v hv
    have hm := hk v hv
    have hlt : v < vm.length := by
      rcases Nat.lt_or_ge v vm.length with hl | hl
      · exact hl
      · rw [List.getElem?_eq_none hl] at hm; cases hm
    rw [orphan_spec vm cells v hlt]
    simp only [Option.some.injEq, Bool.and_eq_true, List.any_eq_true]
    refine ⟨by rw [hm]; rfl, c, hc, ?_⟩
    have : cellKept vm c = true := (cellKept_iff vm c).mpr hk
    simp [this, List.contains_iff_mem, hv]

/-- nothing is returned only when no element qualifies -/
theorem cellObjectMask_none (vm : List Bool) (cells : Option (List (List Nat)))
    (h : cellObjectMask vm cells = none) :
    match cells with
    | some cs => ∀ v : Nat, (orphanFilter vm cs)[v]? ≠ some true
    | none => ∀ v : Nat, vm[v]? ≠ some true := by
  unfold cellObjectMask at h
  cases cells with
  | none =>
    simp only at h ⊢
    split at h
    · cases h
    · rename_i hn
      intro v hv
      apply hn
      simp only [List.any_eq_true, id]
      exact ⟨true, List.mem_of_getElem? hv, rfl⟩
  | some cs =>
    simp only at h ⊢
    split at h
    · cases h
    · rename_i hn
      intro v hv
      apply hn
      simp only [List.any_eq_true, id]
      exact ⟨true, List.mem_of_getElem? hv, rfl⟩

/-! ### Grid2D sub-grid -/

theorem kron_get (v u : List Bool) (i j : Nat) (hi : i < u.length) (hj : j < v.length) :
    (kron v u)[j * u.length + i]? = some ((v[j]?.getD false) && (u[i]?.getD false)) := by
  unfold kron
  induction v generalizing j with
  | nil => simp at hj
  | cons b bs ih =>
    simp only [List.flatMap_cons]
    cases j with
    | zero =>
      simp only [Nat.zero_mul, Nat.zero_add]
      rw [List.getElem?_append_left (by simpa using hi)]
      simp [List.getElem?_eq_getElem hi]
    | succ j' =>
      have : (j' + 1) * u.length + i = u.length + (j' * u.length + i) := by
        rw [Nat.succ_mul]; omega
      rw [this, List.getElem?_append_right (by simp)]
      simp only [List.length_map, Nat.add_sub_cancel_left]
      rw [ih j' (by simpa using hj)]
      simp

theorem kron_length (v u : List Bool) : (kron v u).length = v.length * u.length := by
  unfold kron
  induction v with
  | nil => simp
  | cons b bs ih => simp [List.flatMap_cons, ih, Nat.succ_mul]; omega

theorem countTrue_kron (v u : List Bool) :
    countTrue (kron v u) = countTrue v * countTrue u := by
  unfold kron countTrue
  induction v with
  | nil => simp
  | cons b bs ih =>
    simp only [List.flatMap_cons, List.filter_append, List.length_append, ih]
    cases b
    · simp
    · simp [Nat.succ_mul]; omega

theorem any_take_iff (l : List Bool) (i : Nat) :
    (l.take (i + 1)).any id = true ↔ ∃ a, a ≤ i ∧ l[a]? = some true := by
  simp only [List.any_eq_true, id]
  constructor
  · rintro ⟨b, hb, rfl⟩
    obtain ⟨a, ha, hget⟩ := List.getElem_of_mem hb
    rw [List.length_take] at ha
    refine ⟨a, by omega, ?_⟩
    rw [List.getElem_take] at hget
    rw [List.getElem?_eq_getElem (by omega), hget]
  · rintro ⟨a, ha, hget⟩
    refine ⟨true, ?_, rfl⟩
    have hlt : a < l.length := by
      rcases Nat.lt_or_ge a l.length with h | h
      · exact h
      · rw [List.getElem?_eq_none h] at hget; cases hget
    have : (l.take (i + 1))[a]? = some true := by
      rw [List.getElem?_take]; simp [show a < i + 1 by omega, hget]
    exact List.mem_of_getElem? this

theorem any_drop_iff (l : List Bool) (i : Nat) :
    (l.drop i).any id = true ↔ ∃ b, i ≤ b ∧ l[b]? = some true := by
  simp only [List.any_eq_true, id]
  constructor
  · rintro ⟨b, hb, rfl⟩
    obtain ⟨a, ha, hget⟩ := List.getElem_of_mem hb
    refine ⟨i + a, by omega, ?_⟩
    rw [List.getElem_drop] at hget
    rw [List.length_drop] at ha
    rw [List.getElem?_eq_getElem (by omega), hget]
  · rintro ⟨b, hb, hget⟩
    refine ⟨true, ?_, rfl⟩
    have : (l.drop i)[b - i]? = some true := by
      rw [List.getElem?_drop]; rw [show i + (b - i) = b by omega]; exact hget
    exact List.mem_of_getElem? this

/-- a position is in the span iff a selected position lies at or before it and one at or after -/
theorem fillSpan_iff (l : List Bool) (i : Nat) :
    (fillSpan l)[i]? = some true ↔
      (∃ a, a ≤ i ∧ l[a]? = some true) ∧ (∃ b, i ≤ b ∧ l[b]? = some true) := by
  unfold fillSpan
  rcases Nat.lt_or_ge i l.length with hi | hi
  · rw [List.getElem?_map, List.getElem?_range hi]
    simp only [Option.map_some, Option.some.injEq, Bool.and_eq_true]
    rw [any_take_iff, any_drop_iff]
  · rw [List.getElem?_eq_none (by simpa using hi)]
    constructor
    · intro h; cases h
    · rintro ⟨_, ⟨b, hb, hget⟩⟩
      rw [List.getElem?_eq_none (by omega)] at hget; cases hget

/-- the sub-grid contains every selected column/row -/
theorem fillSpan_contains (l : List Bool) (i : Nat) (h : l[i]? = some true) :
    (fillSpan l)[i]? = some true :=
  (fillSpan_iff l i).mpr ⟨⟨i, Nat.le_refl _, h⟩, ⟨i, Nat.le_refl _, h⟩⟩

/-- it is a block of consecutive columns/rows -/
theorem fillSpan_contiguous (l : List Bool) : Contiguous (fillSpan l) := by
  intro i j k hij hjk hi hk
  rw [fillSpan_iff] at hi hk ⊢
  obtain ⟨⟨a, ha, hga⟩, _⟩ := hi
  obtain ⟨_, ⟨b, hb, hgb⟩⟩ := hk
  exact ⟨⟨a, by omega, hga⟩, ⟨b, by omega, hgb⟩⟩

/-- **smallest cover**: any block of consecutive columns/rows that contains the selected ones
    contains the sub-grid the code keeps. -/
theorem fillSpan_least (l m : List Bool) (hm : Contiguous m)
    (hsub : ∀ i : Nat, l[i]? = some true → m[i]? = some true) (i : Nat)
    (h : (fillSpan l)[i]? = some true) : m[i]? = some true := by
  rw [fillSpan_iff] at h
  obtain ⟨⟨a, ha, hga⟩, ⟨b, hb, hgb⟩⟩ := h
  exact hm a i b ha hb (hsub a hga) (hsub b hgb)

/-- the non-contiguous case (thin diagonal box on a rotated grid): the code keeps
    `sum(u_ind)` columns, fewer than the span from the first to the last selected column. -/
theorem grid2d_noncontiguous_counterexample :
    let u := [true, false, true]
    ¬ Contiguous u ∧ countTrue u = 2 ∧ argmax u = 0 := by
  refine ⟨?_, by decide, by decide⟩
  intro h
  have := h 0 1 2 (by omega) (by omega) rfl rfl
  simp at this

/-! ### Non-vacuity -/
example : maskByExtent 3 [[(0 : Int), 5, 10], [0, 0, 0], [1, 1, 1]] [(0, 5), (0, 0)] false
    = [true, true, false] := by decide
example : cellObjectMask [true, true, false, true] (some [[0, 1], [1, 2]])
    = some [true, true, false, false] := by decide

end GeoVerif.Box
