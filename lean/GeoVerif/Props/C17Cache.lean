import GeoVerif.Gen.Setters

/-!
# C17 (cache) — no setter leaves stale cell centres behind

`centroids` of block models, 2-D grids, octrees and drape models is computed once and kept in `_centroids`.  "The number of
centres always equals the number of cells" and "centres are computed as the format defines them" can only hold for an object
that is edited if every setter that stores a geometric field also drops the cached centres.  The setter table is regenerated
from /repo's source on every run (`Gen/Setters.lean`, event paths of every property setter; `centroidCacheOwners` = the classes
whose getter caches); the table theorem below is re-proved by `decide +kernel` over the regenerated table, the soundness
theorem says what a path that passes the test does to an object.
-/
namespace GeoVerif.Cache
open GeoVerif.Gen

def raises (p : List Ev) : Bool := p.contains .raise

/-- the path stores some field other than the cache itself, or assigns another property -/
def storesField (p : List Ev) : Bool :=
  p.any fun e => match e with
    | .store f => f != "centroids"
    | .call _ => true
    | _ => false

def clearsDirect (p : List Ev) : Bool := p.contains (.store "centroids")

/-- assigning property `q` of the same class drops the cache on every path that does not raise -/
def calleeClears (tbl : List Setter) (owner q : String) : Bool :=
  match tbl.find? (fun s => s.owner == owner && s.prop == q) with
  | some s => s.paths.all fun p => raises p || clearsDirect p
  | none => false

def clears (tbl : List Setter) (owner : String) (p : List Ev) : Bool :=
  clearsDirect p || p.any fun e => match e with
    | .call q => calleeClears tbl owner q
    | _ => false

def pathOk (tbl : List Setter) (owner : String) (p : List Ev) : Bool :=
  raises p || !storesField p || clears tbl owner p

/-- **Table theorem** (re-proved over the regenerated table on every run): in every class that caches its cell centres,
    every setter path that completes and stores anything drops the cached centres. -/
theorem cache_invalidated :
    ∀ s ∈ setters, s.owner ∈ centroidCacheOwners → s.paths.all (pathOk setters s.owner) = true := by
  decide +kernel

/-- the table is not vacuous: the four grid classes are cached classes and their geometric setters are in the table -/
theorem cache_table_nonvacuous :
    ["BlockModel", "DrapeModel", "Grid2D", "Octree"].all (centroidCacheOwners.contains ·) = true
    ∧ [("Grid2D", "vertical"), ("Grid2D", "dip"), ("Grid2D", "rotation"), ("Grid2D", "origin"), ("Grid2D", "u_count"),
       ("BlockModel", "origin"), ("BlockModel", "u_cell_delimiters"), ("Octree", "octree_cells"), ("Octree", "u_count"),
       ("DrapeModel", "layers"), ("DrapeModel", "prisms")].all
        (fun op => setters.any fun s => s.owner == op.1 && s.prop == op.2 && s.paths.any (!raises ·)) = true := by
  decide +kernel

/-! ### what the test means: a two-bit abstraction of an object during one setter call -/

structure St where
  cached : Bool      -- `_centroids` holds an array
  changed : Bool     -- a field was stored since the call began
deriving DecidableEq, Repr

def execEv (st : St) : Ev → St
  | .store f => if f = "centroids" then { st with cached := false } else { st with changed := true }
  | _ => st

def exec (p : List Ev) (st : St) : St := p.foldl execEv st

theorem exec_cached_false (p : List Ev) : ∀ st, st.cached = false → (exec p st).cached = false := by
  induction p with
  | nil => intro st h; exact h
  | cons e es ih =>
    intro st h
    apply ih
    cases e with
    | store f => simp only [execEv]; split <;> simp [h]
    | _ => exact h

/-- **Soundness of the direct test**: a path that stores the cache field ends with no cached centres, whatever else it
    stores before or after and whatever the object held when the call began. -/
theorem clearsDirect_sound (p : List Ev) (h : clearsDirect p = true) (st : St) : (exec p st).cached = false := by
  induction p generalizing st with
  | nil => simp [clearsDirect] at h
  | cons e es ih =>
    simp only [clearsDirect, List.contains_cons, Bool.or_eq_true] at h
    show (exec es (execEv st e)).cached = false
    rcases h with h | h
    · have he : e = .store "centroids" := by
        have := of_decide_eq_true (by simpa [BEq.beq] using h : decide (Ev.store "centroids" = e) = true)
        exact this.symm
      subst he
      exact exec_cached_false es _ (by simp [execEv])
    · exact ih (by simpa [clearsDirect] using h) _

/-- a path that stores no field leaves the object as it was -/
theorem noStore_unchanged (p : List Ev) (h : storesField p = false) (hc : clearsDirect p = false) (st : St) :
    exec p st = st := by
  induction p generalizing st with
  | nil => rfl
  | cons e es ih =>
    simp only [storesField, List.any_cons, Bool.or_eq_false_iff] at h
    simp only [clearsDirect, List.contains_cons, Bool.or_eq_false_iff] at hc
    show exec es (execEv st e) = st
    have : execEv st e = st := by
      cases e with
      | store f =>
        have : f = "centroids" := by simpa using h.1
        subst this
        simp [BEq.beq] at hc
      | _ => rfl
    rw [this]
    exact ih (by simpa [storesField] using h.2) (by simpa [clearsDirect] using hc.2) st

end GeoVerif.Cache
