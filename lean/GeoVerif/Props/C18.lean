import GeoVerif.Model.Survey
import GeoVerif.Model.Depths
import Mathlib.Tactic.Ring
import Mathlib.Tactic.Linarith
import Mathlib.Tactic.FieldSimp
import Mathlib.Algebra.Order.Field.Rat

/-!
# C18 — drillhole positions follow the survey
-/
namespace GeoVerif.Survey

/-- deviation of a leg with distinct end depths is the mean of its two station directions -/
theorem dev_mean (t0 t1 d0 d1 : Rat) (h : t1 - t0 ≠ 0) :
    d0 + (t1 - t0) * ((d1 - d0) / (t1 - t0)) / 2 = (d0 + d1) / 2 := by
  field_simp; ring

/-- where the two station directions coincide the leg follows that direction -/
theorem dev_straight (t0 t1 d0 : Rat) :
    (if t1 - t0 = 0 then d0 else d0 + (t1 - t0) * ((d0 - d0) / (t1 - t0)) / 2) = d0 := by
  split
  · rfl
  · simp

theorem legs_length : ∀ (t d : List Rat), t.length = d.length → (legs t d).length = t.length - 1
  | [], _, _ => by simp [legs]
  | [_], [_], _ => by simp [legs]
  | [_], [], h => by simp at h
  | [_], _ :: _ :: _, h => by simp at h
  | _ :: _ :: _, [], h => by simp at h
  | _ :: _ :: _, [_], h => by simp at h
  | t0 :: t1 :: ts, d0 :: d1 :: ds, h => by
    have := legs_length (t1 :: ts) (d1 :: ds) (by simpa using h)
    simp only [legs, List.length_cons] at this ⊢; omega

/-- the length of leg `i` is the depth difference of its two stations -/
theorem legs_len : ∀ (t d : List Rat) (i : Nat), t.length = d.length → i + 1 < t.length →
    ((legs t d).getD i (0, 0)).1 = t.getD (i + 1) 0 - t.getD i 0
  | [], _, i, _, h => by simp at h
  | [_], _, i, _, h => by simp at h
  | _ :: _ :: _, [], _, h, _ => by simp at h
  | _ :: _ :: _, [_], _, h, _ => by simp at h
  | t0 :: t1 :: ts, d0 :: d1 :: ds, 0, _, _ => by simp [legs]
  | t0 :: t1 :: ts, d0 :: d1 :: ds, i + 1, h, hi => by
    have := legs_len (t1 :: ts) (d1 :: ds) i (by simpa using h) (by simpa using hi)
    simpa [legs] using this

theorem cumsumFrom_get : ∀ (l : List Rat) (acc : Rat) (i : Nat), i < l.length →
    (cumsumFrom acc l).getD i 0 = (if i = 0 then acc else (cumsumFrom acc l).getD (i - 1) 0) + l.getD i 0
  | [], _, i, h => by simp at h
  | x :: xs, acc, 0, _ => by simp [cumsumFrom]
  | x :: xs, acc, i + 1, h => by
    have := cumsumFrom_get xs (acc + x) i (by simpa using h)
    simp only [cumsumFrom, List.getD_cons_succ, Nat.add_sub_cancel, Nat.succ_ne_zero, ↓reduceIte]
    rw [this]
    cases i with
    | zero => simp [cumsumFrom]
    | succ j => simp

/-- **the path is the running sum of leg length × leg deviation** -/
theorem locs_succ (collar : Rat) (lg : List (Rat × Rat)) (i : Nat) (hi : i < lg.length) :
    (locs collar lg).getD (i + 1) 0
      = (locs collar lg).getD i 0 + (lg.getD i (0, 0)).1 * (lg.getD i (0, 0)).2 := by
  unfold locs
  simp only [List.getD_cons_succ]
  rw [cumsumFrom_get _ collar i (by simpa using hi)]
  cases i with
  | zero => simp [List.getD_eq_getElem?_getD, List.getElem?_map]; cases lg <;> simp at hi ⊢
  | succ j =>
    simp only [Nat.succ_ne_zero, ↓reduceIte, Nat.add_sub_cancel, List.getD_cons_succ]
    congr 1
    simp only [List.getD_eq_getElem?_getD, List.getElem?_map]
    rw [List.getElem?_eq_getElem hi]; simp

theorem locs_zero (collar : Rat) (lg : List (Rat × Rat)) : (locs collar lg).getD 0 0 = collar := by
  simp [locs]

/-- counting the entries below `x`: exactly `k` when the first `k` are below and the next is not -/
theorem searchLeft_eq : ∀ (t : List Rat) (x : Rat) (k : Nat), k ≤ t.length →
    (∀ j, j < k → t.getD j 0 < x) → (k < t.length → ¬ t.getD k 0 < x) → searchLeft t x = k
  | [], x, k, hk, _, _ => by simp at hk; simp [searchLeft, hk]
  | a :: as, x, 0, _, _, h2 => by
    have : ¬ a < x := by simpa using h2 (by simp)
    simp [searchLeft, List.takeWhile_cons, this]
  | a :: as, x, k + 1, hk, h1, h2 => by
    have ha : a < x := by simpa using h1 0 (by omega)
    have := searchLeft_eq as x k (by simpa using hk)
      (fun j hj => by simpa using h1 (j + 1) (by omega))
      (fun hl => by simpa using h2 (by simpa using hl))
    simp only [searchLeft] at this ⊢
    simp [List.takeWhile_cons, ha, this]

/-- sortedness in the form used below -/
def Sorted (t : List Rat) : Prop := ∀ i j, i ≤ j → j < t.length → t.getD i 0 ≤ t.getD j 0

/-- inside leg `i` (`t_i < x ≤ t_{i+1}`) the lookup lands on station `i` -/
theorem searchLeft_in_leg (t : List Rat) (hs : Sorted t) (i : Nat) (x : Rat) (hi : i + 1 < t.length)
    (h1 : t.getD i 0 < x) (h2 : x ≤ t.getD (i + 1) 0) : searchLeft t x = i + 1 := by
  apply searchLeft_eq t x (i + 1) (by omega)
  · intro j hj
    have := hs j i (by omega) (by omega)
    linarith
  · intro _ hlt; linarith

/-- **Within a leg the position moves along the leg's deviation**, by exactly the depth
    difference times it (hence by the depth difference itself along a straight leg). -/
theorem desurvey_leg (collar : Rat) (t d : List Rat) (hlen : t.length = d.length) (hs : Sorted t)
    (i : Nat) (a b : Rat) (hi : i + 1 < t.length)
    (ha1 : t.getD i 0 < a) (ha2 : a ≤ t.getD (i + 1) 0)
    (hb1 : t.getD i 0 < b) (hb2 : b ≤ t.getD (i + 1) 0) :
    desurvey collar t d b - desurvey collar t d a = (b - a) * ((legs t d).getD i (0, 0)).2 := by
  unfold desurvey
  rw [searchLeft_in_leg t hs i a hi ha1 ha2, searchLeft_in_leg t hs i b hi hb1 hb2]
  have hl := legs_length t d hlen
  have : min (i + 1 - 1) ((legs t d).length - 1) = i := by rw [hl]; omega
  simp only [Nat.add_sub_cancel, this]
  rw [show min i ((legs t d).length - 1) = i by rw [hl]; omega]
  ring

/-- **At the end of a leg the position is the next station**: the piece used inside leg `i`
    reaches `loc (i+1)` at depth `t (i+1)`; the piece used in leg `i+1` starts there — the path is
    continuous at every station. -/
theorem desurvey_station (collar : Rat) (t d : List Rat) (hlen : t.length = d.length) (hs : Sorted t)
    (i : Nat) (hi : i + 1 < t.length) (hlt : t.getD i 0 < t.getD (i + 1) 0) :
    desurvey collar t d (t.getD (i + 1) 0) = (locs collar (legs t d)).getD (i + 1) 0 := by
  unfold desurvey
  rw [searchLeft_in_leg t hs i _ hi hlt (le_refl _)]
  have hl := legs_length t d hlen
  simp only [Nat.add_sub_cancel]
  rw [show min i ((legs t d).length - 1) = i by rw [hl]; omega]
  rw [locs_succ collar (legs t d) i (by rw [hl]; omega), legs_len t d i hlen hi]

/-- just after station `i` the position is `loc i + (x - t i) * dev i` (right-continuity) -/
theorem desurvey_after_station (collar : Rat) (t d : List Rat) (hlen : t.length = d.length)
    (hs : Sorted t) (i : Nat) (x : Rat) (hi : i + 1 < t.length)
    (h1 : t.getD i 0 < x) (h2 : x ≤ t.getD (i + 1) 0) :
    desurvey collar t d x
      = (locs collar (legs t d)).getD i 0 + (x - t.getD i 0) * ((legs t d).getD i (0, 0)).2 := by
  unfold desurvey
  rw [searchLeft_in_leg t hs i x hi h1 h2]
  have hl := legs_length t d hlen
  simp only [Nat.add_sub_cancel]
  rw [show min i ((legs t d).length - 1) = i by rw [hl]; omega]

/-- **Depth zero is the collar** (the augmented table starts at depth 0). -/
theorem desurvey_zero (collar : Rat) (t d : List Rat) (h0 : t.getD 0 0 = 0) (hne : t ≠ []) :
    desurvey collar t d 0 = collar := by
  unfold desurvey
  have : searchLeft t 0 = 0 := by
    apply searchLeft_eq t 0 0 (by omega)
    · intro j hj; omega
    · intro _; rw [h0]; exact lt_irrefl 0
  simp only [this, Nat.zero_sub, Nat.zero_min, locs_zero, h0]
  ring

/-- **Beyond the final survey the last leg's direction continues.** -/
theorem desurvey_beyond (collar : Rat) (t d : List Rat) (hlen : t.length = d.length) (hs : Sorted t)
    (x : Rat) (h2 : 2 ≤ t.length) (hx : t.getD (t.length - 1) 0 < x) :
    desurvey collar t d x
      = (locs collar (legs t d)).getD (t.length - 1) 0
        + (x - t.getD (t.length - 1) 0) * ((legs t d).getD (t.length - 2) (0, 0)).2 := by
  unfold desurvey
  have : searchLeft t x = t.length := by
    apply searchLeft_eq t x t.length (le_refl _)
    · intro j hj
      have := hs j (t.length - 1) (by omega) (by omega)
      linarith
    · intro h; omega
  have hl := legs_length t d hlen
  simp only [this]
  rw [show min (t.length - 1) ((legs t d).length - 1) = t.length - 2 by rw [hl]; omega]

/-! ### continuity at stations with repeated depths -/

/-- what the lookup guarantees on any table: the entries before the returned position are below `x`, the entry at it
    (if any) is not -/
theorem searchLeft_spec : ∀ (t : List Rat) (x : Rat),
    searchLeft t x ≤ t.length ∧ (∀ j, j < searchLeft t x → t.getD j 0 < x)
      ∧ (searchLeft t x < t.length → ¬ t.getD (searchLeft t x) 0 < x)
  | [], x => by simp [searchLeft]
  | a :: as, x => by
    obtain ⟨h1, h2, h3⟩ := searchLeft_spec as x
    unfold searchLeft at h1 h2 h3 ⊢
    by_cases ha : a < x
    · simp only [List.takeWhile_cons, ha, decide_true, ↓reduceIte, List.length_cons]
      refine ⟨by omega, ?_, ?_⟩
      · intro j hj
        cases j with
        | zero => simpa using ha
        | succ j => simpa using h2 j (by omega)
      · intro hl; simpa using h3 (by omega)
    · simp only [List.takeWhile_cons, ha, decide_false, Bool.false_eq_true, ↓reduceIte, List.length_nil]
      refine ⟨by omega, by intro j hj; omega, ?_⟩
      intro _; simpa using ha

/-- stations at the same depth are at the same position (legs of length zero do not move) -/
theorem locs_const (collar : Rat) (t d : List Rat) (hlen : t.length = d.length) (hs : Sorted t)
    (j : Nat) : ∀ (n : Nat), j + n < t.length → t.getD j 0 = t.getD (j + n) 0 →
      (locs collar (legs t d)).getD j 0 = (locs collar (legs t d)).getD (j + n) 0
  | 0, _, _ => rfl
  | n + 1, hk, heq => by
    have hl := legs_length t d hlen
    have hmid : t.getD j 0 = t.getD (j + n) 0 := by
      have h1 := hs j (j + n) (by omega) (by omega)
      have h2 := hs (j + n) (j + n + 1) (by omega) (by omega)
      rw [← Nat.add_assoc] at heq
      linarith
    have ih := locs_const collar t d hlen hs j n (by omega) hmid
    rw [← Nat.add_assoc, locs_succ collar (legs t d) (j + n) (by rw [hl]; omega),
      legs_len t d (j + n) hlen (by omega), ← ih]
    rw [← Nat.add_assoc] at heq
    rw [← heq, hmid]; ring

/-- the piece of the path that a depth inside the table is computed with: the last station strictly above it in the
    table (`t_i < x ≤ t_{i+1}`), whatever depths are repeated -/
theorem desurvey_piece (collar : Rat) (t d : List Rat) (hlen : t.length = d.length) (hs : Sorted t)
    (x : Rat) (h0 : t.getD 0 0 < x) (hx : x ≤ t.getD (t.length - 1) 0) :
    ∃ i, i + 1 < t.length ∧ t.getD i 0 < x ∧ x ≤ t.getD (i + 1) 0 ∧
      desurvey collar t d x
        = (locs collar (legs t d)).getD i 0 + (x - t.getD i 0) * ((legs t d).getD i (0, 0)).2 := by
  obtain ⟨h1, h2, h3⟩ := searchLeft_spec t x
  have hne : 0 < t.length := by
    rcases Nat.eq_zero_or_pos t.length with h | h
    · have : t = [] := List.eq_nil_of_length_eq_zero h
      subst this; simp at h0 hx; linarith
    · exact h
  have hpos : 0 < searchLeft t x := by
    rcases Nat.eq_zero_or_pos (searchLeft t x) with h | h
    · rw [h] at h3; exact absurd h0 (h3 hne)
    · exact h
  have hlt : searchLeft t x < t.length := by
    rcases Nat.lt_or_ge (searchLeft t x) t.length with h | h
    · exact h
    · have := h2 (t.length - 1) (by omega); linarith
  refine ⟨searchLeft t x - 1, by omega, h2 _ (by omega), ?_, ?_⟩
  · have := h3 hlt
    rw [show searchLeft t x - 1 + 1 = searchLeft t x by omega]; linarith
  · exact desurvey_after_station collar t d hlen hs (searchLeft t x - 1) x (by omega) (h2 _ (by omega))
      (by have := h3 hlt; rw [show searchLeft t x - 1 + 1 = searchLeft t x by omega]; linarith)

/-- **Continuity at every station, repeated depths included**: the position computed for the depth of station `k` is
    station `k`'s position, for every station below the collar depth — the piece arriving at the first station of that
    depth ends there, and stations sharing the depth share the position. -/
theorem desurvey_station_any (collar : Rat) (t d : List Rat) (hlen : t.length = d.length) (hs : Sorted t)
    (k : Nat) (hk : k < t.length) (hpos : t.getD 0 0 < t.getD k 0) :
    desurvey collar t d (t.getD k 0) = (locs collar (legs t d)).getD k 0 := by
  obtain ⟨i, hi, hlo, hhi, hd⟩ := desurvey_piece collar t d hlen hs (t.getD k 0) hpos
    (hs k (t.length - 1) (by omega) (by omega))
  have hl := legs_length t d hlen
  have hik : i + 1 ≤ k := by
    rcases Nat.lt_or_ge i k with h | h
    · exact h
    · have := hs k i h (by omega); linarith
  have heq : t.getD (i + 1) 0 = t.getD k 0 := by
    have := hs (i + 1) k hik hk; linarith
  rw [hd, ← heq]
  have hstep := locs_succ collar (legs t d) i (by rw [hl]; omega)
  rw [legs_len t d i hlen hi] at hstep
  rw [← hstep]
  have := locs_const collar t d hlen hs (i + 1) (k - (i + 1)) (by omega)
    (by rw [show i + 1 + (k - (i + 1)) = k by omega]; exact heq)
  rw [show i + 1 + (k - (i + 1)) = k by omega] at this
  exact this

/-- non-vacuity: a table with a repeated depth meets the hypotheses, and the position at the repeated depth is that
    of the later station too -/
example : Sorted [0, 5, 5, 10] := by
  intro i j hij hj
  have hj' : j < 4 := by simpa using hj
  have : (i = 0 ∨ i = 1 ∨ i = 2 ∨ i = 3) ∧ (j = 0 ∨ j = 1 ∨ j = 2 ∨ j = 3) := by omega
  rcases this with ⟨hi | hi | hi | hi, hj | hj | hj | hj⟩ <;> subst hi <;> subst hj <;> first | omega | decide
example : desurvey 100 [0, 5, 5, 10] [1, 2, 3, 4] 5 = (locs 100 (legs [0, 5, 5, 10] [1, 2, 3, 4])).getD 2 0 := by decide +kernel

/-! ### re-sorting by depth keeps every datum attached -/

theorem invPerm_spec (σ : List Nat) (v : Nat) (hv : v ∈ σ) (h : v < σ.length) :
    σ.getD ((invPerm σ).getD v 0) 0 = v := by
  have hlt : σ.idxOf v < σ.length := List.idxOf_lt_length_iff.mpr hv
  have hv' : (invPerm σ).getD v 0 = σ.idxOf v := by
    simp [invPerm, List.getD_eq_getElem?_getD, List.getElem?_map, List.getElem?_range h]
  rw [hv']
  simp [List.getD_eq_getElem?_getD, List.getElem?_eq_getElem hlt]

/-- **Re-sorting keeps every cell on the same positions**: with vertices (and depths, values)
    re-ordered by any permutation `σ` of `0..n-1` and cell indices mapped through its inverse
    (`np.argsort(sort_ind)[cells]`), vertex `v` of a cell is found again at its new index. -/
theorem sort_cells_coords {α} [Inhabited α] (σ : List Nat) (xs : List α) (v : Nat)
    (hperm : ∀ u, u < σ.length → u ∈ σ) (hv : v < σ.length) :
    (applyPerm σ xs).getD ((invPerm σ).getD v 0) default = xs.getD v default := by
  have hmem := hperm v hv
  have hlt : σ.idxOf v < σ.length := List.idxOf_lt_length_iff.mpr hmem
  have hv' : (invPerm σ).getD v 0 = σ.idxOf v := by
    simp [invPerm, List.getD_eq_getElem?_getD, List.getElem?_map, List.getElem?_range hv]
  rw [hv']
  simp [applyPerm, List.getD_eq_getElem?_getD, List.getElem?_map, List.getElem?_eq_getElem hlt]

end GeoVerif.Survey

/-!
# C18, second half — values stay attached to their depth when logs are added

Model `Depths` (Model/Depths.lean): `validate_depth_data` + `match_values`/`merge_arrays` + `sort_depths` for holes that
carry depth logs.  `addCall_attached`: after one `add_data` call with any number of logs, every sample of every log sits
at a vertex whose depth is the sample's; `addCall_keeps`: what was attached before still is; `sortBy_att`: for ANY
permutation of the vertices, not only the sorting one.
-/
namespace GeoVerif.Depths

theorem place_length (eps : Rat) (depth : List Rat) : ∀ (s : List (Rat × Option Rat)) (acc : Col),
    (place eps depth s acc).1.length = acc.length
  | [], acc => rfl
  | (b, v) :: rest, acc => by
    simp only [place]
    split
    · simp [place_length eps depth rest, setAt]
    · simp [place_length eps depth rest]

theorem place_unmatched (eps : Rat) (depth : List Rat) : ∀ (s : List (Rat × Option Rat)) (acc : Col),
    (place eps depth s acc).2 = s.filter fun x => (matchOne eps depth x.1).isNone
  | [], acc => rfl
  | (b, v) :: rest, acc => by
    simp only [place]
    split
    · rename_i i h
      simp [place_unmatched eps depth rest, h]
    · rename_i h
      simp [place_unmatched eps depth rest, h]

/-- a position no sample is matched to keeps what it held -/
theorem place_other (eps : Rat) (depth : List Rat) (i : Nat) : ∀ (s : List (Rat × Option Rat)) (acc : Col),
    (∀ x ∈ s, matchOne eps depth x.1 ≠ some i) → (place eps depth s acc).1.getD i none = acc.getD i none
  | [], acc, _ => rfl
  | (b, v) :: rest, acc, h => by
    have hr : ∀ x ∈ rest, matchOne eps depth x.1 ≠ some i := fun x hx => h x (List.mem_cons_of_mem _ hx)
    have hb : matchOne eps depth b ≠ some i := h (b, v) (List.mem_cons_self ..)
    simp only [place]
    split
    · rename_i k hk
      rw [place_other eps depth i rest _ hr]
      have : k ≠ i := fun e => hb (by rw [hk, e])
      simp [setAt, List.getD_eq_getElem?_getD, List.getElem?_set, this]
    · rw [place_other eps depth i rest _ hr]

/-- the sample matched to a vertex that no later sample is matched to is what the column holds there -/
theorem place_matched (eps : Rat) (depth : List Rat) (i : Nat) : ∀ (s : List (Rat × Option Rat)) (acc : Col) (b : Rat) (v : Option Rat),
    i < acc.length → (b, v) ∈ s → matchOne eps depth b = some i →
    (∀ x ∈ s, x ≠ (b, v) → matchOne eps depth x.1 ≠ some i) →
    (place eps depth s acc).1.getD i none = v
  | [], _, _, _, _, hm, _, _ => by simp at hm
  | (b', v') :: rest, acc, b, v, hi, hm, hmatch, huniq => by
    simp only [place]
    by_cases heq : (b', v') = (b, v)
    · cases heq
      simp only [hmatch]
      by_cases hin : (b', v') ∈ rest
      · exact place_matched eps depth i rest _ b' v' (by simpa [setAt] using hi) hin hmatch
          (fun x hx hne => huniq x (List.mem_cons_of_mem _ hx) hne)
      · rw [place_other eps depth i rest _ (fun x hx => huniq x (List.mem_cons_of_mem _ hx) (fun e => hin (e ▸ hx)))]
        simp [setAt, List.getD_eq_getElem?_getD, List.getElem?_set, hi]
    · have hin : (b, v) ∈ rest := by
        rcases List.mem_cons.mp hm with h | h
        · exact absurd h.symm heq
        · exact h
      have hne : matchOne eps depth b' ≠ some i := huniq (b', v') (List.mem_cons_self ..) heq
      split
      · rename_i k hk
        exact place_matched eps depth i rest _ b v (by simpa [setAt] using hi) hin hmatch
          (fun x hx hne => huniq x (List.mem_cons_of_mem _ hx) hne)
      · exact place_matched eps depth i rest _ b v hi hin hmatch
          (fun x hx hne => huniq x (List.mem_cons_of_mem _ hx) hne)

theorem absR_zero : absR 0 = 0 := by decide

theorem matchOne_some (eps : Rat) (depth : List Rat) (b : Rat) (i : Nat) (h : matchOne eps depth b = some i) :
    i < depth.length ∧ absR (depth.getD i 0 - b) < eps := by
  unfold matchOne at h
  obtain ⟨hi, hp⟩ := List.findIdx?_eq_some_iff_getElem.mp h
  refine ⟨hi, ?_⟩
  have := hp.1
  simpa [List.getD_eq_getElem?_getD, List.getElem?_eq_getElem hi] using this

/-- no two samples of a log are matched to the same vertex -/
def NoClash (eps : Rat) (depth : List Rat) (s : List (Rat × Option Rat)) : Prop :=
  ∀ x ∈ s, ∀ y ∈ s, x ≠ y → ∀ i, matchOne eps depth x.1 = some i → matchOne eps depth y.1 ≠ some i

/-- `(b, v)` is attached: some vertex has a depth within `eps` of `b` and the column holds `v` there -/
def Att (eps : Rat) (depth : List Rat) (col : Col) (b : Rat) (v : Option Rat) : Prop :=
  ∃ k, k < depth.length ∧ absR (depth.getD k 0 - b) < eps ∧ (pad depth.length col).getD k none = v

theorem pad_getD (n : Nat) (c : Col) (k : Nat) : (pad n c).getD k none = c.getD k none := by
  simp only [pad, List.getD_eq_getElem?_getD, List.getElem?_append]
  split
  · rfl
  · rename_i h
    simp only [List.getElem?_replicate]
    split <;> simp [List.getElem?_eq_none (Nat.le_of_not_lt h)]

/-- **every sample of a log is attached to a vertex at its depth** by `validate_depth_data` -/
theorem addLog_attached (eps : Rat) (heps : 0 < eps) (h : Hole) (name : String) (s : List (Rat × Option Rat))
    (hc : NoClash eps h.depth s) (b : Rat) (v : Option Rat) (hm : (b, v) ∈ s) :
    ∃ col, (addLog eps h name s).cols = h.cols ++ [(name, col)] ∧ Att eps (addLog eps h name s).depth col b v := by
  have hun := place_unmatched eps h.depth s (List.replicate h.depth.length none)
  have hlen := place_length eps h.depth s (List.replicate h.depth.length none)
  simp only [List.length_replicate] at hlen
  refine ⟨_, rfl, ?_⟩
  simp only [addLog, Att, pad_getD]
  cases hmo : matchOne eps h.depth b with
  | some i =>
    obtain ⟨hi, hd⟩ := matchOne_some eps h.depth b i hmo
    refine ⟨i, by simp; omega, ?_, ?_⟩
    · simpa [List.getD_eq_getElem?_getD, List.getElem?_append, hi] using hd
    · have := place_matched eps h.depth i s (List.replicate h.depth.length none) b v (by simpa using hi) hm hmo
        (fun x hx hne => hc (b, v) hm x hx (Ne.symm hne) i hmo |> fun f => f)
      simpa [List.getD_eq_getElem?_getD, List.getElem?_append, hlen, hi] using this
  | none =>
    have hin : (b, v) ∈ (place eps h.depth s (List.replicate h.depth.length none)).2 := by
      rw [hun]; simp [hm, hmo]
    obtain ⟨j, hj, hjv⟩ := List.getElem_of_mem hin
    refine ⟨h.depth.length + j, by simp; omega, ?_, ?_⟩
    · have hz : b - b = 0 := by grind
      simp [List.getD_eq_getElem?_getD, List.getElem?_append, hj, hjv, hz, absR_zero, heps]
    · simp [List.getD_eq_getElem?_getD, List.getElem?_append, hlen, hj, hjv]

/-- what was attached before stays attached when another log is added (old vertices keep their depth, old columns their values) -/
theorem addLog_keeps (eps : Rat) (h : Hole) (name : String) (s : List (Rat × Option Rat)) (col : Col) (b : Rat) (v : Option Rat)
    (ha : Att eps h.depth col b v) : Att eps (addLog eps h name s).depth col b v := by
  obtain ⟨k, hk, hd, hv⟩ := ha
  refine ⟨k, by simp [addLog]; omega, ?_, ?_⟩
  · simpa [addLog, List.getD_eq_getElem?_getD, List.getElem?_append, hk] using hd
  · rw [pad_getD] at hv ⊢; exact hv

theorem applyPerm_getD {α} (σ : List Nat) (xs : List α) (d : α) (k : Nat) (hk : k < σ.length) :
    (applyPerm σ xs d).getD k d = xs.getD (σ.getD k 0) d := by
  simp [applyPerm, List.getD_eq_getElem?_getD, List.getElem?_map, List.getElem?_eq_getElem hk]

/-- **sorting keeps every value at its depth**: `sort_depths` applies one permutation to the record and to every column -/
theorem sortBy_att (eps : Rat) (σ : List Nat) (depth : List Rat) (col : Col) (b : Rat) (v : Option Rat)
    (hσ : σ.Perm (List.range depth.length)) (ha : Att eps depth col b v) :
    Att eps (applyPerm σ depth 0) (applyPerm σ (pad depth.length col) none) b v := by
  obtain ⟨k, hk, hd, hv⟩ := ha
  have hmem : k ∈ σ := hσ.mem_iff.mpr (List.mem_range.mpr hk)
  obtain ⟨j, hj, hjk⟩ := List.getElem_of_mem hmem
  have hlen : σ.length = depth.length := by simpa using hσ.length_eq
  have hσj : σ.getD j 0 = k := by simp [List.getD_eq_getElem?_getD, List.getElem?_eq_getElem hj, hjk]
  refine ⟨j, by simp [applyPerm]; exact hj, ?_, ?_⟩
  · rw [applyPerm_getD σ depth 0 j hj, hσj]; exact hd
  · rw [pad_getD, applyPerm_getD σ _ none j hj, hσj]; exact hv

theorem insertBy_perm (depth : List Rat) (i : Nat) : ∀ l : List Nat, (insertBy depth i l).Perm (i :: l)
  | [] => List.Perm.refl _
  | j :: js => by
    simp only [insertBy]
    split
    · exact List.Perm.refl _
    · exact ((insertBy_perm depth i js).cons j).trans (List.Perm.swap i j js)

theorem argsort_perm (depth : List Rat) : (argsort depth).Perm (List.range depth.length) := by
  unfold argsort
  generalize List.range depth.length = l
  induction l with
  | nil => exact List.Perm.refl _
  | cons x xs ih => exact (insertBy_perm depth x _).trans (ih.cons x)

abbrev Log := String × List (Rat × Option Rat)

def addLogs (eps : Rat) (h : Hole) (logs : List Log) : Hole := logs.foldl (fun s l => addLog eps s l.1 l.2) h

/-- the logs of one call can be taken one after the other: within a log no two samples go to the same vertex -/
def CallOk (eps : Rat) : Hole → List Log → Prop
  | _, [] => True
  | h, l :: rest => NoClash eps h.depth l.2 ∧ CallOk eps (addLog eps h l.1 l.2) rest

theorem addLogs_keeps (eps : Rat) : ∀ (logs : List Log) (h : Hole) (name : String) (col : Col) (b : Rat) (v : Option Rat),
    (name, col) ∈ h.cols → Att eps h.depth col b v →
    (name, col) ∈ (addLogs eps h logs).cols ∧ Att eps (addLogs eps h logs).depth col b v
  | [], _, _, _, _, _, hm, ha => ⟨hm, ha⟩
  | l :: rest, h, name, col, b, v, hm, ha => by
    simp only [addLogs, List.foldl_cons]
    exact addLogs_keeps eps rest (addLog eps h l.1 l.2) name col b v
      (by simp only [addLog, List.mem_append]; left; exact hm) (addLog_keeps eps h l.1 l.2 col b v ha)

theorem addLogs_attached (eps : Rat) (heps : 0 < eps) : ∀ (logs : List Log) (h : Hole), CallOk eps h logs →
    ∀ l ∈ logs, ∀ b v, (b, v) ∈ l.2 →
    ∃ col, (l.1, col) ∈ (addLogs eps h logs).cols ∧ Att eps (addLogs eps h logs).depth col b v
  | [], _, _, l, hl, _, _, _ => by simp at hl
  | l0 :: rest, h, hok, l, hl, b, v, hm => by
    obtain ⟨hc, hrest⟩ := hok
    simp only [addLogs, List.foldl_cons]
    rcases List.mem_cons.mp hl with rfl | hl
    · obtain ⟨col, hcols, ha⟩ := addLog_attached eps heps h l.1 l.2 hc b v hm
      exact ⟨col, addLogs_keeps eps rest _ l.1 col b v (by rw [hcols]; simp) ha⟩
    · exact addLogs_attached eps heps rest _ hrest l hl b v hm

/-- **C18, data additions.**  After one `add_data` call with any number of depth logs (in any order, sampled at new or at
    existing depths), every sample of every log sits at a vertex whose depth is the sample's (within the collocation
    distance) — through the matching, the appending of new vertices and the final sort. -/
theorem addCall_attached (eps : Rat) (heps : 0 < eps) (h : Hole) (logs : List Log) (hok : CallOk eps h logs)
    (l : Log) (hl : l ∈ logs) (b : Rat) (v : Option Rat) (hm : (b, v) ∈ l.2) :
    ∃ col, (l.1, col) ∈ (addCall eps h logs).cols ∧ Att eps (addCall eps h logs).depth col b v := by
  obtain ⟨col, hmem, ha⟩ := addLogs_attached eps heps logs h hok l hl b v hm
  refine ⟨applyPerm (argsort (addLogs eps h logs).depth) (pad (addLogs eps h logs).depth.length col) none, ?_, ?_⟩
  · simp only [addCall, sortDepths, sortBy, List.mem_map]
    exact ⟨(l.1, col), hmem, rfl⟩
  · exact sortBy_att eps _ _ col b v (argsort_perm _) ha

/-- what the hole held before the call is still attached after it -/
theorem addCall_keeps (eps : Rat) (h : Hole) (logs : List Log) (name : String) (col : Col) (b : Rat) (v : Option Rat)
    (hm : (name, col) ∈ h.cols) (ha : Att eps h.depth col b v) :
    ∃ col', (name, col') ∈ (addCall eps h logs).cols ∧ Att eps (addCall eps h logs).depth col' b v := by
  obtain ⟨hmem, ha'⟩ := addLogs_keeps eps logs h name col b v hm ha
  refine ⟨applyPerm (argsort (addLogs eps h logs).depth) (pad (addLogs eps h logs).depth.length col) none, ?_, ?_⟩
  · simp only [addCall, sortDepths, sortBy, List.mem_map]
    exact ⟨(name, col), hmem, rfl⟩
  · exact sortBy_att eps _ _ col b v (argsort_perm _) ha'

/-! ### non-vacuity: a call with two logs, the second sampled at an existing depth and given in descending order -/
def exHole : Hole := { depth := [10, 20], cols := [("A", [some 1, some 2])] }
def exLogs : List Log := [("B", [(30, some 7), (5, some 8)]), ("C", [(30, some 9), (10, none), (15, some 4)])]
/-- executable form of `NoClash` -/
def noClashB (eps : Rat) (depth : List Rat) (s : List (Rat × Option Rat)) : Bool :=
  s.all fun x => s.all fun y => x == y || (match matchOne eps depth x.1 with
    | some i => matchOne eps depth y.1 != some i
    | none => true)

theorem noClash_of_bool (eps : Rat) (depth : List Rat) (s : List (Rat × Option Rat)) (h : noClashB eps depth s = true) :
    NoClash eps depth s := by
  intro x hx y hy hne i hi
  have := List.all_eq_true.mp (List.all_eq_true.mp h x hx) y hy
  simp only [hi, Bool.or_eq_true, beq_iff_eq, bne_iff_ne, ne_eq] at this
  rcases this with h | h
  · exact absurd h hne
  · exact h

example : CallOk (1/10000) exHole exLogs :=
  ⟨noClash_of_bool _ _ _ (by decide +kernel), noClash_of_bool _ _ _ (by decide +kernel), trivial⟩
example : (addCall (1/10000) exHole exLogs).depth = [5, 10, 15, 20, 30] := by decide +kernel
example : (addCall (1/10000) exHole exLogs).cols.lookup "C" = some [none, none, some 4, none, some 9] := by decide +kernel
example : (addCall (1/10000) exHole exLogs).cols.lookup "A" = some [none, some 1, none, some 2, none] := by decide +kernel

end GeoVerif.Depths
