import GeoVerif.Model.Survey
import Mathlib.Tactic.Ring
import Mathlib.Tactic.Linarith
import Mathlib.Tactic.FieldSimp
import Mathlib.Algebra.Order.Field.Rat

/-!
# C18 — drillhole positions follow the survey
-/
namespace GeoVerif.Survey

/-- deviation of a leg with distinct end depths is the mean of its two station directions -/
theorem dev_mean (t0 t1 d0 d1 : Rat) (h : t1 - t0 ≠ 0) :
    d0 + (t1 - t0) * ((d1 - d0) / (t1 - t0)) / 2 = (d0 + d1) / 2 := by
  field_simp; ring

/-- where the two station directions coincide the leg follows that direction -/
theorem dev_straight (t0 t1 d0 : Rat) :
    (if t1 - t0 = 0 then d0 else d0 + (t1 - t0) * ((d0 - d0) / (t1 - t0)) / 2) = d0 := by
  split
  · rfl
  · simp

theorem legs_length : ∀ (t d : List Rat), t.length = d.length → (legs t d).length = t.length - 1
  | [], _, _ => by simp [legs]
  | [_], [_], _ => by simp [legs]
  | [_], [], h => by simp at h
  | [_], _ :: _ :: _, h => by simp at h
  | _ :: _ :: _, [], h => by simp at h
  | _ :: _ :: _, [_], h => by simp at h
  | t0 :: t1 :: ts, d0 :: d1 :: ds, h => by
    have := legs_length (t1 :: ts) (d1 :: ds) (by simpa using h)
    simp only [legs, List.length_cons] at this ⊢; omega

/-- the length of leg `i` is the depth difference of its two stations -/
theorem legs_len : ∀ (t d : List Rat) (i : Nat), t.length = d.length → i + 1 < t.length →
    ((legs t d).getD i (0, 0)).1 = t.getD (i + 1) 0 - t.getD i 0
  | [], _, i, _, h => by simp at h
  | [_], _, i, _, h => by simp at h
  | _ :: _ :: _, [], _, h, _ => by simp at h
  | _ :: _ :: _, [_], _, h, _ => by simp at h
  | t0 :: t1 :: ts, d0 :: d1 :: ds, 0, _, _ => by simp [legs]
  | t0 :: t1 :: ts, d0 :: d1 :: ds, i + 1, h, hi => by
    have := legs_len (t1 :: ts) (d1 :: ds) i (by simpa using h) (by simpa using hi)
    simpa [legs] using this

theorem cumsumFrom_get : ∀ (l : List Rat) (acc : Rat) (i : Nat), i < l.length →
    (cumsumFrom acc l).getD i 0 = (if i = 0 then acc else (cumsumFrom acc l).getD (i - 1) 0) + l.getD i 0
  | [], _, i, h => by simp at h
  | x :: xs, acc, 0, _ => by simp [cumsumFrom]
  | x :: xs, acc, i + 1, h => by
    have := cumsumFrom_get xs (acc + x) i (by simpa using h)
    simp only [cumsumFrom, List.getD_cons_succ, Nat.add_sub_cancel, Nat.succ_ne_zero, ↓reduceIte]
    rw [this]
    cases i with
    | zero => simp [cumsumFrom]
    | succ j => simp

/-- **the path is the running sum of leg length × leg deviation** -/
theorem locs_succ (collar : Rat) (lg : List (Rat × Rat)) (i : Nat) (hi : i < lg.length) :
    (locs collar lg).getD (i + 1) 0
      = (locs collar lg).getD i 0 + (lg.getD i (0, 0)).1 * (lg.getD i (0, 0)).2 := by
  unfold locs
  simp only [List.getD_cons_succ]
  rw [cumsumFrom_get _ collar i (by simpa using hi)]
  cases i with
  | zero => simp [List.getD_eq_getElem?_getD, List.getElem?_map]; cases lg <;> simp at hi ⊢
  | succ j =>
    simp only [Nat.succ_ne_zero, ↓reduceIte, Nat.add_sub_cancel, List.getD_cons_succ]
    congr 1
    simp only [List.getD_eq_getElem?_getD, List.getElem?_map]
    rw [List.getElem?_eq_getElem hi]; simp

theorem locs_zero (collar : Rat) (lg : List (Rat × Rat)) : (locs collar lg).getD 0 0 = collar := by
  simp [locs]

/-- counting the entries below `x`: exactly `k` when the first `k` are below and the next is not -/
theorem searchLeft_eq : ∀ (t : List Rat) (x : Rat) (k : Nat), k ≤ t.length →
    (∀ j, j < k → t.getD j 0 < x) → (k < t.length → ¬ t.getD k 0 < x) → searchLeft t x = k
  | [], x, k, hk, _, _ => by simp at hk; simp [searchLeft, hk]
  | a :: as, x, 0, _, _, h2 => by
    have : ¬ a < x := by simpa using h2 (by simp)
    simp [searchLeft, List.takeWhile_cons, this]
  | a :: as, x, k + 1, hk, h1, h2 => by
    have ha : a < x := by simpa using h1 0 (by omega)
    have := searchLeft_eq as x k (by simpa using hk)
      (fun j hj => by simpa using h1 (j + 1) (by omega))
      (fun hl => by simpa using h2 (by simpa using hl))
    simp only [searchLeft] at this ⊢
    simp [List.takeWhile_cons, ha, this]

/-- sortedness in the form used below -/
def Sorted (t : List Rat) : Prop := ∀ i j, i ≤ j → j < t.length → t.getD i 0 ≤ t.getD j 0

/-- inside leg `i` (`t_i < x ≤ t_{i+1}`) the lookup lands on station `i` -/
theorem searchLeft_in_leg (t : List Rat) (hs : Sorted t) (i : Nat) (x : Rat) (hi : i + 1 < t.length)
    (h1 : t.getD i 0 < x) (h2 : x ≤ t.getD (i + 1) 0) : searchLeft t x = i + 1 := by
  apply searchLeft_eq t x (i + 1) (by omega)
  · intro j hj
    have := hs j i (by omega) (by omega)
    linarith
  · intro _ hlt; linarith

/-- **Within a leg the position moves along the leg's deviation**, by exactly the depth
    difference times it (hence by the depth difference itself along a straight leg). -/
theorem desurvey_leg (collar : Rat) (t d : List Rat) (hlen : t.length = d.length) (hs : Sorted t)
    (i : Nat) (a b : Rat) (hi : i + 1 < t.length)
    (ha1 : t.getD i 0 < a) (ha2 : a ≤ t.getD (i + 1) 0)
    (hb1 : t.getD i 0 < b) (hb2 : b ≤ t.getD (i + 1) 0) :
    desurvey collar t d b - desurvey collar t d a = (b - a) * ((legs t d).getD i (0, 0)).2 := by
  unfold desurvey
  rw [searchLeft_in_leg t hs i a hi ha1 ha2, searchLeft_in_leg t hs i b hi hb1 hb2]
  have hl := legs_length t d hlen
  have : min (i + 1 - 1) ((legs t d).length - 1) = i := by rw [hl]; omega
  simp only [Nat.add_sub_cancel, this]
  rw [show min i ((legs t d).length - 1) = i by rw [hl]; omega]
  ring

/-- **At the end of a leg the position is the next station**: the piece used inside leg `i`
    reaches `loc (i+1)` at depth `t (i+1)`; the piece used in leg `i+1` starts there — the path is
    continuous at every station. -/
theorem desurvey_station (collar : Rat) (t d : List Rat) (hlen : t.length = d.length) (hs : Sorted t)
    (i : Nat) (hi : i + 1 < t.length) (hlt : t.getD i 0 < t.getD (i + 1) 0) :
    desurvey collar t d (t.getD (i + 1) 0) = (locs collar (legs t d)).getD (i + 1) 0 := by
  unfold desurvey
  rw [searchLeft_in_leg t hs i _ hi hlt (le_refl _)]
  have hl := legs_length t d hlen
  simp only [Nat.add_sub_cancel]
  rw [show min i ((legs t d).length - 1) = i by rw [hl]; omega]
  rw [locs_succ collar (legs t d) i (by rw [hl]; omega), legs_len t d i hlen hi]

/-- just after station `i` the position is `loc i + (x - t i) * dev i` (right-continuity) -/
theorem desurvey_after_station (collar : Rat) (t d : List Rat) (hlen : t.length = d.length)
    (hs : Sorted t) (i : Nat) (x : Rat) (hi : i + 1 < t.length)
    (h1 : t.getD i 0 < x) (h2 : x ≤ t.getD (i + 1) 0) :
    desurvey collar t d x
      = (locs collar (legs t d)).getD i 0 + (x - t.getD i 0) * ((legs t d).getD i (0, 0)).2 := by
  unfold desurvey
  rw [searchLeft_in_leg t hs i x hi h1 h2]
  have hl := legs_length t d hlen
  simp only [Nat.add_sub_cancel]
  rw [show min i ((legs t d).length - 1) = i by rw [hl]; omega]

/-- **Depth zero is the collar** (the augmented table starts at depth 0). -/
theorem desurvey_zero (collar : Rat) (t d : List Rat) (h0 : t.getD 0 0 = 0) (hne : t ≠ []) :
    desurvey collar t d 0 = collar := by
  unfold desurvey
  have : searchLeft t 0 = 0 := by
    apply searchLeft_eq t 0 0 (by omega)
    · intro j hj; omega
    · intro _; rw [h0]; exact lt_irrefl 0
  simp only [this, Nat.zero_sub, Nat.zero_min, locs_zero, h0]
  ring

/-- **Beyond the final survey the last leg's direction continues.** -/
theorem desurvey_beyond (collar : Rat) (t d : List Rat) (hlen : t.length = d.length) (hs : Sorted t)
    (x : Rat) (h2 : 2 ≤ t.length) (hx : t.getD (t.length - 1) 0 < x) :
    desurvey collar t d x
      = (locs collar (legs t d)).getD (t.length - 1) 0
        + (x - t.getD (t.length - 1) 0) * ((legs t d).getD (t.length - 2) (0, 0)).2 := by
  unfold desurvey
  have : searchLeft t x = t.length := by
    apply searchLeft_eq t x t.length (le_refl _)
    · intro j hj
      have := hs j (t.length - 1) (by omega) (by omega)
      linarith
    · intro h; omega
  have hl := legs_length t d hlen
  simp only [this]
  rw [show min (t.length - 1) ((legs t d).length - 1) = t.length - 2 by rw [hl]; omega]

/-! ### re-sorting by depth keeps every datum attached -/

theorem invPerm_spec (σ : List Nat) (v : Nat) (hv : v ∈ σ) (h : v < σ.length) :
    σ.getD ((invPerm σ).getD v 0) 0 = v := by
  have hlt : σ.idxOf v < σ.length := List.idxOf_lt_length_iff.mpr hv
  have hv' : (invPerm σ).getD v 0 = σ.idxOf v := by
    simp [invPerm, List.getD_eq_getElem?_getD, List.getElem?_map, List.getElem?_range h]
  rw [hv']
  simp [List.getD_eq_getElem?_getD, List.getElem?_eq_getElem hlt]

/-- **Re-sorting keeps every cell on the same positions**: with vertices (and depths, values)
    re-ordered by any permutation `σ` of `0..n-1` and cell indices mapped through its inverse
    (`np.argsort(sort_ind)[cells]`), vertex `v` of a cell is found again at its new index. -/
theorem sort_cells_coords {α} [Inhabited α] (σ : List Nat) (xs : List α) (v : Nat)
    (hperm : ∀ u, u < σ.length → u ∈ σ) (hv : v < σ.length) :
    (applyPerm σ xs).getD ((invPerm σ).getD v 0) default = xs.getD v default := by
  have hmem := hperm v hv
  have hlt : σ.idxOf v < σ.length := List.idxOf_lt_length_iff.mpr hmem
  have hv' : (invPerm σ).getD v 0 = σ.idxOf v := by
    simp [invPerm, List.getD_eq_getElem?_getD, List.getElem?_map, List.getElem?_range hv]
  rw [hv']
  simp [applyPerm, List.getD_eq_getElem?_getD, List.getElem?_map, List.getElem?_eq_getElem hlt]

end GeoVerif.Survey
