import GeoVerif.Props.C09

/-!
# C12 — a copy equals its source and never disturbs it
-/
namespace GeoVerif.Ws

/-- renaming identifiers keeps class, type, name, flags, attributes and arrays -/
theorem renameEnt_same (m : List (Nat × Nat)) (e : Ent) :
    (renameEnt m e).cls = e.cls ∧ (renameEnt m e).typ = e.typ ∧ (renameEnt m e).name = e.name
    ∧ (renameEnt m e).kind = e.kind ∧ (renameEnt m e).attrs = e.attrs ∧ (renameEnt m e).dsets = e.dsets
    ∧ (renameEnt m e).allowDelete = e.allowDelete :=
  ⟨rfl, rfl, rfl, rfl, rfl, rfl, rfl⟩

/-- property groups of the copy reference the copied children: same names, member identifiers
    mapped through the same map as the entities -/
theorem renameEnt_pgs (m : List (Nat × Nat)) (e : Ent) :
    (renameEnt m e).pgs.map (·.name) = e.pgs.map (·.name)
    ∧ (renameEnt m e).pgs.map (·.props) = e.pgs.map (fun g => g.props.map fun u => (m.lookup u).getD u) := by
  simp [renameEnt, List.map_map, Function.comp_def]

mutual
/-- **The copy reproduces the whole subtree**: entity by entity, in the same order, the copy's
    entities are the source's with identifiers renamed. -/
theorem copy_subtree (f : Ent → Ent) : ∀ (t : Tree), (t.mapEnts f).subs.map (·.ent) = t.subs.map (fun s => f s.ent)
  | .node e ks => by
    simp only [Tree.mapEnts, subs_node, List.map_cons]
    exact congrArg (f e :: ·) (copy_subtreeL f ks)
theorem copy_subtreeL (f : Ent → Ent) : ∀ (ts : List Tree),
    (subsL (mapEntsL f ts)).map (·.ent) = (subsL ts).map (fun s => f s.ent)
  | [] => by simp [mapEntsL]
  | t :: ts => by simp [mapEntsL, copy_subtree f t, copy_subtreeL f ts]
end

/-- the copy has as many entities as the source -/
theorem copy_size (f : Ent → Ent) (t : Tree) : (t.mapEnts f).subs.length = t.subs.length := by
  have := congrArg List.length (copy_subtree f t)
  simpa using this

/-- **The source is not disturbed**: every stored node other than the target parent's is, after
    the copy, exactly what it was (the source entity, its children, everything else). -/
theorem copy_frame (t : Tree) (u p : Nat) (m : List (Nat × Nat)) (n : Node)
    (hn : n ∈ (fileOf t).nodes) (hp : n.ent.uid ≠ p) : n ∈ (fileOf (step t (.copy u p m)).1).nodes := by
  simp only [step]
  cases hf : t.findSub u with
  | none => exact hn
  | some s =>
    simp only
    split
    · exact hn
    · split
      · exact hn
      · exact insert_frame _ t p n hn hp

/-- later edits of the copy do not show through in the source: an assignment to an entity of the
    copy leaves every other node — in particular all source nodes — unchanged -/
theorem edit_copy_frame (t : Tree) (u : Nat) (k v : String) (n : Node)
    (hn : n ∈ (fileOf (step t (.setDset u k v)).1).nodes) (hu : n.ent.uid ≠ u) : n ∈ (fileOf t).nodes :=
  setDset_frame t u k v n hn hu

example : ((step exTree (.copy 3 1 [(3, 30), (4, 40)])).1.findSub 30).map (·.uids) = some [30, 40] := by decide
example : ((step exTree (.copy 3 1 [(3, 30), (4, 40)])).1.findSub 3) = exTree.findSub 3 := by rfl

end GeoVerif.Ws
