import GeoVerif.Model.Grid
import Mathlib.Tactic.Ring
import Mathlib.Tactic.Linarith
import Mathlib.Algebra.Order.Field.Rat

/-!
# C17 — derived geometry follows the format's indexing conventions
-/
namespace GeoVerif.Grid

/-- indexing a `flatMap` whose pieces all have length `n` -/
theorem flatMap_const_get {α β : Type} (f : α → List β) (n : Nat) :
    ∀ (xs : List α), (∀ x ∈ xs, (f x).length = n) → ∀ (j i : Nat), i < n →
      (xs.flatMap f)[j * n + i]? = xs[j]?.bind fun x => (f x)[i]? := by
  intro xs
  induction xs with
  | nil => intro _ j i _; simp
  | cons x xs ih =>
    intro h j i hi
    have hx : (f x).length = n := h x List.mem_cons_self
    simp only [List.flatMap_cons]
    cases j with
    | zero =>
      simp only [Nat.zero_mul, Nat.zero_add, List.getElem?_cons_zero, Option.bind_some]
      exact List.getElem?_append_left (by omega)
    | succ j' =>
      have e : (j' + 1) * n + i = (f x).length + (j' * n + i) := by rw [Nat.succ_mul, hx]; omega
      rw [e, List.getElem?_append_right (by omega)]
      simp only [Nat.add_sub_cancel_left, List.getElem?_cons_succ]
      exact ih (fun y hy => h y (List.mem_cons_of_mem _ hy)) j' i hi

theorem flatMap_const_length {α β : Type} (f : α → List β) (n : Nat) :
    ∀ (xs : List α), (∀ x ∈ xs, (f x).length = n) → (xs.flatMap f).length = xs.length * n := by
  intro xs
  induction xs with
  | nil => intro _; simp
  | cons x xs ih =>
    intro h
    simp only [List.flatMap_cons, List.length_append, List.length_cons,
      ih (fun y hy => h y (List.mem_cons_of_mem _ hy)), h x List.mem_cons_self]
    rw [Nat.succ_mul]; omega

/-- **Block model**: cell (i, j, k) is at index `k + i*nZ + j*nU*nZ`. -/
theorem block_index (cu cv cz : List Rat) (i j k : Nat)
    (hi : i < cu.length) (hj : j < cv.length) (hk : k < cz.length) :
    (blockLocal cu cv cz)[k + i * cz.length + j * cu.length * cz.length]?
      = some (cu[i], cv[j], cz[k]) := by
  unfold blockLocal
  have hinner : ∀ u ∈ cu, (cz.map fun z => (u, (cv[j]), z)).length = cz.length := by simp
  have hmid : ∀ v ∈ cv, (cu.flatMap fun u => cz.map fun z => (u, v, z)).length
      = cu.length * cz.length := by
    intro v _
    exact flatMap_const_length _ cz.length cu (by simp)
  have e : k + i * cz.length + j * cu.length * cz.length
      = j * (cu.length * cz.length) + (i * cz.length + k) := by
    rw [Nat.mul_assoc]; omega
  have hlt : i * cz.length + k < cu.length * cz.length := by
    have : (i + 1) * cz.length ≤ cu.length * cz.length := Nat.mul_le_mul_right _ hi
    rw [Nat.succ_mul] at this; omega
  rw [e, flatMap_const_get _ (cu.length * cz.length) cv hmid j _ hlt]
  simp only [List.getElem?_eq_getElem hj, Option.bind_some]
  rw [flatMap_const_get _ cz.length cu (by simp) i k hk]
  simp [List.getElem?_eq_getElem hi, List.getElem?_eq_getElem hk]

/-- the number of centres equals the number of cells -/
theorem block_count (cu cv cz : List Rat) :
    (blockLocal cu cv cz).length = cv.length * (cu.length * cz.length) := by
  unfold blockLocal
  apply flatMap_const_length
  intro v _
  exact flatMap_const_length _ cz.length cu (by simp)

/-- **2-D grid**: cell (i, j) is at index `i + j*nU`. -/
theorem grid2d_index (cu cv : List Rat) (i j : Nat) (hi : i < cu.length) (hj : j < cv.length) :
    (grid2dLocal cu cv)[i + j * cu.length]? = some (cu[i], cv[j]) := by
  unfold grid2dLocal
  rw [Nat.add_comm, flatMap_const_get _ cu.length cv (by simp) j i hi]
  simp [List.getElem?_eq_getElem hj, List.getElem?_eq_getElem hi]

theorem grid2d_count (cu cv : List Rat) : (grid2dLocal cu cv).length = cv.length * cu.length := by
  unfold grid2dLocal
  exact flatMap_const_length _ cu.length cv (by simp)

/-! ### cell centres -/

theorem diffs_length : ∀ (d : List Rat), (diffs d).length = d.length - 1
  | [] => rfl
  | [_] => rfl
  | a :: b :: rest => by
    simp only [diffs, List.length_cons, diffs_length (b :: rest)]; omega

theorem diffs_get : ∀ (d : List Rat) (i : Nat), i + 1 < d.length →
    (diffs d)[i]? = some (d[i + 1]! - d[i]!)
  | [], i, h => by simp at h
  | [_], i, h => by simp at h
  | a :: b :: rest, 0, _ => by simp [diffs]
  | a :: b :: rest, i + 1, h => by
    have := diffs_get (b :: rest) i (by simpa using h)
    simp only [diffs, List.getElem?_cons_succ, this]
    simp

theorem cumsumFrom_diffs : ∀ (d : List Rat) (acc : Rat) (i : Nat), i + 1 < d.length →
    (cumsumFrom acc (diffs d))[i]? = some (acc + d[i + 1]! - d[0]!)
  | [], _, i, h => by simp at h
  | [_], _, i, h => by simp at h
  | a :: b :: rest, acc, 0, _ => by
    simp only [diffs, cumsumFrom, List.getElem?_cons_zero, Option.some.injEq]
    simp; ring
  | a :: b :: rest, acc, i + 1, h => by
    have := cumsumFrom_diffs (b :: rest) (acc + (b - a)) i (by simpa using h)
    simp only [diffs, cumsumFrom, List.getElem?_cons_succ, this, Option.some.injEq]
    simp; ring

/-- **Cell centres**: `cumsum(cells) - cells/2` is the midpoint of the two delimiters, measured
    from the first delimiter — for any sign of the delimiters. -/
theorem centers_midpoint (d : List Rat) (i : Nat) (h : i + 1 < d.length) :
    (centers d)[i]? = some ((d[i]! + d[i + 1]!) / 2 - d[0]!) := by
  unfold centers cumsum
  rw [List.getElem?_zipWith, cumsumFrom_diffs d 0 i h, diffs_get d i h]
  simp only [Option.map_some, Option.bind_some, Option.some.injEq]
  ring

/-- with the first delimiter at 0 (the format's convention) it is the plain midpoint -/
theorem centers_midpoint_zero (d : List Rat) (i : Nat) (h : i + 1 < d.length) (h0 : d[0]! = 0) :
    (centers d)[i]? = some ((d[i]! + d[i + 1]!) / 2) := by
  rw [centers_midpoint d i h, h0]; simp

theorem centers_length (d : List Rat) : (centers d).length = d.length - 1 := by
  unfold centers cumsum
  have : ∀ (l : List Rat) (acc : Rat), (cumsumFrom acc l).length = l.length := by
    intro l
    induction l with
    | nil => intro _; rfl
    | cons x xs ih => intro acc; simp [cumsumFrom, ih]
  simp [List.length_zipWith, this, diffs_length]

theorem cumsumFrom_replicate (n : Nat) (h acc : Rat) (i : Nat) (hi : i < n) :
    (cumsumFrom acc (List.replicate n h))[i]? = some (acc + ((i : Rat) + 1) * h) := by
  induction n generalizing acc i with
  | zero => omega
  | succ m ih =>
    simp only [List.replicate_succ, cumsumFrom]
    cases i with
    | zero => simp
    | succ i' =>
      simp only [List.getElem?_cons_succ]
      rw [ih (acc + h) i' (by omega)]
      simp only [Option.some.injEq]
      push_cast; ring

/-- Grid2D: centre `i` is at `(i + 1/2) * h` -/
theorem centersUniform_get (n : Nat) (h : Rat) (i : Nat) (hi : i < n) :
    (centersUniform n h)[i]? = some (((i : Rat) + 1 / 2) * h) := by
  unfold centersUniform cumsum
  rw [List.getElem?_map, cumsumFrom_replicate n h 0 i hi]
  simp only [Option.map_some, Option.some.injEq]
  ring

/-! ### rotation and dip -/

/-- rotation about the origin preserves horizontal distance to it and the elevation -/
theorem rotZ_norm (c s : Rat) (h : c * c + s * s = 1) (p : Rat × Rat × Rat) :
    (rotZ c s p).1 * (rotZ c s p).1 + (rotZ c s p).2.1 * (rotZ c s p).2.1
      = p.1 * p.1 + p.2.1 * p.2.1 ∧ (rotZ c s p).2.2 = p.2.2 := by
  refine ⟨?_, rfl⟩
  simp only [rotZ]
  have : (c * p.1 - s * p.2.1) * (c * p.1 - s * p.2.1) + (s * p.1 + c * p.2.1) * (s * p.1 + c * p.2.1)
      = (c * c + s * s) * (p.1 * p.1 + p.2.1 * p.2.1) := by ring
  rw [this, h]; ring

theorem rotZ_zero (p : Rat × Rat × Rat) : rotZ 1 0 p = p := by
  simp [rotZ]

theorem rotX_zero (p : Rat × Rat × Rat) : rotX 1 0 p = p := by
  simp [rotX]

/-- a quarter turn sends the u axis to the y axis (counter-clockwise positive) -/
theorem rotZ_quarter (x : Rat) : rotZ 0 1 (x, 0, 0) = (0, x, 0) := by
  simp [rotZ]

/-- dip then rotate: the centre of Grid2D cell (i, j), written out -/
theorem grid2d_centre_formula (o : Rat × Rat × Rat) (c s cd sd u v : Rat) :
    translate o (rotZ c s (rotX cd sd (u, v, 0)))
      = (c * u - s * (cd * v) + o.1, s * u + c * (cd * v) + o.2.1, sd * v + o.2.2) := by
  simp [translate, rotZ, rotX]

theorem block_centroids_count (o : Rat × Rat × Rat) (c s : Rat) (du dv dz : List Rat) :
    (blockCentroids o c s du dv dz).length
      = (dv.length - 1) * ((du.length - 1) * (dz.length - 1)) := by
  simp [blockCentroids, block_count, centers_length]

theorem octree_centroids_count (o : Rat × Rat × Rat) (c s hu hv hw : Rat) (cells : List OCell) :
    (octreeCentroids o c s hu hv hw cells).length = cells.length := by
  simp [octreeCentroids]

/-! ### default octree -/

theorem mem_arange (count step x : Nat) (hs : 0 < step) :
    x ∈ arange count step ↔ ∃ q, x = q * step ∧ q * step < count := by
  unfold arange
  simp only [Nat.ne_of_gt hs, ↓reduceIte, List.mem_map, List.mem_range]
  constructor
  · rintro ⟨q, hq, rfl⟩
    refine ⟨q, rfl, ?_⟩
    have : q + 1 ≤ (count + step - 1) / step := hq
    have h2 := (Nat.le_div_iff_mul_le hs).mp this
    rw [Nat.succ_mul] at h2; omega
  · rintro ⟨q, rfl, hq⟩
    refine ⟨q, ?_, rfl⟩
    show q + 1 ≤ (count + step - 1) / step
    rw [Nat.le_div_iff_mul_le hs, Nat.succ_mul]; omega

/-- **every base cell is covered**: for counts that are multiples of `m = min u v w`
    (in particular powers of two) each base cell lies in a cell of the default octree -/
theorem octree_covers (u v w a b d : Nat) (hm : 0 < min u (min v w))
    (hu : min u (min v w) ∣ u) (hv : min u (min v w) ∣ v) (hw : min u (min v w) ∣ w)
    (ha : a < u) (hb : b < v) (hd : d < w) :
    ∃ c ∈ octreeBase u v w, c.covers a b d = true := by
  unfold octreeBase
  generalize min u (min v w) = m at *
  have key : ∀ (x n : Nat), m ∣ n → x < n → x / m * m ∈ arange n m ∧ x / m * m ≤ x ∧ x < x / m * m + m := by
    intro x n hdv hx
    refine ⟨(mem_arange n m _ hm).mpr ⟨x / m, rfl, ?_⟩, Nat.div_mul_le_self x m, ?_⟩
    · obtain ⟨t, rfl⟩ := hdv
      have : x / m < t := by
        rw [Nat.div_lt_iff_lt_mul hm]; rw [Nat.mul_comm] at hx; exact hx
      calc x / m * m < t * m := Nat.mul_lt_mul_of_pos_right this hm
        _ = m * t := Nat.mul_comm _ _
    · have := Nat.lt_div_mul_add hm (a := x); omega
  obtain ⟨hi1, hi2, hi3⟩ := key a u hu ha
  obtain ⟨hj1, hj2, hj3⟩ := key b v hv hb
  obtain ⟨hk1, hk2, hk3⟩ := key d w hw hd
  refine ⟨⟨a / m * m, b / m * m, d / m * m, m⟩, ?_, ?_⟩
  · simp only [List.mem_flatMap, List.mem_map]
    exact ⟨_, hk1, _, hj1, _, hi1, rfl⟩
  · simp [OCell.covers, hi2, hi3, hj2, hj3, hk2, hk3]

/-- **covered once**: two cells of the default octree covering the same base cell are equal -/
theorem octree_once (u v w a b d : Nat) (hm : 0 < min u (min v w)) (c1 c2 : OCell)
    (h1 : c1 ∈ octreeBase u v w) (h2 : c2 ∈ octreeBase u v w)
    (hc1 : c1.covers a b d = true) (hc2 : c2.covers a b d = true) : c1 = c2 := by
  unfold octreeBase at h1 h2
  generalize min u (min v w) = m at *
  simp only [List.mem_flatMap, List.mem_map] at h1 h2
  obtain ⟨k1, hk1, j1, hj1, i1, hi1, rfl⟩ := h1
  obtain ⟨k2, hk2, j2, hj2, i2, hi2, rfl⟩ := h2
  simp only [OCell.covers, Bool.and_eq_true, decide_eq_true_eq] at hc1 hc2
  have uniq : ∀ (n x y p : Nat), x ∈ arange n m → y ∈ arange n m → x ≤ p → p < x + m → y ≤ p →
      p < y + m → x = y := by
    intro n x y p hx hy h1 h2 h3 h4
    obtain ⟨qx, rfl, _⟩ := (mem_arange n m x hm).mp hx
    obtain ⟨qy, rfl, _⟩ := (mem_arange n m y hm).mp hy
    have : qx = qy := by
      rcases Nat.lt_trichotomy qx qy with h | h | h
      · have : (qx + 1) * m ≤ qy * m := Nat.mul_le_mul_right _ h
        rw [Nat.succ_mul] at this; omega
      · exact h
      · have : (qy + 1) * m ≤ qx * m := Nat.mul_le_mul_right _ h
        rw [Nat.succ_mul] at this; omega
    rw [this]
  have ei := uniq u i1 i2 a hi1 hi2 hc1.1.1.1.1.1 hc1.1.1.1.1.2 hc2.1.1.1.1.1 hc2.1.1.1.1.2
  have ej := uniq v j1 j2 b hj1 hj2 hc1.1.1.1.2 hc1.1.1.2 hc2.1.1.1.2 hc2.1.1.2
  have ek := uniq w k1 k2 d hk1 hk2 hc1.1.2 hc1.2 hc2.1.2 hc2.2
  rw [ei, ej, ek]

/-! ### curve segments from part labels -/

theorem consecutivePairs_mem : ∀ (l : List Nat) (a b : Nat), (a, b) ∈ consecutivePairs l →
    a ∈ l ∧ b ∈ l
  | [], a, b, h => by simp [consecutivePairs] at h
  | [_], a, b, h => by simp [consecutivePairs] at h
  | x :: y :: rest, a, b, h => by
    simp only [consecutivePairs, List.mem_cons, Prod.mk.injEq] at h
    rcases h with ⟨rfl, rfl⟩ | h
    · simp
    · have := consecutivePairs_mem (y :: rest) a b h
      exact ⟨List.mem_cons_of_mem _ this.1, List.mem_cons_of_mem _ this.2⟩

theorem consecutivePairs_sorted : ∀ (l : List Nat), l.Pairwise (· < ·) → ∀ (a b : Nat),
    (a, b) ∈ consecutivePairs l → a < b ∧ ∀ c ∈ l, ¬ (a < c ∧ c < b)
  | [], _, a, b, h => by simp [consecutivePairs] at h
  | [_], _, a, b, h => by simp [consecutivePairs] at h
  | x :: y :: rest, hs, a, b, h => by
    simp only [consecutivePairs, List.mem_cons, Prod.mk.injEq] at h
    rw [List.pairwise_cons] at hs
    rcases h with ⟨rfl, rfl⟩ | h
    · refine ⟨hs.1 b List.mem_cons_self, ?_⟩
      intro c hc hbad
      rcases List.mem_cons.mp hc with rfl | hc
      · omega
      · rcases List.mem_cons.mp hc with rfl | hc
        · omega
        · have := (List.pairwise_cons.mp hs.2).1 c hc; omega
    · obtain ⟨hab, hno⟩ := consecutivePairs_sorted (y :: rest) hs.2 a b h
      refine ⟨hab, ?_⟩
      intro c hc hbad
      rcases List.mem_cons.mp hc with rfl | hc
      · have ha := (consecutivePairs_mem (y :: rest) a b h).1
        have := hs.1 a ha; omega
      · exact hno c hc hbad

theorem whereEq_mem (parts : List Int) (p : Int) (i : Nat) :
    i ∈ whereEq parts p ↔ parts[i]? = some p := by
  unfold whereEq
  simp only [List.mem_filter, List.mem_range, beq_iff_eq]
  constructor
  · exact fun h => h.2
  · intro h
    refine ⟨?_, h⟩
    rcases Nat.lt_or_ge i parts.length with hl | hl
    · exact hl
    · rw [List.getElem?_eq_none hl] at h; cases h

theorem whereEq_sorted (parts : List Int) (p : Int) : (whereEq parts p).Pairwise (· < ·) := by
  unfold whereEq
  exact List.Pairwise.filter _ List.pairwise_lt_range

/-- **Segments from parts**: every derived segment joins two vertices of the same part, in
    ascending order, with no vertex of that part between them (consecutive vertices of the same
    part only). -/
theorem cellsOfParts_spec (parts : List Int) (a b : Nat) (h : (a, b) ∈ cellsOfParts parts) :
    ∃ p, parts[a]? = some p ∧ parts[b]? = some p ∧ a < b
      ∧ ∀ c, a < c → c < b → parts[c]? ≠ some p := by
  unfold cellsOfParts at h
  simp only [List.mem_flatMap] at h
  obtain ⟨p, _, hp⟩ := h
  obtain ⟨ha, hb⟩ := consecutivePairs_mem _ a b hp
  obtain ⟨hab, hno⟩ := consecutivePairs_sorted _ (whereEq_sorted parts p) a b hp
  refine ⟨p, (whereEq_mem parts p a).mp ha, (whereEq_mem parts p b).mp hb, hab, ?_⟩
  intro c hac hcb hc
  exact hno c ((whereEq_mem parts p c).mpr hc) ⟨hac, hcb⟩

/-! ### Non-vacuity -/
example : blockLocal [1, 2] [10, 20] [100, 200, 300] =
    [(1, 10, 100), (1, 10, 200), (1, 10, 300), (2, 10, 100), (2, 10, 200), (2, 10, 300),
     (1, 20, 100), (1, 20, 200), (1, 20, 300), (2, 20, 100), (2, 20, 200), (2, 20, 300)] := by decide
example : centers [0, 1, 3, 2] = [1 / 2, 2, 5 / 2] := by decide +kernel
example : octreeBase 4 2 2 = [⟨0, 0, 0, 2⟩, ⟨2, 0, 0, 2⟩] := by decide
example : cellsOfParts [0, 1, 0, 1, 1] = [(0, 2), (1, 3), (3, 4)] := by decide

end GeoVerif.Grid
