import GeoVerif.Props.C07
/-! # C07 — masked copies with a vertex mask and a cell mask -/
namespace GeoVerif.Geom
open GeoVerif.Reindex
variable {P T : Type}

theorem mem_keep_andMask {α} : ∀ (a b : List Bool) (xs : List α) (x : α),
    x ∈ keep (andMask a b) xs → x ∈ keep a xs := by
  intro a
  induction a with
  | nil => intro b xs x h; simp [andMask, keep] at h
  | cons a0 as ih =>
    intro b xs x h
    cases b with
    | nil => simp [andMask, keep] at h
    | cons b0 bs =>
      cases xs with
      | nil => simp [andMask, keep] at h
      | cons x0 xs =>
        simp only [andMask, List.zipWith_cons_cons, keep] at h ⊢
        cases a0 <;> cases b0 <;> simp only [Bool.and_true, Bool.and_false,
          Bool.false_eq_true, ↓reduceIte, List.mem_cons] at h ⊢
        · exact ih bs xs x h
        · exact ih bs xs x h
        · exact Or.inr (ih bs xs x h)
        · rcases h with h | h
          · exact Or.inl h
          · exact Or.inr (ih bs xs x h)

theorem keep_subset {α} : ∀ (m : List Bool) (xs : List α) (x : α), x ∈ keep m xs → x ∈ xs := by
  intro m
  induction m with
  | nil => intro xs x h; simp [keep] at h
  | cons b bs ih =>
    intro xs x h
    cases xs with
    | nil => simp [keep] at h
    | cons x0 xs =>
      simp only [keep] at h
      cases b <;> simp only [Bool.false_eq_true, ↓reduceIte, List.mem_cons] at h ⊢
      · exact Or.inr (ih xs x h)
      · rcases h with h | h
        · exact Or.inl h
        · exact Or.inr (ih xs x h)

theorem andMask_true : ∀ (a : List Bool), andMask a (List.replicate a.length true) = a := by
  intro a
  induction a with
  | nil => rfl
  | cons a0 as ih => simp only [andMask, List.length_cons, List.replicate_succ, List.zipWith_cons_cons, Bool.and_true] at ih ⊢; rw [ih]

/-- **A copy by both masks is aligned**: one entry per vertex and per cell, and every cell references an existing vertex -
    whatever cells the caller selected. -/
theorem mc2_aligned (g c : Geom P T) (m cmIn : List Bool) (hc : Consistent g)
    (h : maskedCopy2 g m cmIn = .ok c) : Consistent c := by
  unfold maskedCopy2 at h
  split at h
  · cases h
  rename_i hlen
  have hlen : m.length = g.verts.length := by simpa using hlen
  cases hcs : g.cells with
  | none =>
    simp only [hcs] at h
    exact mc_aligned g c m hc h
  | some cells =>
    obtain ⟨hv, hcd, hcell⟩ := hc
    simp only [hcs] at h
    split at h
    · cases h
    cases h
    refine ⟨?_, ?_, ?_⟩
    · intro d hd
      obtain ⟨d0, h0, rfl⟩ := deleteData_mem hd
      exact keep_length_eq _ _ _ (hv d0 h0)
    · intro d hd
      obtain ⟨d0, h0, rfl⟩ := deleteData_mem hd
      have hl := hcd d0 h0
      simp only [nCells, hcs, Option.getD_some] at hl
      simp only [nCells, Option.getD_some, List.length_map]
      exact keep_length_eq _ _ _ hl
    · intro c hc' v hv'
      simp only [Option.getD_some] at hc'
      obtain ⟨c0, hc0, rfl⟩ := List.mem_map.mp hc'
      obtain ⟨v0, hv0, rfl⟩ := List.mem_map.mp hv'
      have hkept := mem_keep_cellKept m cells c0 (mem_keep_andMask _ _ _ _ hc0)
      have hm := (cellKept_iff _ _).mp hkept v0 hv0
      have hlt : v0 < g.verts.length := by
        rcases Nat.lt_or_ge v0 m.length with h | h
        · omega
        · rw [List.getElem?_eq_none h] at hm; cases hm
      exact rank_lt _ _ _ hm hlt

/-- **Every cell of the copy is a source cell none of whose vertices was dropped**, re-indexed - so it connects the same
    coordinates (`mc_survivors` gives the coordinates at `rank m v`). -/
theorem mc2_cells_from_kept (g c : Geom P T) (m cmIn : List Bool) (cells : List (List Nat))
    (hcs : g.cells = some cells) (h : maskedCopy2 g m cmIn = .ok c) :
    ∀ c' ∈ c.cells.getD [], ∃ c0 ∈ cells, cellKept m c0 = true ∧ c' = remap m c0 := by
  unfold maskedCopy2 at h
  split at h
  · cases h
  simp only [hcs] at h
  split at h
  · cases h
  cases h
  intro c' hc'
  simp only [Option.getD_some] at hc'
  obtain ⟨c0, hc0, rfl⟩ := List.mem_map.mp hc'
  have h1 := mem_keep_andMask _ _ _ _ hc0
  refine ⟨c0, ?_, mem_keep_cellKept m cells c0 h1, rfl⟩
  exact keep_subset _ _ _ h1

/-- selecting every cell is the copy by the vertex mask alone -/
theorem mc2_all_cells (g : Geom P T) (m : List Bool) (cells : List (List Nat)) (hcs : g.cells = some cells)
    (hlen : m.length = g.verts.length) :
    maskedCopy2 g m (List.replicate cells.length true) = maskedCopy g m := by
  unfold maskedCopy2 maskedCopy
  have := andMask_true (cells.map (cellKept m))
  simp only [List.length_map] at this
  simp [hlen, hcs, this]

/-- a mask of the wrong length is refused -/
theorem mc2_refuse (g : Geom P T) (m cmIn : List Bool) (h : m.length ≠ g.verts.length) :
    maskedCopy2 g m cmIn = .error .valueError := by
  unfold maskedCopy2
  simp [h]

def exG : Geom Nat Nat :=
  { verts := [10, 11, 12, 13], cells := some [[0, 1], [1, 2], [2, 3]], vdata := [], cdata := [("c", [7, 8, 9])] }

/-- the caller selects every cell, vertex 2 is dropped: only the cell (0, 1) survives, with its own value -/
example : (match maskedCopy2 exG [true, true, false, true] [true, true, true] with
    | .ok c => (c.verts, c.cells, c.cdata) | .error _ => ([], none, []))
    = ([10, 11, 13], some [[0, 1]], [("c", [7])]) := by decide

end GeoVerif.Geom
