import GeoVerif.Props.C01

/-!
# C06 — identifiers are unique within a workspace and stable across copies
-/
namespace GeoVerif.Ws

/-- **No two live entities ever share an identifier**, after any sequence of create / copy /
    remove / re-create with or without caller-supplied identifiers. -/
theorem uniq_run (t : Tree) (ops : List Op) (hn : t.uids.Nodup) : (run t ops).uids.Nodup :=
  run_nodup t ops hn

/-- **An explicit request to reuse an identifier in use is refused.** -/
theorem create_in_use_refused (t : Tree) (p : Nat) (e : Ent) (h : e.uid ∈ t.uids) :
    step t (.create p e) = (t, .refused) := by
  simp [step, h]

/-- the identifier of a property group is in use as well: an entity cannot take it -/
theorem create_pg_uid_refused (t : Tree) (p : Nat) (e : Ent) (h : e.uid ∈ t.pgUids) :
    step t (.create p e) = (t, .refused) := by
  simp [step, h]

/-- a property group cannot take the identifier of an entity, nor that of a group of another object -/
theorem pgSet_in_use_refused (t : Tree) (o : Nat) (g : PG)
    (h : g.uid ∈ t.uids ∨ t.pgUidElsewhere o g.uid = true) : (step t (.pgSet o g)).2 ≠ .ok := by
  simp only [step]
  cases hf : t.findSub o with
  | none => simp
  | some s =>
    simp only
    split
    · simp
    · have : (t.uids.contains g.uid || t.pgUidElsewhere o g.uid) = true := by
        rcases h with h | h <;> simp [h]
      rw [if_pos this]
      simp

/-- **A refused (or impossible) request has no side effect.** -/
theorem refused_no_effect (t : Tree) (op : Op) (h : (step t op).2 ≠ .ok) : (step t op).1 = t := by
  cases op with
  | copy u p m =>
    cases hf : t.findSub u with
    | none => simp [step, hf]
    | some s =>
      simp only [step, hf] at h ⊢
      split
      · rfl
      · rename_i hp
        split
        · rfl
        · rename_i hg
          simp only [hp, hg] at h
          exact absurd rfl h
  | pgSet o g =>
    cases hf : t.findSub o with
    | none => simp [step, hf]
    | some s =>
      simp only [step, hf] at h ⊢
      split
      · rfl
      · rename_i hg
        split
        · rfl
        · rename_i hu
          simp only [hg, hu] at h
          exact absurd rfl h
  | _ => simp only [step] at h ⊢ <;> (repeat' split) <;> simp_all

/-- **Looking an identifier up returns the one entity that owns it.** -/
theorem lookup_owner (t s : Tree) (u : Nat) (hn : t.uids.Nodup) (hf : t.findSub u = some s) :
    s.ent.uid = u ∧ ∀ s' ∈ t.subs, s'.ent.uid = u → s' = s := by
  obtain ⟨hs, hu⟩ := findSub_mem t u s hf
  refine ⟨hu, ?_⟩
  intro s' hs' hu'
  -- two members of a list with distinct keys and equal keys coincide
  have key : ∀ (l : List Tree), (l.map (·.ent.uid)).Nodup → s ∈ l → s' ∈ l → s' = s := by
    intro l
    induction l with
    | nil => intro _ h; cases h
    | cons x xs ih =>
      intro hnd h1 h2
      simp only [List.map_cons, List.nodup_cons] at hnd
      rcases List.mem_cons.mp h1 with rfl | h1'
      · rcases List.mem_cons.mp h2 with rfl | h2'
        · rfl
        · exact absurd (List.mem_map_of_mem (f := fun y : Tree => y.ent.uid) h2') (by rw [hu', ← hu]; exact hnd.1)
      · rcases List.mem_cons.mp h2 with rfl | h2'
        · exact absurd (List.mem_map_of_mem (f := fun y : Tree => y.ent.uid) h1') (by rw [hu, ← hu']; exact hnd.1)
        · exact ih hnd.2 h1' h2'
  exact key t.subs hn hs hs'

/-- **A copy gets fresh identifiers** for the entity, each copied child (and property group
    identifiers are renamed by the same map): none of the copy's identifiers was in use, and they
    are pairwise distinct. -/
theorem copy_fresh (t s : Tree) (u p : Nat) (m : List (Nat × Nat)) (hf : t.findSub u = some s)
    (hok : (step t (.copy u p m)).2 = .ok) :
    (∀ x ∈ (s.mapEnts (renameEnt m)).uids, x ∉ t.uids) ∧ (s.mapEnts (renameEnt m)).uids.Nodup := by
  simp only [step, hf] at hok
  split at hok
  · cases hok
  · split at hok
    · cases hok
    · rename_i hguard
      simp only [Bool.or_eq_true, List.any_eq_true, Bool.not_eq_true', not_or, not_exists,
        not_and, Bool.not_eq_false, decide_eq_true_eq, decide_eq_false_iff_not,
        Decidable.not_not] at hguard
      exact ⟨fun x hx hxt => hguard.1 x hx (by simpa using hxt), by simpa using hguard.2⟩

/-- a copy whose requested identifiers collide with live ones is refused (no side effects by
    `refused_no_effect`) -/
theorem copy_collision_refused (t s : Tree) (u p : Nat) (m : List (Nat × Nat))
    (hf : t.findSub u = some s) (hp : p ∈ t.uids)
    (hc : ∃ x ∈ (s.mapEnts (renameEnt m)).uids, x ∈ t.uids) :
    step t (.copy u p m) = (t, .refused) := by
  obtain ⟨x, hx, hxt⟩ := hc
  have : (s.mapEnts (renameEnt m)).uids.any (fun y => t.uids.contains y) = true := by
    simp only [List.any_eq_true]; exact ⟨x, hx, by simpa using hxt⟩
  have hp' : (!t.uids.contains p) = false := by simpa using hp
  simp only [step, hf, hp', this, Bool.true_or, ↓reduceIte, Bool.false_eq_true]

example : (step exTree (.create 1 (exEnt 3 .object))).2 = .refused := by decide
example : (step exTree (.copy 3 1 [(3, 30), (4, 40)])).1.uids = [1, 2, 3, 4, 5, 30, 40] := by decide


/-! ### copies into another workspace -/

/-- **an identifier that is free in the target workspace is kept** -/
theorem cross_keeps_free (used : List Nat) (u f : Nat) (h : u ∉ used) : crossId used u f = u := by
  simp [crossId, h]

/-- an identifier in use there is replaced by the fresh one -/
theorem cross_replaces_used (used : List Nat) (u f : Nat) (h : u ∈ used) : crossId used u f = f := by
  simp [crossId, h]

/-- whatever is chosen is not in use in the target (given a fresh identifier that is not) -/
theorem cross_not_used (used : List Nat) (u f : Nat) (hf : f ∉ used) : crossId used u f ∉ used := by
  unfold crossId; split
  · exact hf
  · rename_i h; simpa using h

/-- the identifiers given to a whole copied subtree are pairwise distinct and distinct from every identifier in
    use in the target, provided the fresh identifiers are new and pairwise distinct and the sources are -/
theorem crossIds_nodup (used : List Nat) (l : List (Nat × Nat))
    (hsrc : (l.map (·.1)).Nodup) (hfr : (l.map (·.2)).Nodup)
    (hnew : ∀ p ∈ l, p.2 ∉ used ∧ ∀ q ∈ l, p.2 ≠ q.1) :
    (crossIds used l).Nodup ∧ ∀ x ∈ crossIds used l, x ∉ used := by
  induction l generalizing used with
  | nil => simp [crossIds]
  | cons p rest ih =>
    obtain ⟨u, f⟩ := p
    simp only [List.map_cons, List.nodup_cons] at hsrc hfr
    have hc := cross_not_used used u f (hnew (u, f) (by simp)).1
    have hval : crossId used u f = u ∨ crossId used u f = f := by unfold crossId; split <;> simp
    have hrest := ih (crossId used u f :: used) hsrc.2 hfr.2 (by
      intro q hq
      have hq' := hnew q (List.mem_cons_of_mem _ hq)
      refine ⟨?_, fun r hr => hq'.2 r (List.mem_cons_of_mem _ hr)⟩
      intro hmem
      rcases List.mem_cons.mp hmem with h | h
      · rcases hval with hv | hv
        · exact hq'.2 (u, f) (by simp) (by rw [h, hv])
        · have : q.2 = f := by rw [h, hv]
          exact hfr.1 (by rw [← this]; exact List.mem_map_of_mem hq)
      · exact hq'.1 h)
    simp only [crossIds]
    refine ⟨List.nodup_cons.mpr ⟨fun hm => (hrest.2 _ hm) (by simp), hrest.1⟩, ?_⟩
    intro x hx
    rcases List.mem_cons.mp hx with h | h
    · rw [h]; exact hc
    · exact fun hu => hrest.2 x h (List.mem_cons_of_mem _ hu)

example : crossIds [1, 2, 3] [(3, 30), (4, 40), (5, 50)] = [30, 4, 5] := by decide

end GeoVerif.Ws
