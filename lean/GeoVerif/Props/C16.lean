import GeoVerif.Model.Merge

/-!
# C16 — merging preserves every input's geometry and data
-/
namespace GeoVerif.Merge

variable {P T : Type}

/-- **Vertices**: the merged vertices are the inputs' vertices in order. -/
theorem merge_vertices (is : List (Inp P T)) : mergeVerts is = is.flatMap (·.verts) := rfl

theorem merge_vertices_length (is : List (Inp P T)) :
    (mergeVerts is).length = (is.map (·.verts.length)).sum := by
  induction is with
  | nil => rfl
  | cons i is ih => simp [mergeVerts] at ih ⊢

theorem coords_shift (pre mid post : List P) (c : List Nat) (h : ∀ v ∈ c, v < mid.length) :
    coords (pre ++ mid ++ post) (c.map (· + pre.length)) = coords mid c := by
  unfold coords
  rw [List.map_map]
  apply List.map_congr_left
  intro v hv
  have hlt := h v hv
  simp only [Function.comp]
  rw [List.append_assoc, List.getElem?_append_right (by omega)]
  simp only [Nat.add_sub_cancel]
  rw [List.getElem?_append_left hlt]

/-- **Cells** (general form, any vertices `pre` already stacked): the coordinate tuples of the
    merged cells are the coordinate tuples of the input cells, in input order. -/
theorem merge_cell_coords_from (pre : List P) (is : List (Inp P T))
    (hw : ∀ i ∈ is, ∀ c ∈ i.cells, ∀ v ∈ c, v < i.verts.length) :
    (mergeCellsFrom pre.length is).map (coords (pre ++ mergeVerts is))
      = is.flatMap fun i => i.cells.map (coords i.verts) := by
  induction is generalizing pre with
  | nil => rfl
  | cons i is ih =>
    simp only [mergeCellsFrom, List.map_append, List.flatMap_cons, List.map_map]
    congr 1
    · apply List.map_congr_left
      intro c hc
      have hv := hw i List.mem_cons_self c hc
      simp only [Function.comp, mergeVerts, List.flatMap_cons]
      rw [← List.append_assoc]
      exact coords_shift pre i.verts _ c hv
    · have := ih (pre ++ i.verts) (fun j hj => hw j (List.mem_cons_of_mem _ hj))
      simp only [List.length_append] at this
      simp only [mergeVerts, List.flatMap_cons]
      simp only [mergeVerts, List.append_assoc] at this
      exact this

/-- **Cells**: every merged cell connects the same coordinates as the corresponding input
    cell — also when an input has vertices no cell uses, and for cells in any order. -/
theorem merge_cell_coords (is : List (Inp P T))
    (hw : ∀ i ∈ is, ∀ c ∈ i.cells, ∀ v ∈ c, v < i.verts.length) :
    (mergeCells is).map (coords (mergeVerts is))
      = is.flatMap fun i => i.cells.map (coords i.verts) := by
  have := merge_cell_coords_from ([] : List P) is hw
  simpa [mergeCells] using this

theorem merge_cells_count (off : Nat) (is : List (Inp P T)) :
    (mergeCellsFrom off is).length = (is.map (·.cells.length)).sum := by
  induction is generalizing off with
  | nil => rfl
  | cons i is ih => simp [mergeCellsFrom, ih]

/-- **Data**: one entry per merged vertex, each input's values at its own offset. -/
theorem merge_vdata_length (ndv : T) (label : String) (is : List (Inp P T))
    (hw : ∀ i ∈ is, WellFormed i) :
    (mergeVData ndv label is).length = (mergeVerts is).length := by
  induction is with
  | nil => rfl
  | cons i is ih =>
    have h0 := hw i List.mem_cons_self
    have ih' := ih (fun j hj => hw j (List.mem_cons_of_mem _ hj))
    simp only [mergeVData, mergeVerts, List.flatMap_cons, List.length_append] at ih' ⊢
    rw [ih']
    congr 1
    cases hl : i.vdata.lookup label with
    | none => simp
    | some v =>
      simp only [Option.getD_some]
      have hm : (label, v) ∈ i.vdata := by
        clear h0 hw ih ih'
        revert hl
        generalize i.vdata = l
        induction l with
        | nil => intro hl; simp [List.lookup] at hl
        | cons x xs ihx =>
          intro hl
          obtain ⟨k, w⟩ := x
          simp only [List.lookup] at hl
          split at hl
          · rename_i he; simp at he; cases hl; simp [he]
          · exact List.mem_cons_of_mem _ (ihx hl)
      exact h0.2.1 (label, v) hm

theorem merge_vdata_split (ndv : T) (label : String) (pre post : List (Inp P T)) (i : Inp P T) :
    mergeVData ndv label (pre ++ i :: post)
      = mergeVData ndv label pre
        ++ (i.vdata.lookup label).getD (List.replicate i.verts.length ndv)
        ++ mergeVData ndv label post := by
  simp [mergeVData]

theorem merge_cdata_split (ndv : T) (label : String) (pre post : List (Inp P T)) (i : Inp P T) :
    mergeCData ndv label (pre ++ i :: post)
      = mergeCData ndv label pre
        ++ (i.cdata.lookup label).getD (List.replicate i.cells.length ndv)
        ++ mergeCData ndv label post := by
  simp [mergeCData]

theorem foldl_max_ge (l : List Nat) (a : Nat) : a ≤ l.foldl max a := by
  induction l generalizing a with
  | nil => exact Nat.le_refl _
  | cons x xs ih => simp only [List.foldl_cons]; exact Nat.le_trans (Nat.le_max_left _ _) (ih _)

theorem foldl_max_shift (l : List Nat) (a off : Nat) :
    (l.map (· + off)).foldl max (a + off) = l.foldl max a + off := by
  induction l generalizing a with
  | nil => rfl
  | cons x xs ih =>
    simp only [List.map_cons, List.foldl_cons]
    have : max (a + off) (x + off) = max a x + off := by omega
    rw [this, ih]

theorem foldl_max_shift0 (l : List Nat) (off : Nat) (hne : l ≠ []) :
    (l.map (· + off)).foldl max 0 = l.foldl max 0 + off := by
  cases l with
  | nil => exact absurd rfl hne
  | cons x xs =>
    simp only [List.map_cons, List.foldl_cons]
    have h1 : max 0 (x + off) = x + off := by omega
    have h2 : max 0 x = x := by omega
    rw [h1, h2, foldl_max_shift]

/-- the guard under which the code as found (`previous = nanmax(cells)+1`) is right: the input
    has cells and its highest-numbered vertex is used by one of them -/
def LastUsed (i : Inp P T) : Prop :=
  i.cells.flatten ≠ [] ∧ i.cells.flatten.foldl max 0 + 1 = i.verts.length

/-- **partial** (code as found): with the `nanmax+1` offset the merged cells are right when
    every input's last vertex is referenced; see `merge_offset_counterexample` otherwise. -/
theorem merge_cells_asFound_partial (off : Nat) (is : List (Inp P T))
    (h : ∀ i ∈ is, LastUsed i) : mergeCellsMaxFrom off is = mergeCellsFrom off is := by
  induction is generalizing off with
  | nil => rfl
  | cons i is ih =>
    obtain ⟨hne, hmax⟩ := h i List.mem_cons_self
    simp only [mergeCellsMaxFrom, mergeCellsFrom]
    congr 1
    have hfl : (i.cells.map (·.map (· + off))).flatten = i.cells.flatten.map (· + off) := by
      rw [List.map_flatten]
    rw [hfl, foldl_max_shift0 _ off hne]
    have : i.cells.flatten.foldl max 0 + off + 1 = off + i.verts.length := by omega
    rw [this]
    exact ih _ (fun j hj => h j (List.mem_cons_of_mem _ hj))

theorem merge_cell_coords_partial (is : List (Inp P T))
    (hw : ∀ i ∈ is, ∀ c ∈ i.cells, ∀ v ∈ c, v < i.verts.length) (h : ∀ i ∈ is, LastUsed i) :
    (mergeCellsMaxFrom 0 is).map (coords (mergeVerts is))
      = is.flatMap fun i => i.cells.map (coords i.verts) := by
  rw [merge_cells_asFound_partial 0 is h]
  exact merge_cell_coords is hw

/-- the as-found offset rule (`nanmax(cells)+1`) breaks the property as soon as an input has a
    trailing vertex no cell uses: input 1 = 3 vertices with one cell (0,1); input 2's cell
    (0,1) must land on vertices 3,4 but lands on 2,3. -/
theorem merge_offset_counterexample :
    let a : Inp Nat Nat := ⟨[10, 11, 12], [[0, 1]], [], []⟩
    let b : Inp Nat Nat := ⟨[20, 21], [[0, 1]], [], []⟩
    (mergeCellsMaxFrom 0 [a, b]).map (coords (mergeVerts [a, b]))
      ≠ [a, b].flatMap fun i => i.cells.map (coords i.verts) := by
  decide

/-! ### Non-vacuity -/
example :
    let a : Inp Nat Nat := ⟨[10, 11, 12], [[1, 0]], [("d", [1, 2, 3])], []⟩
    let b : Inp Nat Nat := ⟨[20, 21], [[0, 1]], [], []⟩
    (∀ i ∈ [a, b], ∀ c ∈ i.cells, ∀ v ∈ c, v < i.verts.length)
    ∧ mergeCells [a, b] = [[1, 0], [3, 4]]
    ∧ mergeVData 0 "d" [a, b] = [1, 2, 3, 0, 0] := by
  refine ⟨by decide, by decide, by decide⟩

end GeoVerif.Merge
