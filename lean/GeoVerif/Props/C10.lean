import GeoVerif.Model.Life
import GeoVerif.Props.C11
import GeoVerif.Gen.IoCalls

/-!
# C10 — read-only workspaces never change the file
-/
namespace GeoVerif.Life
open GeoVerif.Ws

/-- does the operation keep the handle read-only?  (everything except an explicit re-open,
    which requires a close first) -/
def keepsRO : LOp → Bool
  | .open _ => false
  | _ => true

/-- **While open read-only no call alters the file.** -/
theorem ro_file_const (s : LSt) (op : LOp) (h : s.mode = .r) : (lstep s op).1.file = s.file := by
  cases op with
  | api o => simp [lstep, h]
  | read u => simp [lstep, h]
  | close => rfl
  | crash => rfl
  | «open» m => cases m <;> simp [lstep, h]

/-- **Every call that would have to write fails with an error** (and changes nothing). -/
theorem ro_write_errors (s : LSt) (o : Op) (h : s.mode = .r) : lstep s (.api o) = (s, .readonly) := by
  simp [lstep, h]

/-- **The handle is never silently switched to a writable mode**: from read-only the mode can
    only stay read-only or become closed; `open` on an open workspace keeps the handle. -/
theorem ro_no_upgrade (s : LSt) (op : LOp) (h : s.mode = .r) :
    (lstep s op).1.mode = .r ∨ (lstep s op).1.mode = .closed := by
  cases op with
  | api o => left; simp [lstep, h]
  | read u => left; simp [lstep, h]
  | close => right; rfl
  | crash => right; rfl
  | «open» m => left; cases m <;> simp [lstep, h]

/-- over any sequence of getters, setters, creations, removals, copies and closes issued against
    a read-only workspace, the file stays what it was until someone explicitly re-opens it -/
theorem ro_run_file_const (s : LSt) (ops : List LOp) (h : s.mode = .r ∨ s.mode = .closed)
    (hops : ∀ op ∈ ops, keepsRO op = true) : (lrun s ops).file = s.file := by
  induction ops generalizing s with
  | nil => rfl
  | cons op ops ih =>
    have hk := hops op List.mem_cons_self
    have hrest := fun o ho => hops o (List.mem_cons_of_mem _ ho)
    simp only [lrun, List.foldl_cons]
    have key : (lstep s op).1.file = s.file ∧ ((lstep s op).1.mode = .r ∨ (lstep s op).1.mode = .closed) := by
      rcases h with h | h
      · exact ⟨ro_file_const s op h, ro_no_upgrade s op h⟩
      · cases op with
        | api o => simp [lstep, h]
        | read u => simp [lstep, h]
        | close => exact ⟨rfl, Or.inr rfl⟩
        | crash => exact ⟨rfl, Or.inr rfl⟩
        | «open» m => simp [keepsRO] at hk
    have := ih (lstep s op).1 key.2 hrest
    simp only [lrun] at this
    rw [this, key.1]

/-! ### the regenerated call-site tables (`Gen/IoCalls.lean`, rebuilt from /repo on every run)

Every path from the public API to a write goes through one of these sites: the quantifier
"all entry points" is the finite table, so `decide` over it is a proof, not a sample. -/

/-- **every writer function is requested with a writable mode at the gate** — so on a handle
    opened `"r"` the gate `_io_call` raises before the writer runs -/
theorem all_writers_gated : ∀ c ∈ Gen.ioCalls, c.cls = "H5Writer" → c.mode = "r+" := by decide

/-- every gated call is a known reader or writer with a literal mode -/
theorem io_calls_classified : ∀ c ∈ Gen.ioCalls,
    (c.cls = "H5Reader" ∧ c.mode = "r") ∨ (c.cls = "H5Writer" ∧ c.mode = "r+") := by decide

/-- the only uses of the writer / of `h5py.File` outside the gate: creating a file that does not
    exist yet and opening with the caller's mode -/
def allowedDirect : List (String × String × String) := [
  ("utils.py", "fetch_h5_handle", "h5py.File:<mode>"),
  ("workspace.py", "h5file", "H5Writer.init_geoh5"),
  ("workspace.py", "h5file", "h5py.File:a"),
  ("workspace.py", "open", "h5py.File:<mode>"),
  ("workspace.py", "open", "h5py.File:r")]

theorem no_ungated_write : ∀ d ∈ Gen.directUses, d ∈ allowedDirect := by decide

/-- helpers that open workspaces on the user's behalf (ui.json loading, monitored-directory
    export) ask for read-only access (`None` = the default of `fetch_active_workspace`, "r") -/
theorem helpers_readonly : ∀ h ∈ Gen.helperOpens, h.2.2.2 = "r" ∨ h.2.2.2 = "None" := by decide

example : (lrun ⟨exTree, fileOf exTree, .r⟩ [.api (.rename 3 "x"), .api (.remove 2), .close]).file.nodes
    = (fileOf exTree).nodes := by decide

end GeoVerif.Life
