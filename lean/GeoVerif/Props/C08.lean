import GeoVerif.Model.Codec

/-!
# C08 — values survive storage unchanged; gaps use the format's no-data codes
-/
namespace GeoVerif.Codec

/-- **Floats round-trip**: every value other than the no-data sentinel reads back as written;
    NaN is stored as the sentinel and returns as NaN. -/
theorem float_roundtrip (ndv : Rat) (x : Flt) (h : x ≠ .fin ndv) : decF ndv (encF ndv x) = x := by
  unfold encF decF
  by_cases hx : x = .nan
  · simp [hx]
  · simp [hx, h]

/-- NaN is stored as the float no-data code -/
theorem float_nan_stored (ndv : Rat) : encF ndv .nan = .fin ndv := by simp [encF]

/-- the single documented exception: a value exactly equal to the sentinel returns as NaN -/
theorem float_sentinel (ndv : Rat) : decF ndv (encF ndv (.fin ndv)) = .nan := by
  simp [encF, decF]

/-- infinities survive -/
theorem float_inf (ndv : Rat) (b : Bool) : decF ndv (encF ndv (.inf b)) = .inf b := by
  simp [encF, decF]

theorem wrap32_id (v : Int) (h : fits32 v = true) : wrap32 v = v := by
  unfold fits32 at h
  simp only [Bool.and_eq_true, decide_eq_true_eq] at h
  unfold wrap32
  omega

/-- **Integers in range round-trip** (whatever variant of the range check) -/
theorem int_roundtrip (c : Bool) (v : Int) (h : fits32 v = true) : encI c (.int v) = .ok v := by
  simp [encI, h]

/-- integer gaps use the integer no-data code -/
theorem int_gap (c : Bool) : encI c .nan = .ok intNdv := rfl

/-- non-integral values are rejected -/
theorem nonintegral_reject (c : Bool) : encI c .frac = .error .typeError := rfl

/-- **Out-of-range integers are rejected** (repaired code) rather than altered -/
theorem int_reject (v : Int) (h : fits32 v = false) : encI true (.int v) = .error .valueError := by
  simp [encI, h]

/-- the code as found stores a different number: 2³¹ becomes −2³¹ (which then reads as a gap) -/
theorem int_wraps_counterexample :
    encI false (.int 2147483648) = .ok intNdv ∧ encI false (.int 1099511627776) = .ok 0 := by
  constructor <;> rfl

/-- never silently altered (repaired code): an accepted integer is stored as itself -/
theorem int_accept_exact (v w : Int) (h : encI true (.int v) = .ok w) : w = v := by
  simp only [encI] at h
  split at h
  · cases h; rfl
  · simp at h

theorem bool_roundtrip : encB (.int 0) = .ok 0 ∧ encB (.int 1) = .ok 1 := ⟨rfl, rfl⟩

/-- anything but 0/1 is rejected -/
theorem bool_reject (x : NumIn) (hn : x ≠ .nan) (h0 : x ≠ .int 0) (h1 : x ≠ .int 1) :
    encB x = .error .valueError := by
  unfold encB
  split
  · exact absurd rfl hn
  · exact absurd rfl h0
  · exact absurd rfl h1
  · rfl

/-- a gap in boolean data is stored as 0 (the boolean no-data value) -/
theorem bool_gap : encB .nan = .ok 0 := rfl

theorem too_long_reject (n k : Nat) (h : n < k) : checkLength n k false = .error .valueError := by
  simp [checkLength, h]

/-! ### value maps -/

theorem normalise_valid (m m' : VMap) (h : normalise m = .ok m') :
    ∀ kv ∈ m, validKV kv.1 kv.2 = none := by
  intro kv hkv
  unfold normalise at h
  split at h
  · cases h
  · rename_i hnone
    exact List.findSome?_eq_none_iff.mp hnone kv hkv

/-- **Reference keys keep their labels, key 0 is reserved for Unknown**: the accepted map contains
    every pair of the input unchanged, and key 0 maps to "Unknown". -/
theorem valuemap_roundtrip (m m' : VMap) (h : normalise m = .ok m') :
    (∀ kv ∈ m, kv ∈ m') ∧ (∃ kv ∈ m', kv.1 = 0) ∧ (∀ kv ∈ m', kv.1 = 0 → kv.2 = "Unknown") := by
  have hv := normalise_valid m m' h
  have h0 : ∀ kv ∈ m, kv.1 = 0 → kv.2 = "Unknown" := by
    intro kv hkv hk
    have := hv kv hkv
    unfold validKV at this
    split at this
    · cases this
    · split at this
      · cases this
      · rename_i _ hn
        by_cases e : kv.2 = "Unknown"
        · exact e
        · exact absurd ⟨hk, e⟩ hn
  unfold normalise at h
  split at h
  · cases h
  · split at h
    · rename_i hany
      cases h
      refine ⟨fun kv hkv => hkv, ?_, h0⟩
      simp only [List.any_eq_true, beq_iff_eq] at hany
      exact hany
    · cases h
      refine ⟨fun kv hkv => List.mem_append_left _ hkv, ⟨(0, "Unknown"), by simp, rfl⟩, ?_⟩
      intro kv hkv hk
      rcases List.mem_append.mp hkv with hm | hm
      · exact h0 kv hm hk
      · simp at hm; rw [hm]

/-- a negative key or a relabelled key 0 is rejected -/
theorem valuemap_reject (m : VMap) (kv : Int × String) (hkv : kv ∈ m)
    (hbad : (kv.1 < 0 ∨ 4294967295 < kv.1) ∨ (kv.1 = 0 ∧ kv.2 ≠ "Unknown")) : ∃ e, normalise m = .error e := by
  cases hn : normalise m with
  | error e => exact ⟨e, rfl⟩
  | ok m' =>
    have := normalise_valid m m' hn kv hkv
    unfold validKV at this
    rcases hbad with h | h
    · simp [h] at this
    · have h1 : ¬ (kv.1 < 0 ∨ 4294967295 < kv.1) := by omega
      simp [h1, h] at this

/-- the stored form of a key: an unsigned 32-bit integer (`astype("<u4")` wraps) -/
def wrapU32 (k : Int) : Int := k % 4294967296

/-- **Accepted keys are stored as themselves**: every key of an accepted map fits the unsigned 32-bit integer it is
    stored in, so the cast in `write_value_map` never alters one (as found, keys from 2^32 on were accepted and wrapped:
    `valuemap_wraps_counterexample`). -/
theorem valuemap_keys_fit (m m' : VMap) (h : normalise m = .ok m') : ∀ kv ∈ m, wrapU32 kv.1 = kv.1 := by
  intro kv hkv
  have := normalise_valid m m' h kv hkv
  unfold validKV at this
  split at this
  · cases this
  · rename_i hk
    unfold wrapU32
    omega

theorem valuemap_wraps_counterexample : wrapU32 4294967296 = 0 ∧ wrapU32 4294967301 = 5 := by decide

/-! ### text: UTF-8 -/

/-- **Any Unicode text survives UTF-8 storage** (all scalar values, all planes); this is core
    Lean's `List.utf8Decode?_utf8Encode`, restated for strings as lists of characters. -/
theorem utf8_roundtrip (l : List Char) : l.utf8Encode.utf8Decode? = some l.toArray :=
  List.utf8Decode?_utf8Encode

/-! ### Non-vacuity -/
example : decF (1 / 3) (encF (1 / 3) (.fin 2)) = .fin 2 := by decide +kernel
example : normalise [(1, "A"), (2, "B")] = .ok [(1, "A"), (2, "B"), (0, "Unknown")] := by rfl
example : normalise [(0, "Zero")] = .error .valueError := by rfl
example : fits32 2147483647 = true ∧ fits32 2147483648 = false := by decide

/-! ### Unsupported types -/

/-- **A complex entry is refused, never stripped of its imaginary part** (as found it was accepted and cast to its real part). -/
theorem complex_reject : acceptF .complex = .error .typeError := rfl

/-- a real entry passes `format_type` unchanged, whatever it is (NaN and infinities included) -/
theorem real_accept (x : Flt) : acceptF (.real x) = .ok x := rfl

/-! ### Arrays shorter than the geometry: the gap is the no-data code (array level, any length) -/

theorem padTo_length {α} (nan : α) (n : Nat) (xs : List α) (h : xs.length ≤ n) : (padTo nan n xs).length = n := by
  simp [padTo]; omega

theorem padTo_prefix {α} (nan : α) (n : Nat) (xs : List α) (i : Nat) (h : i < xs.length) :
    (padTo nan n xs)[i]? = xs[i]? := by
  simp [padTo, List.getElem?_append_left h]

theorem padTo_gap {α} (nan : α) (n : Nat) (xs : List α) (i : Nat) (h1 : xs.length ≤ i) (h2 : i < n) :
    (padTo nan n xs)[i]? = some nan := by
  unfold padTo
  rw [List.getElem?_append_right h1, List.getElem?_replicate]
  have : i - xs.length < n - xs.length := by omega
  simp [this]

/-- **Gaps of float data**: every entry beyond the array given is stored as the float no-data code and reads as NaN. -/
theorem gap_float (ndv : Rat) (n : Nat) (xs : List Flt) (i : Nat) (h1 : xs.length ≤ i) (h2 : i < n) :
    ((padTo Flt.nan n xs).map (encF ndv))[i]? = some (.fin ndv)
    ∧ ((padTo Flt.nan n xs).map fun x => decF ndv (encF ndv x))[i]? = some .nan := by
  simp only [List.getElem?_map, padTo_gap Flt.nan n xs i h1 h2, Option.map_some]
  constructor <;> simp [encF, decF]

/-- **Gaps of integer data**: every entry beyond the array given is the integer no-data code, whatever the dtype given. -/
theorem gap_int (checked : Bool) (n : Nat) (xs : List NumIn) (i : Nat) (h1 : xs.length ≤ i) (h2 : i < n) :
    ((padTo NumIn.nan n xs).map (encI checked))[i]? = some (.ok intNdv) := by
  simp only [List.getElem?_map, padTo_gap NumIn.nan n xs i h1 h2, Option.map_some]
  rfl

/-- the entries given keep their own encoding: padding never touches them -/
theorem prefix_kept {α β} (nan : α) (f : α → β) (n : Nat) (xs : List α) (i : Nat) (h : i < xs.length) :
    ((padTo nan n xs).map f)[i]? = (xs.map f)[i]? := by
  simp only [List.getElem?_map, padTo_prefix nan n xs i h]

example : (padTo Flt.nan 4 [.fin 1, .inf true]).map (encF 7) = [.fin 1, .inf true, .fin 7, .fin 7] := by decide

end GeoVerif.Codec
