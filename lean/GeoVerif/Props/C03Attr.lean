import GeoVerif.Model.AttrW
/-! # C03 — the attribute writer stores exactly the in-memory valuation (None included) -/
namespace GeoVerif.AttrW

theorem get_del_same (s : Store) (k : String) : get (del s k) k = none := by
  induction s with
  | nil => rfl
  | cons e s ih =>
    by_cases h : e.1 == k
    · simpa [del, List.filter, h] using ih
    · simp only [del, List.filter, h, Bool.not_false] at ih ⊢
      simp only [get, List.find?, h] at ih ⊢
      exact ih

theorem get_del_other (s : Store) (k k' : String) (h : (k == k') = false) : get (del s k) k' = get s k' := by
  induction s with
  | nil => rfl
  | cons e s ih =>
    by_cases h1 : e.1 == k
    · have hk : e.1 = k := by simpa using h1
      have h2 : (e.1 == k') = false := by rw [hk]; exact h
      simp only [del, List.filter, h1, Bool.not_true] at ih ⊢
      simp only [get, List.find?, h2] at ih ⊢
      exact ih
    · simp only [del, List.filter, h1, Bool.not_false] at ih ⊢
      by_cases h2 : e.1 == k'
      · simp [get, List.find?, h2]
      · simp only [get, List.find?, h2] at ih ⊢
        exact ih

theorem get_put_same (s : Store) (k v : String) : get (put s k v) k = some v := by
  simp [get, put]

theorem get_put_other (s : Store) (k k' v : String) (h : (k == k') = false) : get (put s k v) k' = get s k' := by
  have := get_del_other s k k' h
  simp only [get, put, List.find?, h] at this ⊢
  exact this

theorem stepFixed_same (s : Store) (e : String × Option String) : get (stepFixed s e) e.1 = e.2 := by
  unfold stepFixed
  cases h : e.2 with
  | none => simp [get_del_same]
  | some v => simp [get_put_same]

theorem stepFixed_other (s : Store) (e : String × Option String) (k : String) (h : (e.1 == k) = false) :
    get (stepFixed s e) k = get s k := by
  unfold stepFixed
  cases e.2 with
  | none => exact get_del_other s e.1 k h
  | some v => exact get_put_other s e.1 k v h

theorem stepFound_other (s : Store) (e : String × Option String) (k : String) (h : (e.1 == k) = false) :
    get (stepFound s e) k = get s k := by
  unfold stepFound
  cases e.2 with
  | none => rfl
  | some v => exact get_put_other s e.1 k v h

/-- keys outside the attribute map are never touched (either writer) -/
theorem writeFixed_frame (mem : Mem) (s : Store) (k : String) (h : ∀ e ∈ mem, (e.1 == k) = false) :
    get (writeFixed mem s) k = get s k := by
  induction mem generalizing s with
  | nil => rfl
  | cons e mem ih =>
    simp only [writeFixed, List.foldl] at ih ⊢
    rw [ih _ (fun e' he' => h e' (List.mem_cons_of_mem _ he'))]
    exact stepFixed_other s e k (h e List.mem_cons_self)

theorem writeFound_frame (mem : Mem) (s : Store) (k : String) (h : ∀ e ∈ mem, (e.1 == k) = false) :
    get (writeFound mem s) k = get s k := by
  induction mem generalizing s with
  | nil => rfl
  | cons e mem ih =>
    simp only [writeFound, List.foldl] at ih ⊢
    rw [ih _ (fun e' he' => h e' (List.mem_cons_of_mem _ he'))]
    exact stepFound_other s e k (h e List.mem_cons_self)

/-- **Write-through, None included**: after the repaired writer has walked an attribute map (one entry per key), every
    attribute of the map reads from the node exactly as it is in memory - a value where there is one, absent where it is None -
    whatever the node held before. -/
theorem writeFixed_exact (mem : Mem) (s : Store) (hnd : (mem.map (·.1)).Nodup) (e : String × Option String) (he : e ∈ mem) :
    get (writeFixed mem s) e.1 = e.2 := by
  induction mem generalizing s with
  | nil => cases he
  | cons e0 mem ih =>
    simp only [List.map_cons, List.nodup_cons] at hnd
    simp only [writeFixed, List.foldl] at ih ⊢
    rcases List.mem_cons.mp he with h | h
    · subst h
      have hfr := writeFixed_frame mem (stepFixed s e) e.1 (by
        intro e' he'
        have : e'.1 ≠ e.1 := fun hc => hnd.1 (hc ▸ List.mem_map_of_mem he')
        simpa using this)
      simp only [writeFixed] at hfr
      rw [hfr]; exact stepFixed_same s e
    · exact ih _ hnd.2 h

/-- the writer as found agrees wherever the in-memory value is not None … -/
theorem writeFound_exact_some (mem : Mem) (s : Store) (hnd : (mem.map (·.1)).Nodup) (k v : String) (he : (k, some v) ∈ mem) :
    get (writeFound mem s) k = some v := by
  induction mem generalizing s with
  | nil => cases he
  | cons e0 mem ih =>
    simp only [List.map_cons, List.nodup_cons] at hnd
    simp only [writeFound, List.foldl] at ih ⊢
    rcases List.mem_cons.mp he with h | h
    · subst h
      have hfr := writeFound_frame mem (stepFound s (k, some v)) k (by
        intro e' he'
        have : e'.1 ≠ k := fun hc => hnd.1 (hc ▸ List.mem_map_of_mem (f := (·.1)) he')
        simpa using this)
      simp only [writeFound] at hfr
      rw [hfr]; simp [stepFound, get_put_same]
    · exact ih _ hnd.2 h

/-- … and keeps the former value where it is None: the defect repaired in /repo (units, end of hole set back to None). -/
theorem writeFound_stale_counterexample :
    ∃ (mem : Mem) (s : Store) (k : String), (k, none) ∈ mem ∧ get (writeFound mem s) k ≠ none :=
  ⟨[("Units", none)], [("Units", "m")], "Units", by simp, by decide⟩

/-- writing twice is writing once -/
theorem writeFixed_idem (mem : Mem) (s : Store) (hnd : (mem.map (·.1)).Nodup) (e : String × Option String) (he : e ∈ mem) :
    get (writeFixed mem (writeFixed mem s)) e.1 = get (writeFixed mem s) e.1 := by
  rw [writeFixed_exact mem _ hnd e he, writeFixed_exact mem s hnd e he]

example : get (writeFixed [("Units", none), ("Name", some "x")] [("Units", "m"), ("Other", "1")]) "Units" = none
    ∧ get (writeFixed [("Units", none), ("Name", some "x")] [("Units", "m"), ("Other", "1")]) "Other" = some "1" := by decide

end GeoVerif.AttrW
