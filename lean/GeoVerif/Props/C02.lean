import GeoVerif.Props.C01
import GeoVerif.Props.C09

/-!
# C02 — every file the library writes is a structurally valid geoh5 file

Structural validity of the file image `fileOf t` of any tree with distinct identifiers — hence
(by `run_nodup`) after any history of operations and closes.  The executable `wfCheck` is what
Lean evaluates on the raw snapshot of the *real* file in the correspondence run.
-/
namespace GeoVerif.Ws

/-- the flat containers hold exactly one node per entity, under its identifier -/
theorem file_keys (t : Tree) : (fileOf t).nodes.map (·.ent.uid) = t.uids := by
  simp [fileOf, Tree.flat, Tree.uids, toNode, List.map_map, Function.comp_def]

/-- **no identifier occurs twice** -/
theorem file_keys_nodup (t : Tree) (hn : t.uids.Nodup) : ((fileOf t).nodes.map (·.ent.uid)).Nodup := by
  rw [file_keys]; exact hn

/-- **one Root link, to a stored node** -/
theorem file_root (t : Tree) (hn : t.uids.Nodup) :
    (fileOf t).root = some t.ent.uid ∧ (fileOf t).find t.ent.uid = some (toNode t) :=
  ⟨rfl, find_fileOf t t (self_mem_subs t) hn⟩

/-- **every parent-to-child entry is a link to the child's node in the flat container** (same
    identifier, same kind) -/
theorem links_stored (t : Tree) (hn : t.uids.Nodup) (n : Node) (hmem : n ∈ (fileOf t).nodes)
    (l : Kind × Nat) (hl : l ∈ n.links) :
    ∃ c, (fileOf t).find l.2 = some c ∧ c.ent.kind = l.1 ∧ c.ent.uid = l.2 := by
  simp only [fileOf, Tree.flat, List.mem_map] at hmem
  obtain ⟨s, hs, rfl⟩ := hmem
  simp only [toNode, linksL, List.mem_map] at hl
  obtain ⟨k, hk, rfl⟩ := hl
  have hks : k ∈ t.subs := subs_trans t s hs k (kid_mem_subs hk)
  exact ⟨toNode k, find_fileOf t k hks hn, rfl, rfl⟩

mutual
/-- every entity other than the root is a child entry of some stored node -/
theorem has_parent : ∀ (t x : Tree), x ∈ t.subs → x = t ∨ ∃ s ∈ t.subs, x ∈ s.kids
  | .node e ks, x, hx => by
    simp only [subs_node, List.mem_cons] at hx
    rcases hx with rfl | hx
    · left; rfl
    · right
      rcases has_parentL ks x hx with h | ⟨s, hs, hk⟩
      · exact ⟨.node e ks, by simp, by simpa [Tree.kids] using h⟩
      · exact ⟨s, by simp only [subs_node, List.mem_cons]; right; exact hs, hk⟩
theorem has_parentL : ∀ (ts : List Tree) (x : Tree), x ∈ subsL ts → x ∈ ts ∨ ∃ s ∈ subsL ts, x ∈ s.kids
  | [], _, hx => by simp at hx
  | t :: ts, x, hx => by
    simp only [subsL_cons, List.mem_append] at hx
    rcases hx with h | h
    · rcases has_parent t x h with rfl | ⟨s, hs, hk⟩
      · left; exact List.mem_cons_self
      · right; exact ⟨s, by simp only [subsL_cons, List.mem_append]; left; exact hs, hk⟩
    · rcases has_parentL ts x h with h' | ⟨s, hs, hk⟩
      · left; exact List.mem_cons_of_mem _ h'
      · right; exact ⟨s, by simp only [subsL_cons, List.mem_append]; right; exact hs, hk⟩
end

/-- **each entity other than Root is linked from a stored parent node** -/
theorem node_has_parent (t x : Tree) (hx : x ∈ t.subs) (hne : x ≠ t) :
    ∃ n ∈ (fileOf t).nodes, (x.ent.kind, x.ent.uid) ∈ n.links := by
  rcases has_parent t x hx with h | ⟨s, hs, hk⟩
  · exact absurd h hne
  · refine ⟨toNode s, by simp only [fileOf, Tree.flat]; exact List.mem_map_of_mem hs, ?_⟩
    simp only [toNode, linksL, List.mem_map]
    exact ⟨x, hk, rfl⟩

/-- **every stored node is reachable from Root**: the reader, walking the links from the Root
    link, rebuilds a tree that contains every node of the flat containers -/
theorem all_reachable (t : Tree) (hn : t.uids.Nodup) :
    ∃ t', load (fileOf t) = some t' ∧ t'.uids.length = (fileOf t).nodes.length := by
  refine ⟨t, reopen_identity t hn, ?_⟩
  simp [fileOf, Tree.flat, Tree.uids]

/-- validity holds after any history (create / move / remove / copy / property-group edits …) -/
theorem wf_after_history (t : Tree) (ops : List Op) (hn : t.uids.Nodup) :
    ((fileOf (run t ops)).nodes.map (·.ent.uid)).Nodup
    ∧ (∃ t', load (fileOf (run t ops)) = some t' ∧ t'.uids.length = (fileOf (run t ops)).nodes.length) :=
  ⟨file_keys_nodup _ (run_nodup t ops hn), all_reachable _ (run_nodup t ops hn)⟩

/-- non-vacuity: the example tree of C01 satisfies the hypotheses, and its file has the five nodes -/
example : exTree.uids.Nodup ∧ ((fileOf exTree).nodes.map (·.ent.uid)) = [1, 2, 3, 4, 5]
    ∧ (fileOf exTree).root = some 1 := by decide


/-! ### the executable check accepts every reachable file image -/

/-- `s` has a child entry for `u` -/
def linksTo (u : Nat) (s : Tree) : Bool := s.kids.any (·.ent.uid == u)

def rootUids (ks : List Tree) : List Nat := ks.map (·.ent.uid)

theorem rootUids_sublist : ∀ ks : List Tree, (rootUids ks).Sublist (uidsL ks)
  | [] => by simp [rootUids]
  | k :: ks => by
    cases k with
    | node e kk =>
      simp only [rootUids, List.map_cons, uidsL_cons, uids_node, Tree.ent, List.cons_append]
      exact List.Sublist.cons_cons _ ((rootUids_sublist ks).trans (List.sublist_append_right _ _))

theorem any_eq_count (l : List Nat) (u : Nat) (hn : l.Nodup) : (if l.any (· == u) then 1 else 0) = l.count u := by
  induction l with
  | nil => simp
  | cons x xs ih =>
    have hx : x ∉ xs := (List.nodup_cons.mp hn).1
    have hn' := (List.nodup_cons.mp hn).2
    by_cases h : x = u
    · subst h
      have : xs.count x = 0 := List.count_eq_zero.mpr hx
      simp [this]
    · have ih' := ih hn'
      simp only [List.any_cons, List.count_cons, beq_iff_eq, h, Bool.false_or, if_false, Nat.add_zero]
      simpa [h] using ih'

mutual
/-- with distinct identifiers: the number of stored nodes that link to `u`, plus one if `u` is the root, is the number of
    entities called `u` -/
theorem parents_count (u : Nat) : ∀ (t : Tree), t.uids.Nodup →
    t.subs.countP (linksTo u) + (if t.ent.uid = u then 1 else 0) = t.uids.count u
  | .node e ks, hn => by
    simp only [uids_node, List.nodup_cons] at hn
    have hL := parents_countL u ks hn.2
    have hr : (if (rootUids ks).any (· == u) then 1 else 0) = (rootUids ks).count u :=
      any_eq_count _ u ((rootUids_sublist ks).nodup hn.2)
    have hlink : linksTo u (.node e ks) = (rootUids ks).any (· == u) := by
      simp [linksTo, Tree.kids, rootUids, List.any_map, Function.comp_def]
    simp only [subs_node, List.countP_cons, hlink, uids_node, List.count_cons, Tree.ent, beq_iff_eq]
    split <;> split <;> simp_all <;> omega
theorem parents_countL (u : Nat) : ∀ (ks : List Tree), (uidsL ks).Nodup →
    (subsL ks).countP (linksTo u) + (rootUids ks).count u = (uidsL ks).count u
  | [], _ => by simp [rootUids]
  | k :: ks, hn => by
    simp only [uidsL_cons] at hn
    have hk := parents_count u k (List.nodup_append.mp hn).1
    have hks := parents_countL u ks (List.nodup_append.mp hn).2.1
    simp only [rootUids] at hks
    simp only [subsL_cons, List.countP_append, rootUids, List.map_cons, List.count_cons, uidsL_cons, List.count_append,
      beq_iff_eq]
    split at hk <;> simp_all <;> omega
end

theorem parentsOf_length (t : Tree) (u : Nat) : (parentsOf (fileOf t) u).length = t.subs.countP (linksTo u) := by
  simp only [parentsOf, fileOf, Tree.flat, List.length_map, List.filter_map, List.countP_eq_length_filter]
  congr 1
  apply List.filter_congr
  intro s _
  simp [Function.comp_def, toNode, linksL, linksTo, List.any_map]

/-- every property group lists only data that are children of its own object -/
def PGok (t : Tree) : Prop :=
  ∀ s ∈ t.subs, ∀ g ∈ s.ent.pgs, ∀ d ∈ g.props, (Kind.data, d) ∈ linksL s.kids

/-- **the executable validity check accepts the file image of every tree** with distinct identifiers and well-placed
    property groups: one root that is stored, no identifier twice, every child entry resolves to a stored node of that kind,
    the root has no parent and every other node exactly one, property groups list children, everything is reachable.
    `wfCheck` is the same function the driver evaluates on raw snapshots of the files geoh5py writes. -/
theorem wfCheck_fileOf (t : Tree) (hn : t.uids.Nodup) (hpg : PGok t) : wfCheck (fileOf t) = true := by
  have hroot := file_root t hn
  have hkeys := file_keys t
  simp only [wfCheck, hroot.1, Bool.and_eq_true, List.all_eq_true, decide_eq_true_eq]
  refine ⟨⟨⟨⟨⟨?_, ?_⟩, ?_⟩, ?_⟩, ?_⟩, ?_⟩
  · exact file_keys_nodup t hn
  · rw [hroot.2]; rfl
  · intro n hmem l hl
    obtain ⟨c, hc, hk, _⟩ := links_stored t hn n hmem l hl
    simp [hc, hk]
  · intro n hmem
    have hmem' := hmem
    simp only [fileOf, Tree.flat, List.mem_map] at hmem'
    obtain ⟨s, hs, rfl⟩ := hmem'
    have hcount := parents_count (toNode s).ent.uid t hn
    have hin : (toNode s).ent.uid ∈ t.uids := by
      simp only [Tree.uids, List.mem_map]; exact ⟨s, hs, rfl⟩
    have h1 : t.uids.count (toNode s).ent.uid = 1 := by rw [List.Nodup.count hn]; simp [hin]
    rw [h1] at hcount
    by_cases hr : (toNode s).ent.uid = t.ent.uid
    · have : t.subs.countP (linksTo (toNode s).ent.uid) = 0 := by simp [hr] at hcount ⊢; omega
      have hl := parentsOf_length t (toNode s).ent.uid
      rw [this] at hl
      simp only [hr, beq_self_eq_true, if_true]
      rw [hr] at hl
      simp [List.eq_nil_of_length_eq_zero hl]
    · have hne : ¬ (t.ent.uid = (toNode s).ent.uid) := fun e => hr e.symm
      have : t.subs.countP (linksTo (toNode s).ent.uid) = 1 := by simp [hne] at hcount; omega
      simp [hr, parentsOf_length, this]
  · intro n hmem g hg d hd
    simp only [fileOf, Tree.flat, List.mem_map] at hmem
    obtain ⟨s, hs, rfl⟩ := hmem
    simpa [toNode] using hpg s hs g hg d hd
  · obtain ⟨t', ht', hlen⟩ := all_reachable t hn
    simp [ht', hlen]

example : wfCheck (fileOf exTree) = true := wfCheck_fileOf exTree (by decide) (by unfold PGok; decide)

/-! ### the property-group clause is an invariant of every operation -/

/-- the property-group clause on stored nodes -/
def NodeOk (n : Node) : Prop := ∀ g ∈ n.ent.pgs, ∀ d ∈ g.props, (Kind.data, d) ∈ n.links

theorem PGok_iff (t : Tree) : PGok t ↔ ∀ n ∈ t.flat, NodeOk n := by
  simp only [PGok, Tree.flat, List.mem_map, NodeOk]
  constructor
  · rintro h n ⟨s, hs, rfl⟩; exact h s hs
  · intro h s hs; exact h (toNode s) ⟨s, hs, rfl⟩

mutual
theorem update_frame_back (f : Ent → Ent) (hf : ∀ e, (f e).uid = e.uid ∧ (f e).kind = e.kind) :
    ∀ (t : Tree) (u : Nat) (n' : Node), n' ∈ (t.update f u).flat →
      ∃ n ∈ t.flat, n'.links = n.links ∧ (n'.ent = n.ent ∨ (n.ent.uid = u ∧ n'.ent = f n.ent))
  | .node e ks, u, n', h => by
    simp only [Tree.update] at h
    split at h
    · rename_i he
      simp only [Tree.flat, subs_node, List.map_cons, List.mem_cons] at h
      rcases h with rfl | h
      · exact ⟨toNode (.node e ks), by simp [Tree.flat], rfl, Or.inr ⟨he, rfl⟩⟩
      · exact ⟨n', by simp only [Tree.flat, subs_node, List.map_cons, List.mem_cons]; right; exact h, rfl, Or.inl rfl⟩
    · simp only [Tree.flat, subs_node, List.map_cons, List.mem_cons] at h
      rcases h with rfl | h
      · refine ⟨toNode (.node e ks), by simp [Tree.flat], ?_, Or.inl rfl⟩
        simp only [toNode, Tree.kids]
        exact linksL_updateL f hf ks u
      · obtain ⟨n, hn, h1, h2⟩ := updateL_frame_back f hf ks u n' h
        exact ⟨n, by simp only [Tree.flat, subs_node, List.map_cons, List.mem_cons]; right; exact hn, h1, h2⟩
theorem updateL_frame_back (f : Ent → Ent) (hf : ∀ e, (f e).uid = e.uid ∧ (f e).kind = e.kind) :
    ∀ (ts : List Tree) (u : Nat) (n' : Node), n' ∈ (subsL (updateL f ts u)).map toNode →
      ∃ n ∈ (subsL ts).map toNode, n'.links = n.links ∧ (n'.ent = n.ent ∨ (n.ent.uid = u ∧ n'.ent = f n.ent))
  | [], _, n', h => by simp [updateL] at h
  | t :: ts, u, n', h => by
    simp only [updateL, subsL_cons, List.map_append, List.mem_append] at h
    rcases h with h | h
    · obtain ⟨n, hn, h1, h2⟩ := update_frame_back f hf t u n' (by simpa [Tree.flat] using h)
      exact ⟨n, by simp only [subsL_cons, List.map_append, List.mem_append]; left; simpa [Tree.flat] using hn, h1, h2⟩
    · obtain ⟨n, hn, h1, h2⟩ := updateL_frame_back f hf ts u n' h
      exact ⟨n, by simp only [subsL_cons, List.map_append, List.mem_append]; right; exact hn, h1, h2⟩
end

/-- an assignment that does not touch the property groups keeps the clause -/
theorem PGok_update (f : Ent → Ent) (hf : ∀ e, (f e).uid = e.uid ∧ (f e).kind = e.kind) (hp : ∀ e, (f e).pgs = e.pgs)
    (t : Tree) (u : Nat) (h : PGok t) : PGok (t.update f u) := by
  rw [PGok_iff] at h ⊢
  intro n' hn'
  obtain ⟨n, hn, hl, he⟩ := update_frame_back f hf t u n' hn'
  have hpgs : n'.ent.pgs = n.ent.pgs := by
    rcases he with he | ⟨_, he⟩
    · rw [he]
    · rw [he, hp]
  intro g hg d hd
  rw [hl]; rw [hpgs] at hg
  exact h n hn g hg d hd

theorem node_unique (t : Tree) (hn : t.uids.Nodup) (n : Node) (hmem : n ∈ t.flat) (s : Tree) (hs : s ∈ t.subs)
    (hu : n.ent.uid = s.ent.uid) : n = toNode s := by
  simp only [Tree.flat, List.mem_map] at hmem
  obtain ⟨s', hs', rfl⟩ := hmem
  have h1 := find_fileOf t s' hs' hn
  have h2 := find_fileOf t s hs hn
  have : (toNode s').ent.uid = s'.ent.uid := rfl
  rw [this] at hu
  rw [hu] at h1
  exact Option.some.inj (h1.symm.trans h2)

theorem PGok_pgDrop (t : Tree) (o g : Nat) (h : PGok t) :
    PGok (t.update (fun e => { e with pgs := e.pgs.filter (·.uid != g) }) o) := by
  rw [PGok_iff] at h ⊢
  intro n' hn'
  obtain ⟨n, hn, hl, he⟩ := update_frame_back (fun e => { e with pgs := e.pgs.filter (·.uid != g) })
    (fun e => ⟨rfl, rfl⟩) t o n' hn'
  intro g' hg' d hd
  rw [hl]
  rcases he with he | ⟨_, he⟩
  · rw [he] at hg'; exact h n hn g' hg' d hd
  · rw [he] at hg'
    exact h n hn g' (List.mem_filter.mp hg').1 d hd

theorem PGok_pgSet (t : Tree) (hn : t.uids.Nodup) (o : Nat) (g : PG) (s : Tree) (hs : t.findSub o = some s)
    (hg : g.props.all (fun d => (linksL s.kids).contains (Kind.data, d)) = true) (h : PGok t) :
    PGok (t.update (fun e => { e with pgs := if e.pgs.any (·.uid == g.uid)
                                              then e.pgs.map fun x => if x.uid == g.uid then g else x
                                              else e.pgs ++ [g] }) o) := by
  obtain ⟨hsm, hsu⟩ := findSub_mem t o s hs
  rw [PGok_iff] at h ⊢
  intro n' hn'
  obtain ⟨n, hnm, hl, he⟩ := update_frame_back (fun e => { e with pgs := if e.pgs.any (·.uid == g.uid)
      then (e.pgs.map fun x => if x.uid == g.uid then g else x) else e.pgs ++ [g] }) (fun e => ⟨rfl, rfl⟩) t o n' hn'
  intro g' hg' d hd
  rw [hl]
  rcases he with he | ⟨hu, he⟩
  · rw [he] at hg'; exact h n hnm g' hg' d hd
  · have hnode : n = toNode s := node_unique t hn n hnm s hsm (by rw [hu, hsu])
    have hnew : ∀ d ∈ g.props, (Kind.data, d) ∈ n.links := by
      intro d hd
      have := List.all_eq_true.mp hg d hd
      rw [hnode]; simpa [toNode] using this
    rw [he] at hg'
    split at hg'
    · obtain ⟨x, hx, hxe⟩ := List.mem_map.mp hg'
      split at hxe
      · rw [← hxe] at hd; exact hnew d hd
      · rw [← hxe] at hd; exact h n hnm x hx d hd
    · rcases List.mem_append.mp hg' with hg' | hg'
      · exact h n hnm g' hg' d hd
      · rw [List.mem_singleton.mp hg'] at hd; exact hnew d hd

theorem PGok_insert (t c : Tree) (p : Nat) (h : PGok t) (hc : PGok c) : PGok (t.insert p c) := by
  rw [PGok_iff] at h hc ⊢
  intro n' hn'
  rcases insert_frame_back c t p n' hn' with hn' | ⟨n, hn, he, hl⟩
  · exact hc n' hn'
  · intro g hg d hd
    rw [he] at hg
    have := h n hn g hg d hd
    rcases hl with hl | ⟨_, hl⟩
    · rw [hl]; exact this
    · rw [hl]; exact List.mem_append_left _ this

theorem PGok_sub (t s : Tree) (hs : s ∈ t.subs) (h : PGok t) : PGok s :=
  fun x hx => h x (subs_trans t s hs x hx)

theorem PGok_leaf (e : Ent) (he : e.pgs.isEmpty = true) : PGok (.node e []) := by
  intro s hs g hg
  simp only [subs_node, subsL_nil, List.mem_singleton] at hs
  subst hs
  simp [Tree.ent, List.isEmpty_iff.mp he] at hg

theorem PGok_erase_clean (t : Tree) (u : Nat) (gone : List Nat) (hu : u ∈ gone) (h : PGok t) :
    PGok ((t.erase u).mapEnts (cleanPGs gone)) := by
  rw [PGok_iff] at h ⊢
  intro n' hn'
  obtain ⟨m, hm, e1, l1⟩ := mapEnts_frame _ (cleanPGs_keeps gone) _ n' hn'
  obtain ⟨n, hn, e2, l2⟩ := erase_frame u t m hm
  intro g' hg' d hd
  rw [e1, e2] at hg'
  simp only [cleanPGs, List.mem_filter, List.mem_map] at hg'
  obtain ⟨⟨g, hg, rfl⟩, _⟩ := hg'
  simp only [cleanPG, List.mem_filter] at hd
  have hdl := h n hn g hg d hd.1
  have hne : d ≠ u := by
    intro e; subst e
    simp [hu] at hd
  rw [l1, l2]
  simp only [dropLink, List.mem_filter]
  exact ⟨hdl, by simpa using hne⟩

def rn (m : List (Nat × Nat)) (u : Nat) : Nat := (m.lookup u).getD u

theorem linksL_renameL (m : List (Nat × Nat)) : ∀ ks : List Tree,
    linksL (mapEntsL (renameEnt m) ks) = (linksL ks).map fun l => (l.1, rn m l.2)
  | [] => by simp [mapEntsL, linksL]
  | k :: ks => by
    have ih := linksL_renameL m ks
    simp only [linksL] at ih ⊢
    cases k with
    | node e kk =>
      simp only [mapEntsL, Tree.mapEnts, List.map_cons, ih, List.cons.injEq, and_true]
      simp [Tree.ent, renameEnt, rn]

mutual
theorem renameT_frame (m : List (Nat × Nat)) : ∀ (t : Tree) (n' : Node), n' ∈ (t.mapEnts (renameEnt m)).flat →
    ∃ n ∈ t.flat, n'.ent = renameEnt m n.ent ∧ n'.links = n.links.map fun l => (l.1, rn m l.2)
  | .node e ks, n', h => by
    simp only [Tree.mapEnts, Tree.flat, subs_node, List.map_cons, List.mem_cons] at h
    rcases h with rfl | h
    · refine ⟨toNode (.node e ks), by simp [Tree.flat], rfl, ?_⟩
      simp only [toNode, Tree.kids]
      exact linksL_renameL m ks
    · obtain ⟨n, hn, h1, h2⟩ := renameL_frame m ks n' h
      exact ⟨n, by simp only [Tree.flat, subs_node, List.map_cons, List.mem_cons]; right; exact hn, h1, h2⟩
theorem renameL_frame (m : List (Nat × Nat)) : ∀ (ts : List Tree) (n' : Node),
    n' ∈ (subsL (mapEntsL (renameEnt m) ts)).map toNode →
    ∃ n ∈ (subsL ts).map toNode, n'.ent = renameEnt m n.ent ∧ n'.links = n.links.map fun l => (l.1, rn m l.2)
  | [], n', h => by simp [mapEntsL] at h
  | t :: ts, n', h => by
    simp only [mapEntsL, subsL_cons, List.map_append, List.mem_append] at h
    rcases h with h | h
    · obtain ⟨n, hn, h1, h2⟩ := renameT_frame m t n' (by simpa [Tree.flat] using h)
      exact ⟨n, by simp only [subsL_cons, List.map_append, List.mem_append]; left; simpa [Tree.flat] using hn, h1, h2⟩
    · obtain ⟨n, hn, h1, h2⟩ := renameL_frame m ts n' h
      exact ⟨n, by simp only [subsL_cons, List.map_append, List.mem_append]; right; exact hn, h1, h2⟩
end

theorem PGok_rename (m : List (Nat × Nat)) (s : Tree) (h : PGok s) : PGok (s.mapEnts (renameEnt m)) := by
  rw [PGok_iff] at h ⊢
  intro n' hn'
  obtain ⟨n, hn, he, hl⟩ := renameT_frame m s n' hn'
  intro g' hg' d' hd'
  rw [he] at hg'
  simp only [renameEnt, List.mem_map] at hg'
  obtain ⟨g, hg, rfl⟩ := hg'
  simp only [List.mem_map] at hd'
  obtain ⟨d, hd, rfl⟩ := hd'
  rw [hl]
  exact List.mem_map.mpr ⟨(Kind.data, d), h n hn g hg d hd, rfl⟩

/-- **the property-group clause is kept by every operation** -/
theorem PGok_step (t : Tree) (hn : t.uids.Nodup) (h : PGok t) (op : Op) : PGok (step t op).1 := by
  cases op with
  | create p e =>
    simp only [step]
    split
    · exact h
    · split
      · exact h
      · rename_i he
        split
        · exact h
        · exact PGok_insert t _ p h (PGok_leaf e (by simpa using he))
  | setAttr u k v =>
    simp only [step]; split
    · dsimp only; refine PGok_update _ ?_ ?_ t u h <;> intro e <;> first | exact ⟨rfl, rfl⟩ | rfl
    · exact h
  | setDset u k v =>
    simp only [step]; split
    · dsimp only; refine PGok_update _ ?_ ?_ t u h <;> intro e <;> first | exact ⟨rfl, rfl⟩ | rfl
    · exact h
  | rename u n =>
    simp only [step]; split
    · dsimp only; refine PGok_update _ ?_ ?_ t u h <;> intro e <;> first | exact ⟨rfl, rfl⟩ | rfl
    · exact h
  | setAllowDelete u b =>
    simp only [step]; split
    · dsimp only; refine PGok_update _ ?_ ?_ t u h <;> intro e <;> first | exact ⟨rfl, rfl⟩ | rfl
    · exact h
  | setTyp u ty =>
    simp only [step]; split
    · dsimp only; refine PGok_update _ ?_ ?_ t u h <;> intro e <;> first | exact ⟨rfl, rfl⟩ | rfl
    · exact h
  | move u p =>
    simp only [step]
    cases hs : t.findSub u with
    | none => exact h
    | some s =>
      simp only
      split
      · exact h
      · split
        · exact h
        · obtain ⟨hsm, _⟩ := findSub_mem t u s hs
          -- erase, insert the subtree back, scrub `u`
          rw [PGok_iff]
          intro n' hn'
          obtain ⟨k, hk, e1, l1⟩ := mapEnts_frame _ (cleanPGs_keeps [u]) _ n' hn'
          have hmid : ∀ x ∈ ((t.erase u).insert p s).flat, ∀ g ∈ x.ent.pgs, ∀ d ∈ g.props, d ≠ u → (Kind.data, d) ∈ x.links := by
            intro x hx g hg d hd hne
            rcases insert_frame_back s (t.erase u) p x hx with hx | ⟨y, hy, e2, l2⟩
            · exact (PGok_iff s).mp (PGok_sub t s hsm h) x hx g hg d hd
            · obtain ⟨z, hz, e3, l3⟩ := erase_frame u t y hy
              rw [e2, e3] at hg
              have hz' := (PGok_iff t).mp h z hz g hg d hd
              have hdrop : (Kind.data, d) ∈ dropLink u z.links := by
                simp only [dropLink, List.mem_filter]; exact ⟨hz', by simpa using hne⟩
              rcases l2 with l2 | ⟨_, l2⟩
              · rw [l2, l3]; exact hdrop
              · rw [l2, l3]; exact List.mem_append_left _ hdrop
          intro g' hg' d hd
          rw [e1] at hg'
          simp only [cleanPGs, List.mem_filter, List.mem_map] at hg'
          obtain ⟨⟨g, hg, rfl⟩, _⟩ := hg'
          simp only [cleanPG, List.mem_filter] at hd
          rw [l1]
          exact hmid k hk g hg d hd.1 (by intro e; subst e; simp at hd)
  | remove u =>
    simp only [step]
    cases hs : t.findSub u with
    | none => exact h
    | some s =>
      simp only
      split
      · exact h
      · obtain ⟨_, hsu⟩ := findSub_mem t u s hs
        exact PGok_erase_clean t u s.uids (by rw [← hsu]; exact root_mem_uids s) h
  | detach u =>
    simp only [step]
    cases hs : t.findSub u with
    | none => exact h
    | some s =>
      simp only
      split
      · exact h
      · obtain ⟨_, hsu⟩ := findSub_mem t u s hs
        exact PGok_erase_clean t u s.uids (by rw [← hsu]; exact root_mem_uids s) h
  | copy u p m =>
    simp only [step]
    cases hs : t.findSub u with
    | none => exact h
    | some s =>
      simp only
      obtain ⟨hsm, _⟩ := findSub_mem t u s hs
      split
      · exact h
      · split
        · exact h
        · exact PGok_insert t _ p h (PGok_rename m s (PGok_sub t s hsm h))
  | pgSet o g =>
    simp only [step]
    cases hs : t.findSub o with
    | none => exact h
    | some s =>
      simp only
      split
      · exact h
      · rename_i hg
        split
        · exact h
        · exact PGok_pgSet t hn o g s hs (by simpa using hg) h
  | pgDrop o g =>
    simp only [step]; split
    · dsimp only; exact PGok_pgDrop t o g h
    · exact h

theorem PGok_run (t : Tree) (hn : t.uids.Nodup) (h : PGok t) : ∀ ops : List Op, PGok (run t ops) ∧ (run t ops).uids.Nodup := by
  intro ops
  induction ops generalizing t with
  | nil => exact ⟨h, hn⟩
  | cons op rest ih =>
    simp only [run, List.foldl_cons]
    exact ih (step t op).1 (step_nodup t op hn) (PGok_step t hn h op)

/-- **C02 for every history**: whatever sequence of operations is applied to a valid workspace, the file image passes the
    complete executable validity check — the one that also judges the raw snapshots of the files geoh5py writes. -/
theorem wf_run (t : Tree) (hn : t.uids.Nodup) (h : PGok t) (ops : List Op) : wfCheck (fileOf (run t ops)) = true :=
  wfCheck_fileOf _ (PGok_run t hn h ops).2 (PGok_run t hn h ops).1

example : wfCheck (fileOf (run exTree [.move 3 1, .remove 2, .rename 3 "x"])) = true :=
  wf_run exTree (by decide) (by unfold PGok; decide) _

end GeoVerif.Ws
