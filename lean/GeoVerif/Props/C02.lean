import GeoVerif.Props.C01

/-!
# C02 — every file the library writes is a structurally valid geoh5 file

Structural validity of the file image `fileOf t` of any tree with distinct identifiers — hence
(by `run_nodup`) after any history of operations and closes.  The executable `wfCheck` is what
Lean evaluates on the raw snapshot of the *real* file in the correspondence run.
-/
namespace GeoVerif.Ws

/-- the flat containers hold exactly one node per entity, under its identifier -/
theorem file_keys (t : Tree) : (fileOf t).nodes.map (·.ent.uid) = t.uids := by
  simp [fileOf, Tree.flat, Tree.uids, toNode, List.map_map, Function.comp_def]

/-- **no identifier occurs twice** -/
theorem file_keys_nodup (t : Tree) (hn : t.uids.Nodup) : ((fileOf t).nodes.map (·.ent.uid)).Nodup := by
  rw [file_keys]; exact hn

/-- **one Root link, to a stored node** -/
theorem file_root (t : Tree) (hn : t.uids.Nodup) :
    (fileOf t).root = some t.ent.uid ∧ (fileOf t).find t.ent.uid = some (toNode t) :=
  ⟨rfl, find_fileOf t t (self_mem_subs t) hn⟩

/-- **every parent-to-child entry is a link to the child's node in the flat container** (same
    identifier, same kind) -/
theorem links_stored (t : Tree) (hn : t.uids.Nodup) (n : Node) (hmem : n ∈ (fileOf t).nodes)
    (l : Kind × Nat) (hl : l ∈ n.links) :
    ∃ c, (fileOf t).find l.2 = some c ∧ c.ent.kind = l.1 ∧ c.ent.uid = l.2 := by
  simp only [fileOf, Tree.flat, List.mem_map] at hmem
  obtain ⟨s, hs, rfl⟩ := hmem
  simp only [toNode, linksL, List.mem_map] at hl
  obtain ⟨k, hk, rfl⟩ := hl
  have hks : k ∈ t.subs := subs_trans t s hs k (kid_mem_subs hk)
  exact ⟨toNode k, find_fileOf t k hks hn, rfl, rfl⟩

mutual
/-- every entity other than the root is a child entry of some stored node -/
theorem has_parent : ∀ (t x : Tree), x ∈ t.subs → x = t ∨ ∃ s ∈ t.subs, x ∈ s.kids
  | .node e ks, x, hx => by
    simp only [subs_node, List.mem_cons] at hx
    rcases hx with rfl | hx
    · left; rfl
    · right
      rcases has_parentL ks x hx with h | ⟨s, hs, hk⟩
      · exact ⟨.node e ks, by simp, by simpa [Tree.kids] using h⟩
      · exact ⟨s, by simp only [subs_node, List.mem_cons]; right; exact hs, hk⟩
theorem has_parentL : ∀ (ts : List Tree) (x : Tree), x ∈ subsL ts → x ∈ ts ∨ ∃ s ∈ subsL ts, x ∈ s.kids
  | [], _, hx => by simp at hx
  | t :: ts, x, hx => by
    simp only [subsL_cons, List.mem_append] at hx
    rcases hx with h | h
    · rcases has_parent t x h with rfl | ⟨s, hs, hk⟩
      · left; exact List.mem_cons_self
      · right; exact ⟨s, by simp only [subsL_cons, List.mem_append]; left; exact hs, hk⟩
    · rcases has_parentL ts x h with h' | ⟨s, hs, hk⟩
      · left; exact List.mem_cons_of_mem _ h'
      · right; exact ⟨s, by simp only [subsL_cons, List.mem_append]; right; exact hs, hk⟩
end

/-- **each entity other than Root is linked from a stored parent node** -/
theorem node_has_parent (t x : Tree) (hx : x ∈ t.subs) (hne : x ≠ t) :
    ∃ n ∈ (fileOf t).nodes, (x.ent.kind, x.ent.uid) ∈ n.links := by
  rcases has_parent t x hx with h | ⟨s, hs, hk⟩
  · exact absurd h hne
  · refine ⟨toNode s, by simp only [fileOf, Tree.flat]; exact List.mem_map_of_mem hs, ?_⟩
    simp only [toNode, linksL, List.mem_map]
    exact ⟨x, hk, rfl⟩

/-- **every stored node is reachable from Root**: the reader, walking the links from the Root
    link, rebuilds a tree that contains every node of the flat containers -/
theorem all_reachable (t : Tree) (hn : t.uids.Nodup) :
    ∃ t', load (fileOf t) = some t' ∧ t'.uids.length = (fileOf t).nodes.length := by
  refine ⟨t, reopen_identity t hn, ?_⟩
  simp [fileOf, Tree.flat, Tree.uids]

/-- validity holds after any history (create / move / remove / copy / property-group edits …) -/
theorem wf_after_history (t : Tree) (ops : List Op) (hn : t.uids.Nodup) :
    ((fileOf (run t ops)).nodes.map (·.ent.uid)).Nodup
    ∧ (∃ t', load (fileOf (run t ops)) = some t' ∧ t'.uids.length = (fileOf (run t ops)).nodes.length) :=
  ⟨file_keys_nodup _ (run_nodup t ops hn), all_reachable _ (run_nodup t ops hn)⟩

/-- non-vacuity: the example tree of C01 satisfies the hypotheses, and its file has the five nodes -/
example : exTree.uids.Nodup ∧ ((fileOf exTree).nodes.map (·.ent.uid)) = [1, 2, 3, 4, 5]
    ∧ (fileOf exTree).root = some 1 := by decide

end GeoVerif.Ws
