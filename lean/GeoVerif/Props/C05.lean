import GeoVerif.Props.C01

/-!
# C05 — deletion removes exactly the entity, its descendants and all references to them
-/
namespace GeoVerif.Ws

/-- a request to remove an entity whose delete permission is off is refused and changes nothing -/
theorem remove_refused (t s : Tree) (u : Nat) (hf : t.findSub u = some s)
    (h : s.ent.allowDelete = false) : step t (.remove u) = (t, .refused) := by
  simp [step, hf, h]

/-- **Exactly the entity and its descendants disappear**: the identifiers after the removal
    together with those of the removed subtree are the identifiers before, nothing else. -/
theorem remove_exact (t s : Tree) (u : Nat) (hn : t.uids.Nodup) (hf : t.findSub u = some s)
    (hroot : u ≠ t.ent.uid) (had : s.ent.allowDelete = true) :
    (step t (.remove u)).2 = .ok ∧ ((step t (.remove u)).1.uids ++ s.uids).Perm t.uids := by
  have hcond : (decide (u = t.ent.uid) || !s.ent.allowDelete) = false := by simp [hroot, had]
  simp only [step, hf, hcond, Bool.false_eq_true, ↓reduceIte, true_and]
  rw [mapEnts_uids]
  · exact erase_uids_perm t u s hn hroot hf
  · intro e; rfl

/-- the same through the parent (`parent.remove_children([e])`), which asks no permission -/
theorem detach_exact (t s : Tree) (u : Nat) (hn : t.uids.Nodup) (hf : t.findSub u = some s)
    (hroot : u ≠ t.ent.uid) :
    (step t (.detach u)).2 = .ok ∧ ((step t (.detach u)).1.uids ++ s.uids).Perm t.uids := by
  simp only [step, hf, hroot, ↓reduceIte, true_and]
  rw [mapEnts_uids]
  · exact erase_uids_perm t u s hn hroot hf
  · intro e; rfl

/-- **No lookup by identifier yields a removed entity** (the entity or any descendant). -/
theorem remove_lookup_none (t s : Tree) (u : Nat) (hn : t.uids.Nodup) (hf : t.findSub u = some s)
    (hroot : u ≠ t.ent.uid) (had : s.ent.allowDelete = true) (x : Nat) (hx : x ∈ s.uids) :
    (step t (.remove u)).1.findSub x = none := by
  have h := (remove_exact t s u hn hf hroot had).2
  have hnd := (h.nodup_iff).mpr hn
  apply findSub_none
  intro hmem
  exact (List.nodup_append.mp hnd).2.2 x hmem x hx rfl

/-- survivors are exactly the other entities: every identifier outside the removed subtree is
    still there -/
theorem remove_survivors (t s : Tree) (u : Nat) (hn : t.uids.Nodup) (hf : t.findSub u = some s)
    (hroot : u ≠ t.ent.uid) (had : s.ent.allowDelete = true) (x : Nat) (hx : x ∈ t.uids)
    (hxs : x ∉ s.uids) : x ∈ (step t (.remove u)).1.uids := by
  have h := (remove_exact t s u hn hf hroot had).2
  have := (h.mem_iff (a := x)).mpr hx
  rcases List.mem_append.mp this with h1 | h1
  · exact h1
  · exact absurd h1 hxs

mutual
theorem mapEnts_subs (f : Ent → Ent) : ∀ (t x : Tree), x ∈ (t.mapEnts f).subs → ∃ y ∈ t.subs, x.ent = f y.ent
  | .node e ks, x, hx => by
    simp only [Tree.mapEnts, subs_node, List.mem_cons] at hx
    rcases hx with rfl | hx
    · exact ⟨.node e ks, by simp, rfl⟩
    · obtain ⟨y, hy, he⟩ := mapEntsL_subs f ks x hx
      exact ⟨y, by simp only [subs_node, List.mem_cons]; right; exact hy, he⟩
theorem mapEntsL_subs (f : Ent → Ent) : ∀ (ts : List Tree) (x : Tree), x ∈ subsL (mapEntsL f ts) →
    ∃ y ∈ subsL ts, x.ent = f y.ent
  | [], _, hx => by simp [mapEntsL] at hx
  | t :: ts, x, hx => by
    simp only [mapEntsL, subsL_cons, List.mem_append] at hx
    rcases hx with h | h
    · obtain ⟨y, hy, he⟩ := mapEnts_subs f t x h
      exact ⟨y, by simp only [subsL_cons, List.mem_append]; left; exact hy, he⟩
    · obtain ⟨y, hy, he⟩ := mapEntsL_subs f ts x h
      exact ⟨y, by simp only [subsL_cons, List.mem_append]; right; exact hy, he⟩
end

/-- **No property group of any survivor still lists a removed data set.** -/
theorem remove_no_pg_dangling (t s : Tree) (u : Nat) (hf : t.findSub u = some s)
    (hroot : u ≠ t.ent.uid) (had : s.ent.allowDelete = true) :
    ∀ x ∈ (step t (.remove u)).1.subs, ∀ g ∈ x.ent.pgs, ∀ d ∈ g.props, d ∉ s.uids := by
  have hcond : (decide (u = t.ent.uid) || !s.ent.allowDelete) = false := by simp [hroot, had]
  simp only [step, hf, hcond, Bool.false_eq_true, ↓reduceIte]
  intro x hx g hg d hd
  obtain ⟨y, _, he⟩ := mapEnts_subs _ _ x hx
  rw [he] at hg
  simp only [cleanPGs, List.mem_filter, List.mem_map] at hg
  obtain ⟨⟨g0, _, rfl⟩, _⟩ := hg
  simp only [cleanPG, List.mem_filter, Bool.not_eq_true', List.contains_eq_mem,
    decide_eq_false_iff_not] at hd
  exact hd.2

/-- later operations on the survivors keep working on a consistent workspace: the invariant
    the other theorems need (identifier uniqueness) holds after the removal -/
theorem remove_then_ops (t : Tree) (u : Nat) (ops : List Op) (hn : t.uids.Nodup) :
    (run (step t (.remove u)).1 ops).uids.Nodup :=
  run_nodup _ ops (step_nodup t (.remove u) hn)

example : (step exTree (.remove 2)).1.uids = [1, 5] := by decide
example : (step exTree (.remove 1)).2 = .refused := by decide

/-! ### removing a whole list of children -/

/-- a detach never brings an identifier into the tree -/
theorem detach_uids_subset (t : Tree) (u : Nat) (hn : t.uids.Nodup) (x : Nat)
    (hx : x ∈ (step t (.detach u)).1.uids) : x ∈ t.uids := by
  cases hf : t.findSub u with
  | none => simpa [step, hf] using hx
  | some s =>
    by_cases hroot : u = t.ent.uid
    · subst hroot
      simpa [step, hf] using hx
    · have h := (detach_exact t s u hn hf hroot).2
      exact (h.mem_iff).mp (List.mem_append_left _ hx)

/-- `parent.remove_children(children)` for a list of entities: one detach after the other -/
def detachAll (t : Tree) (us : List Nat) : Tree := us.foldl (fun s u => (step s (.detach u)).1) t

theorem detachAll_nodup (us : List Nat) : ∀ (t : Tree), t.uids.Nodup → (detachAll t us).uids.Nodup := by
  induction us with
  | nil => intro t hn; exact hn
  | cons u us ih => intro t hn; exact ih _ (step_nodup t (.detach u) hn)

theorem detachAll_subset (us : List Nat) : ∀ (t : Tree), t.uids.Nodup → ∀ x ∈ (detachAll t us).uids, x ∈ t.uids := by
  induction us with
  | nil => intro t _ x hx; exact hx
  | cons u us ih =>
    intro t hn x hx
    exact detach_uids_subset t u hn x (ih _ (step_nodup t (.detach u) hn) x hx)

/-- **Removing a whole list of children removes every one of them**, in whatever order the list names them and however the
    removals shrink the tree underneath (the list is the caller's: `obj.remove_children(obj.children)` included): afterwards
    none of the listed entities (other than the root) is in the tree, nor any of their descendants. -/
theorem detachAll_gone (us : List Nat) : ∀ (t : Tree), t.uids.Nodup → ∀ u ∈ us, u ≠ t.ent.uid →
    u ∉ (detachAll t us).uids := by
  induction us with
  | nil => intro t _ u hu; cases hu
  | cons v vs ih =>
    intro t hn u hu hroot
    have hn' := step_nodup t (.detach v) hn
    have hrootEq : (step t (.detach v)).1.ent.uid = t.ent.uid := by
      cases hf : t.findSub v with
      | none => simp [step, hf]
      | some s =>
        by_cases hr : v = t.ent.uid
        · subst hr
          simp [step, hf]
        · simp only [step, hf, hr, ↓reduceIte]
          cases t with
          | node e ks => simp [Tree.erase, Tree.mapEnts, Tree.ent, cleanPGs]
    rcases List.mem_cons.mp hu with rfl | hu'
    · -- `u` is detached first: it is gone at once and never comes back
      intro hmem
      have hin := detachAll_subset vs _ hn' u hmem
      cases hf : t.findSub u with
      | none =>
        have : u ∉ t.uids := by
          intro hm
          obtain ⟨x, hxs, hxu⟩ := List.mem_map.mp hm
          have := findSub_some_of_mem t x hxs
          rw [hxu, hf] at this
          exact this rfl
        exact this (detach_uids_subset t u hn u hin)
      | some s =>
        have h := (detach_exact t s u hn hf hroot).2
        have hnd := (h.nodup_iff).mpr hn
        have hus : u ∈ s.uids := by
          obtain ⟨_, hu0⟩ := findSub_mem t u s hf
          cases s with
          | node e ks => simp [Tree.uids, subs_node, Tree.ent] at hu0 ⊢; left; exact hu0.symm
        exact (List.nodup_append.mp hnd).2.2 u hin u hus rfl
    · exact ih _ hn' u hu' (by rw [hrootEq]; exact hroot)

example : (detachAll exTree [2, 5]).uids = [1] := by decide

end GeoVerif.Ws
