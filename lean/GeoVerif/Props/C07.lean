import GeoVerif.Model.Geom
import GeoVerif.Lemmas.Reindex

/-!
# C07 — data stay aligned with the geometry they are attached to

Theorems about `Geom` (`Model/Geom.lean`), for every geometry, every index list (repeated,
unsorted, negative indices included) and every sequence of operations.
-/
namespace GeoVerif.Geom
open GeoVerif.Reindex

variable {P T : Type}

theorem deleteData_mem {m : List Bool} {ds : List (String × List T)} {d : String × List T}
    (h : d ∈ deleteData m ds) : ∃ d0 ∈ ds, d = (d0.1, keep m d0.2) := by
  unfold deleteData at h
  obtain ⟨d0, h0, rfl⟩ := List.mem_map.mp h
  exact ⟨d0, h0, rfl⟩

/-- **Alignment after removing vertices**: one entry per vertex / per cell, cells reference
    existing vertices. -/
theorem rv_aligned (g g' : Geom P T) (idx : List Int) (hc : Consistent g)
    (h : removeVertices g idx = .ok g') : Consistent g' := by
  unfold removeVertices at h
  split at h
  · cases h
  split at h
  · cases h
  obtain ⟨hv, hcd, hcell⟩ := hc
  cases hcs : g.cells with
  | none =>
    simp only [hcs] at h
    cases h
    refine ⟨?_, ?_, ?_⟩
    · intro d hd
      obtain ⟨d0, h0, rfl⟩ := deleteData_mem hd
      exact keep_length_eq _ _ _ (hv d0 h0)
    · intro d hd
      have := hcd d hd
      simpa [nCells, hcs] using this
    · intro c hc'; simp [hcs] at hc'
  | some cells =>
    simp only [hcs] at h
    cases h
    refine ⟨?_, ?_, ?_⟩
    · intro d hd
      obtain ⟨d0, h0, rfl⟩ := deleteData_mem hd
      exact keep_length_eq _ _ _ (hv d0 h0)
    · intro d hd
      obtain ⟨d0, h0, rfl⟩ := deleteData_mem hd
      have hl := hcd d0 h0
      simp only [nCells, hcs, Option.getD_some] at hl
      simp only [nCells, Option.getD_some, List.length_map]
      exact keep_length_eq _ _ _ hl
    · intro c hc' v hv'
      simp only [Option.getD_some] at hc'
      obtain ⟨c0, hc0, rfl⟩ := List.mem_map.mp hc'
      obtain ⟨v0, hv0, rfl⟩ := List.mem_map.mp hv'
      -- c0 is a kept cell: all its vertices are kept
      have hkept : cellKept (maskOfIdx g.verts.length idx) c0 = true := by
        clear hc' hv'
        revert hc0
        generalize cells = cs
        induction cs with
        | nil => intro h; simp [keep] at h
        | cons x xs ih =>
          intro h
          simp only [List.map_cons, keep] at h
          by_cases hx : cellKept (maskOfIdx g.verts.length idx) x
          · simp only [hx, ↓reduceIte, List.mem_cons] at h
            rcases h with rfl | h
            · exact hx
            · exact ih h
          · simp only [hx, Bool.false_eq_true, ↓reduceIte] at h
            exact ih h
      have hm := (cellKept_iff _ _).mp hkept v0 hv0
      have hlt : v0 < g.verts.length := by
        have : v0 < (maskOfIdx g.verts.length idx).length := by
          rcases Nat.lt_or_ge v0 (maskOfIdx g.verts.length idx).length with h | h
          · exact h
          · rw [List.getElem?_eq_none h] at hm; cases hm
        simpa using this
      exact rank_lt _ _ _ hm hlt

/-- **Survivors keep their coordinates and their values.** -/
theorem rv_survivors (g g' : Geom P T) (idx : List Int)
    (h : removeVertices g idx = .ok g') (j : Nat) (hj : j < g.verts.length)
    (hkeep : ∀ i ∈ idx, normIdx g.verts.length i ≠ some j) :
    g'.verts[rank (maskOfIdx g.verts.length idx) j]? = g.verts[j]?
    ∧ ∀ n v, (n, v) ∈ g.vdata → v.length = g.verts.length →
        ∃ v', (n, v') ∈ g'.vdata ∧ v'[rank (maskOfIdx g.verts.length idx) j]? = v[j]? := by
  have hm := (maskOfIdx_true_iff g.verts.length idx j hj).mpr hkeep
  unfold removeVertices at h
  split at h
  · cases h
  split at h
  · cases h
  have key : g'.verts = keep (maskOfIdx g.verts.length idx) g.verts
      ∧ g'.vdata = deleteData (maskOfIdx g.verts.length idx) g.vdata := by
    cases hcs : g.cells <;> simp only [hcs] at h <;> cases h <;> exact ⟨rfl, rfl⟩
  refine ⟨?_, ?_⟩
  · rw [key.1]; exact keep_get _ _ _ hm hj
  · intro n v hv hl
    refine ⟨keep (maskOfIdx g.verts.length idx) v, ?_, ?_⟩
    · rw [key.2]; unfold deleteData
      exact List.mem_map.mpr ⟨(n, v), hv, rfl⟩
    · exact keep_get _ _ _ hm (by omega)

/-- **Every surviving cell connects the same coordinates as before.** -/
theorem rv_cells_same_coords (m : List Bool) (verts : List P) (c : List Nat)
    (hk : cellKept m c = true) (hin : ∀ v ∈ c, v < verts.length) (k : Nat) :
    ((remap m c)[k]?).bind (fun v' => (keep m verts)[v']?) = (c[k]?).bind (fun v => verts[v]?) := by
  unfold remap
  rw [List.getElem?_map]
  cases hck : c[k]? with
  | none => rfl
  | some v =>
    have hv : v ∈ c := List.mem_of_getElem? hck
    simp only [Option.map_some, Option.bind_some]
    exact keep_get m verts v ((cellKept_iff m c).mp hk v hv) (hin v hv)

/-- the surviving cells are exactly the cells all of whose vertices survive, in order,
    re-indexed (`remove_cells(where(~all(...)))` then `new_index[cells]`) -/
theorem rv_cells_spec (g g' : Geom P T) (idx : List Int) (cells : List (List Nat))
    (hcs : g.cells = some cells) (h : removeVertices g idx = .ok g') :
    g'.cells = some ((cells.filter (cellKept (maskOfIdx g.verts.length idx))).map
                      (remap (maskOfIdx g.verts.length idx))) := by
  unfold removeVertices at h
  simp only [hcs] at h
  split at h
  · cases h
  split at h
  · cases h
  cases h
  simp only [Option.some.injEq]
  rw [keep_map_eq_filter]

/-- **Removing cells** keeps alignment. -/
theorem rc_aligned (g g' : Geom P T) (idx : List Int) (hc : Consistent g)
    (h : removeCells g idx = .ok g') : Consistent g' := by
  unfold removeCells at h
  obtain ⟨hv, hcd, hcell⟩ := hc
  cases hcs : g.cells with
  | none => simp only [hcs] at h; cases h; exact ⟨hv, hcd, hcell⟩
  | some cells =>
    simp only [hcs] at h
    split at h
    · cases h
    split at h
    · cases h
    cases h
    refine ⟨hv, ?_, ?_⟩
    · intro d hd
      obtain ⟨d0, h0, rfl⟩ := deleteData_mem hd
      have hl := hcd d0 h0
      simp only [nCells, hcs, Option.getD_some] at hl
      simp only [nCells, Option.getD_some]
      exact keep_length_eq _ _ _ hl
    · intro c hc' v hv'
      simp only [Option.getD_some] at hc'
      have hsub : c ∈ cells := mem_of_mem_keep _ _ _ hc'
      exact hcell c (by simpa [hcs] using hsub) v hv'

/-- **Shorter arrays are padded with the no-data value, longer ones refused.** -/
theorem formatLength_pad (ndv : T) (n : Nat) (v : List T) (h : v.length ≤ n) :
    ∃ v', formatLength ndv n v = .ok v' ∧ v'.length = n ∧ v'.take v.length = v
      ∧ ∀ k, v.length ≤ k → k < n → v'[k]? = some ndv := by
  unfold formatLength
  by_cases hlt : v.length < n
  · refine ⟨v ++ List.replicate (n - v.length) ndv, by simp [hlt], by simp; omega, by simp, ?_⟩
    intro k hk hkn
    rw [List.getElem?_append_right hk, List.getElem?_replicate]
    have : k - v.length < n - v.length := by omega
    simp [this]
  · have he : v.length = n := by omega
    refine ⟨v, by simp [he], he, List.take_length, ?_⟩
    intro k hk hkn; omega

theorem formatLength_refuse (ndv : T) (n : Nat) (v : List T) (h : n < v.length) :
    formatLength ndv n v = .error .valueError := by
  unfold formatLength
  have : ¬ v.length < n := by omega
  simp [this, h]

theorem formatLength_ok_length (ndv : T) (n : Nat) (v v' : List T)
    (h : formatLength ndv n v = .ok v') : v'.length = n := by
  unfold formatLength at h
  by_cases h1 : v.length < n
  · simp only [h1, ↓reduceIte, Except.ok.injEq] at h; subst h; simp; omega
  · by_cases h2 : v.length > n
    · simp [h1, h2] at h
    · simp only [h1, h2, ↓reduceIte, Except.ok.injEq] at h; subst h; omega

theorem setValues_aligned (ndv : T) (g g' : Geom P T) (cell : Bool) (name : String) (v : List T)
    (hc : Consistent g) (h : setValues ndv g cell name v = .ok g') : Consistent g' := by
  unfold setValues at h
  obtain ⟨hv, hcd, hcell⟩ := hc
  cases hf : formatLength ndv (if cell then nCells g else g.verts.length) v with
  | error e => simp [hf] at h
  | ok v' =>
    have hlen := formatLength_ok_length ndv _ v v' hf
    simp only [hf] at h
    have upd_len : ∀ (ds : List (String × List T)) (n : Nat), (∀ d ∈ ds, d.2.length = n) →
        v'.length = n →
        ∀ d ∈ (if ds.any (·.1 == name) then ds.map fun e => if e.1 == name then (name, v') else e
                else ds ++ [(name, v')]), d.2.length = n := by
      intro ds n hds hn d hd
      split at hd
      · obtain ⟨e, he, rfl⟩ := List.mem_map.mp hd
        split
        · exact hn
        · exact hds e he
      · rcases List.mem_append.mp hd with hd | hd
        · exact hds d hd
        · simp at hd; subst hd; exact hn
    cases cell
    · simp only [Bool.false_eq_true, ↓reduceIte] at h hlen
      cases h
      exact ⟨upd_len g.vdata _ hv hlen, hcd, hcell⟩
    · simp only [↓reduceIte] at h hlen
      cases h
      exact ⟨hv, upd_len g.cdata _ hcd hlen, hcell⟩

/-- **Closure**: after any sequence of removals and assignments — failing ones included —
    geometry and data are mutually consistent. -/
theorem run_consistent (ndv : T) (ops : List (Op T)) (g : Geom P T) (hc : Consistent g) :
    Consistent (ops.foldl (step ndv) g) := by
  induction ops generalizing g with
  | nil => exact hc
  | cons op ops ih =>
    simp only [List.foldl_cons]
    apply ih
    cases op with
    | rmVerts idx =>
      simp only [step]
      cases h : removeVertices g idx with
      | error e => exact hc
      | ok g' => exact rv_aligned g g' idx hc h
    | rmCells idx =>
      simp only [step]
      cases h : removeCells g idx with
      | error e => exact hc
      | ok g' => exact rc_aligned g g' idx hc h
    | set c n v =>
      simp only [step]
      cases h : setValues ndv g c n v with
      | error e => exact hc
      | ok g' => exact setValues_aligned ndv g g' c n v hc h

/-! ### Non-vacuity -/

def exGeom : Geom Nat Nat :=
  { verts := [10, 11, 12, 13, 14], cells := some [[0, 1], [1, 2], [3, 4]],
    vdata := [("a", [0, 1, 2, 3, 4])], cdata := [("c", [7, 8, 9])] }

example : Consistent exGeom := by
  refine ⟨by decide, by decide, ?_⟩
  intro c hc v hv
  simp [exGeom] at hc
  rcases hc with rfl | rfl | rfl <;> simp at hv <;> rcases hv with rfl | rfl <;> decide

example : (match removeVertices exGeom [-5, 0] with
           | .ok g' => (g'.verts, g'.cells, g'.vdata, g'.cdata)
           | .error _ => ([], none, [], [])) =
    ([11, 12, 13, 14], some [[0, 1], [2, 3]], [("a", [1, 2, 3, 4])], [("c", [8, 9])]) := by
  decide

/-! ### masked copies -/

theorem mem_keep_cellKept (m : List Bool) : ∀ (cs : List (List Nat)) (c0 : List Nat),
    c0 ∈ keep (cs.map (cellKept m)) cs → cellKept m c0 = true := by
  intro cs
  induction cs with
  | nil => intro c0 h; simp [keep] at h
  | cons x xs ih =>
    intro c0 h
    simp only [List.map_cons, keep] at h
    by_cases hx : cellKept m x
    · simp only [hx, ↓reduceIte, List.mem_cons] at h
      rcases h with rfl | h
      · exact hx
      · exact ih c0 h
    · simp only [hx, Bool.false_eq_true, ↓reduceIte] at h
      exact ih c0 h

/-- **A masked copy is aligned**: one entry per vertex / per cell, cells reference existing vertices. -/
theorem mc_aligned (g c : Geom P T) (m : List Bool) (hc : Consistent g)
    (h : maskedCopy g m = .ok c) : Consistent c := by
  unfold maskedCopy at h
  split at h
  · cases h
  rename_i hlen
  have hlen : m.length = g.verts.length := by simpa using hlen
  obtain ⟨hv, hcd, hcell⟩ := hc
  cases hcs : g.cells with
  | none =>
    simp only [hcs] at h
    cases h
    refine ⟨?_, ?_, ?_⟩
    · intro d hd
      obtain ⟨d0, h0, rfl⟩ := deleteData_mem hd
      exact keep_length_eq _ _ _ (hv d0 h0)
    · intro d hd
      have := hcd d hd
      simpa [nCells, hcs] using this
    · intro c hc'; simp [hcs] at hc'
  | some cells =>
    simp only [hcs] at h
    cases h
    refine ⟨?_, ?_, ?_⟩
    · intro d hd
      obtain ⟨d0, h0, rfl⟩ := deleteData_mem hd
      exact keep_length_eq _ _ _ (hv d0 h0)
    · intro d hd
      obtain ⟨d0, h0, rfl⟩ := deleteData_mem hd
      have hl := hcd d0 h0
      simp only [nCells, hcs, Option.getD_some] at hl
      simp only [nCells, Option.getD_some, List.length_map]
      exact keep_length_eq _ _ _ hl
    · intro c hc' v hv'
      simp only [Option.getD_some] at hc'
      obtain ⟨c0, hc0, rfl⟩ := List.mem_map.mp hc'
      obtain ⟨v0, hv0, rfl⟩ := List.mem_map.mp hv'
      have hkept := mem_keep_cellKept m cells c0 hc0
      have hm := (cellKept_iff _ _).mp hkept v0 hv0
      have hlt : v0 < g.verts.length := by
        rcases Nat.lt_or_ge v0 m.length with h | h
        · omega
        · rw [List.getElem?_eq_none h] at hm; cases hm
      exact rank_lt _ _ _ hm hlt

/-- **Selected vertices keep their coordinates and their values** in the copy, at the position `rank`. -/
theorem mc_survivors (g c : Geom P T) (m : List Bool) (h : maskedCopy g m = .ok c)
    (j : Nat) (hj : j < g.verts.length) (hm : m[j]? = some true) :
    c.verts[rank m j]? = g.verts[j]?
    ∧ ∀ n v, (n, v) ∈ g.vdata → v.length = g.verts.length →
        ∃ v', (n, v') ∈ c.vdata ∧ v'[rank m j]? = v[j]? := by
  unfold maskedCopy at h
  split at h
  · cases h
  have key : c.verts = keep m g.verts ∧ c.vdata = deleteData m g.vdata := by
    cases hcs : g.cells <;> simp only [hcs] at h <;> cases h <;> exact ⟨rfl, rfl⟩
  refine ⟨?_, ?_⟩
  · rw [key.1]; exact keep_get _ _ _ hm hj
  · intro n v hv hl
    refine ⟨keep m v, ?_, ?_⟩
    · rw [key.2]; unfold deleteData
      exact List.mem_map.mpr ⟨(n, v), hv, rfl⟩
    · exact keep_get _ _ _ hm (by omega)

/-- the cells of the copy are exactly the cells all of whose vertices are selected, in order, re-indexed; with
    `rv_cells_same_coords` each of them connects the same coordinates as in the source -/
theorem mc_cells_spec (g c : Geom P T) (m : List Bool) (cells : List (List Nat))
    (hcs : g.cells = some cells) (h : maskedCopy g m = .ok c) :
    c.cells = some ((cells.filter (cellKept m)).map (remap m))
    ∧ c.cdata = deleteData (cells.map (cellKept m)) g.cdata := by
  unfold maskedCopy at h
  simp only [hcs] at h
  split at h
  · cases h
  cases h
  simp only [Option.some.injEq]
  rw [keep_map_eq_filter]
  constructor <;> first | rfl | trivial

/-- a mask of the wrong length is refused -/
theorem mc_refuse (g : Geom P T) (m : List Bool) (h : m.length ≠ g.verts.length) :
    maskedCopy g m = .error .valueError := by
  unfold maskedCopy
  simp [h]

/-- removing vertices is the masked copy by the complement of the removed indices, applied in place -/
theorem rv_eq_maskedCopy (g : Geom P T) (idx : List Int)
    (h1 : maxGuard g.verts.length idx = true) (h2 : idxOk g.verts.length idx = true) :
    removeVertices g idx = maskedCopy g (maskOfIdx g.verts.length idx) := by
  unfold removeVertices maskedCopy
  simp [h1, h2, maskOfIdx]


/-- non-vacuity: a curve with three segments copied without its second vertex -/
example : (match maskedCopy (P := Nat) (T := Nat)
      ⟨[10, 11, 12, 13], some [[0, 1], [2, 3], [1, 2]], [("va", [1, 2, 3, 4])], [("ca", [7, 8, 9])]⟩ [true, false, true, true] with
    | .ok c => (c.verts, c.cells, c.vdata, c.cdata)
    | .error _ => ([], none, [], []))
    = ([10, 12, 13], some [[1, 2]], [("va", [1, 3, 4])], [("ca", [8])]) := by decide

end GeoVerif.Geom
