import GeoVerif.Props.C01

/-!
# C09 — an operation on one entity leaves unrelated stored entities untouched
-/
namespace GeoVerif.Ws

theorem linksL_updateL (f : Ent → Ent) (hf : ∀ e, (f e).uid = e.uid ∧ (f e).kind = e.kind) :
    ∀ (ks : List Tree) (u : Nat), linksL (updateL f ks u) = linksL ks
  | [], _ => by simp [updateL]
  | k :: ks, u => by
    have ih := linksL_updateL f hf ks u
    simp only [linksL] at ih ⊢
    simp only [updateL, List.map_cons, ih, List.cons.injEq, and_true]
    cases k with
    | node e kk =>
      simp only [Tree.update]
      split <;> simp [Tree.ent, hf]

mutual
/-- **Frame for assignments** (attribute, array, name, flag, property-group edits): every stored
    node other than the target's is unchanged. -/
theorem update_frame (f : Ent → Ent) (hf : ∀ e, (f e).uid = e.uid ∧ (f e).kind = e.kind) :
    ∀ (t : Tree) (u : Nat) (n : Node), n ∈ (t.update f u).flat → n.ent.uid ≠ u → n ∈ t.flat
  | .node e ks, u, n, hn, hu => by
    simp only [Tree.update] at hn
    split at hn
    · rename_i he
      simp only [Tree.flat, subs_node, List.map_cons, List.mem_cons] at hn ⊢
      rcases hn with rfl | hn
      · exact absurd (by simp [toNode, Tree.ent, hf, he]) hu
      · right; exact hn
    · simp only [Tree.flat, subs_node, List.map_cons, List.mem_cons] at hn ⊢
      rcases hn with rfl | hn
      · left; simp [toNode, Tree.ent, Tree.kids, linksL_updateL f hf ks u]
      · right
        have := updateL_frame f hf ks u n (by simpa [Tree.flat] using hn) hu
        simpa [Tree.flat] using this
theorem updateL_frame (f : Ent → Ent) (hf : ∀ e, (f e).uid = e.uid ∧ (f e).kind = e.kind) :
    ∀ (ts : List Tree) (u : Nat) (n : Node), n ∈ (subsL (updateL f ts u)).map toNode → n.ent.uid ≠ u →
      n ∈ (subsL ts).map toNode
  | [], _, _, hn, _ => by simp [updateL] at hn
  | t :: ts, u, n, hn, hu => by
    simp only [updateL, subsL_cons, List.map_append, List.mem_append] at hn ⊢
    rcases hn with h | h
    · left; exact update_frame f hf t u n (by simpa [Tree.flat] using h) hu
    · right; exact updateL_frame f hf ts u n h hu
end

/-- assigning an attribute changes, in the file, only the target entity's node -/
theorem setAttr_frame (t : Tree) (u : Nat) (k v : String) (n : Node)
    (hn : n ∈ (fileOf (step t (.setAttr u k v)).1).nodes) (hu : n.ent.uid ≠ u) :
    n ∈ (fileOf t).nodes := by
  simp only [step] at hn
  split at hn
  · refine update_frame _ ?_ t u n hn hu
    intro e; exact ⟨rfl, rfl⟩
  · exact hn

/-- re-typing an entity changes, in the file, only the target entity's node (its type link): every
    other node, and with it every other entity's type link, is as before -/
theorem setTyp_frame (t : Tree) (u ty : Nat) (n : Node)
    (hn : n ∈ (fileOf (step t (.setTyp u ty)).1).nodes) (hu : n.ent.uid ≠ u) :
    n ∈ (fileOf t).nodes := by
  simp only [step] at hn
  split at hn
  · refine update_frame _ ?_ t u n hn hu
    intro e; exact ⟨rfl, rfl⟩
  · exact hn

theorem setDset_frame (t : Tree) (u : Nat) (k v : String) (n : Node)
    (hn : n ∈ (fileOf (step t (.setDset u k v)).1).nodes) (hu : n.ent.uid ≠ u) :
    n ∈ (fileOf t).nodes := by
  simp only [step] at hn
  split at hn
  · refine update_frame _ ?_ t u n hn hu
    intro e; exact ⟨rfl, rfl⟩
  · exact hn

theorem rename_frame (t : Tree) (u : Nat) (name : String) (n : Node)
    (hn : n ∈ (fileOf (step t (.rename u name)).1).nodes) (hu : n.ent.uid ≠ u) :
    n ∈ (fileOf t).nodes := by
  simp only [step] at hn
  split at hn
  · refine update_frame _ ?_ t u n hn hu
    intro e; exact ⟨rfl, rfl⟩
  · exact hn

mutual
/-- **Frame for creation and copies**: inserting a subtree under `p` leaves every old node other
    than `p`'s exactly as it was (the source of a copy, its children, everything else). -/
theorem insert_frame (c : Tree) : ∀ (t : Tree) (p : Nat) (n : Node), n ∈ t.flat → n.ent.uid ≠ p →
    n ∈ (t.insert p c).flat
  | .node e ks, p, n, hn, hp => by
    simp only [Tree.flat, subs_node, List.map_cons, List.mem_cons] at hn
    simp only [Tree.insert]
    split
    · rename_i he
      rcases hn with rfl | hn
      · exact absurd (by simpa [toNode, Tree.ent] using he) hp
      · simp only [Tree.flat, subs_node, List.map_cons, List.mem_cons, subsL_append, List.map_append,
          List.mem_append]
        right; left; exact hn
    · simp only [Tree.flat, subs_node, List.map_cons, List.mem_cons]
      rcases hn with rfl | hn
      · left
        simp only [toNode, Tree.ent, Tree.kids, Node.mk.injEq, true_and]
        exact (linksL_insertL c ks p).symm
      · right; exact insertL_frame c ks p n hn hp
theorem insertL_frame (c : Tree) : ∀ (ts : List Tree) (p : Nat) (n : Node), n ∈ (subsL ts).map toNode →
    n.ent.uid ≠ p → n ∈ (subsL (insertL ts p c)).map toNode
  | [], _, _, hn, _ => by simp at hn
  | t :: ts, p, n, hn, hp => by
    simp only [insertL, subsL_cons, List.map_append, List.mem_append] at hn ⊢
    rcases hn with h | h
    · left; exact insert_frame c t p n (by simpa [Tree.flat] using h) hp
    · right; exact insertL_frame c ts p n h hp
theorem linksL_insertL (c : Tree) : ∀ (ks : List Tree) (p : Nat), linksL (insertL ks p c) = linksL ks
  | [], _ => by simp [insertL]
  | k :: ks, p => by
    have ih := linksL_insertL c ks p
    simp only [linksL] at ih ⊢
    simp only [insertL, List.map_cons, ih, List.cons.injEq, and_true]
    cases k with
    | node e kk =>
      simp only [Tree.insert]
      split <;> simp [Tree.ent]
end

/-- opening and closing a workspace without any mutation changes nothing -/
theorem open_close_noop (t : Tree) (hn : t.uids.Nodup) :
    (load (fileOf t)).map fileOf = some (fileOf t) := by
  rw [reopen_identity t hn]; rfl

example : (fileOf (step exTree (.rename 3 "x")).1).nodes.filter (·.ent.uid != 3)
    = (fileOf exTree).nodes.filter (·.ent.uid != 3) := by decide

end GeoVerif.Ws
