import GeoVerif.Props.C01

/-!
# C09 — an operation on one entity leaves unrelated stored entities untouched
-/
namespace GeoVerif.Ws

theorem linksL_updateL (f : Ent → Ent) (hf : ∀ e, (f e).uid = e.uid ∧ (f e).kind = e.kind) :
    ∀ (ks : List Tree) (u : Nat), linksL (updateL f ks u) = linksL ks
  | [], _ => by simp [updateL]
  | k :: ks, u => by
    have ih := linksL_updateL f hf ks u
    simp only [linksL] at ih ⊢
    simp only [updateL, List.map_cons, ih, List.cons.injEq, and_true]
    cases k with
    | node e kk =>
      simp only [Tree.update]
      split <;> simp [Tree.ent, hf]

mutual
/-- **Frame for assignments** (attribute, array, name, flag, property-group edits): every stored
    node other than the target's is unchanged. -/
theorem update_frame (f : Ent → Ent) (hf : ∀ e, (f e).uid = e.uid ∧ (f e).kind = e.kind) :
    ∀ (t : Tree) (u : Nat) (n : Node), n ∈ (t.update f u).flat → n.ent.uid ≠ u → n ∈ t.flat
  | .node e ks, u, n, hn, hu => by
    simp only [Tree.update] at hn
    split at hn
    · rename_i he
      simp only [Tree.flat, subs_node, List.map_cons, List.mem_cons] at hn ⊢
      rcases hn with rfl | hn
      · exact absurd (by simp [toNode, Tree.ent, hf, he]) hu
      · right; exact hn
    · simp only [Tree.flat, subs_node, List.map_cons, List.mem_cons] at hn ⊢
      rcases hn with rfl | hn
      · left; simp [toNode, Tree.ent, Tree.kids, linksL_updateL f hf ks u]
      · right
        have := updateL_frame f hf ks u n (by simpa [Tree.flat] using hn) hu
        simpa [Tree.flat] using this
theorem updateL_frame (f : Ent → Ent) (hf : ∀ e, (f e).uid = e.uid ∧ (f e).kind = e.kind) :
    ∀ (ts : List Tree) (u : Nat) (n : Node), n ∈ (subsL (updateL f ts u)).map toNode → n.ent.uid ≠ u →
      n ∈ (subsL ts).map toNode
  | [], _, _, hn, _ => by simp [updateL] at hn
  | t :: ts, u, n, hn, hu => by
    simp only [updateL, subsL_cons, List.map_append, List.mem_append] at hn ⊢
    rcases hn with h | h
    · left; exact update_frame f hf t u n (by simpa [Tree.flat] using h) hu
    · right; exact updateL_frame f hf ts u n h hu
end

/-- assigning an attribute changes, in the file, only the target entity's node -/
theorem setAttr_frame (t : Tree) (u : Nat) (k v : String) (n : Node)
    (hn : n ∈ (fileOf (step t (.setAttr u k v)).1).nodes) (hu : n.ent.uid ≠ u) :
    n ∈ (fileOf t).nodes := by
  simp only [step] at hn
  split at hn
  · refine update_frame _ ?_ t u n hn hu
    intro e; exact ⟨rfl, rfl⟩
  · exact hn

/-- re-typing an entity changes, in the file, only the target entity's node (its type link): every
    other node, and with it every other entity's type link, is as before -/
theorem setTyp_frame (t : Tree) (u ty : Nat) (n : Node)
    (hn : n ∈ (fileOf (step t (.setTyp u ty)).1).nodes) (hu : n.ent.uid ≠ u) :
    n ∈ (fileOf t).nodes := by
  simp only [step] at hn
  split at hn
  · refine update_frame _ ?_ t u n hn hu
    intro e; exact ⟨rfl, rfl⟩
  · exact hn

theorem setDset_frame (t : Tree) (u : Nat) (k v : String) (n : Node)
    (hn : n ∈ (fileOf (step t (.setDset u k v)).1).nodes) (hu : n.ent.uid ≠ u) :
    n ∈ (fileOf t).nodes := by
  simp only [step] at hn
  split at hn
  · refine update_frame _ ?_ t u n hn hu
    intro e; exact ⟨rfl, rfl⟩
  · exact hn

theorem rename_frame (t : Tree) (u : Nat) (name : String) (n : Node)
    (hn : n ∈ (fileOf (step t (.rename u name)).1).nodes) (hu : n.ent.uid ≠ u) :
    n ∈ (fileOf t).nodes := by
  simp only [step] at hn
  split at hn
  · refine update_frame _ ?_ t u n hn hu
    intro e; exact ⟨rfl, rfl⟩
  · exact hn

mutual
/-- **Frame for creation and copies**: inserting a subtree under `p` leaves every old node other
    than `p`'s exactly as it was (the source of a copy, its children, everything else). -/
theorem insert_frame (c : Tree) : ∀ (t : Tree) (p : Nat) (n : Node), n ∈ t.flat → n.ent.uid ≠ p →
    n ∈ (t.insert p c).flat
  | .node e ks, p, n, hn, hp => by
    simp only [Tree.flat, subs_node, List.map_cons, List.mem_cons] at hn
    simp only [Tree.insert]
    split
    · rename_i he
      rcases hn with rfl | hn
      · exact absurd (by simpa [toNode, Tree.ent] using he) hp
      · simp only [Tree.flat, subs_node, List.map_cons, List.mem_cons, subsL_append, List.map_append,
          List.mem_append]
        right; left; exact hn
    · simp only [Tree.flat, subs_node, List.map_cons, List.mem_cons]
      rcases hn with rfl | hn
      · left
        simp only [toNode, Tree.ent, Tree.kids, Node.mk.injEq, true_and]
        exact (linksL_insertL c ks p).symm
      · right; exact insertL_frame c ks p n hn hp
theorem insertL_frame (c : Tree) : ∀ (ts : List Tree) (p : Nat) (n : Node), n ∈ (subsL ts).map toNode →
    n.ent.uid ≠ p → n ∈ (subsL (insertL ts p c)).map toNode
  | [], _, _, hn, _ => by simp at hn
  | t :: ts, p, n, hn, hp => by
    simp only [insertL, subsL_cons, List.map_append, List.mem_append] at hn ⊢
    rcases hn with h | h
    · left; exact insert_frame c t p n (by simpa [Tree.flat] using h) hp
    · right; exact insertL_frame c ts p n h hp
theorem linksL_insertL (c : Tree) : ∀ (ks : List Tree) (p : Nat), linksL (insertL ks p c) = linksL ks
  | [], _ => by simp [insertL]
  | k :: ks, p => by
    have ih := linksL_insertL c ks p
    simp only [linksL] at ih ⊢
    simp only [insertL, List.map_cons, ih, List.cons.injEq, and_true]
    cases k with
    | node e kk =>
      simp only [Tree.insert]
      split <;> simp [Tree.ent]
end

/-- opening and closing a workspace without any mutation changes nothing -/
theorem open_close_noop (t : Tree) (hn : t.uids.Nodup) :
    (load (fileOf t)).map fileOf = some (fileOf t) := by
  rw [reopen_identity t hn]; rfl

example : (fileOf (step exTree (.rename 3 "x")).1).nodes.filter (·.ent.uid != 3)
    = (fileOf exTree).nodes.filter (·.ent.uid != 3) := by decide


/-! ### removals and moves -/

/-- child entries that do not point at `u` -/
def dropLink (u : Nat) (l : List (Kind × Nat)) : List (Kind × Nat) := l.filter (fun x => x.2 ≠ u)

theorem linksL_eraseL (u : Nat) : ∀ ks : List Tree, linksL (eraseL ks u) = dropLink u (linksL ks)
  | [] => by simp [eraseL, linksL, dropLink]
  | k :: ks => by
    have ih := linksL_eraseL u ks
    simp only [linksL, dropLink] at ih ⊢
    simp only [eraseL]
    split
    · rename_i h
      simp [List.filter_cons, h, ih]
    · rename_i h
      have : (k.erase u).ent = k.ent := by cases k; rfl
      simp [List.filter_cons, h, ih, this]

mutual
/-- **Frame for removals (structure)**: every node of the tree after erasing `u` is an old node with the same content
    whose child entries lost exactly the entries pointing at `u`. -/
theorem erase_frame (u : Nat) : ∀ (t : Tree) (n' : Node), n' ∈ (t.erase u).flat →
    ∃ n ∈ t.flat, n'.ent = n.ent ∧ n'.links = dropLink u n.links
  | .node e ks, n', h => by
    simp only [Tree.erase, Tree.flat, subs_node, List.map_cons, List.mem_cons] at h
    rcases h with rfl | h
    · refine ⟨toNode (.node e ks), by simp [Tree.flat], rfl, ?_⟩
      simp [toNode, Tree.kids, linksL_eraseL]
    · obtain ⟨n, hn, h1, h2⟩ := eraseL_frame u ks n' h
      exact ⟨n, by simp only [Tree.flat, subs_node, List.map_cons, List.mem_cons]; right; exact hn, h1, h2⟩
theorem eraseL_frame (u : Nat) : ∀ (ts : List Tree) (n' : Node), n' ∈ (subsL (eraseL ts u)).map toNode →
    ∃ n ∈ (subsL ts).map toNode, n'.ent = n.ent ∧ n'.links = dropLink u n.links
  | [], n', h => by simp [eraseL] at h
  | t :: ts, n', h => by
    simp only [eraseL] at h
    split at h
    · obtain ⟨n, hn, h1, h2⟩ := eraseL_frame u ts n' h
      exact ⟨n, by simp only [subsL_cons, List.map_append, List.mem_append]; right; exact hn, h1, h2⟩
    · simp only [subsL_cons, List.map_append, List.mem_append] at h
      rcases h with h | h
      · obtain ⟨n, hn, h1, h2⟩ := erase_frame u t n' (by simpa [Tree.flat] using h)
        exact ⟨n, by simp only [subsL_cons, List.map_append, List.mem_append]; left; simpa [Tree.flat] using hn, h1, h2⟩
      · obtain ⟨n, hn, h1, h2⟩ := eraseL_frame u ts n' h
        exact ⟨n, by simp only [subsL_cons, List.map_append, List.mem_append]; right; exact hn, h1, h2⟩
end

mutual
theorem mapEnts_frame (f : Ent → Ent) (hf : ∀ e, (f e).uid = e.uid ∧ (f e).kind = e.kind) :
    ∀ (t : Tree) (n' : Node), n' ∈ (t.mapEnts f).flat → ∃ n ∈ t.flat, n'.ent = f n.ent ∧ n'.links = n.links
  | .node e ks, n', h => by
    simp only [Tree.mapEnts, Tree.flat, subs_node, List.map_cons, List.mem_cons] at h
    rcases h with rfl | h
    · refine ⟨toNode (.node e ks), by simp [Tree.flat], rfl, ?_⟩
      simp only [toNode, Tree.kids]
      exact linksL_mapEntsL f hf ks
    · obtain ⟨n, hn, h1, h2⟩ := mapEntsL_frame f hf ks n' h
      exact ⟨n, by simp only [Tree.flat, subs_node, List.map_cons, List.mem_cons]; right; exact hn, h1, h2⟩
theorem mapEntsL_frame (f : Ent → Ent) (hf : ∀ e, (f e).uid = e.uid ∧ (f e).kind = e.kind) :
    ∀ (ts : List Tree) (n' : Node), n' ∈ (subsL (mapEntsL f ts)).map toNode →
      ∃ n ∈ (subsL ts).map toNode, n'.ent = f n.ent ∧ n'.links = n.links
  | [], n', h => by simp [mapEntsL] at h
  | t :: ts, n', h => by
    simp only [mapEntsL, subsL_cons, List.map_append, List.mem_append] at h
    rcases h with h | h
    · obtain ⟨n, hn, h1, h2⟩ := mapEnts_frame f hf t n' (by simpa [Tree.flat] using h)
      exact ⟨n, by simp only [subsL_cons, List.map_append, List.mem_append]; left; simpa [Tree.flat] using hn, h1, h2⟩
    · obtain ⟨n, hn, h1, h2⟩ := mapEntsL_frame f hf ts n' h
      exact ⟨n, by simp only [subsL_cons, List.map_append, List.mem_append]; right; exact hn, h1, h2⟩
theorem linksL_mapEntsL (f : Ent → Ent) (hf : ∀ e, (f e).uid = e.uid ∧ (f e).kind = e.kind) :
    ∀ ks : List Tree, linksL (mapEntsL f ks) = linksL ks
  | [] => by simp [mapEntsL, linksL]
  | k :: ks => by
    have ih := linksL_mapEntsL f hf ks
    simp only [linksL] at ih ⊢
    cases k with
    | node e kk =>
      simp only [mapEntsL, Tree.mapEnts, List.map_cons, ih, List.cons.injEq, and_true]
      simp [Tree.ent, hf]
end

theorem cleanPGs_keeps (gone : List Nat) (e : Ent) : (cleanPGs gone e).uid = e.uid ∧ (cleanPGs gone e).kind = e.kind := ⟨rfl, rfl⟩

/-- an entity none of whose property groups lists removed data (and that has no empty group) is not touched by the
    scrubbing of property groups -/
theorem cleanPGs_noop (gone : List Nat) (e : Ent)
    (h : ∀ g ∈ e.pgs, g.props ≠ [] ∧ ∀ d ∈ g.props, d ∉ gone) : cleanPGs gone e = e := by
  have h1 : e.pgs.map (cleanPG gone) = e.pgs := by
    rw [List.map_congr_left (g := id)]
    · simp
    · intro g hg
      have := (h g hg).2
      cases g with
      | mk uid name props =>
        simp only [cleanPG, id, PG.mk.injEq, true_and]
        apply List.filter_eq_self.mpr
        intro d hd
        simpa using this d hd
  have h2 : (e.pgs.filter fun g => !g.props.isEmpty) = e.pgs := by
    apply List.filter_eq_self.mpr
    intro g hg
    have := (h g hg).1
    cases hp : g.props <;> simp_all
  simp only [cleanPGs, h1, h2]

/-- **Frame for `workspace.remove_entity` and `parent.remove_children`**: every node stored after the removal is a node stored
    before it, with its child entries minus the entries for `u` and its property groups scrubbed of the removed data; with
    `cleanPGs_noop`, a node that neither links to `u` nor lists removed data in a property group is identical. -/
theorem remove_frame (t t' : Tree) (u : Nat) (h : step t (.remove u) = (t', .ok) ∨ step t (.detach u) = (t', .ok)) :
    ∃ s, t.findSub u = some s ∧ ∀ n' ∈ t'.flat, ∃ n ∈ t.flat,
      n'.ent = cleanPGs s.uids n.ent ∧ n'.links = dropLink u n.links := by
  have key : ∀ s, t.findSub u = some s → t' = (t.erase u).mapEnts (cleanPGs s.uids) →
      ∀ n' ∈ t'.flat, ∃ n ∈ t.flat, n'.ent = cleanPGs s.uids n.ent ∧ n'.links = dropLink u n.links := by
    intro s _ ht n' hn'
    subst ht
    obtain ⟨m, hm, e1, l1⟩ := mapEnts_frame _ (cleanPGs_keeps s.uids) _ n' hn'
    obtain ⟨n, hn, e2, l2⟩ := erase_frame u t m hm
    exact ⟨n, hn, by rw [e1, e2], by rw [l1, l2]⟩
  rcases h with h | h
  all_goals
    simp only [step] at h
    cases hs : t.findSub u with
    | none => simp [hs] at h
    | some s =>
      simp only [hs] at h
      split at h
      · simp at h
      · simp only [Prod.mk.injEq, and_true] at h
        exact ⟨s, rfl, key s hs h.symm⟩

mutual
/-- every node stored after an insertion is a node of the inserted subtree or an old node, unchanged except that the
    receiving parent gained one child entry -/
theorem insert_frame_back (c : Tree) : ∀ (t : Tree) (p : Nat) (n' : Node), n' ∈ (t.insert p c).flat →
    n' ∈ c.flat ∨ ∃ n ∈ t.flat, n'.ent = n.ent ∧
      (n'.links = n.links ∨ (n.ent.uid = p ∧ n'.links = n.links ++ [(c.ent.kind, c.ent.uid)]))
  | .node e ks, p, n', h => by
    simp only [Tree.insert] at h
    split at h
    · rename_i he
      simp only [Tree.flat, subs_node, List.map_cons, List.mem_cons, subsL_append, List.map_append, List.mem_append] at h
      rcases h with rfl | h | h
      · right
        refine ⟨toNode (.node e ks), by simp [Tree.flat], rfl, Or.inr ⟨by simpa [toNode, Tree.ent] using he, ?_⟩⟩
        simp [toNode, Tree.kids, linksL]
      · right
        exact ⟨n', by simp only [Tree.flat, subs_node, List.map_cons, List.mem_cons]; right; exact h, rfl, Or.inl rfl⟩
      · left
        simpa [Tree.flat, subsL] using h
    · simp only [Tree.flat, subs_node, List.map_cons, List.mem_cons] at h
      rcases h with rfl | h
      · right
        refine ⟨toNode (.node e ks), by simp [Tree.flat], rfl, Or.inl ?_⟩
        simp only [toNode, Tree.kids]
        exact linksL_insertL c ks p
      · rcases insertL_frame_back c ks p n' h with h | ⟨n, hn, h1, h2⟩
        · left; exact h
        · right
          exact ⟨n, by simp only [Tree.flat, subs_node, List.map_cons, List.mem_cons]; right; exact hn, h1, h2⟩
theorem insertL_frame_back (c : Tree) : ∀ (ts : List Tree) (p : Nat) (n' : Node),
    n' ∈ (subsL (insertL ts p c)).map toNode →
    n' ∈ c.flat ∨ ∃ n ∈ (subsL ts).map toNode, n'.ent = n.ent ∧
      (n'.links = n.links ∨ (n.ent.uid = p ∧ n'.links = n.links ++ [(c.ent.kind, c.ent.uid)]))
  | [], _, n', h => by simp [insertL] at h
  | t :: ts, p, n', h => by
    simp only [insertL, subsL_cons, List.map_append, List.mem_append] at h
    rcases h with h | h
    · rcases insert_frame_back c t p n' (by simpa [Tree.flat] using h) with h | ⟨n, hn, h1, h2⟩
      · left; exact h
      · right
        exact ⟨n, by simp only [subsL_cons, List.map_append, List.mem_append]; left; simpa [Tree.flat] using hn, h1, h2⟩
    · rcases insertL_frame_back c ts p n' h with h | ⟨n, hn, h1, h2⟩
      · left; exact h
      · right
        exact ⟨n, by simp only [subsL_cons, List.map_append, List.mem_append]; right; exact hn, h1, h2⟩
end

/-- **Frame for re-parenting** (`entity.parent = p`): after a move every stored node is either a node of the moved subtree
    (content and child entries as before, property groups scrubbed of `u`) or an old node whose content is unchanged up to
    that scrubbing and whose child entries lost the entries for `u` and, for the new parent only, gained one for it. -/
theorem move_frame (t t' : Tree) (u p : Nat) (h : step t (.move u p) = (t', .ok)) :
    ∃ s, t.findSub u = some s ∧ ∀ n' ∈ t'.flat,
      (∃ n ∈ s.flat, n'.ent = cleanPGs [u] n.ent ∧ n'.links = n.links) ∨
      (∃ n ∈ t.flat, n'.ent = cleanPGs [u] n.ent ∧
        (n'.links = dropLink u n.links ∨ (n.ent.uid = p ∧ n'.links = dropLink u n.links ++ [(s.ent.kind, s.ent.uid)]))) := by
  simp only [step] at h
  cases hs : t.findSub u with
  | none => simp [hs] at h
  | some s =>
    simp only [hs] at h
    split at h
    · simp at h
    · split at h
      · simp at h
      · simp only [Prod.mk.injEq, and_true] at h
        refine ⟨s, rfl, ?_⟩
        intro n' hn'
        subst h
        obtain ⟨m, hm, e1, l1⟩ := mapEnts_frame _ (cleanPGs_keeps [u]) _ n' hn'
        rcases insert_frame_back s (t.erase u) p m hm with hm | ⟨k, hk, e2, l2⟩
        · left; exact ⟨m, hm, e1, l1⟩
        · right
          obtain ⟨n, hn, e3, l3⟩ := erase_frame u t k hk
          refine ⟨n, hn, by rw [e1, e2, e3], ?_⟩
          rcases l2 with l2 | ⟨hp, l2⟩
          · left; rw [l1, l2, l3]
          · right; exact ⟨by rw [← e3]; exact hp, by rw [l1, l2, l3]⟩


/-- non-vacuity: on the sample tree a removal and a move succeed, so the frame theorems speak about real steps -/
example : (step exTree (.remove 2)).2 = .ok ∧ (step exTree (.detach 3)).2 = .ok ∧ (step exTree (.move 3 1)).2 = .ok := by decide
example : ((step exTree (.remove 3)).1.flat.map (·.ent.uid)) = [1, 2, 5] := by decide

end GeoVerif.Ws
