import GeoVerif.Model.Heap

/-!
# C12 (aliasing) — later edits of the copy do not show through in the source

Theorems about M10 (`GeoVerif/Model/Heap.lean`).  `aliasFree` is evaluated by the driver on the identities of the mutable
containers of every real source/copy pair of the class sweep; `copy_edits_frame` says what that verdict buys.
-/
namespace GeoVerif.Heap

def upd (a : Addr) (c : String) (p : Addr × String) : Addr × String := if p.1 == a then (a, c) else p

theorem upd_fst (a : Addr) (c : String) (p : Addr × String) : (upd a c p).1 = p.1 := by
  unfold upd; split
  · rename_i h; exact (by simpa using h : p.1 = a).symm
  · rfl

theorem get_set_other (h : Heap) (a b : Addr) (c : String) (hne : b ≠ a) : (h.set a c).get b = h.get b := by
  unfold Heap.get Heap.set
  show Option.map (·.2) ((h.cells.map (upd a c)).find? (·.1 == b)) = Option.map (·.2) (h.cells.find? (·.1 == b))
  induction h.cells with
  | nil => rfl
  | cons p ps ih =>
    simp only [List.map_cons, List.find?_cons, upd_fst]
    cases hb : p.1 == b with
    | true =>
      have hpb : p.1 = b := by simpa using hb
      have : upd a c p = p := by
        unfold upd
        have : (p.1 == a) = false := by simp [hpb]; exact hne
        simp [this]
      simp [this]
    | false => simpa using ih

/-- **Frame of an in-place edit**: editing a container the entity does not hold leaves everything the entity shows as it was. -/
theorem edit_frame (h : Heap) (o : Obj) (a : Addr) (c : String) (hn : a ∉ addrs o) :
    observe (h.set a c) o = observe h o := by
  unfold observe
  apply List.map_congr_left
  intro p hp
  have : p.2 ≠ a := by
    intro e; apply hn; rw [← e]; exact List.mem_map_of_mem hp
  rw [get_set_other h a p.2 c this]

theorem aliasFree_sound (o cp : Obj) (h : aliasFree o cp = true) : ∀ a ∈ addrs cp, a ∉ addrs o := by
  intro a ha hao
  obtain ⟨p, hp, rfl⟩ := List.mem_map.mp ha
  obtain ⟨q, hq, hqa⟩ := List.mem_map.mp hao
  unfold aliasFree at h
  have := List.all_eq_true.mp h p hp
  simp only [Bool.not_eq_eq_eq_not, Bool.not_true, List.any_eq_false, beq_iff_eq] at this
  exact this q hq hqa

/-- **Later edits of the copy do not show through in the source**: when the copy shares no container with its source, no
    in-place edit of any container of the copy changes anything the source shows — for every heap, entity, container and new
    content. -/
theorem copy_edit_frame (h : Heap) (o cp : Obj) (hf : aliasFree o cp = true) (a : Addr) (ha : a ∈ addrs cp) (c : String) :
    observe (h.set a c) o = observe h o :=
  edit_frame h o a c (aliasFree_sound o cp hf a ha)

/-- the same holds for any sequence of edits of the copy -/
theorem copy_edits_frame (o cp : Obj) (hf : aliasFree o cp = true) :
    ∀ (edits : List (Addr × String)) (h : Heap), (∀ e ∈ edits, e.1 ∈ addrs cp) →
      observe (edits.foldl (fun h e => h.set e.1 e.2) h) o = observe h o := by
  intro edits
  induction edits with
  | nil => intro h _; rfl
  | cons e es ih =>
    intro h he
    simp only [List.foldl_cons]
    rw [ih (h.set e.1 e.2) (fun x hx => he x (List.mem_cons_of_mem _ hx))]
    exact copy_edit_frame h o cp hf e.1 (he e List.mem_cons_self) e.2

/-! ### a deep copy is alias free and shows what the source shows -/

theorem foldl_max_ge (l : List Nat) : ∀ (m : Nat), m ≤ l.foldl max m ∧ ∀ x ∈ l, x ≤ l.foldl max m := by
  induction l with
  | nil => intro m; exact ⟨Nat.le_refl _, fun x hx => by cases hx⟩
  | cons y ys ih =>
    intro m
    simp only [List.foldl_cons]
    obtain ⟨h1, h2⟩ := ih (max m y)
    refine ⟨Nat.le_trans (Nat.le_max_left _ _) h1, ?_⟩
    intro x hx
    rcases List.mem_cons.mp hx with rfl | hx'
    · exact Nat.le_trans (Nat.le_max_right _ _) h1
    · exact h2 x hx'

theorem fresh_not_mem (h : Heap) : h.fresh ∉ h.dom := by
  intro hm
  have := (foldl_max_ge h.dom 0).2 _ hm
  unfold Heap.fresh at this
  omega

theorem get_alloc_old (h : Heap) (c : String) (a : Addr) (ha : a ∈ h.dom) : (h.alloc c).1.get a = h.get a := by
  unfold Heap.alloc Heap.get
  simp only [List.find?_append]
  obtain ⟨p, hp, rfl⟩ := List.mem_map.mp ha
  have : (h.cells.find? (·.1 == p.1)).isSome := by
    rw [List.find?_isSome]; exact ⟨p, hp, by simp⟩
  cases hf : h.cells.find? (·.1 == p.1) with
  | none => rw [hf] at this; cases this
  | some q => simp

theorem get_alloc_new (h : Heap) (c : String) : (h.alloc c).1.get h.fresh = some c := by
  unfold Heap.alloc Heap.get
  simp only [List.find?_append]
  have : h.cells.find? (·.1 == h.fresh) = none := by
    rw [List.find?_eq_none]
    intro p hp hb
    apply fresh_not_mem h
    have : p.1 = h.fresh := by simpa using hb
    rw [← this]; exact List.mem_map_of_mem hp
  simp [this]

theorem dom_alloc (h : Heap) (c : String) : (h.alloc c).1.dom = h.dom ++ [h.fresh] := by
  simp [Heap.alloc, Heap.dom]

theorem deepCopy_spec : ∀ (o : Obj) (h : Heap), (∀ a ∈ addrs o, a ∈ h.dom) →
    (∀ a ∈ h.dom, (deepCopy h o).1.get a = h.get a)
    ∧ (∀ a ∈ h.dom, a ∈ (deepCopy h o).1.dom)
    ∧ (∀ a ∈ addrs (deepCopy h o).2, a ∉ h.dom)
    ∧ observe (deepCopy h o).1 (deepCopy h o).2 = observe h o := by
  intro o
  induction o with
  | nil =>
    intro h _
    refine ⟨fun _ _ => rfl, fun _ ha => ha, ?_, rfl⟩
    intro a ha; simp [deepCopy, addrs] at ha
  | cons p rest ih =>
    intro h hin
    obtain ⟨k, a⟩ := p
    have ha : a ∈ h.dom := hin a (by simp [addrs])
    have hrest : ∀ b ∈ addrs rest, b ∈ (h.alloc ((h.get a).getD "")).1.dom := by
      intro b hb
      rw [dom_alloc]; exact List.mem_append_left _ (hin b (by simp only [addrs, List.map_cons, List.mem_cons]; exact Or.inr hb))
    obtain ⟨i1, i2, i3, i4⟩ := ih (h.alloc ((h.get a).getD "")).1 hrest
    simp only [deepCopy]
    refine ⟨?_, ?_, ?_, ?_⟩
    · intro b hb
      rw [i1 b (by rw [dom_alloc]; exact List.mem_append_left _ hb), get_alloc_old h _ b hb]
    · intro b hb
      exact i2 b (by rw [dom_alloc]; exact List.mem_append_left _ hb)
    · intro b hb
      simp only [addrs, List.map_cons, List.mem_cons] at hb
      rcases hb with rfl | hb
      · exact fresh_not_mem h
      · intro hbd
        exact i3 b hb (by rw [dom_alloc]; exact List.mem_append_left _ hbd)
    · simp only [observe, List.map_cons, List.cons.injEq, Prod.mk.injEq, true_and]
      refine ⟨?_, i4.trans ?_⟩
      · show (deepCopy (h.alloc ((h.get a).getD "")).1 rest).1.get h.fresh = h.get a
        rw [i1 h.fresh (by rw [dom_alloc]; simp), get_alloc_new]
        obtain ⟨q, hq, hqa⟩ := List.mem_map.mp ha
        have : (h.cells.find? (·.1 == a)).isSome := by
          rw [List.find?_isSome]; exact ⟨q, hq, by simp [hqa]⟩
        unfold Heap.get
        cases hf : h.cells.find? (·.1 == a) with
        | none => rw [hf] at this; cases this
        | some r => simp
      · unfold observe
        apply List.map_congr_left
        intro q hq
        rw [get_alloc_old h _ q.2 (hin q.2 (by simp only [addrs, List.map_cons, List.mem_cons]; exact Or.inr (List.mem_map_of_mem hq)))]

/-- **A deep copy equals its source and never disturbs it**: it shows what the source shows, the source shows what it showed,
    and the two share no container (so `copy_edits_frame` applies). -/
theorem deepCopy_correct (h : Heap) (o : Obj) (hin : ∀ a ∈ addrs o, a ∈ h.dom) :
    observe (deepCopy h o).1 (deepCopy h o).2 = observe h o
    ∧ observe (deepCopy h o).1 o = observe h o
    ∧ aliasFree o (deepCopy h o).2 = true := by
  obtain ⟨i1, _, i3, i4⟩ := deepCopy_spec o h hin
  refine ⟨i4, ?_, ?_⟩
  · unfold observe
    apply List.map_congr_left
    intro q hq
    rw [i1 q.2 (hin q.2 (List.mem_map_of_mem hq))]
  · unfold aliasFree
    rw [List.all_eq_true]
    intro p hp
    simp only [Bool.not_eq_eq_eq_not, Bool.not_true, List.any_eq_false, beq_iff_eq]
    intro q hq e
    exact i3 p.2 (List.mem_map_of_mem hp) (by rw [← e]; exact hin q.2 (List.mem_map_of_mem hq))

/-- handing the same containers over is not a copy in this sense: an edit through the "copy" shows in the source -/
theorem aliasCopy_counterexample :
    let h : Heap := ⟨[(1, "{'k': 1}")]⟩
    let o : Obj := [("metadata", 1)]
    observe ((aliasCopy h o).1.set 1 "{'k': 99}") o ≠ observe h o := by decide

example : aliasFree [("metadata", 1), ("vertices", 2)] [("metadata", 3), ("vertices", 4)] = true := by decide
example : aliasFree [("metadata", 1), ("vertices", 2)] [("metadata", 1), ("vertices", 4)] = false := by decide

end GeoVerif.Heap
