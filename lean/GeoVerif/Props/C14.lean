/-
C14 — ui.json files round-trip.

Statements proved here (model: `Model/UiFile.lean`; the scalar mappers, the three mapper lists and `flatten` are
regenerated from /repo on every run, `Gen/UiJson.lean`):

  * `scalar_roundtrip`   one unambiguous value through demote → stringify → json → numify comes back as itself
                         (an entity as its identifier), reading is idempotent on it, `json` accepts what is written;
  * `file_roundtrip`     for EVERY ui.json dictionary (any number of forms, any members, any nesting of dictionaries,
                         lists of values) whose values are unambiguous: `read (write ui) = canon ui` — all members,
                         hence values, `enabled`, `isValue`, `optional`, choice lists … are preserved;
  * `flatten_loop`       the regenerated `flatten` is the fold of `flatStep` (the tie of the loop to a pure step);
  * `flatten_canon`, `data_roundtrip`   the parameter values read back (flatten, then promote) are the values written;
  * `promote_demote`, `demote_promote`  identifiers ↔ entities;
  * `ambiguous_*`        the documented/as-found exceptions, each refuted by a concrete witness: NaN, and strings that
                         look like another value kind (`""`, `"inf"`, `"-inf"`, identifier-like, `*.geoh5`).
-/
import GeoVerif.Lemmas.UiFile
import GeoVerif.Model.UiClean
namespace GeoVerif.UiFile
open GeoVerif.Py GeoVerif.Py.PyVal GeoVerif.Gen.Ui

attribute [local irreducible] hyphenate bracedStr

theorem nS_plain (s : String) (h : plainStr s = true) : nS (.str s) = if geoh5Path s then .ws s else .str s := by
  unfold plainStr at h
  simp only [Bool.and_eq_true, bne_iff_ne, ne_eq, Option.isNone_iff_eq_none] at h
  obtain ⟨⟨⟨h0, h1⟩, h2⟩, h3⟩ := h
  have e0 : (s == "") = false := by simpa using h0
  have e1 : (s == "inf") = false := by simpa using h1
  have e2 : (s == "-inf") = false := by simpa using h2
  simp only [nS, e0, e1, e2, h3]
  rfl

theorem nS_braced (u : String) (h : wfUuid u = true) : nS (.str (bracedStr u)) = .uuid u ∧ nS (.uuid u) = .uuid u := by
  unfold wfUuid at h
  simp only [Bool.and_eq_true, beq_iff_eq, bne_iff_ne, ne_eq] at h
  obtain ⟨⟨⟨⟨h0, h1⟩, h2⟩, h3⟩, h4⟩ := h
  have e0 : (bracedStr u == "") = false := by simpa using h2
  have e1 : (bracedStr u == "inf") = false := by simpa using h3
  have e2 : (bracedStr u == "-inf") = false := by simpa using h4
  constructor
  · simp only [nS, e0, e1, e2, h1]; rfl
  · simp only [nS, h0]; rfl

/-- one value through write and read; reading is idempotent on the result; `json` accepts what is written -/
theorem scalar_roundtrip (v : PyVal) (h : cleanS v = true) :
    nS (sS (dS v)) = canonS v ∧ nS (canonS v) = canonS v ∧ jsonOk (sS (dS v)) = true := by
  cases v with
  | none => exact ⟨rfl, rfl, rfl⟩
  | bool b => exact ⟨rfl, rfl, rfl⟩
  | flt q => exact ⟨rfl, rfl, rfl⟩
  | inf n => cases n <;> exact ⟨rfl, rfl, rfl⟩
  | nan => simp [cleanS] at h
  | list l => simp [cleanS] at h
  | dict kv => simp [cleanS] at h
  | int i => exact ⟨rfl, rfl, rfl⟩
  | str s =>
    simp [cleanS] at h
    simp [dS, sS, canonS, jsonOk, nS_plain s h.1, h.2]
  | ws p =>
    simp [cleanS] at h
    refine ⟨?_, rfl, rfl⟩
    show nS (.str p) = .ws p
    rw [nS_plain p h.1, h.2]; rfl
  | uuid u =>
    simp [cleanS] at h
    simp [dS, sS, canonS, jsonOk, nS_braced u h]
  | ent u =>
    simp [cleanS] at h
    simp [dS, sS, canonS, jsonOk, nS_braced u h]

def isScalar : PyVal → Bool
  | .list _ | .dict _ => false
  | _ => true

theorem mapVal_scalar (f : PyVal → PyVal) (v : PyVal) (h : isScalar v = true) : mapVal f v = f v := by
  cases v <;> simp [isScalar] at h <;> simp [mapVal]

theorem cleanS_scalar (v : PyVal) (h : cleanS v = true) : isScalar v = true := by
  cases v <;> simp [cleanS] at h <;> rfl

theorem dS_scalar (v : PyVal) (h : isScalar v = true) : isScalar (dS v) = true := by
  cases v <;> simp [isScalar] at h <;> rfl
theorem sS_scalar (v : PyVal) (h : isScalar v = true) : isScalar (sS v) = true := by
  cases v with
  | inf n => cases n <;> rfl
  | list l => simp [isScalar] at h
  | dict l => simp [isScalar] at h
  | _ => rfl

theorem cleanV_scalar (v : PyVal) (hs : isScalar v = true) : cleanV v = cleanS v := by
  cases v <;> simp [isScalar] at hs <;> simp [cleanV]

theorem map_congr_clean {f g : PyVal → PyVal} (l : List PyVal) (hl : l.all cleanS = true)
    (h : ∀ x, cleanS x = true → f x = g x) : l.map f = l.map g := by
  apply List.map_congr_left
  intro x hx
  exact h x (List.all_eq_true.mp hl x hx)

theorem list_jsonOk (l : List PyVal) (hl : l.all cleanS = true) : jsonOkL (l.map (fun x => sS (dS x))) = true := by
  induction l with
  | nil => rfl
  | cons x xs ih =>
    simp at hl
    simp [jsonOkL, (scalar_roundtrip x hl.1).2.2]
    exact ih (by simpa using hl.2)

/-- on clean trees `demote` is the plain tree map -/
theorem demP_clean : ∀ kv, cleanKV kv = true → demP kv = mapKV dS kv
  | [], _ => by simp [demP, mapKV]
  | (k, .dict kv) :: rest, h => by
    simp [cleanKV, cleanV] at h
    simp [demP, demPV, mapKV, mapVal, dS, demP_clean kv h.1, demP_clean rest h.2]
  | (k, .list l) :: rest, h => by
    simp [cleanKV, cleanV] at h
    have hl : l.all cleanS = true := by simpa using h.1
    simp only [demP, demPV, mapKV, mapVal, demP_clean rest h.2]
    rw [map_congr_clean l hl (fun x hx => mapVal_scalar dS x (cleanS_scalar x hx))]
  | (k, .none) :: rest, h | (k, .bool _) :: rest, h | (k, .int _) :: rest, h | (k, .flt _) :: rest, h
  | (k, .inf _) :: rest, h | (k, .nan) :: rest, h | (k, .str _) :: rest, h | (k, .uuid _) :: rest, h
  | (k, .ws _) :: rest, h | (k, .ent _) :: rest, h => by
    simp [cleanKV] at h
    simp [demP, demPV, mapKV, demP_clean rest h.2]

theorem numP_cons (e : String × PyVal) (rest : KV) : numP (e :: rest) = numP [e] ++ numP rest := by
  obtain ⟨k, v⟩ := e
  simp [numP]

theorem numP_scalar (k : String) (y : PyVal) (h : isScalar y = true) : numP [(k, y)] = [(k, nS y)] := by
  cases y <;> simp [isScalar] at h <;> simp [numP, numPV, mapVal]

theorem scalar_val_roundtrip (k : String) (v : PyVal) (hs : isScalar v = true) (h : cleanS v = true) :
    numP [(k, mapVal sS (mapVal dS v))] = [(k, mapVal canonS v)] ∧ mapVal nS (mapVal canonS v) = mapVal canonS v
      ∧ jsonOk (mapVal sS (mapVal dS v)) = true := by
  have hc : isScalar (canonS v) = true := by cases v <;> simp [isScalar] at hs <;> rfl
  rw [mapVal_scalar dS v hs, mapVal_scalar sS _ (dS_scalar v hs), mapVal_scalar canonS v hs,
    numP_scalar k _ (sS_scalar _ (dS_scalar v hs)), mapVal_scalar nS _ hc]
  obtain ⟨a, b, c⟩ := scalar_roundtrip v h
  exact ⟨by rw [a], b, c⟩

mutual
theorem tree_roundtrip : ∀ kv, cleanKV kv = true →
    numP (mapKV sS (mapKV dS kv)) = mapKV canonS kv ∧ mapKV nS (mapKV canonS kv) = mapKV canonS kv
      ∧ jsonOkKV (mapKV sS (mapKV dS kv)) = true
  | [], _ => by simp [numP, mapKV, jsonOkKV]
  | (k, v) :: rest, h => by
    simp only [cleanKV, Bool.and_eq_true] at h
    obtain ⟨r1, r2, r3⟩ := tree_roundtrip rest h.2
    obtain ⟨v1, v2, v3⟩ := val_roundtrip k v h.1
    simp only [mapKV]
    refine ⟨?_, by rw [v2, r2], ?_⟩
    · rw [numP_cons, v1, r1]; rfl
    · simp [jsonOkKV, v3, r3]
theorem val_roundtrip : ∀ (k : String) v, cleanV v = true →
    numP [(k, mapVal sS (mapVal dS v))] = [(k, mapVal canonS v)] ∧ mapVal nS (mapVal canonS v) = mapVal canonS v
      ∧ jsonOk (mapVal sS (mapVal dS v)) = true
  | k, .dict kv, h => by
    simp only [cleanV] at h
    obtain ⟨r1, r2, r3⟩ := tree_roundtrip kv h
    simp [mapVal, dS, sS, canonS, numP, numPV, nS, r1, r2, jsonOk, r3]
  | k, .list l, h => by
    simp only [cleanV] at h
    simp only [mapVal, numP, numPV, List.map_map, jsonOk]
    refine ⟨?_, ?_, ?_⟩
    · congr 3
      exact map_congr_clean l h (fun x hx => (scalar_roundtrip x hx).1)
    · congr 1
      exact map_congr_clean l h (fun x hx => (scalar_roundtrip x hx).2.1)
    · exact list_jsonOk l h
  | k, .none, h | k, .bool _, h | k, .int _, h | k, .flt _, h
  | k, .inf _, h | k, .nan, h | k, .str _, h | k, .uuid _, h
  | k, .ws _, h | k, .ent _, h => by
    exact scalar_val_roundtrip k _ rfl (by simpa [cleanV] using h)
end

/-- **C14, file level.**  Writing a ui.json dictionary whose values are unambiguous and reading it back yields the same
    dictionary: every member of every form (value, property, enabled, isValue, optional, choice lists, …) is preserved,
    entities come back as their identifiers (`canonS`; promotion turns them into the entities again), workspaces as
    workspaces on the same path, infinities as infinities, `None` as `None`. -/
theorem file_roundtrip (ui : KV) (h : cleanKV ui = true) : writeRead ui = .ok (mapKV canonS ui) := by
  obtain ⟨r1, _, r3⟩ := tree_roundtrip ui h
  rw [writeRead_spec ui (by rw [demP_clean ui h]; exact r3), demP_clean ui h, r1]

/-! ### the regenerated `flatten` as a fold -/

/-- one iteration of `flatten`'s loop, as a step on the accumulated dictionary -/
def flatStep (ui : KV) (acc : KV) (e : String × PyVal) : PyM KV :=
  match e.2 with
  | .dict f =>
    if allKeysIn ["label", "value"] (.dict f) then do
      let isValue ← truth (.dict ui) (.str e.1) (.str "isValue")
      let enabled ← truth (.dict ui) (.str e.1) (.str "enabled")
      if !truthy enabled then pure (setKey acc e.1 .none)
      else do
        let v ← getItem (.dict f) (.str (if truthy isValue then "value" else "property"))
        pure (setKey acc e.1 v)
    else pure acc
  | v => pure (setKey acc e.1 v)

def flatLoop (ui : KV) : KV → KV → PyM KV
  | acc, [] => .ok acc
  | acc, e :: rest => flatStep ui acc e >>= fun a => flatLoop ui a rest

theorem setItem_dict (kv : KV) (k : String) (v : PyVal) : setItem (.dict kv) (.str k) v = .ok (.dict (setKey kv k v)) := by
  simp [setItem, keyStr, setKey, bind, Except.bind]
  split <;> rfl

theorem truthy_bool (b : Bool) : truthy (.bool b) = b := rfl

theorem is_form_spec (v : PyVal) : is_form v = .ok (.bool (allKeysIn ["label", "value"] v)) := by
  cases v <;> try rfl
  simp [is_form, map1, bind, Except.bind, pure, Except.pure, isDict]
  split <;> simp_all

theorem forIn_flat (ui : KV)
    (b : (PyVal × PyVal) → (PyVal × PyVal) → PyM (ForInStep (PyVal × PyVal)))
    (hb : ∀ e acc fld, ∃ fld', b (.str e.1, e.2) (.dict acc, fld) =
        (match flatStep ui acc e with | .error x => .error x | .ok a => .ok (.yield (.dict a, fld')))) :
    ∀ (l : KV) acc fld, ∃ fld', forIn (m := PyM) (l.map fun e => (PyVal.str e.1, e.2)) (PyVal.dict acc, fld) b =
        (match flatLoop ui acc l with | .error x => .error x | .ok a => .ok (.dict a, fld'))
  | [], acc, fld => ⟨fld, rfl⟩
  | e :: rest, acc, fld => by
    obtain ⟨f1, h1⟩ := hb e acc fld
    simp only [List.map_cons, List.forIn_cons, h1, flatLoop, bind, Except.bind]
    cases hs : flatStep ui acc e with
    | error x => exact ⟨fld, rfl⟩
    | ok a =>
      obtain ⟨f2, h2⟩ := forIn_flat ui b hb rest a f1
      exact ⟨f2, by simpa using h2⟩

theorem flat_of_forIn (ui : KV)
    (b : (PyVal × PyVal) → (PyVal × PyVal) → PyM (ForInStep (PyVal × PyVal)))
    (hb : ∀ e acc fld, ∃ fld', b (.str e.1, e.2) (.dict acc, fld) =
        (match flatStep ui acc e with | .error x => .error x | .ok a => .ok (.yield (.dict a, fld')))) :
    Except.bind (forIn (m := PyM) (ui.map fun e => (PyVal.str e.1, e.2)) (PyVal.dict [], PyVal.none) b)
      (fun v => Except.ok v.fst) = (flatLoop ui [] ui).map PyVal.dict := by
  obtain ⟨f, hf⟩ := forIn_flat ui b hb ui [] PyVal.none
  rw [hf]; cases flatLoop ui [] ui <;> rfl

theorem flatten_loop (ui : KV) : flatten (.dict ui) = (flatLoop ui [] ui).map PyVal.dict := by
  unfold flatten
  simp only [bind1, items, bind, pure, Except.pure]
  refine flat_of_forIn ui _ ?_
  intro e acc fld
  obtain ⟨k, v⟩ := e
  cases v
  all_goals try (refine ⟨fld, ?_⟩; simp [flatStep, map1, isDict, bind3, setItem_dict, bind, Except.bind, pure, Except.pure]; done)
  rename_i kv
  by_cases hf : allKeysIn ["label", "value"] (dict kv) = true
  · cases h1 : truth (dict ui) (str k) (str "isValue") with
    | error x =>
      exact ⟨fld, by simp [flatStep, map1, isDict, is_form_spec, asBool, truthy_bool, bind3, iteM, hf, h1, bind, Except.bind, pure, Except.pure]⟩
    | ok iv =>
      cases h2 : truth (dict ui) (str k) (str "enabled") with
      | error x =>
        exact ⟨fld, by cases hv : truthy iv <;> simp [flatStep, map1, isDict, is_form_spec, asBool, truthy_bool, bind3, iteM, pyNotM, hf, h1, h2, hv, bind, Except.bind, pure, Except.pure]⟩
      | ok en =>
        refine ⟨if truthy iv then str "value" else str "property", ?_⟩
        cases hv : truthy iv <;> cases he : truthy en <;>
          simp [flatStep, map1, isDict, is_form_spec, asBool, truthy_bool, bind3, bind2, iteM, pyNotM, hf, h1, h2, hv, he, setItem_dict, bind, Except.bind, pure, Except.pure] <;>
          try (cases getItem (dict kv) _ <;> simp [setItem_dict])
  · exact ⟨fld, by simp [flatStep, map1, isDict, is_form_spec, asBool, truthy_bool, hf, bind, Except.bind, pure, Except.pure]⟩

/-! ### identifiers ↔ entities -/

def promotedS (env : Env) : PyVal → Bool
  | .ent u => env.known.contains u
  | .uuid _ => false
  | .list _ | .dict _ => false
  | _ => true

mutual
def promotedV (env : Env) : PyVal → Bool
  | .dict kv => promotedKV env kv
  | .list l => l.all (promotedS env)
  | v => promotedS env v
def promotedKV (env : Env) : KV → Bool
  | [] => true
  | (_, v) :: rest => promotedV env v && promotedKV env rest
end

theorem promoteV_canonS (env : Env) (v : PyVal) (h : promotedS env v = true) : promoteV env (canonS v) = v := by
  cases v <;> simp [promotedS] at h <;> simp [canonS, promoteV, h]

mutual
theorem promoteE_canon (env : Env) : ∀ v, promotedV env v = true → promoteE env (mapVal canonS v) = v
  | .dict kv, h => by
    simp only [promotedV] at h
    simp [mapVal, canonS, promoteE, demote_promote env kv h]
  | .list l, h => by
    simp only [promotedV] at h
    simp only [mapVal, promoteE, List.map_map]
    congr 1
    rw [List.map_congr_left (g := id)]
    · simp
    · intro x hx
      exact promoteV_canonS env x (List.all_eq_true.mp h x hx)
  | .none, h | .bool _, h | .int _, h | .flt _, h | .inf _, h | .nan, h | .str _, h | .uuid _, h | .ws _, h | .ent _, h => by
    simp only [promotedV] at h
    simp only [mapVal]
    have := promoteV_canonS env _ h
    revert this
    simp [promoteE, canonS]
/-- demoting the entities of promoted data to identifiers and promoting them again gives the data back -/
theorem demote_promote (env : Env) : ∀ d, promotedKV env d = true → promote env (mapKV canonS d) = d
  | [], _ => by simp [mapKV, promote]
  | (k, v) :: rest, h => by
    simp only [promotedKV, Bool.and_eq_true] at h
    simp [mapKV, promote, promoteE_canon env v h.1, demote_promote env rest h.2]
end

theorem mapKV_eq_map (f : PyVal → PyVal) : ∀ kv, mapKV f kv = kv.map (fun e => (e.1, mapVal f e.2))
  | [] => by simp [mapKV]
  | (k, v) :: rest => by simp [mapKV, mapKV_eq_map f rest]

theorem lookup_mapKV (f : PyVal → PyVal) (k : String) : ∀ kv, (mapKV f kv).lookup k = (kv.lookup k).map (mapVal f)
  | [] => by simp [mapKV]
  | (k', v) :: rest => by
    simp only [mapKV, List.lookup_cons]
    cases h : (k == k') <;> simp [lookup_mapKV f k rest]

theorem anyKey_mapKV (f : PyVal → PyVal) (k : String) (kv : KV) : (mapKV f kv).any (·.1 == k) = kv.any (·.1 == k) := by
  simp [mapKV_eq_map, List.any_map, Function.comp_def]

theorem setKey_mapKV (f : PyVal → PyVal) (kv : KV) (k : String) (v : PyVal) :
    mapKV f (setKey kv k v) = setKey (mapKV f kv) k (mapVal f v) := by
  unfold setKey
  rw [anyKey_mapKV]
  split
  · simp only [mapKV_eq_map, List.map_map]
    apply List.map_congr_left
    intro e _
    simp only [Function.comp]
    split <;> simp_all
  · simp [mapKV_eq_map]

theorem pyEq_str_canonS (m : String) (x : PyVal) : pyEq (.str m) (canonS x) = pyEq (.str m) x := by
  cases x <;> rfl

theorem truthy_mapVal_canonS (v : PyVal) : truthy (mapVal canonS v) = truthy v := by
  cases v with
  | dict kv => simp [mapVal, canonS, truthy, mapKV_eq_map]
  | list l => simp [mapVal, truthy]
  | _ => rfl

theorem isDict_mapVal_canonS (v : PyVal) : (∃ kv, v = .dict kv ∧ mapVal canonS v = .dict (mapKV canonS kv)) ∨
    ((∀ kv, v ≠ .dict kv) ∧ ∀ kv, mapVal canonS v ≠ .dict kv) := by
  cases v with
  | dict kv => left; exact ⟨kv, rfl, by simp [mapVal, canonS]⟩
  | list l => right; simp [mapVal]
  | _ => right; simp [mapVal, canonS]

theorem getItem_mapKV (f : KV) (m : String) :
    getItem (.dict (mapKV canonS f)) (.str m) = (getItem (.dict f) (.str m)).map (mapVal canonS) := by
  simp only [getItem, keyStr, bind, Except.bind, lookup_mapKV]
  cases f.lookup m <;> rfl

/-- the default states of `truth` -/
def truthDefault (m : String) : PyM PyVal :=
  if ([("enabled", PyVal.bool true), ("optional", PyVal.bool false), ("groupOptional", PyVal.bool false),
        ("main", PyVal.bool false), ("isValue", PyVal.bool true)].any fun x => x.fst == m) = true then
    match List.lookup m [("enabled", PyVal.bool true), ("optional", PyVal.bool false), ("groupOptional", PyVal.bool false),
        ("main", PyVal.bool false), ("isValue", PyVal.bool true)] with
    | some v => Except.ok v
    | Option.none => Except.error PyErr.keyError
  else throw PyErr.valueError

theorem truthDefault_canon (m : String) : Except.map (mapVal canonS) (truthDefault m) = truthDefault m := by
  by_cases h1 : m = "enabled"
  · subst h1; rfl
  by_cases h2 : m = "optional"
  · subst h2; rfl
  by_cases h3 : m = "groupOptional"
  · subst h3; rfl
  by_cases h4 : m = "main"
  · subst h4; rfl
  by_cases h5 : m = "isValue"
  · subst h5; rfl
  have e : ([("enabled", PyVal.bool true), ("optional", PyVal.bool false), ("groupOptional", PyVal.bool false),
        ("main", PyVal.bool false), ("isValue", PyVal.bool true)].any fun x => x.fst == m) = false := by
    simp [Ne.symm h1, Ne.symm h2, Ne.symm h3, Ne.symm h4, Ne.symm h5]
  unfold truthDefault
  rw [e]
  rfl

theorem truth_canon (ui : KV) (k m : String) :
    truth (.dict (mapKV canonS ui)) (.str k) (.str m) = (truth (.dict ui) (.str k) (.str m)).map (mapVal canonS) := by
  simp only [truth, bind2, bind, Except.bind, pure, Except.pure, getItem, keyStr, lookup_mapKV]
  cases h : ui.lookup k with
  | none => rfl
  | some form =>
    simp only [Option.map]
    cases form with
    | dict f =>
      simp only [mapVal, canonS, Py.contains, anyKey_mapKV, lookup_mapKV]
      cases hm : f.any (·.1 == m) with
      | true => simp only [if_true]; cases f.lookup m <;> rfl
      | false =>
        simp only [Bool.false_eq_true, if_false]
        exact (truthDefault_canon m).symm
    | list l =>
      simp only [mapVal, Py.contains, List.any_map, Function.comp_def, pyEq_str_canonS]
      cases hl : l.any (fun x => pyEq (str m) x) with
      | true => simp [hl]; rfl
      | false =>
        have hl' : l.any (pyEq (str m)) = false := hl
        simp only [hl', Bool.false_eq_true, if_false]
        exact (truthDefault_canon m).symm
    | none | bool _ | int _ | flt _ | inf _ | nan | str _ | uuid _ | ws _ | ent _ => rfl

theorem allKeysIn_mapKV (ks : List String) (f : KV) : allKeysIn ks (.dict (mapKV canonS f)) = allKeysIn ks (.dict f) := by
  simp [allKeysIn, anyKey_mapKV]

/-- `flatten`'s step commutes with canonicalisation -/
theorem flatStep_canon (ui acc : KV) (k : String) (v : PyVal) :
    flatStep (mapKV canonS ui) (mapKV canonS acc) (k, mapVal canonS v) = (flatStep ui acc (k, v)).map (mapKV canonS) := by
  cases v with
  | dict f =>
    simp only [flatStep, mapVal, canonS, allKeysIn_mapKV, truth_canon, getItem_mapKV]
    cases hform : allKeysIn ["label", "value"] (.dict f) with
    | false => rfl
    | true =>
      simp only [if_true, bind, Except.bind, pure, Except.pure]
      cases h1 : truth (.dict ui) (.str k) (.str "isValue") with
      | error e => rfl
      | ok iv =>
        cases h2 : truth (.dict ui) (.str k) (.str "enabled") with
        | error e => rfl
        | ok en =>
          simp only [Except.map, truthy_mapVal_canonS]
          cases truthy en with
          | false => simp [setKey_mapKV, mapVal, canonS]
          | true =>
            simp only [Bool.not_true, Bool.false_eq_true, if_false]
            cases getItem (.dict f) (.str (if truthy iv = true then "value" else "property")) with
            | error e => rfl
            | ok x => simp [setKey_mapKV]
  | list l => simp [flatStep, mapVal, setKey_mapKV, pure, Except.pure, Except.map]
  | none | bool _ | int _ | flt _ | inf _ | nan | str _ | uuid _ | ws _ | ent _ =>
    simp [flatStep, mapVal, canonS, setKey_mapKV, pure, Except.pure, Except.map]

theorem flatLoop_canon (ui : KV) : ∀ (l acc : KV),
    flatLoop (mapKV canonS ui) (mapKV canonS acc) (mapKV canonS l) = (flatLoop ui acc l).map (mapKV canonS)
  | [], acc => rfl
  | (k, v) :: rest, acc => by
    simp only [mapKV, flatLoop, flatStep_canon, bind, Except.bind]
    cases flatStep ui acc (k, v) with
    | error e => rfl
    | ok a => simp only [Except.map]; exact flatLoop_canon ui rest a

/-! ### the headline statements at the level of parameter values -/

/-- `flatten` commutes with writing-and-reading: the values of the dictionary read back are the written values -/
theorem flatten_canon (ui : KV) : flatten (.dict (mapKV canonS ui)) = (flatten (.dict ui)).map (mapVal canonS) := by
  rw [flatten_loop, flatten_loop]
  have h := flatLoop_canon ui ui []
  simp only [mapKV] at h
  rw [h]
  cases flatLoop ui [] ui with
  | error e => rfl
  | ok d => simp [Except.map, mapVal, canonS]

/-- **C14, parameter values.**  For every ui.json dictionary with unambiguous values whose parameter values (`flatten`) are
    entities known to the workspace: writing the file, reading it, flattening and promoting yields exactly the parameter
    values that were written (`None` for disabled parameters included, because `flatten` is the same function on both sides). -/
theorem data_roundtrip (env : Env) (ui d : KV) (hc : cleanKV ui = true) (hf : flatten (.dict ui) = .ok (.dict d))
    (hp : promotedKV env d = true) : (writeRead ui >>= readData env) = .ok d := by
  rw [file_roundtrip ui hc]
  simp only [bind, Except.bind, readData, flatten_canon, hf, Except.map, mapVal, canonS, pure, Except.pure]
  rw [demote_promote env d hp]

/-- member `m` of form `k` -/
def memberOf (ui : KV) (k m : String) : Option PyVal :=
  match ui.lookup k with
  | some (.dict f) => f.lookup m
  | _ => Option.none

theorem memberOf_canon (ui : KV) (k m : String) : memberOf (mapKV canonS ui) k m = (memberOf ui k m).map (mapVal canonS) := by
  simp only [memberOf, lookup_mapKV]
  cases ui.lookup k with
  | none => rfl
  | some form =>
    cases form with
    | dict f => simp [mapVal, canonS, lookup_mapKV]
    | list l => simp [mapVal]
    | _ => simp [mapVal, canonS]

/-- **C14, enabled states.**  Every boolean member of every form (`enabled`, `isValue`, `optional`, `groupOptional`, …) has
    the same state after the file has been written and read back. -/
theorem enabled_roundtrip (ui ui' : KV) (hc : cleanKV ui = true) (hw : writeRead ui = .ok ui') (k m : String) (b : Bool) :
    memberOf ui' k m = some (.bool b) ↔ memberOf ui k m = some (.bool b) := by
  rw [file_roundtrip ui hc] at hw
  cases hw
  rw [memberOf_canon]
  cases memberOf ui k m with
  | none => simp
  | some x =>
    cases x with
    | dict kv => simp [mapVal, canonS]
    | list l => simp [mapVal]
    | _ => simp [mapVal, canonS]

/-! ### identifiers promoted and demoted again -/

def idS (env : Env) : PyVal → Bool
  | .uuid u => env.known.contains u
  | .ent _ => false
  | .list _ | .dict _ => false
  | _ => true

mutual
def idsV (env : Env) : PyVal → Bool
  | .dict kv => idsKV env kv
  | .list l => l.all (idS env)
  | v => idS env v
def idsKV (env : Env) : KV → Bool
  | [] => true
  | (_, v) :: rest => idsV env v && idsKV env rest
end

theorem promoteV_scalar (env : Env) (v : PyVal) (h : isScalar v = true) : isScalar (promoteV env v) = true := by
  cases v <;> simp [isScalar] at h <;> first | rfl | (simp only [promoteV]; split <;> rfl)

theorem canonS_promoteV (env : Env) (v : PyVal) (h : idS env v = true) : canonS (promoteV env v) = v := by
  cases v <;> simp [idS] at h <;> simp [canonS, promoteV, h]

mutual
theorem promoteE_demote (env : Env) : ∀ v, idsV env v = true → mapVal canonS (promoteE env v) = v
  | .dict kv, h => by
    simp only [idsV] at h
    simp [mapVal, canonS, promoteE, promote_demote env kv h]
  | .list l, h => by
    simp only [idsV] at h
    simp only [mapVal, promoteE, List.map_map]
    congr 1
    rw [List.map_congr_left (g := id)]
    · simp
    · intro x hx
      exact canonS_promoteV env x (List.all_eq_true.mp h x hx)
  | .none, h | .bool _, h | .int _, h | .flt _, h | .inf _, h | .nan, h | .str _, h | .uuid _, h | .ws _, h | .ent _, h => by
    simp only [idsV] at h
    have := canonS_promoteV env _ h
    revert this
    simp only [promoteE]
    intro this
    rw [mapVal_scalar canonS _ (promoteV_scalar env _ rfl), this]
/-- **C14, last clause.**  Promoting the identifiers of a dictionary to the workspace's entities and demoting them again
    returns the original identifiers. -/
theorem promote_demote (env : Env) : ∀ d, idsKV env d = true → mapKV canonS (promote env d) = d
  | [], _ => by simp [mapKV, promote]
  | (k, v) :: rest, h => by
    simp only [idsKV, Bool.and_eq_true] at h
    simp [mapKV, promote, promoteE_demote env v h.1, promote_demote env rest h.2]
end

/-! ### non-vacuity: a concrete file with one form of every kind meets the hypothesis -/

def sampleUi : KV :=
  [("title", .str "Custom UI"), ("geoh5", .ws "/data/project one/w.geoh5"), ("run_command", .none),
   ("monitoring_directory", .none), ("conda_environment_boolean", .bool false),
   ("flag", .dict [("main", .bool true), ("label", .str "Logical data"), ("value", .bool false)]),
   ("count", .dict [("label", .str "Integer data"), ("value", .int (-7)), ("optional", .bool true), ("enabled", .bool false)]),
   ("upper", .dict [("label", .str "Float data"), ("value", .inf false), ("precision", .int 2)]),
   ("lower", .dict [("label", .str "Float data"), ("value", .inf true), ("min", .flt (1/8))]),
   ("name", .dict [("label", .str "String data"), ("value", .str "infinity.geoh5x"), ("group", .str "g"), ("groupOptional", .bool true)]),
   ("multi", .dict [("label", .str "choices"), ("multiSelect", .bool true), ("value", .list [.str "Option A", .str "B"]),
                    ("choiceList", .list [.str "Option A", .str "B", .str "C"])]),
   ("files", .dict [("label", .str "File choices"), ("value", .str "a.txt;b.txt"), ("fileType", .list [])]),
   ("object", .dict [("label", .str "Object"), ("value", .ent "c3fc4282890f4ac29013aa8539758c6d"),
                     ("meshType", .list [.str "{b3a47539-0301-4b27-922e-1dde9d882c60}x"])]),
   ("data", .dict [("label", .str "Data channel"), ("parent", .str "object"), ("isValue", .bool false),
                   ("property", .ent "c3fc4282890f4ac29013aa8539758c6d"), ("value", .flt (5/2))]),
   ("range", .dict [("label", .str "Range"), ("value", .list [.flt 0, .int 2]), ("nested", .dict [("label", .none), ("value", .list [])])])]

example : cleanKV sampleUi = true := by decide +kernel
example : writeRead sampleUi = .ok (mapKV canonS sampleUi) := file_roundtrip sampleUi (by decide +kernel)

def sampleEnv : Env := ⟨["c3fc4282890f4ac29013aa8539758c6d"]⟩
/-- the hypotheses of `data_roundtrip` are met by the sample file: it flattens, and its values are known entities -/
example : ∃ d, flatten (.dict sampleUi) = .ok (.dict d) ∧ promotedKV sampleEnv d = true ∧ d.length = 15
    ∧ d.lookup "count" = some .none ∧ d.lookup "data" = some (.ent "c3fc4282890f4ac29013aa8539758c6d") :=
  ⟨_, rfl, by decide +kernel, rfl, rfl, rfl⟩
example : idsKV sampleEnv [("o", .uuid "c3fc4282890f4ac29013aa8539758c6d"), ("l", .list [.uuid "c3fc4282890f4ac29013aa8539758c6d", .none])] = true := by
  decide +kernel

/-! ### the exceptions, each with a concrete witness (`.asFound`; none of these is a clean value)

`NaN` is the documented exception; the others are values of a *string* (or integer) parameter that the encoding cannot
tell from another value kind. -/

theorem ambiguous_nan : writeRead [("p", .nan)] = .ok [("p", .none)] := rfl
theorem ambiguous_empty_string :
    writeRead [("p", .dict [("label", .str "x"), ("value", .str "")])] = .ok [("p", .dict [("label", .str "x"), ("value", .none)])] := rfl
theorem ambiguous_inf_string : writeRead [("p", .str "inf")] = .ok [("p", .inf false)] := rfl
theorem ambiguous_neg_inf_string : writeRead [("p", .str "-inf")] = .ok [("p", .inf true)] := rfl
theorem ambiguous_uuid_string :
    writeRead [("p", .str "12345678-1234-1234-1234-123456789abc")] = .ok [("p", .uuid "12345678123412341234123456789abc")] := rfl
theorem ambiguous_geoh5_string : writeRead [("p", .str "out/model.geoh5")] = .ok [("p", .ws "out/model.geoh5")] := rfl
/-- integers are never taken for identifiers (repaired: `is_uuid` only looks at strings), whatever their size -/
theorem int32digits_roundtrip :
    writeRead [("p", .int 12345678901234567890123456789012)] = .ok [("p", .int 12345678901234567890123456789012)] := rfl
/-- values inside a list nested in a list are not demoted, so an identifier there is refused by `json` -/
theorem nested_list_not_demoted : writeRead [("p", .list [.list [.list [.uuid "00000000000000000000000000000abc"]]])] = .error .typeError := rfl

example : cleanS .nan = false ∧ cleanS (.str "") = false ∧ cleanS (.str "inf") = false ∧ cleanS (.str "-inf") = false
    ∧ cleanS (.str "12345678-1234-1234-1234-123456789abc") = false ∧ cleanS (.str "out/model.geoh5") = false := by decide +kernel

end GeoVerif.UiFile
