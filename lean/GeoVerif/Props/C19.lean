import GeoVerif.Lemmas.Ws

/-!
# C19 — the reader tolerates missing optional content

Faults on the file image and what the reader (`load`) returns:
  * `File.mapEnt u g` — something stored *in* the node of entity `u` is missing or altered (an
    optional attribute, a dataset, a property-group block, a colour/value map): the reader returns
    the same tree with only entity `u` affected;
  * `File.dropLinks p u` — the child entries of `p` pointing to `u` are missing: the reader returns
    the same tree without the subtree(s) of `u` under `p`; everything else is unchanged.
-/
namespace GeoVerif.Ws

/-- alter what is stored in the node of `u` (identifier and links stay) -/
def File.mapEnt (f : File) (u : Nat) (g : Ent → Ent) : File :=
  { f with nodes := f.nodes.map fun n => if n.ent.uid = u then { n with ent := g n.ent } else n }

theorem find_mapEnt (f : File) (u x : Nat) (g : Ent → Ent) (hg : ∀ e, (g e).uid = e.uid) :
    (f.mapEnt u g).find x = (f.find x).map fun n => if n.ent.uid = u then { n with ent := g n.ent } else n := by
  unfold File.find File.mapEnt
  simp only
  induction f.nodes with
  | nil => rfl
  | cons n ns ih =>
    simp only [List.map_cons, List.find?_cons]
    have hk : ((if n.ent.uid = u then ({ n with ent := g n.ent } : Node) else n).ent.uid == x) = (n.ent.uid == x) := by
      split <;> simp [hg]
    rw [hk]
    cases n.ent.uid == x <;> simp [ih]

mutual
/-- apply `g` to every entity with identifier `u` -/
def Tree.mapAt (g : Ent → Ent) (u : Nat) : Tree → Tree
  | .node e ks => .node (if e.uid = u then g e else e) (mapAtL g u ks)
def mapAtL (g : Ent → Ent) (u : Nat) : List Tree → List Tree
  | [] => []
  | t :: ts => t.mapAt g u :: mapAtL g u ts
end

mutual
theorem loadFrom_mapEnt (f : File) (u : Nat) (g : Ent → Ent) (hg : ∀ e, (g e).uid = e.uid) :
    ∀ (fuel x : Nat), loadFrom (f.mapEnt u g) fuel x = (loadFrom f fuel x).map (Tree.mapAt g u)
  | 0, _ => by simp [loadFrom]
  | fuel + 1, x => by
    simp only [loadFrom, find_mapEnt f u x g hg]
    cases hf : f.find x with
    | none => simp
    | some n =>
      simp only [Option.map_some]
      have hl : (if n.ent.uid = u then ({ n with ent := g n.ent } : Node) else n).links = n.links := by
        split <;> rfl
      rw [hl, loadL_mapEnt f u g hg fuel n.links]
      cases loadL f fuel n.links with
      | none => simp
      | some ks =>
        simp only [Option.map_some, Tree.mapAt]
        split <;> simp_all
theorem loadL_mapEnt (f : File) (u : Nat) (g : Ent → Ent) (hg : ∀ e, (g e).uid = e.uid) :
    ∀ (fuel : Nat) (ls : List (Kind × Nat)),
      loadL (f.mapEnt u g) fuel ls = (loadL f fuel ls).map (mapAtL g u)
  | _, [] => by simp [loadL, mapAtL]
  | fuel, (k, x) :: rest => by
    simp only [loadL, loadFrom_mapEnt f u g hg fuel x, loadL_mapEnt f u g hg fuel rest]
    cases loadFrom f fuel x <;> cases loadL f fuel rest <;> simp [mapAtL]
end

/-- **A missing optional item stored in one entity's node affects only that entity**: the file
    still opens (whenever the intact file does) and every other entity is returned unchanged. -/
theorem optional_fault_local (f : File) (u : Nat) (g : Ent → Ent) (hg : ∀ e, (g e).uid = e.uid) :
    load (f.mapEnt u g) = (load f).map (Tree.mapAt g u) := by
  unfold load
  have hr : (f.mapEnt u g).root = f.root := rfl
  have hl : (f.mapEnt u g).nodes.length = f.nodes.length := by simp [File.mapEnt]
  rw [hr, hl]
  cases f.root with
  | none => rfl
  | some r => exact loadFrom_mapEnt f u g hg _ r

mutual
theorem mapAt_other (g : Ent → Ent) (u : Nat) (hg : ∀ e, (g e).uid = e.uid) : ∀ (t s : Tree), s ∈ (t.mapAt g u).subs → s.ent.uid ≠ u →
    ∃ s0 ∈ t.subs, s.ent = s0.ent
  | .node e ks, s, hs, hu => by
    simp only [Tree.mapAt, subs_node, List.mem_cons] at hs
    rcases hs with rfl | hs
    · refine ⟨.node e ks, by simp, ?_⟩
      simp only [Tree.ent] at hu ⊢
      split
      · rename_i he
        rw [if_pos he, hg] at hu
        exact absurd he hu
      · rfl
    · obtain ⟨s0, h0, he⟩ := mapAtL_other g u hg ks s hs hu
      exact ⟨s0, by simp only [subs_node, List.mem_cons]; right; exact h0, he⟩
theorem mapAtL_other (g : Ent → Ent) (u : Nat) (hg : ∀ e, (g e).uid = e.uid) : ∀ (ts : List Tree) (s : Tree), s ∈ subsL (mapAtL g u ts) →
    s.ent.uid ≠ u → ∃ s0 ∈ subsL ts, s.ent = s0.ent
  | [], _, hs, _ => by simp [mapAtL] at hs
  | t :: ts, s, hs, hu => by
    simp only [mapAtL, subsL_cons, List.mem_append] at hs
    rcases hs with h | h
    · obtain ⟨s0, h0, he⟩ := mapAt_other g u hg t s h hu
      exact ⟨s0, by simp only [subsL_cons, List.mem_append]; left; exact h0, he⟩
    · obtain ⟨s0, h0, he⟩ := mapAtL_other g u hg ts s h hu
      exact ⟨s0, by simp only [subsL_cons, List.mem_append]; right; exact h0, he⟩
end

/-- every entity the reader returns from the damaged file, other than `u`, has exactly the content
    it has in the intact file -/
theorem optional_fault_others_unchanged (f : File) (u : Nat) (g : Ent → Ent) (hg : ∀ e, (g e).uid = e.uid)
    (t t' : Tree) (h : load f = some t) (h' : load (f.mapEnt u g) = some t') (s : Tree)
    (hs : s ∈ t'.subs) (hu : s.ent.uid ≠ u) : ∃ s0 ∈ t.subs, s.ent = s0.ent := by
  rw [optional_fault_local f u g hg, h] at h'
  simp only [Option.map_some, Option.some.injEq] at h'
  subst h'
  exact mapAt_other g u hg t s hs hu

/-! ### a missing child entry -/

/-- the child entries of `p` that point to `u` are missing -/
def File.dropLinks (f : File) (p u : Nat) : File :=
  { f with nodes := f.nodes.map fun n => if n.ent.uid = p then { n with links := n.links.filter (·.2 != u) } else n }

theorem find_dropLinks (f : File) (p u x : Nat) :
    (f.dropLinks p u).find x = (f.find x).map fun n =>
      if n.ent.uid = p then { n with links := n.links.filter (·.2 != u) } else n := by
  unfold File.find File.dropLinks
  simp only
  induction f.nodes with
  | nil => rfl
  | cons n ns ih =>
    simp only [List.map_cons, List.find?_cons]
    have hk : ((if n.ent.uid = p then ({ n with links := n.links.filter (·.2 != u) } : Node) else n).ent.uid == x)
        = (n.ent.uid == x) := by split <;> rfl
    rw [hk]
    cases n.ent.uid == x <;> simp [ih]

mutual
/-- remove, under every entity `p`, the children with identifier `u` -/
def Tree.dropUnder (p u : Nat) : Tree → Tree
  | .node e ks => .node e (if e.uid = p then (dropUnderL p u ks).filter (·.ent.uid != u) else dropUnderL p u ks)
def dropUnderL (p u : Nat) : List Tree → List Tree
  | [] => []
  | t :: ts => t.dropUnder p u :: dropUnderL p u ts
end

theorem dropUnder_ent (p u : Nat) (t : Tree) : (t.dropUnder p u).ent = t.ent := by
  cases t with
  | node e ks => simp [Tree.dropUnder, Tree.ent]

mutual
theorem loadFrom_ent_uid (f : File) : ∀ (fuel x : Nat) (t : Tree), loadFrom f fuel x = some t → t.ent.uid = x
  | 0, _, _, h => by simp [loadFrom] at h
  | fuel + 1, x, t, h => by
    simp only [loadFrom] at h
    cases hf : f.find x with
    | none => simp [hf] at h
    | some n =>
      simp only [hf] at h
      cases hl : loadL f fuel n.links with
      | none => simp [hl] at h
      | some ks =>
        simp only [hl, Option.map_some, Option.some.injEq] at h
        subst h
        have := List.find?_some hf
        simpa [Tree.ent] using this
end

mutual
theorem loadFrom_dropLinks (f : File) (p u : Nat) :
    ∀ (fuel x : Nat), loadFrom (f.dropLinks p u) fuel x = (loadFrom f fuel x).map (Tree.dropUnder p u) ∨
      loadFrom f fuel x = none
  | 0, _ => by simp [loadFrom]
  | fuel + 1, x => by
    simp only [loadFrom, find_dropLinks f p u x]
    cases hf : f.find x with
    | none => simp
    | some n =>
      simp only [Option.map_some]
      have hx : n.ent.uid = x := by simpa using List.find?_some hf
      cases hl : loadL f fuel n.links with
      | none => right; simp
      | some ks =>
        left
        by_cases hp : n.ent.uid = p
        · simp only [hp, ↓reduceIte]
          rw [loadL_dropLinks_filter f p u fuel n.links ks hl]
          simp [Tree.dropUnder, hp]
        · simp only [hp, ↓reduceIte]
          rw [loadL_dropLinks_same f p u fuel n.links ks hl]
          simp [Tree.dropUnder, hp]
theorem loadL_dropLinks_same (f : File) (p u : Nat) : ∀ (fuel : Nat) (ls : List (Kind × Nat)) (ks : List Tree),
    loadL f fuel ls = some ks → loadL (f.dropLinks p u) fuel ls = some (dropUnderL p u ks)
  | _, [], ks, h => by simp [loadL] at h; subst h; simp [loadL, dropUnderL]
  | fuel, (k, x) :: rest, ks, h => by
    simp only [loadL] at h ⊢
    cases h1 : loadFrom f fuel x with
    | none => simp [h1] at h
    | some t =>
      cases h2 : loadL f fuel rest with
      | none => simp [h1, h2] at h
      | some ts =>
        simp only [h1, h2, Option.some.injEq] at h
        subst h
        rcases loadFrom_dropLinks f p u fuel x with hh | hh
        · rw [hh, h1, loadL_dropLinks_same f p u fuel rest ts h2]
          simp [dropUnderL]
        · rw [h1] at hh; cases hh
theorem loadL_dropLinks_filter (f : File) (p u : Nat) : ∀ (fuel : Nat) (ls : List (Kind × Nat)) (ks : List Tree),
    loadL f fuel ls = some ks →
    loadL (f.dropLinks p u) fuel (ls.filter (·.2 != u)) = some ((dropUnderL p u ks).filter (·.ent.uid != u))
  | _, [], ks, h => by simp [loadL] at h; subst h; simp [loadL, dropUnderL]
  | fuel, (k, x) :: rest, ks, h => by
    simp only [loadL] at h
    cases h1 : loadFrom f fuel x with
    | none => simp [h1] at h
    | some t =>
      cases h2 : loadL f fuel rest with
      | none => simp [h1, h2] at h
      | some ts =>
        simp only [h1, h2, Option.some.injEq] at h
        subst h
        have ht : t.ent.uid = x := loadFrom_ent_uid f fuel x t h1
        have ih := loadL_dropLinks_filter f p u fuel rest ts h2
        by_cases hxu : x = u
        · have : ((k, x).2 != u) = false := by simp [hxu]
          simp only [List.filter_cons, this, dropUnderL, Bool.false_eq_true, ↓reduceIte]
          rw [ih]
          simp [dropUnder_ent, ht, hxu]
        · have : ((k, x).2 != u) = true := by simp [hxu]
          simp only [List.filter_cons, this, ↓reduceIte, loadL, dropUnderL]
          rcases loadFrom_dropLinks f p u fuel x with hh | hh
          · rw [hh, h1, ih]
            simp [dropUnder_ent, ht, hxu]
          · rw [h1] at hh; cases hh
end

/-- **A missing child entry leaves out only that child (with its descendants)**: whenever the
    intact file opens, the damaged one opens too and yields the same tree minus the subtree(s) of
    `u` under `p`. -/
theorem missing_link_fault (f : File) (p u : Nat) (t : Tree) (h : load f = some t) :
    load (f.dropLinks p u) = some (t.dropUnder p u) := by
  unfold load at h ⊢
  have hr : (f.dropLinks p u).root = f.root := rfl
  have hl : (f.dropLinks p u).nodes.length = f.nodes.length := by simp [File.dropLinks]
  rw [hr, hl]
  cases hroot : f.root with
  | none => simp [hroot] at h
  | some r =>
    simp only [hroot] at h ⊢
    rcases loadFrom_dropLinks f p u (f.nodes.length + 1) r with hh | hh
    · rw [hh, h]; rfl
    · rw [h] at hh; cases hh

end GeoVerif.Ws
