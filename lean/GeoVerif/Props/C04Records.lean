import GeoVerif.Model.Records

/-!
# C04 (attribute records) — exactly one record per live hole, data set and property group

Theorems about M2c (`GeoVerif/Model/Records.lean`): the parallel key/record lists of a drillhole group behave like a finite
map from identifiers to records under every sequence of `update_concatenated_attributes` / removal calls.
-/
namespace GeoVerif.Records

/-! ### list lemmas -/

theorem find_of_get {l : List (Nat × Rec)} (hn : (l.map (·.1)).Nodup) {i : Nat} {u : Nat} {f : Rec}
    (h : l[i]? = some (u, f)) : l.find? (·.1 == u) = some (u, f) := by
  induction l generalizing i with
  | nil => simp at h
  | cons x xs ih =>
    simp only [List.map_cons, List.nodup_cons] at hn
    cases i with
    | zero => simp at h; subst h; simp
    | succ j =>
      simp only [List.getElem?_cons_succ] at h
      have hx : x.1 ≠ u := by
        intro e; apply hn.1; rw [e]
        exact List.mem_map.mpr ⟨(u, f), List.mem_of_getElem? h, rfl⟩
      simp [hx, ih hn.2 h]

theorem find_set_other (l : List (Nat × Rec)) (i u v : Nat) (f : Rec) (hv : v ≠ u)
    (hi : ∀ x, l[i]? = some x → x.1 = u) :
    (l.set i (u, f)).find? (·.1 == v) = l.find? (·.1 == v) := by
  induction l generalizing i with
  | nil => simp
  | cons x xs ih =>
    cases i with
    | zero =>
      have hx : x.1 = u := hi x (by simp)
      have h1 : (x.1 == v) = false := by simp [hx]; exact fun e => hv e.symm
      have h2 : (u == v) = false := by simp; exact fun e => hv e.symm
      simp [h1, h2]
    | succ j =>
      simp only [List.set_cons_succ, List.find?_cons]
      rw [ih j (fun y hy => hi y (by simpa using hy))]

theorem map_erase_fst {l : List (Nat × Rec)} (hn : (l.map (·.1)).Nodup) {h : Nat × Rec} (hm : h ∈ l) :
    (l.erase h).map (·.1) = (l.map (·.1)).erase h.1 := by
  induction l with
  | nil => cases hm
  | cons x xs ih =>
    simp only [List.map_cons, List.nodup_cons] at hn
    by_cases e : x = h
    · subst e; simp
    · have hm' : h ∈ xs := by
        rcases List.mem_cons.mp hm with rfl | h'
        · exact absurd rfl e
        · exact h'
      have hx : x.1 ≠ h.1 := by
        intro e'; apply hn.1; rw [e']; exact List.mem_map_of_mem hm'
      have hbe : (x == h) = false := by simpa using e
      simp only [List.erase_cons, hbe, List.map_cons]
      have hb2 : (x.1 == h.1) = false := by simpa using hx
      simp [hb2, ih hn.2 hm']

theorem find_erase_other {l : List (Nat × Rec)} (h : Nat × Rec) (v : Nat) (hv : v ≠ h.1) :
    (l.erase h).find? (·.1 == v) = l.find? (·.1 == v) := by
  induction l with
  | nil => rfl
  | cons x xs ih =>
    by_cases e : x = h
    · subst e
      have : (x.1 == v) = false := by simp; exact fun e => hv e.symm
      simp [this]
    · have hbe : (x == h) = false := by simpa using e
      simp only [List.erase_cons, hbe, Bool.false_eq_true, ↓reduceIte, List.find?_cons, ih]

theorem find_none_of_not_mem {l : List (Nat × Rec)} {u : Nat} (h : u ∉ l.map (·.1)) :
    l.find? (·.1 == u) = none := by
  rw [List.find?_eq_none]
  intro x hx hb
  apply h
  have : x.1 = u := by simpa using hb
  rw [← this]; exact List.mem_map_of_mem hx

/-! ### one call -/

theorem locate_mem (r : Recs) (u : Nat) (h : u ∈ r.keys) : locate r u = (r, r.keys.idxOf u) := by
  simp [locate, h]

theorem locate_not_mem (r : Recs) (u : Nat) (h : u ∉ r.keys) :
    locate r u = (⟨r.keys ++ [u], r.recs ++ [(0, [])]⟩, r.recs.length) := by
  simp [locate, h]

theorem get_at_key (r : Recs) (hi : Inv r) (u : Nat) (h : u ∈ r.keys) :
    ∃ g, r.recs[r.keys.idxOf u]? = some (u, g) := by
  have hlt : r.keys.idxOf u < r.keys.length := List.idxOf_lt_length_of_mem h
  have hlen : r.recs.length = r.keys.length := by rw [← hi.aligned]; simp
  have hk : r.keys[r.keys.idxOf u]? = some u := by
    rw [List.getElem?_eq_getElem hlt]; simp
  have : (r.recs.map (·.1))[r.keys.idxOf u]? = some u := by rw [hi.aligned]; exact hk
  rw [List.getElem?_map] at this
  cases hr : r.recs[r.keys.idxOf u]? with
  | none => rw [hr] at this; simp at this
  | some x =>
    rw [hr] at this
    simp at this
    exact ⟨x.2, by rw [← this]⟩

theorem upsert_inv (r : Recs) (u : Nat) (f : Rec) (hu : u ≠ 0) (hi : Inv r) : Inv (upsert r u f) := by
  unfold upsert
  by_cases h : u ∈ r.keys
  · rw [locate_mem r u h]
    obtain ⟨g, hg⟩ := get_at_key r hi u h
    refine ⟨?_, hi.nodup, hi.nonzero⟩
    show (r.recs.set (r.keys.idxOf u) (u, f)).map (·.1) = r.keys
    rw [List.map_set, hi.aligned]
    apply List.ext_getElem?
    intro j
    rw [List.getElem?_set]
    split
    · rename_i e
      subst e
      have hlt : r.keys.idxOf u < r.keys.length := List.idxOf_lt_length_of_mem h
      simp [hlt]
    · rfl
  · rw [locate_not_mem r u h]
    have hset : (r.recs ++ [((0 : Nat), ([] : Rec))]).set r.recs.length (u, f) = r.recs ++ [(u, f)] := by
      rw [List.set_append_right _ _ (Nat.le_refl _)]; simp
    refine ⟨?_, ?_, ?_⟩
    · show ((r.recs ++ [((0 : Nat), ([] : Rec))]).set r.recs.length (u, f)).map (fun x => x.1) = r.keys ++ [u]
      rw [hset]; simp [hi.aligned]
    · show (r.keys ++ [u]).Nodup
      rw [List.nodup_append]
      refine ⟨hi.nodup, by simp, ?_⟩
      intro a ha b hb; simp at hb; subst hb; intro e; subst e; exact h ha
    · show 0 ∉ r.keys ++ [u]
      simp only [List.mem_append, List.mem_singleton, not_or]
      exact ⟨hi.nonzero, fun e => hu e.symm⟩

/-- **read-your-write**: the record of `u` holds the fields last written -/
theorem find_upsert_same (r : Recs) (u : Nat) (f : Rec) (hu : u ≠ 0) (hi : Inv r) :
    find (upsert r u f) u = some f := by
  have hinv := upsert_inv r u f hu hi
  unfold find
  have key : ∃ i : Nat, (upsert r u f).recs[i]? = some (u, f) := by
    unfold upsert
    by_cases h : u ∈ r.keys
    · rw [locate_mem r u h]
      obtain ⟨g, hg⟩ := get_at_key r hi u h
      refine ⟨r.keys.idxOf u, ?_⟩
      show (r.recs.set (r.keys.idxOf u) (u, f))[r.keys.idxOf u]? = some (u, f)
      have : r.keys.idxOf u < r.recs.length := by
        rcases Nat.lt_or_ge (r.keys.idxOf u) r.recs.length with h' | h'
        · exact h'
        · rw [List.getElem?_eq_none h'] at hg; cases hg
      simp [this]
    · rw [locate_not_mem r u h]
      refine ⟨r.recs.length, ?_⟩
      show ((r.recs ++ [((0 : Nat), ([] : Rec))]).set r.recs.length (u, f))[r.recs.length]? = some (u, f)
      simp
  obtain ⟨i, hget⟩ := key
  rw [find_of_get (by rw [hinv.aligned]; exact hinv.nodup) hget]; rfl

/-- **separation**: writing the record of `u` leaves every other record as it was -/
theorem find_upsert_other (r : Recs) (u v : Nat) (f : Rec) (hi : Inv r) (hv : v ≠ u) :
    find (upsert r u f) v = find r v := by
  unfold find upsert
  by_cases h : u ∈ r.keys
  · rw [locate_mem r u h]
    obtain ⟨g, hg⟩ := get_at_key r hi u h
    show Option.map _ ((r.recs.set (r.keys.idxOf u) (u, f)).find? (·.1 == v)) = _
    rw [find_set_other r.recs _ u v f hv (by intro x hx; rw [hg] at hx; cases hx; rfl)]
  · rw [locate_not_mem r u h]
    show Option.map _ (((r.recs ++ [((0 : Nat), ([] : Rec))]).set r.recs.length (u, f)).find? (·.1 == v)) = _
    rw [List.set_append_right _ _ (Nat.le_refl _)]
    have : (u == v) = false := by simp; exact fun e => hv e.symm
    simp [List.find?_append, this]

theorem remove_not_mem (r : Recs) (u : Nat) (hi : Inv r) (h : u ∉ r.keys) : remove r u = r := by
  unfold remove
  rw [locate_not_mem r u h]
  simp only [List.getElem?_append_right (Nat.le_refl _), Nat.sub_self, List.getElem?_cons_zero]
  have h0 : ((0 : Nat), ([] : Rec)) ∉ r.recs := by
    intro hm
    apply hi.nonzero
    rw [← hi.aligned]
    exact List.mem_map.mpr ⟨_, hm, rfl⟩
  have e1 : (r.keys ++ [u]).erase u = r.keys := by
    rw [List.erase_append_right _ h]; simp
  have e2 : (r.recs ++ [((0 : Nat), ([] : Rec))]).erase (0, []) = r.recs := by
    rw [List.erase_append_right _ h0]; simp
  cases r
  simp only at e1 e2 ⊢
  rw [e1, e2]

theorem remove_mem (r : Recs) (u : Nat) (hi : Inv r) (h : u ∈ r.keys) :
    ∃ g, (u, g) ∈ r.recs ∧ remove r u = ⟨r.keys.erase u, r.recs.erase (u, g)⟩ := by
  obtain ⟨g, hg⟩ := get_at_key r hi u h
  refine ⟨g, List.mem_of_getElem? hg, ?_⟩
  unfold remove
  rw [locate_mem r u h]
  simp only [hg]

theorem remove_inv (r : Recs) (u : Nat) (hi : Inv r) : Inv (remove r u) := by
  by_cases h : u ∈ r.keys
  · obtain ⟨g, hm, he⟩ := remove_mem r u hi h
    rw [he]
    refine ⟨?_, hi.nodup.erase u, fun h0 => hi.nonzero (List.mem_of_mem_erase h0)⟩
    show (r.recs.erase (u, g)).map (·.1) = r.keys.erase u
    rw [map_erase_fst (by rw [hi.aligned]; exact hi.nodup) hm, hi.aligned]
  · rw [remove_not_mem r u hi h]; exact hi

/-- a removed entity has no record left -/
theorem find_remove_same (r : Recs) (u : Nat) (hi : Inv r) : find (remove r u) u = none := by
  have hinv := remove_inv r u hi
  unfold find
  rw [find_none_of_not_mem]; rfl
  rw [hinv.aligned]
  by_cases h : u ∈ r.keys
  · obtain ⟨g, hm, he⟩ := remove_mem r u hi h
    rw [he]
    exact fun hm' => (List.Nodup.mem_erase_iff hi.nodup).mp hm' |>.1 rfl
  · rw [remove_not_mem r u hi h]; exact h

/-- **separation**: removing the record of `u` leaves every other record as it was -/
theorem find_remove_other (r : Recs) (u v : Nat) (hi : Inv r) (hv : v ≠ u) :
    find (remove r u) v = find r v := by
  by_cases h : u ∈ r.keys
  · obtain ⟨g, hm, he⟩ := remove_mem r u hi h
    rw [he]
    unfold find
    show Option.map _ ((r.recs.erase (u, g)).find? (·.1 == v)) = _
    rw [find_erase_other (u, g) v hv]
  · rw [remove_not_mem r u hi h]


/-! ### any history -/

def Op.uid : Op → Nat
  | .upsert u _ => u
  | .remove u => u

theorem inv_empty : Inv empty := ⟨rfl, List.nodup_nil, by simp [empty]⟩

theorem step_inv (r : Recs) (op : Op) (hu : op.uid ≠ 0) (hi : Inv r) : Inv (step r op) := by
  cases op with
  | upsert u f => exact upsert_inv r u f hu hi
  | remove u => exact remove_inv r u hi

theorem step_find (r : Recs) (op : Op) (hu : op.uid ≠ 0) (hi : Inv r) (v : Nat) :
    find (step r op) v = specStep (find r) op v := by
  cases op with
  | upsert u f =>
    simp only [step, specStep]
    by_cases e : v = u
    · subst e; simp [find_upsert_same r v f hu hi]
    · simp [e, find_upsert_other r u v f hi e]
  | remove u =>
    simp only [step, specStep]
    by_cases e : v = u
    · subst e; simp [find_remove_same r v hi]
    · simp [e, find_remove_other r u v hi e]

/-- **Refinement**: after any sequence of record updates and removals the attribute list reads like the finite map
    identifier ↦ last record written, and the two parallel lists stay aligned without duplicates. -/
theorem refines_map (ops : List Op) (hu : ∀ op ∈ ops, op.uid ≠ 0) :
    (∀ v, find (ops.foldl step empty) v = ops.foldl specStep (fun _ => none) v)
    ∧ Inv (ops.foldl step empty) := by
  suffices H : ∀ (r : Recs) (m : Spec), (∀ v, find r v = m v) → Inv r →
      (∀ v, find (ops.foldl step r) v = ops.foldl specStep m v) ∧ Inv (ops.foldl step r) by
    exact H empty _ (fun v => rfl) inv_empty
  induction ops with
  | nil => intro r m hm hi; exact ⟨hm, hi⟩
  | cons op ops ih =>
    intro r m hm hi
    have h0 := hu op List.mem_cons_self
    simp only [List.foldl_cons]
    apply ih (fun o ho => hu o (List.mem_cons_of_mem _ ho))
    · intro v
      rw [step_find r op h0 hi v]
      have : find r = m := funext hm
      rw [this]
    · exact step_inv r op h0 hi

theorem mem_keys_iff_find (r : Recs) (hi : Inv r) (u : Nat) : u ∈ r.keys ↔ (find r u).isSome := by
  unfold find
  constructor
  · intro h
    obtain ⟨g, hg⟩ := get_at_key r hi u h
    rw [find_of_get (by rw [hi.aligned]; exact hi.nodup) hg]; rfl
  · intro h
    cases hf : r.recs.find? (·.1 == u) with
    | none => rw [hf] at h; cases h
    | some x =>
      have hm := List.mem_of_find?_eq_some hf
      have hx : x.1 = u := by simpa using List.find?_some hf
      rw [← hi.aligned, ← hx]; exact List.mem_map_of_mem hm

/-- **Exactly one record per live entity**: after any history an identifier is in the attribute list iff its last call was
    an update (the entity is live), and no identifier is listed twice. -/
theorem records_exact (ops : List Op) (hu : ∀ op ∈ ops, op.uid ≠ 0) (u : Nat) :
    (u ∈ (ops.foldl step empty).keys ↔ (ops.foldl specStep (fun _ => none) u).isSome)
    ∧ (ops.foldl step empty).keys.Nodup
    ∧ (ops.foldl step empty).recs.map (·.1) = (ops.foldl step empty).keys := by
  obtain ⟨hf, hi⟩ := refines_map ops hu
  refine ⟨?_, hi.nodup, hi.aligned⟩
  rw [mem_keys_iff_find _ hi, hf]

/-! ### non-vacuity, and the hazard the invariant excludes -/

example : Inv (upsert (upsert empty 3 [("Name", "h1")]) 5 [("Name", "A")]) := by
  refine ⟨by decide, by decide, by decide⟩

example : find (remove (upsert (upsert empty 3 [("Name", "h1")]) 5 [("Name", "A")]) 3) 5 = some [("Name", "A")] := by decide

/-- without the invariant (a stale empty record is already in the list) removing an unknown identifier deletes the stale
    record instead of the one just appended: records and keys fall out of step -/
example : remove ⟨[7], [(0, [])]⟩ 9 = ⟨[7], [(0, [])]⟩ := by decide

end GeoVerif.Records
