import GeoVerif.Lemmas.Concat
import GeoVerif.Model.Table

/-! Helper lemmas for M2b `Table`: the sort is a sorted permutation; the slices of an exactly tiled channel taken in start
    order make up the whole array. -/
namespace GeoVerif.Concat
variable {α : Type}

theorem insertByStart_perm (r : Row) : ∀ l, (insertByStart r l).Perm (r :: l) := by
  intro l
  induction l with
  | nil => exact List.Perm.refl _
  | cons q qs ih =>
    unfold insertByStart
    split
    · exact List.Perm.refl _
    · exact (List.Perm.cons q ih).trans (List.Perm.swap r q qs)

theorem sortByStart_perm : ∀ l : List Row, (sortByStart l).Perm l := by
  intro l
  induction l with
  | nil => exact List.Perm.refl _
  | cons r rs ih =>
    show (insertByStart r (sortByStart rs)).Perm (r :: rs)
    exact (insertByStart_perm r _).trans (List.Perm.cons r ih)

def Sorted (l : List Row) : Prop := l.Pairwise (fun a b => a.start ≤ b.start)

theorem insertByStart_sorted (r : Row) : ∀ l, Sorted l → Sorted (insertByStart r l) := by
  intro l
  induction l with
  | nil => intro _; exact List.pairwise_singleton _ _
  | cons q qs ih =>
    intro h
    unfold insertByStart
    have hq := List.pairwise_cons.mp h
    split
    · rename_i hle
      refine List.pairwise_cons.mpr ⟨?_, h⟩
      intro b hb
      rcases List.mem_cons.mp hb with rfl | hb'
      · exact hle
      · exact Nat.le_trans hle (hq.1 b hb')
    · rename_i hgt
      refine List.pairwise_cons.mpr ⟨?_, ih hq.2⟩
      intro b hb
      have := (insertByStart_perm r qs).subset hb
      rcases List.mem_cons.mp this with rfl | hb'
      · omega
      · exact hq.1 b hb'

theorem sortByStart_sorted : ∀ l : List Row, Sorted (sortByStart l) := by
  intro l
  induction l with
  | nil => exact List.Pairwise.nil
  | cons r rs ih => exact insertByStart_sorted r _ ih

/-- sorted, pairwise disjoint rows lying in `[a, n)` hold at most `n - a` entries -/
theorem sumSizes_le_of_sorted (n : Nat) : ∀ (l : List Row) (a : Nat), Sorted l → l.Pairwise Row.disj →
    (∀ r ∈ l, r.start + r.size ≤ n) → (∀ r ∈ l, 0 < r.size → a ≤ r.start) → a ≤ n →
    sumSizes l ≤ n - a := by
  intro l
  induction l with
  | nil => intros; simp [sumSizes]
  | cons r rs ih =>
    intro a hs hd hin hge han
    have hs' := List.pairwise_cons.mp hs
    have hd' := List.pairwise_cons.mp hd
    have hrin := hin r (by simp)
    have hrest : ∀ q ∈ rs, q.start + q.size ≤ n := fun q hq => hin q (List.mem_cons_of_mem _ hq)
    by_cases hz : r.size = 0
    · have := ih a hs'.2 hd'.2 hrest (fun q hq => hge q (List.mem_cons_of_mem _ hq)) han
      simp only [sumSizes, List.map_cons, List.sum_cons] at this ⊢; omega
    · have hra := hge r (by simp) (by omega)
      have := ih (r.start + r.size) hs'.2 hd'.2 hrest (by
        intro q hq hqs
        have h1 := hs'.1 q hq
        have h2 := hd'.1 q hq
        unfold Row.disj at h2; omega) hrin
      simp only [sumSizes, List.map_cons, List.sum_cons] at this ⊢; omega

theorem flatMap_slices_drop (data : List α) : ∀ (l : List Row) (k : Nat), Sorted l → l.Pairwise Row.disj →
    (∀ r ∈ l, r.start + r.size ≤ data.length) → (∀ r ∈ l, 0 < r.size → k ≤ r.start) → k ≤ data.length →
    sumSizes l = data.length - k →
    l.flatMap (fun r => slice data r.start r.size) = data.drop k := by
  intro l
  induction l with
  | nil =>
    intro k _ _ _ _ hk hsum
    simp only [sumSizes, List.map_nil, List.sum_nil] at hsum
    have : k = data.length := by omega
    simp [this]
  | cons r rs ih =>
    intro k hs hd hin hge hk hsum
    have hs' := List.pairwise_cons.mp hs
    have hd' := List.pairwise_cons.mp hd
    have hrin := hin r (by simp)
    have hrest : ∀ q ∈ rs, q.start + q.size ≤ data.length := fun q hq => hin q (List.mem_cons_of_mem _ hq)
    simp only [sumSizes, List.map_cons, List.sum_cons] at hsum
    by_cases hz : r.size = 0
    · have := ih k hs'.2 hd'.2 hrest (fun q hq => hge q (List.mem_cons_of_mem _ hq)) hk
        (by simp only [sumSizes]; omega)
      rw [List.flatMap_cons, this]
      simp [slice, hz]
    · have hra := hge r (by simp) (by omega)
      have hafter : ∀ q ∈ rs, 0 < q.size → r.start + r.size ≤ q.start := by
        intro q hq hqs
        have h1 := hs'.1 q hq
        have h2 := hd'.1 q hq
        unfold Row.disj at h2; omega
      have hle := sumSizes_le_of_sorted data.length rs (r.start + r.size) hs'.2 hd'.2 hrest hafter hrin
      simp only [sumSizes] at hle
      have hrk : r.start = k := by omega
      have := ih (r.start + r.size) hs'.2 hd'.2 hrest hafter hrin (by simp only [sumSizes]; omega)
      rw [List.flatMap_cons, this, hrk]
      show (data.drop k).take r.size ++ data.drop (k + r.size) = data.drop k
      rw [← List.drop_drop, List.take_append_drop]

/-- **The association column of the table is the stored array**: taking the index rows in table order (by start) and
    concatenating their slices gives back exactly the concatenated array — every entry once, none skipped. -/
theorem sorted_slices_eq_data (kd : Bool) (c : Chan α) (h : Tiled kd c) :
    (sortByStart c.rows).flatMap (fun r => slice c.data r.start r.size) = c.data := by
  have hp := sortByStart_perm c.rows
  have := flatMap_slices_drop c.data (sortByStart c.rows) 0 (sortByStart_sorted _)
    (by
      have hsym : ∀ a b : Row, Row.disj a b → Row.disj b a := fun _ _ => disj_symm
      exact (hp.pairwise_iff (fun {a b} => hsym a b)).mpr h.disj)
    (fun r hr => h.inside r (hp.subset hr)) (fun _ _ _ => Nat.zero_le _) (Nat.zero_le _)
    (by
      have : sumSizes (sortByStart c.rows) = sumSizes c.rows := by
        unfold sumSizes; exact (hp.map _).sum_nat
      rw [this, h.total]; rfl)
  simpa using this

end GeoVerif.Concat
