import GeoVerif.Model.Reindex
namespace GeoVerif.Reindex

variable {α β : Type}

theorem keep_length_eq : ∀ (m : List Bool) (xs : List α) (ys : List β),
    xs.length = ys.length → (keep m xs).length = (keep m ys).length := by
  intro m
  induction m with
  | nil => intro xs ys _; cases xs <;> cases ys <;> rfl
  | cons b bs ih =>
    intro xs ys h
    cases xs with
    | nil => cases ys with
      | nil => rfl
      | cons y ys => simp at h
    | cons x xs => cases ys with
      | nil => simp at h
      | cons y ys =>
        have h' : xs.length = ys.length := by simpa using h
        cases b <;> simp [keep, ih xs ys h']

theorem keep_length_le : ∀ (m : List Bool) (xs : List α), (keep m xs).length ≤ xs.length := by
  intro m
  induction m with
  | nil => intro xs; cases xs <;> simp [keep]
  | cons b bs ih =>
    intro xs
    cases xs with
    | nil => simp [keep]
    | cons x xs => cases b <;> simp [keep] <;> have := ih xs <;> omega

/-- a kept element sits at position `rank` and keeps its value -/
theorem keep_get : ∀ (m : List Bool) (xs : List α) (i : Nat),
    m[i]? = some true → i < xs.length → (keep m xs)[rank m i]? = xs[i]? := by
  intro m
  induction m with
  | nil => intro xs i h; simp at h
  | cons b bs ih =>
    intro xs i h hi
    cases xs with
    | nil => simp at hi
    | cons x xs =>
      cases i with
      | zero =>
        simp at h; subst h; simp [keep, rank]
      | succ j =>
        simp only [List.getElem?_cons_succ] at h
        have hj : j < xs.length := by simpa using hi
        have := ih xs j h hj
        cases b
        · simpa [keep, rank] using this
        · simp only [keep, rank, ↓reduceIte, List.getElem?_cons_succ]
          rw [Nat.add_comm, List.getElem?_cons_succ]; exact this

theorem rank_lt : ∀ (m : List Bool) (xs : List α) (i : Nat),
    m[i]? = some true → i < xs.length → rank m i < (keep m xs).length := by
  intro m xs i h hi
  have := keep_get m xs i h hi
  have hx : xs[i]? ≠ none := by simp [hi]
  rw [← this] at hx
  simpa using hx

/-- positions of kept elements are strictly increasing in the original index -/
theorem rank_mono : ∀ (m : List Bool) (i j : Nat), i ≤ j → rank m i ≤ rank m j := by
  intro m
  induction m with
  | nil => intros; simp [rank]
  | cons b bs ih =>
    intro i j h
    cases i with
    | zero => simp [rank]
    | succ i' =>
      cases j with
      | zero => omega
      | succ j' => simp only [rank]; have := ih i' j' (by omega); omega

theorem rank_strict : ∀ (m : List Bool) (i j : Nat), i < j → m[i]? = some true →
    rank m i < rank m j := by
  intro m
  induction m with
  | nil => intro i j _ h; simp at h
  | cons b bs ih =>
    intro i j h hm
    cases j with
    | zero => omega
    | succ j' =>
      cases i with
      | zero => simp at hm; subst hm; simp [rank]; omega
      | succ i' =>
        simp only [List.getElem?_cons_succ] at hm
        simp only [rank]; have := ih i' j' (by omega) hm; omega

/-- distinct kept elements get distinct positions -/
theorem rank_inj (m : List Bool) (i j : Nat) (hi : m[i]? = some true) (hj : m[j]? = some true)
    (h : rank m i = rank m j) : i = j := by
  rcases Nat.lt_trichotomy i j with lt | eq | gt
  · have := rank_strict m i j lt hi; omega
  · exact eq
  · have := rank_strict m j i gt hj; omega

theorem keep_map_eq_filter (p : α → Bool) : ∀ (xs : List α), keep (xs.map p) xs = xs.filter p := by
  intro xs
  induction xs with
  | nil => rfl
  | cons x xs ih =>
    simp only [List.map_cons, keep, List.filter_cons]
    cases p x <;> simp [ih]

theorem mem_of_mem_keep : ∀ (m : List Bool) (xs : List α) (c : α), c ∈ keep m xs → c ∈ xs := by
  intro m
  induction m with
  | nil => intro xs c h; cases xs <;> simp [keep] at h
  | cons b bs ih =>
    intro xs c h
    cases xs with
    | nil => simp [keep] at h
    | cons x xs =>
      cases b
      · simp only [keep, Bool.false_eq_true, ↓reduceIte] at h
        exact List.mem_cons_of_mem _ (ih xs c h)
      · simp only [keep, ↓reduceIte, List.mem_cons] at h
        rcases h with rfl | h
        · exact List.mem_cons_self
        · exact List.mem_cons_of_mem _ (ih xs c h)

@[simp] theorem maskOfIdx_length (n : Nat) (idx : List Int) : (maskOfIdx n idx).length = n := by
  simp [maskOfIdx]

theorem maskOfIdx_get (n : Nat) (idx : List Int) (j : Nat) (hj : j < n) :
    (maskOfIdx n idx)[j]? = some (!(idx.any fun i => normIdx n i == some j)) := by
  simp [maskOfIdx, hj]

/-- `np.delete` keeps exactly the positions no index names -/
theorem maskOfIdx_true_iff (n : Nat) (idx : List Int) (j : Nat) (hj : j < n) :
    (maskOfIdx n idx)[j]? = some true ↔ ∀ i ∈ idx, normIdx n i ≠ some j := by
  rw [maskOfIdx_get n idx j hj]
  simp

theorem cellKept_iff (m : List Bool) (c : List Nat) :
    cellKept m c = true ↔ ∀ v ∈ c, m[v]? = some true := by
  simp [cellKept]

end GeoVerif.Reindex
