import GeoVerif.Model.Ws

/-! Helper lemmas for M1 `Ws`. -/
namespace GeoVerif.Ws

@[simp] theorem subs_node (e : Ent) (ks : List Tree) :
    (Tree.node e ks).subs = .node e ks :: subsL ks := by simp [Tree.subs]

@[simp] theorem subsL_nil : subsL [] = [] := by simp [subsL]
@[simp] theorem subsL_cons (t : Tree) (ts : List Tree) : subsL (t :: ts) = t.subs ++ subsL ts := by
  simp [subsL]

theorem subsL_append (a b : List Tree) : subsL (a ++ b) = subsL a ++ subsL b := by
  induction a with
  | nil => simp
  | cons x xs ih => simp [ih]

@[simp] theorem uids_node (e : Ent) (ks : List Tree) :
    (Tree.node e ks).uids = e.uid :: uidsL ks := by simp [Tree.uids, uidsL, Tree.ent]

@[simp] theorem uidsL_nil : uidsL [] = [] := by simp [uidsL]
@[simp] theorem uidsL_cons (t : Tree) (ts : List Tree) : uidsL (t :: ts) = t.uids ++ uidsL ts := by
  simp [uidsL, Tree.uids]

theorem uidsL_append (a b : List Tree) : uidsL (a ++ b) = uidsL a ++ uidsL b := by
  simp [uidsL, subsL_append]

theorem self_mem_subs (t : Tree) : t ∈ t.subs := by
  cases t with
  | node e ks => simp

theorem root_mem_uids (t : Tree) : t.ent.uid ∈ t.uids := by
  cases t with
  | node e ks => simp [Tree.ent]

theorem sub_of_kid {s k : Tree} (hk : k ∈ s.kids) : ∀ x ∈ k.subs, x ∈ s.subs := by
  cases s with
  | node e ks =>
    simp only [Tree.kids] at hk
    intro x hx
    simp only [subs_node, List.mem_cons]
    right
    induction ks with
    | nil => cases hk
    | cons y ys ih =>
      simp only [subsL_cons, List.mem_append]
      rcases List.mem_cons.mp hk with rfl | h
      · left; exact hx
      · right; exact ih h

mutual
/-- subtrees of subtrees are subtrees -/
theorem subs_trans : ∀ (t s : Tree), s ∈ t.subs → ∀ x ∈ s.subs, x ∈ t.subs
  | .node e ks, s, hs, x, hx => by
    simp only [subs_node, List.mem_cons] at hs
    rcases hs with rfl | hs
    · exact hx
    · simp only [subs_node, List.mem_cons]; right
      exact subsL_trans ks s hs x hx
theorem subsL_trans : ∀ (ts : List Tree) (s : Tree), s ∈ subsL ts → ∀ x ∈ s.subs, x ∈ subsL ts
  | [], s, hs, _, _ => by simp at hs
  | t :: ts, s, hs, x, hx => by
    simp only [subsL_cons, List.mem_append] at hs ⊢
    rcases hs with h | h
    · left; exact subs_trans t s h x hx
    · right; exact subsL_trans ts s h x hx
end

theorem kid_mem_subs {s k : Tree} (hk : k ∈ s.kids) : k ∈ s.subs :=
  sub_of_kid hk k (self_mem_subs k)

mutual
theorem size_eq_length : ∀ (t : Tree), t.size = t.subs.length
  | .node e ks => by simp [Tree.size, sizeL_eq_length ks]; omega
theorem sizeL_eq_length : ∀ (ts : List Tree), sizeL ts = (subsL ts).length
  | [] => by simp [sizeL]
  | t :: ts => by simp [sizeL, size_eq_length t, sizeL_eq_length ts]
end

theorem size_pos (t : Tree) : 0 < t.size := by
  cases t with
  | node e ks => simp [Tree.size]; omega

/-- looking a stored node up by identifier in a list whose identifiers are distinct -/
theorem find_of_mem_nodup {α} (key : α → Nat) : ∀ (l : List α) (x : α), x ∈ l → (l.map key).Nodup →
    l.find? (fun y => key y == key x) = some x := by
  intro l
  induction l with
  | nil => intro x hx; cases hx
  | cons y ys ih =>
    intro x hx hn
    simp only [List.map_cons, List.nodup_cons] at hn
    rcases List.mem_cons.mp hx with rfl | hx'
    · simp
    · have hne : key y ≠ key x := by
        intro e; apply hn.1; rw [e]; exact List.mem_map_of_mem hx'
      have hb : (key y == key x) = false := by simpa using hne
      simp only [List.find?_cons, hb]
      exact ih x hx' hn.2

/-- the file holds, under the identifier of every entity of the tree, that entity's node -/
theorem find_fileOf (T s : Tree) (hs : s ∈ T.subs) (hn : T.uids.Nodup) :
    (fileOf T).find s.ent.uid = some (toNode s) := by
  unfold File.find fileOf Tree.flat
  simp only
  have h1 : toNode s ∈ T.subs.map toNode := List.mem_map_of_mem hs
  have h2 : ((T.subs.map toNode).map (fun n : Node => n.ent.uid)).Nodup := by
    simpa [Tree.uids, List.map_map, Function.comp_def, toNode] using hn
  exact find_of_mem_nodup (fun n : Node => n.ent.uid) (T.subs.map toNode) (toNode s) h1 h2

mutual
/-- the reader rebuilds every subtree from its stored node (enough fuel = its size) -/
theorem loadFrom_sub (T : Tree) (hn : T.uids.Nodup) : ∀ (s : Tree) (fuel : Nat), s ∈ T.subs →
    s.size ≤ fuel → loadFrom (fileOf T) fuel s.ent.uid = some s
  | .node e ks, 0, _, hf => by simp [Tree.size] at hf
  | .node e ks, fuel + 1, hs, hf => by
    have hfind := find_fileOf T (.node e ks) hs hn
    simp only [Tree.ent] at hfind
    simp only [loadFrom, Tree.ent, hfind, toNode, Tree.kids]
    have hkids : ∀ k ∈ ks, k ∈ T.subs := fun k hk =>
      subs_trans T (.node e ks) hs k (kid_mem_subs (s := .node e ks) (by simpa [Tree.kids] using hk))
    have hsz : sizeL ks ≤ fuel := by simp [Tree.size] at hf; omega
    rw [loadL_sub T hn ks fuel hkids hsz]
    simp
theorem loadL_sub (T : Tree) (hn : T.uids.Nodup) : ∀ (ks : List Tree) (fuel : Nat),
    (∀ k ∈ ks, k ∈ T.subs) → sizeL ks ≤ fuel → loadL (fileOf T) fuel (linksL ks) = some ks
  | [], _, _, _ => by simp [linksL, loadL]
  | k :: ks, fuel, hk, hf => by
    simp only [sizeL] at hf
    simp only [linksL, List.map_cons, loadL]
    rw [loadFrom_sub T hn k fuel (hk k List.mem_cons_self) (by omega)]
    have := loadL_sub T hn ks fuel (fun x hx => hk x (List.mem_cons_of_mem _ hx)) (by omega)
    simp only [linksL] at this
    rw [this]
end

/-! ### identifiers under the tree operations -/

mutual
theorem update_uids (f : Ent → Ent) (hf : ∀ e, (f e).uid = e.uid) : ∀ (t : Tree) (u : Nat),
    (t.update f u).uids = t.uids
  | .node e ks, u => by
    simp only [Tree.update]
    split
    · simp [hf]
    · simp [updateL_uids f hf ks u]
theorem updateL_uids (f : Ent → Ent) (hf : ∀ e, (f e).uid = e.uid) : ∀ (ts : List Tree) (u : Nat),
    uidsL (updateL f ts u) = uidsL ts
  | [], _ => by simp [updateL]
  | t :: ts, u => by simp [updateL, update_uids f hf t u, updateL_uids f hf ts u]
end

mutual
theorem mapEnts_uids (f : Ent → Ent) (hf : ∀ e, (f e).uid = e.uid) : ∀ (t : Tree),
    (t.mapEnts f).uids = t.uids
  | .node e ks => by simp [Tree.mapEnts, hf, mapEntsL_uids f hf ks]
theorem mapEntsL_uids (f : Ent → Ent) (hf : ∀ e, (f e).uid = e.uid) : ∀ (ts : List Tree),
    uidsL (mapEntsL f ts) = uidsL ts
  | [] => by simp [mapEntsL]
  | t :: ts => by simp [mapEntsL, mapEnts_uids f hf t, mapEntsL_uids f hf ts]
end

mutual
theorem insert_of_not_mem (c : Tree) : ∀ (t : Tree) (p : Nat), p ∉ t.uids → t.insert p c = t
  | .node e ks, p, h => by
    simp only [uids_node, List.mem_cons, not_or] at h
    have : ¬ e.uid = p := fun x => h.1 x.symm
    simp [Tree.insert, this, insertL_of_not_mem c ks p h.2]
theorem insertL_of_not_mem (c : Tree) : ∀ (ts : List Tree) (p : Nat), p ∉ uidsL ts → insertL ts p c = ts
  | [], _, _ => by simp [insertL]
  | t :: ts, p, h => by
    simp only [uidsL_cons, List.mem_append, not_or] at h
    simp [insertL, insert_of_not_mem c t p h.1, insertL_of_not_mem c ts p h.2]
end

mutual
/-- inserting under an existing, uniquely identified parent adds exactly the new subtree -/
theorem insert_uids_perm (c : Tree) : ∀ (t : Tree) (p : Nat), p ∈ t.uids → t.uids.Nodup →
    (t.insert p c).uids.Perm (t.uids ++ c.uids)
  | .node e ks, p, hp, hn => by
    simp only [Tree.insert]
    split
    · have : (Tree.node e (ks ++ [c])).uids = (Tree.node e ks).uids ++ c.uids := by
        rw [uids_node, uids_node, uidsL_append, uidsL_cons, uidsL_nil, List.append_nil, List.cons_append]
      rw [this]
    · rename_i hne
      simp only [uids_node, List.mem_cons] at hp
      have hp' : p ∈ uidsL ks := by
        rcases hp with h | h
        · exact absurd h.symm hne
        · exact h
      simp only [uids_node, List.nodup_cons] at hn
      simp only [uids_node, List.cons_append]
      exact List.Perm.cons _ (insertL_uids_perm c ks p hp' hn.2)
theorem insertL_uids_perm (c : Tree) : ∀ (ts : List Tree) (p : Nat), p ∈ uidsL ts → (uidsL ts).Nodup →
    (uidsL (insertL ts p c)).Perm (uidsL ts ++ c.uids)
  | [], _, hp, _ => by simp at hp
  | t :: ts, p, hp, hn => by
    simp only [uidsL_cons, List.mem_append] at hp
    simp only [uidsL_cons] at hn
    have hdis := List.nodup_append.mp hn
    simp only [insertL, uidsL_cons]
    rcases hp with h | h
    · have hnot : p ∉ uidsL ts := fun hx => hdis.2.2 p h p hx rfl
      rw [insertL_of_not_mem c ts p hnot]
      have h1 := insert_uids_perm c t p h hdis.1
      have h2 : ((t.insert p c).uids ++ uidsL ts).Perm ((t.uids ++ c.uids) ++ uidsL ts) :=
        List.Perm.append_right _ h1
      have h3 : ((t.uids ++ c.uids) ++ uidsL ts).Perm (t.uids ++ uidsL ts ++ c.uids) := by
        rw [List.append_assoc, List.append_assoc]
        exact List.Perm.append_left _ List.perm_append_comm
      exact h2.trans h3
    · have hnot : p ∉ t.uids := fun hx => hdis.2.2 p hx p h rfl
      rw [insert_of_not_mem c t p hnot]
      have h1 := insertL_uids_perm c ts p h hdis.2.1
      rw [List.append_assoc]
      exact List.Perm.append_left _ h1
end

mutual
/-- erasing keeps the remaining identifiers in order: a sublist -/
theorem erase_uids_sublist : ∀ (t : Tree) (u : Nat), (t.erase u).uids.Sublist t.uids
  | .node e ks, u => by
    simp only [Tree.erase, uids_node]
    exact List.Sublist.cons_cons _ (eraseL_uids_sublist ks u)
theorem eraseL_uids_sublist : ∀ (ts : List Tree) (u : Nat), (uidsL (eraseL ts u)).Sublist (uidsL ts)
  | [], _ => by simp [eraseL]
  | t :: ts, u => by
    simp only [eraseL]
    split
    · simp only [uidsL_cons]
      exact List.Sublist.trans (eraseL_uids_sublist ts u) (List.sublist_append_right _ _)
    · simp only [uidsL_cons]
      exact List.Sublist.append (erase_uids_sublist t u) (eraseL_uids_sublist ts u)
end

mutual
/-- the erased identifier is gone (unless it is the root's, which `erase` never removes) -/
theorem erase_not_mem : ∀ (t : Tree) (u : Nat), u ≠ t.ent.uid → u ∉ (t.erase u).uids
  | .node e ks, u, h => by
    simp only [Tree.erase, uids_node, List.mem_cons, not_or]
    exact ⟨by simpa [Tree.ent] using h, eraseL_not_mem ks u⟩
theorem eraseL_not_mem : ∀ (ts : List Tree) (u : Nat), u ∉ uidsL (eraseL ts u)
  | [], _ => by simp [eraseL]
  | t :: ts, u => by
    simp only [eraseL]
    split
    · exact eraseL_not_mem ts u
    · rename_i hne
      simp only [uidsL_cons, List.mem_append, not_or]
      exact ⟨erase_not_mem t u (fun h => hne h.symm), eraseL_not_mem ts u⟩
end

mutual
theorem findSub_mem : ∀ (t : Tree) (u : Nat) (s : Tree), t.findSub u = some s → s ∈ t.subs ∧ s.ent.uid = u
  | .node e ks, u, s, h => by
    simp only [Tree.findSub] at h
    split at h
    · rename_i he; cases h; exact ⟨by simp, by simpa [Tree.ent] using he⟩
    · have := findSubL_mem ks u s h
      exact ⟨by simp only [subs_node, List.mem_cons]; right; exact this.1, this.2⟩
theorem findSubL_mem : ∀ (ts : List Tree) (u : Nat) (s : Tree), findSubL ts u = some s →
    s ∈ subsL ts ∧ s.ent.uid = u
  | [], _, _, h => by simp [findSubL] at h
  | t :: ts, u, s, h => by
    simp only [findSubL] at h
    split at h
    · rename_i s' hs'
      cases h
      have := findSub_mem t u s hs'
      exact ⟨by simp only [subsL_cons, List.mem_append]; left; exact this.1, this.2⟩
    · have := findSubL_mem ts u s h
      exact ⟨by simp only [subsL_cons, List.mem_append]; right; exact this.1, this.2⟩
end

theorem sub_uids_subset (t s : Tree) (hs : s ∈ t.subs) : ∀ u ∈ s.uids, u ∈ t.uids := by
  intro u hu
  simp only [Tree.uids, List.mem_map] at hu ⊢
  obtain ⟨x, hx, rfl⟩ := hu
  exact ⟨x, subs_trans t s hs x hx, rfl⟩

end GeoVerif.Ws

namespace GeoVerif.Ws

mutual
theorem erase_of_not_mem : ∀ (t : Tree) (u : Nat), u ∉ t.uids → t.erase u = t
  | .node e ks, u, h => by
    simp only [uids_node, List.mem_cons, not_or] at h
    simp [Tree.erase, eraseL_of_not_mem ks u h.2]
theorem eraseL_of_not_mem : ∀ (ts : List Tree) (u : Nat), u ∉ uidsL ts → eraseL ts u = ts
  | [], _, _ => by simp [eraseL]
  | t :: ts, u, h => by
    simp only [uidsL_cons, List.mem_append, not_or] at h
    have hne : ¬ t.ent.uid = u := by
      intro e; apply h.1; rw [← e]; exact root_mem_uids t
    simp [eraseL, hne, erase_of_not_mem t u h.1, eraseL_of_not_mem ts u h.2]
end

mutual
theorem findSub_none : ∀ (t : Tree) (u : Nat), u ∉ t.uids → t.findSub u = none
  | .node e ks, u, h => by
    simp only [uids_node, List.mem_cons, not_or] at h
    have : ¬ e.uid = u := fun x => h.1 x.symm
    simp [Tree.findSub, this, findSubL_none ks u h.2]
theorem findSubL_none : ∀ (ts : List Tree) (u : Nat), u ∉ uidsL ts → findSubL ts u = none
  | [], _, _ => by simp [findSubL]
  | t :: ts, u, h => by
    simp only [uidsL_cons, List.mem_append, not_or] at h
    simp [findSubL, findSub_none t u h.1, findSubL_none ts u h.2]
end

theorem findSub_root (t : Tree) : t.findSub t.ent.uid = some t := by
  cases t with
  | node e ks => simp [Tree.findSub, Tree.ent]

mutual
/-- erasing `u` removes exactly the identifiers of the subtree rooted at `u` -/
theorem erase_uids_perm : ∀ (t : Tree) (u : Nat) (s : Tree), t.uids.Nodup → u ≠ t.ent.uid →
    t.findSub u = some s → ((t.erase u).uids ++ s.uids).Perm t.uids
  | .node e ks, u, s, hn, hne, hf => by
    have hne' : ¬ e.uid = u := fun x => hne (by simp [Tree.ent, x])
    simp only [Tree.findSub, hne', ↓reduceIte] at hf
    simp only [uids_node, List.nodup_cons] at hn
    simp only [Tree.erase, uids_node, List.cons_append]
    exact List.Perm.cons _ (eraseL_uids_perm ks u s hn.2 hf)
theorem eraseL_uids_perm : ∀ (ts : List Tree) (u : Nat) (s : Tree), (uidsL ts).Nodup →
    findSubL ts u = some s → (uidsL (eraseL ts u) ++ s.uids).Perm (uidsL ts)
  | [], _, _, _, hf => by simp [findSubL] at hf
  | t :: ts, u, s, hn, hf => by
    simp only [uidsL_cons] at hn
    have hdis := List.nodup_append.mp hn
    simp only [eraseL]
    split
    · rename_i he
      -- `t` itself is the erased subtree
      have hft : t.findSub u = some t := by rw [← he]; exact findSub_root t
      simp only [findSubL, hft] at hf
      cases hf
      have hnot : u ∉ uidsL ts := fun hx => hdis.2.2 u (by rw [← he]; exact root_mem_uids t) u hx rfl
      rw [eraseL_of_not_mem ts u hnot, uidsL_cons]
      exact List.perm_append_comm
    · rename_i he
      simp only [uidsL_cons]
      cases hft : t.findSub u with
      | some s' =>
        simp only [findSubL, hft] at hf
        cases hf
        have hmem := findSub_mem t u s hft
        have hu : u ∈ t.uids := by
          rw [← hmem.2]; exact sub_uids_subset t s hmem.1 _ (root_mem_uids s)
        have hnot : u ∉ uidsL ts := fun hx => hdis.2.2 u hu u hx rfl
        rw [eraseL_of_not_mem ts u hnot]
        have h1 := erase_uids_perm t u s hdis.1 (fun x => he x.symm) hft
        have h2 : ((t.erase u).uids ++ uidsL ts ++ s.uids).Perm ((t.erase u).uids ++ s.uids ++ uidsL ts) := by
          rw [List.append_assoc, List.append_assoc]
          exact List.Perm.append_left _ List.perm_append_comm
        exact h2.trans (List.Perm.append_right _ h1)
      | none =>
        simp only [findSubL, hft] at hf
        have hnot : u ∉ t.uids := by
          intro hx
          simp only [Tree.uids, List.mem_map] at hx
          obtain ⟨x, hx, rfl⟩ := hx
          -- a subtree with that identifier exists, so findSub cannot be none
          have : t.findSub x.ent.uid ≠ none := by
            clear hft hf he
            exact findSub_some_of_mem t x hx
          exact this hft
        rw [erase_of_not_mem t u hnot, List.append_assoc]
        exact List.Perm.append_left _ (eraseL_uids_perm ts u s hdis.2.1 hf)
theorem findSub_some_of_mem : ∀ (t x : Tree), x ∈ t.subs → t.findSub x.ent.uid ≠ none
  | .node e ks, x, hx => by
    simp only [subs_node, List.mem_cons] at hx
    simp only [Tree.findSub]
    split
    · simp
    · rcases hx with rfl | hx
      · rename_i h; exact absurd (rfl : e.uid = (Tree.node e ks).ent.uid) h
      · exact findSubL_some_of_mem ks x hx
theorem findSubL_some_of_mem : ∀ (ts : List Tree) (x : Tree), x ∈ subsL ts → findSubL ts x.ent.uid ≠ none
  | [], _, hx => by simp at hx
  | t :: ts, x, hx => by
    simp only [subsL_cons, List.mem_append] at hx
    simp only [findSubL]
    split
    · simp
    · rename_i hnone
      rcases hx with h | h
      · exact absurd hnone (findSub_some_of_mem t x h)
      · exact findSubL_some_of_mem ts x h
end

end GeoVerif.Ws
