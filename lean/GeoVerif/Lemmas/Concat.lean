import GeoVerif.Model.Concat

/-! Helper lemmas for M2 `Concat` (C04).  Property theorems live in `Props/C04.lean`. -/
namespace GeoVerif.Concat

variable {α : Type}

/-! ### slices and cuts -/

theorem slice_append_self (xs v : List α) : slice (xs ++ v) xs.length v.length = v := by
  simp [slice]

theorem length_cut (xs : List α) (s n : Nat) (h : s + n ≤ xs.length) :
    (cut xs s n).length = xs.length - n := by
  simp [cut]; omega

theorem cut_zero (xs : List α) (s : Nat) : cut xs s 0 = xs := by
  simp [cut]

/-- a slice lying before the cut is untouched -/
theorem slice_cut_before (xs : List α) (s n a m : Nat) (h : a + m ≤ s) :
    slice (cut xs s n) a m = slice xs a m := by
  unfold slice cut
  apply List.ext_getElem?
  intro i
  simp only [List.getElem?_take, List.getElem?_drop, List.getElem?_append, List.length_take]
  grind

/-- a slice lying after the cut moves down by the cut's length -/
theorem slice_cut_after (xs : List α) (s n a m : Nat) (h : s + n ≤ a) :
    slice (cut xs s n) (a - n) m = slice xs a m := by
  unfold slice cut
  apply List.ext_getElem?
  intro i
  simp only [List.getElem?_take, List.getElem?_drop, List.getElem?_append, List.length_take]
  grind

theorem slice_append_left (xs v : List α) (a m : Nat) (h : a + m ≤ xs.length) :
    slice (xs ++ v) a m = slice xs a m := by
  unfold slice
  apply List.ext_getElem?
  intro i
  simp only [List.getElem?_take, List.getElem?_drop, List.getElem?_append]
  grind

/-! ### lookups -/

def keyP (kd : Bool) (u : Nat) : Row → Bool := fun r => r.key kd == u

theorem matchIdxs_of_not_mem (kd : Bool) (u : Nat) :
    ∀ (rows : List Row) (off : Nat), u ∉ rows.map (Row.key kd) → matchIdxs kd u off rows = [] := by
  intro rows
  induction rows with
  | nil => intros; rfl
  | cons r rs ih =>
    intro off h
    simp only [List.map_cons, List.mem_cons, not_or] at h
    have : (r.key kd == u) = false := by
      simp only [beq_eq_false_iff_ne]; exact fun e => h.1 e.symm
    simp [matchIdxs, this, ih (off + 1) h.2]

theorem matchIdxs_of_nodup (kd : Bool) (u : Nat) :
    ∀ (rows : List Row) (off : Nat), (rows.map (Row.key kd)).Nodup →
      matchIdxs kd u off rows =
        match rows.findIdx? (keyP kd u) with
        | some i => [off + i]
        | none => [] := by
  intro rows
  induction rows with
  | nil => intros; rfl
  | cons r rs ih =>
    intro off h
    simp only [List.map_cons, List.nodup_cons] at h
    by_cases hk : r.key kd == u
    · have hu : u ∉ rs.map (Row.key kd) := by
        have : r.key kd = u := by simpa using hk
        rw [← this]; exact h.1
      simp [matchIdxs, hk, matchIdxs_of_not_mem kd u rs (off + 1) hu, List.findIdx?_cons, keyP]
    · have := ih (off + 1) h.2
      simp only [matchIdxs, hk, List.findIdx?_cons, keyP, Bool.false_eq_true, ↓reduceIte, this]
      cases hf : rs.findIdx? (keyP kd u) with
      | none => simp
      | some i => simp; omega

theorem findUnique_eq (kd : Bool) (c : Chan α) (u : Nat) (h : (c.rows.map (Row.key kd)).Nodup) :
    findUnique kd c u = c.rows.findIdx? (keyP kd u) := by
  unfold findUnique
  rw [matchIdxs_of_nodup kd u c.rows 0 h]
  cases c.rows.findIdx? (keyP kd u) <;> simp

theorem get_eq (kd : Bool) (c : Chan α) (u : Nat) (h : (c.rows.map (Row.key kd)).Nodup) :
    get kd c u = (c.rows.find? (keyP kd u)).map fun r => slice c.data r.start r.size := by
  unfold get
  rw [findUnique_eq kd c u h, List.find?_eq_bind_findIdx?_getElem?]
  cases hf : c.rows.findIdx? (keyP kd u) with
  | none => simp
  | some i =>
    simp only [Option.bind_some]
    cases c.rows[i]? <;> simp

/-- the shift applied by `delete_index_data` to the rows behind the deleted slice -/
def shift (r : Row) (q : Row) : Row :=
  if q.start > r.start then { q with start := q.start - r.size } else q

@[simp] theorem shift_key (kd : Bool) (r q : Row) : (shift r q).key kd = q.key kd := by
  unfold shift Row.key; split <;> split <;> rfl

@[simp] theorem shift_size (r q : Row) : (shift r q).size = q.size := by
  unfold shift; split <;> rfl

theorem eraseIdx_map' {β γ} (f : β → γ) : ∀ (l : List β) (i : Nat),
    (l.map f).eraseIdx i = (l.eraseIdx i).map f := by
  intro l
  induction l with
  | nil => intro i; rfl
  | cons x xs ih =>
    intro i
    cases i with
    | zero => rfl
    | succ j => simp [List.eraseIdx, ih]

theorem startIndex_none (kd : Bool) (c : Chan α) (u : Nat)
    (h : (c.rows.map (Row.key kd)).Nodup) (hf : c.rows.find? (keyP kd u) = none) :
    startIndex kd c u = (c, sumSizes c.rows) := by
  unfold startIndex
  rw [findUnique_eq kd c u h]
  have : c.rows.findIdx? (keyP kd u) = none := by
    rw [List.findIdx?_eq_none_iff]; simpa using hf
  simp [this]

theorem startIndex_some (kd : Bool) (c : Chan α) (u : Nat) (r : Row)
    (h : (c.rows.map (Row.key kd)).Nodup) (hf : c.rows.find? (keyP kd u) = some r) :
    startIndex kd c u =
      (⟨(c.rows.eraseP (keyP kd u)).map (shift r), cut c.data r.start r.size⟩,
        (cut c.data r.start r.size).length) := by
  unfold startIndex
  rw [findUnique_eq kd c u h]
  rw [List.find?_eq_bind_findIdx?_getElem?] at hf
  cases hi : c.rows.findIdx? (keyP kd u) with
  | none => simp [hi] at hf
  | some i =>
    simp only [hi, Option.bind_some] at hf
    have he : c.rows.eraseP (keyP kd u) = c.rows.eraseIdx i := by
      rw [List.eraseP_eq_eraseIdx, hi]
    simp only [deleteAt, hf, he, eraseIdx_map']
    rfl

/-! ### the invariant -/

theorem disj_symm {a b : Row} (h : Row.disj a b) : Row.disj b a := by
  unfold Row.disj at *; omega

theorem pairwise_mem_ne {R : Row → Row → Prop} (hs : ∀ a b, R a b → R b a) :
    ∀ (l : List Row), l.Pairwise R → ∀ a ∈ l, ∀ b ∈ l, a ≠ b → R a b := by
  intro l
  induction l with
  | nil => intro _ a ha; cases ha
  | cons x xs ih =>
    intro hp a ha b hb hne
    rw [List.pairwise_cons] at hp
    rcases List.mem_cons.mp ha with rfl | ha'
    · rcases List.mem_cons.mp hb with rfl | hb'
      · exact absurd rfl hne
      · exact hp.1 b hb'
    · rcases List.mem_cons.mp hb with rfl | hb'
      · exact hs _ _ (hp.1 a ha')
      · exact ih hp.2 a ha' b hb' hne

theorem sumSizes_append (a b : List Row) : sumSizes (a ++ b) = sumSizes a + sumSizes b := by
  simp [sumSizes]

theorem sumSizes_map_shift (r : Row) (l : List Row) : sumSizes (l.map (shift r)) = sumSizes l := by
  simp [sumSizes, Function.comp_def]

theorem sumSizes_eraseP (p : Row → Bool) (r : Row) :
    ∀ (l : List Row), l.find? p = some r → sumSizes (l.eraseP p) + r.size = sumSizes l := by
  intro l
  induction l with
  | nil => intro h; cases h
  | cons x xs ih =>
    intro h
    by_cases hx : p x
    · simp [List.find?_cons, hx] at h
      subst h
      simp [List.eraseP_cons, hx, sumSizes]; omega
    · simp [List.find?_cons, hx] at h
      have := ih h
      simp [List.eraseP_cons, hx, sumSizes] at this ⊢; omega

theorem find?_eraseP_other (p q : Row → Bool) (hpq : ∀ x, q x = true → p x = false) :
    ∀ (l : List Row), (l.eraseP p).find? q = l.find? q := by
  intro l
  induction l with
  | nil => rfl
  | cons x xs ih =>
    by_cases hx : p x
    · have : q x = false := by
        cases hq : q x with
        | false => rfl
        | true => rw [hpq x hq] at hx; cases hx
      simp [List.eraseP_cons, hx, List.find?_cons, this]
    · simp [List.eraseP_cons, hx, List.find?_cons, ih]

theorem not_mem_keys_eraseP (kd : Bool) (u : Nat) :
    ∀ (l : List Row), (l.map (Row.key kd)).Nodup → u ∉ (l.eraseP (keyP kd u)).map (Row.key kd) := by
  intro l
  induction l with
  | nil => intro _ h; cases h
  | cons x xs ih =>
    intro hn
    simp only [List.map_cons, List.nodup_cons] at hn
    by_cases hx : keyP kd u x
    · have : x.key kd = u := by simpa [keyP] using hx
      simp only [List.eraseP_cons, hx, ↓reduceIte]
      rw [← this]; exact hn.1
    · have hx' : keyP kd u x = false := by simpa using hx
      simp only [List.eraseP_cons, hx', cond_false, List.map_cons, List.mem_cons, not_or]
      refine ⟨?_, ih hn.2⟩
      intro e; apply hx; simp [keyP, e]

theorem find?_mem_key {kd : Bool} {u : Nat} {l : List Row} {r : Row}
    (h : l.find? (keyP kd u) = some r) : r ∈ l ∧ r.key kd = u := by
  have h1 := List.mem_of_find?_eq_some h
  have h2 := List.find?_some h
  exact ⟨h1, by simpa [keyP] using h2⟩

/-- geometry of one surviving row `q` against the deleted row `r` -/
theorem shift_inside {r q : Row} {n : Nat} (hd : Row.disj q r) (hq : q.start + q.size ≤ n)
    (hr : r.start + r.size ≤ n) : (shift r q).start + (shift r q).size ≤ n - r.size := by
  unfold shift Row.disj at *
  split <;> (try dsimp only) <;> omega

theorem shift_disj {r a b : Row} (hab : Row.disj a b) (har : Row.disj a r) (hbr : Row.disj b r) :
    Row.disj (shift r a) (shift r b) := by
  unfold shift Row.disj at *
  split <;> split <;> (try dsimp only) <;> omega

theorem slice_shift {r q : Row} (xs v : List α) (hd : Row.disj q r)
    (hq : q.start + q.size ≤ xs.length) (hr : r.start + r.size ≤ xs.length) :
    slice (cut xs r.start r.size ++ v) (shift r q).start (shift r q).size
      = slice xs q.start q.size := by
  have hlen := length_cut xs r.start r.size hr
  have hin := shift_inside hd hq hr
  rw [slice_append_left _ _ _ _ (by rw [hlen]; exact hin)]
  unfold shift
  split
  · -- shifted: q starts strictly after r
    rename_i hgt
    have : r.start + r.size ≤ q.start := by unfold Row.disj at hd; omega
    simpa using slice_cut_after xs r.start r.size q.start q.size this
  · rename_i hle
    unfold Row.disj at hd
    rcases hd with h | h
    · exact slice_cut_before xs r.start r.size q.start q.size h
    · have h0 : r.size = 0 := by omega
      rw [h0, cut_zero]

/-! ### counting argument for exact tiling (no gap) -/

/-- array position `p` lies in the range of index row `r` -/
def Row.covers (r : Row) (p : Nat) : Bool := decide (r.start ≤ p) && decide (p < r.start + r.size)

theorem countP_range_covers (r : Row) : ∀ n,
    (List.range n).countP r.covers = min (r.start + r.size) n - min r.start n := by
  intro n
  induction n with
  | zero => simp
  | succ n ih =>
    rw [List.range_succ, List.countP_append, ih]
    simp only [List.countP_cons, List.countP_nil, Row.covers]
    by_cases h1 : r.start ≤ n <;> by_cases h2 : n < r.start + r.size <;> simp [h1, h2] <;> omega

theorem sum_countP_swap (rows : List Row) (n : Nat) :
    ((List.range n).map fun p => rows.countP (·.covers p)).sum
      = (rows.map fun r => (List.range n).countP r.covers).sum := by
  induction rows with
  | nil =>
    simp only [List.countP_nil, List.map_nil, List.sum_nil]
    induction (List.range n) with
    | nil => rfl
    | cons a l ih => simp [ih]
  | cons x xs ih =>
    simp only [List.countP_cons, List.map_cons, List.sum_cons, ← ih]
    generalize List.range n = l
    induction l with
    | nil => simp
    | cons p ps ihp =>
      simp only [List.map_cons, List.sum_cons, List.countP_cons, ihp]
      omega

theorem countP_covers_le_one (p : Nat) : ∀ (rows : List Row), rows.Pairwise Row.disj →
    rows.countP (·.covers p) ≤ 1 := by
  intro rows
  induction rows with
  | nil => intro _; simp
  | cons x xs ih =>
    intro hp
    rw [List.pairwise_cons] at hp
    simp only [List.countP_cons]
    by_cases hx : x.covers p
    · have : xs.countP (·.covers p) = 0 := by
        rw [List.countP_eq_zero]
        intro y hy hc
        have hd := hp.1 y hy
        simp only [Row.covers, Bool.and_eq_true, decide_eq_true_eq] at hx hc
        unfold Row.disj at hd; omega
      simp [hx, this]
    · have := ih hp.2
      simp [hx]; exact this

theorem all_one_of_sum (l : List Nat) (h1 : ∀ x ∈ l, x ≤ 1) (hs : l.sum = l.length) :
    ∀ x ∈ l, x = 1 := by
  induction l with
  | nil => intro x hx; cases hx
  | cons y ys ih =>
    have hle : ys.sum ≤ ys.length := by
      clear ih hs
      induction ys with
      | nil => simp
      | cons z zs ihz =>
        have := h1 z (by simp)
        have := ihz (fun x hx => h1 x (by
          rcases List.mem_cons.mp hx with rfl | h
          · simp
          · simp [h]))
        simp only [List.sum_cons, List.length_cons]; omega
    have hy := h1 y (by simp)
    simp only [List.sum_cons, List.length_cons] at hs
    intro x hx
    rcases List.mem_cons.mp hx with rfl | hx'
    · omega
    · exact ih (fun x hx => h1 x (List.mem_cons_of_mem _ hx)) (by omega) x hx'

end GeoVerif.Concat
