/-
Helper lemmas for C14: total specifications of the regenerated scalar mappers and mapper lists, pure mirrors of
the tree passes (`dict_mapper`, `stringify`, `demote`, `numify`, `json`), and the loop of the regenerated `flatten`.
-/
import GeoVerif.Model.UiFile
namespace GeoVerif.UiFile
open GeoVerif.Py GeoVerif.Py.PyVal GeoVerif.Gen.Ui

/-! ### what each mapper list does to one value (total specifications) -/

/-- `demote`'s mappers on one value -/
def dS : PyVal → PyVal
  | .ent u => .str (bracedStr u)
  | .uuid u => .str (bracedStr u)
  | .ws p => .str p
  | v => v

/-- `stringify`'s mappers on one value -/
def sS : PyVal → PyVal
  | .none => .str ""
  | .nan => .str ""
  | .inf false => .str "inf"
  | .inf true => .str "-inf"
  | .uuid u => .str (bracedStr u)
  | v => v

/-- `numify`'s mappers on one value -/
def nS : PyVal → PyVal
  | .str s =>
    if s == "" then .none else if s == "inf" then .inf false else if s == "-inf" then .inf true
    else match uuidParse (.str s) with
      | some u => .uuid u
      | Option.none => if geoh5Path s then .ws s else .str s
  | .uuid u => .uuid ((uuidParse (.str (hyphenate u))).getD "")
  | v => v

theorem demote_spec (v : PyVal) : applyFs demoteMappers v = .ok (dS v) := by
  cases v <;> rfl

theorem stringify_spec (v : PyVal) : applyFs stringifyMappers v = .ok (sS v) := by
  cases v with
  | inf n => cases n <;> rfl
  | _ => rfl

theorem uuidParse_uuid (u : String) : uuidParse (.uuid u) = some u := rfl

theorem str2none_str (s : String) : str2none (.str s) = .ok (if s == "" then PyVal.none else .str s) := by
  simp [str2none, map2, pyEq, bind, Except.bind, pure, Except.pure]
  split <;> simp_all

theorem str2inf_str (s : String) :
    str2inf (.str s) = .ok (if s == "inf" then .inf false else if s == "-inf" then .inf true else .str s) := by
  by_cases h1 : s = "inf"
  · subst h1; rfl
  · by_cases h2 : s = "-inf"
    · subst h2; rfl
    · have e1 : (s == "inf") = false := by simpa using h1
      have e2 : (s == "-inf") = false := by simpa using h2
      simp [str2inf, bind2, Py.contains, pyEq, bind, Except.bind, pure, Except.pure, e1, e2, h1, h2]

theorem str2uuid_str (s : String) :
    str2uuid (.str s) = .ok (match uuidParse (.str s) with | some u => .uuid u | Option.none => .str s) := by
  cases h : uuidParse (.str s) <;>
    simp [str2uuid, is_uuid, map1, bind1, asBool, truthy, pyNotM, isStrOrUuid, bind, Except.bind, pure, Except.pure, h, pyStr]

theorem str2uuid_uuid (u : String) : str2uuid (.uuid u) = .ok (.uuid ((uuidParse (.str (hyphenate u))).getD "")) := by
  simp [str2uuid, is_uuid, map1, bind1, asBool, truthy, pyNotM, isStrOrUuid, bind, Except.bind, pure, Except.pure, pyStr, uuidParse_uuid]

theorem path2workspace_str (s : String) : path2workspace (.str s) = .ok (if geoh5Path s then .ws s else .str s) := by
  simp [path2workspace]; split <;> rfl

theorem numify_spec (v : PyVal) : applyFs numifyMappers v = .ok (nS v) := by
  cases v with
  | str s =>
    simp only [numifyMappers, applyFs, str2none_str, bind, Except.bind, nS]
    by_cases h0 : (s == "") = true
    · simp [h0]; rfl
    · simp only [h0, Bool.false_eq_true, if_false, str2inf_str]
      by_cases h1 : (s == "inf") = true
      · simp [h1]; rfl
      · simp only [h1, Bool.false_eq_true, if_false]
        by_cases h2 : (s == "-inf") = true
        · simp [h2]; rfl
        · simp only [h2, Bool.false_eq_true, if_false, str2uuid_str]
          cases h3 : uuidParse (.str s) with
          | some u => rfl
          | none => simp [path2workspace_str]
  | uuid u => simp [numifyMappers, applyFs, bind, Except.bind, nS, str2uuid_uuid]; rfl
  | _ => rfl

/-! ### pure mirrors of the tree passes -/

mutual
/-- mirror of `dict_mapper`: into dictionaries recursively, one level into lists, then the value itself -/
def mapVal (f : PyVal → PyVal) : PyVal → PyVal
  | .dict kv => f (.dict (mapKV f kv))
  | .list l => .list (l.map f)
  | v => f v
def mapKV (f : PyVal → PyVal) : KV → KV
  | [] => []
  | (k, v) :: rest => (k, mapVal f v) :: mapKV f rest
end

theorem mapElems_spec (fs) (f : PyVal → PyVal) (hf : ∀ v, applyFs fs v = .ok (f v)) :
    ∀ l, mapElems fs l = .ok (l.map f)
  | [] => rfl
  | x :: xs => by simp [mapElems, hf, mapElems_spec fs f hf xs, bind, Except.bind, pure, Except.pure]

mutual
theorem dictMapper_spec (fs) (f : PyVal → PyVal) (hf : ∀ v, applyFs fs v = .ok (f v)) :
    ∀ t, dictMapper fs t = .ok (mapVal f t)
  | .dict kv => by
    simp [dictMapper, mapVal, dictMapperKV_spec fs f hf kv, hf, bind, Except.bind]
  | .list l => by simp [dictMapper, mapVal, mapElems_spec fs f hf l, bind, Except.bind, pure, Except.pure]
  | .none | .bool _ | .int _ | .flt _ | .inf _ | .nan | .str _ | .uuid _ | .ws _ | .ent _ => by
    simp [dictMapper, mapVal, hf]
theorem dictMapperKV_spec (fs) (f : PyVal → PyVal) (hf : ∀ v, applyFs fs v = .ok (f v)) :
    ∀ kv, dictMapperKV fs kv = .ok (mapKV f kv)
  | [] => rfl
  | (k, v) :: rest => by
    simp [dictMapperKV, mapKV, dictMapper_spec fs f hf v, dictMapperKV_spec fs f hf rest, bind, Except.bind, pure, Except.pure]
end

theorem mapDM_spec (fs) (f : PyVal → PyVal) (hf : ∀ v, applyFs fs v = .ok (f v)) :
    ∀ l, mapDM fs l = .ok (l.map (mapVal f))
  | [] => rfl
  | x :: xs => by
    simp [mapDM, dictMapper_spec fs f hf x, mapDM_spec fs f hf xs, bind, Except.bind, pure, Except.pure]

/-- mirror of `stringify` -/
theorem stringify_tree : ∀ kv, stringify kv = .ok (mapKV sS kv)
  | [] => rfl
  | (k, v) :: rest => by
    simp [stringify, mapKV, dictMapper_spec _ sS stringify_spec v, stringify_tree rest, bind, Except.bind, pure, Except.pure]

mutual
def demPV : PyVal → PyVal
  | .dict kv => .dict (demP kv)
  | .list l => .list (l.map (mapVal dS))
  | v => mapVal dS v
/-- mirror of `InputFile.demote` -/
def demP : KV → KV
  | [] => []
  | (k, v) :: rest => (k, demPV v) :: demP rest
end

mutual
theorem demoteV_tree : ∀ v, demoteV v = .ok (demPV v)
  | .dict kv => by simp [demoteV, demPV, demote_tree kv, bind, Except.bind, pure, Except.pure]
  | .list l => by simp [demoteV, demPV, mapDM_spec _ dS demote_spec l, bind, Except.bind, pure, Except.pure]
  | .none | .bool _ | .int _ | .flt _ | .inf _ | .nan | .str _ | .uuid _ | .ws _ | .ent _ => by
    simp [demoteV, demPV, dictMapper_spec _ dS demote_spec]
theorem demote_tree : ∀ kv, demote kv = .ok (demP kv)
  | [] => by simp [demote, demP]
  | (k, v) :: rest => by
    simp [demote, demP, demoteV_tree v, demote_tree rest, bind, Except.bind, pure, Except.pure]
end

mutual
def numPV : PyVal → PyVal
  | .dict kv => mapVal nS (.dict (numP kv))
  | v => mapVal nS v
/-- mirror of `InputFile.numify` -/
def numP : KV → KV
  | [] => []
  | (k, v) :: rest => (k, numPV v) :: numP rest
end

mutual
theorem numifyV_tree : ∀ v, numifyV v = .ok (numPV v)
  | .dict kv => by
    simp [numifyV, numPV, numify_tree kv, dictMapper_spec _ nS numify_spec, bind, Except.bind]
  | .list _ | .none | .bool _ | .int _ | .flt _ | .inf _ | .nan | .str _ | .uuid _ | .ws _ | .ent _ => by
    simp [numifyV, numPV, dictMapper_spec _ nS numify_spec]
theorem numify_tree : ∀ kv, numify kv = .ok (numP kv)
  | [] => by simp [numify, numP]
  | (k, v) :: rest => by
    simp [numify, numP, numifyV_tree v, numify_tree rest, bind, Except.bind, pure, Except.pure]
end

/-! ### `json` -/

mutual
/-- nothing `json` refuses occurs in the value -/
def jsonOk : PyVal → Bool
  | .uuid _ | .ent _ | .ws _ => false
  | .list l => jsonOkL l
  | .dict kv => jsonOkKV kv
  | _ => true
def jsonOkL : List PyVal → Bool
  | [] => true
  | x :: xs => jsonOk x && jsonOkL xs
def jsonOkKV : KV → Bool
  | [] => true
  | (_, v) :: rest => jsonOk v && jsonOkKV rest
end

mutual
theorem jsonRT_id : ∀ v, jsonOk v = true → jsonRT v = .ok v
  | .uuid _, h | .ent _, h | .ws _, h => by simp [jsonOk] at h
  | .list l, h => by
    simp [jsonOk] at h
    simp [jsonRT, jsonRTL_id l h, bind, Except.bind, pure, Except.pure]
  | .dict kv, h => by
    simp [jsonOk] at h
    simp [jsonRT, jsonRTKV_id kv h, bind, Except.bind, pure, Except.pure]
  | .none, _ | .bool _, _ | .int _, _ | .flt _, _ | .inf _, _ | .nan, _ | .str _, _ => rfl
theorem jsonRTL_id : ∀ l, jsonOkL l = true → jsonRTL l = .ok l
  | [], _ => rfl
  | x :: xs, h => by
    simp [jsonOkL] at h
    simp [jsonRTL, jsonRT_id x h.1, jsonRTL_id xs h.2, bind, Except.bind, pure, Except.pure]
theorem jsonRTKV_id : ∀ kv, jsonOkKV kv = true → jsonRTKV kv = .ok kv
  | [], _ => rfl
  | (k, v) :: rest, h => by
    simp [jsonOkKV] at h
    simp [jsonRTKV, jsonRT_id v h.1, jsonRTKV_id rest h.2, bind, Except.bind, pure, Except.pure]
end

/-- `read_ui_json(write_ui_json(ui))` computed by the pure mirrors, whenever `json` accepts what `stringify` hands it -/
theorem writeRead_spec (ui : KV) (h : jsonOkKV (mapKV sS (demP ui)) = true) :
    writeRead ui = .ok (numP (mapKV sS (demP ui))) := by
  simp [writeRead, writeLoad, demote_tree, stringify_tree, jsonRTKV_id _ h, numify_tree, bind, Except.bind]

end GeoVerif.UiFile
