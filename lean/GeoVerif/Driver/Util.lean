import Lean.Data.Json
/-! JSON helpers for the line-protocol driver (no Mathlib). -/
namespace GeoVerif.Driver
open Lean

def jstr (j : Json) (k : String) : String :=
  match j.getObjVal? k with
  | .ok (.str s) => s
  | _ => ""

def jnat (j : Json) (k : String) : Nat :=
  match j.getObjVal? k with
  | .ok v => (v.getNat?.toOption.getD 0)
  | _ => 0

def jint (j : Json) (k : String) : Int :=
  match j.getObjVal? k with
  | .ok v => (v.getInt?.toOption.getD 0)
  | _ => 0

def jbool (j : Json) (k : String) : Bool :=
  match j.getObjVal? k with
  | .ok (.bool b) => b
  | _ => false

def jarr (j : Json) (k : String) : List Json :=
  match j.getObjVal? k with
  | .ok (.arr a) => a.toList
  | _ => []

def asArr (j : Json) : List Json :=
  match j with
  | .arr a => a.toList
  | _ => []

def asNat (j : Json) : Nat := j.getNat?.toOption.getD 0
def asInt (j : Json) : Int := j.getInt?.toOption.getD 0
def asStr (j : Json) : String := match j with | .str s => s | _ => ""
def asBool (j : Json) : Bool := match j with | .bool b => b | _ => false

def jstrs (j : Json) (k : String) : List String := (jarr j k).map asStr
def jnats (j : Json) (k : String) : List Nat := (jarr j k).map asNat
def jints (j : Json) (k : String) : List Int := (jarr j k).map asInt

def ofNats (l : List Nat) : Json := .arr (l.map (fun n => Json.num (JsonNumber.fromNat n))).toArray
def ofInts (l : List Int) : Json := .arr (l.map (fun n => Json.num (JsonNumber.fromInt n))).toArray
def ofStrs (l : List String) : Json := .arr (l.map Json.str).toArray
def ofList (l : List Json) : Json := .arr l.toArray
def ofOpt (o : Option Json) : Json := o.getD Json.null

/-- exact rationals cross the wire as the string "num/den" -/
def parseRat (s : String) : Rat :=
  match s.splitOn "/" with
  | [n] => (n.toInt?.getD 0 : Int)
  | [n, d] => mkRat (n.toInt?.getD 0) (d.toNat?.getD 1)
  | _ => 0

def showRat (q : Rat) : String := s!"{q.num}/{q.den}"

end GeoVerif.Driver
