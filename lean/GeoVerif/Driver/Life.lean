import GeoVerif.Driver.Ws
import GeoVerif.Model.Life
namespace GeoVerif.Driver.LifeD
open Lean GeoVerif.Ws GeoVerif.Life GeoVerif.Driver

abbrev St := LSt

def init0 : St := Life.init (.node default [])

def modeStr : Mode → String
  | .closed => "closed" | .r => "r" | .rw => "rw"
def parseMode (s : String) : Mode :=
  if s == "r" then .r else if s == "rw" then .rw else .closed
def loutStr : LOut → String
  | .ok => "ok" | .refused => "refused" | .readonly => "readonly" | .closedError => "closed" | .openError => "openError"

def report (s : St) (o : LOut) : Json :=
  Json.mkObj [("out", loutStr o), ("mode", modeStr s.mode), ("tree", WsD.treeJson s.tree),
    ("file", WsD.fileJson s.file),
    ("file_reads_back", Json.bool (match load s.file with
        | some t => (WsD.treeJson t).compress == (WsD.treeJson s.tree).compress
        | none => false))]

def handle (s : St) (j : Json) : St × Json :=
  match jstr j "op" with
  | "init" =>
    let t := WsD.parseTree (j.getObjValD "tree")
    let s' : St := ⟨t, fileOf t, parseMode (jstr j "mode")⟩
    (s', report s' .ok)
  | "api" =>
    match WsD.parseOp j with
    | none => (s, Json.str "bad-op")
    | some op => let (s', o) := lstep s (.api op); (s', report s' o)
  | "read" => let (s', o) := lstep s (.read (jnat j "u")); (s', report s' o)
  | "close" => let (s', o) := lstep s .close; (s', report s' o)
  | "crash" => let (s', o) := lstep s .crash; (s', report s' o)
  | "open" => let (s', o) := lstep s (.open (parseMode (jstr j "mode"))); (s', report s' o)
  | _ => (s, Json.str "bad-op")

end GeoVerif.Driver.LifeD
