import GeoVerif.Driver.Util
import GeoVerif.Model.Merge
namespace GeoVerif.Driver.MergeD
open Lean GeoVerif.Merge GeoVerif.Driver

def parseData (j : Json) (k : String) : List (String × List String) :=
  (jarr j k).map fun e => (jstr e "n", jstrs e "v")

def parseInp (j : Json) : Inp Int String :=
  { verts := jints j "verts"
    cells := (jarr j "cells").map fun c => (asArr c).map asNat
    vdata := parseData j "vdata", cdata := parseData j "cdata" }

def handle (j : Json) : Json :=
  match jstr j "op" with
  | "merge" =>
    let is := (jarr j "inputs").map parseInp
    let vl := jstrs j "vlabels"
    let cl := jstrs j "clabels"
    let cells := if jbool j "asFound" then mergeCellsMaxFrom 0 is else mergeCells is
    Json.mkObj [
      ("verts", ofInts (mergeVerts is)),
      ("cells", ofList (cells.map ofNats)),
      ("vdata", Json.mkObj (vl.map fun l => (l, ofStrs (mergeVData "nan" l is)))),
      ("cdata", Json.mkObj (cl.map fun l => (l, ofStrs (mergeCData "nan" l is))))]
  | _ => Json.str "bad-op"

end GeoVerif.Driver.MergeD
