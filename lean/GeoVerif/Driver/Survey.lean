import GeoVerif.Driver.Util
import GeoVerif.Model.Survey
namespace GeoVerif.Driver.SurveyD
open Lean GeoVerif.Survey GeoVerif.Driver

def rats (j : Json) (k : String) : List Rat := (jarr j k).map fun x => parseRat (asStr x)

def handle (j : Json) : Json :=
  match jstr j "op" with
  | "desurvey" =>
    let collar := parseRat (jstr j "collar")
    let t := rats j "t"
    let d := rats j "d"
    Json.mkObj [
      ("pos", ofStrs ((rats j "xs").map fun x => showRat (desurvey collar t d x))),
      ("locs", ofStrs ((locs collar (legs t d)).map showRat))]
  | "sort" =>
    let σ := jnats j "perm"
    let cells := (jarr j "cells").map fun c => (asArr c).map asNat
    Json.mkObj [
      ("verts", ofNats (applyPerm σ (jnats j "verts"))),
      ("cells", ofList (cells.map fun c => ofNats (c.map fun v => (invPerm σ).getD v 0)))]
  | _ => Json.str "bad-op"

end GeoVerif.Driver.SurveyD
