import GeoVerif.Driver.PyJson
import GeoVerif.Model.Valid
import GeoVerif.Gen.UiJson
/-! Driver for model "valid" (C15). -/
namespace GeoVerif.Driver.ValidD
open Lean GeoVerif.Py GeoVerif.Valid GeoVerif.Driver GeoVerif.Driver.PyJson

def parseTy (s : String) : Option Ty :=
  match s with
  | "str" => some .str | "UUID" => some .uuid | "int" => some .int | "float" => some .float
  | "bool" => some .bool | "NoneType" => some .none | "Entity" => some .entity | "PropertyGroup" => some .pg
  | "list" => some .list | "Workspace" => some .ws | "dict" => some .dict
  | _ => none

def parseEnv (j : Json) : Env :=
  { ents := (asArr j).map fun e =>
      { uid := jstr e "uid", kind := if jstr e "kind" == "pg" then .pg else .entity,
        desc := jstrs e "desc", pgType := jstr e "pgType" } }

def optB (j : Json) (k : String) : Option Bool :=
  match j.getObjVal? k with | .ok (.bool b) => some b | _ => none
def optS (j : Json) (k : String) : Option String :=
  match j.getObjVal? k with | .ok (.str s) => some s | _ => none

def parseAssoc (j : Json) : Assoc :=
  match jstr j "k" with
  | "none" => .noneVal | "list" => .listVal | "ws" => .ws | "ent" => .ent (jstr j "u") | _ => .other

def parseRules (j : Json) : Rules :=
  { required := optB j "required", oneOf := optS j "one_of", optional := optB j "optional",
    types := (match j.getObjVal? "types" with | .ok (.arr a) => some (a.toList.filterMap fun t => parseTy (asStr t)) | _ => none),
    uuid := jbool j "uuid",
    association := (match j.getObjVal? "association" with | .ok (v@(.obj _)) => some (parseAssoc v) | _ => none),
    pgType := optS j "pg",
    values := (match j.getObjVal? "values" with | .ok (.arr a) => some (a.toList.map parsePy) | _ => none),
    shape := (match j.getObjVal? "shape" with | .ok (.arr a) => some (a.toList.map asNat) | _ => none) }

def parseOpts (j : Json) : Valid.Options :=
  { ignoreRequirements := jbool j "ignore_requirements", ignored := jbool j "ignored" }

def parseVar (j : Json) : Variant := if jstr j "var" == "asFound" then .asFound else .repaired

def showV (v : V) : Json :=
  match v with
  | .ok () => "ok"
  | .error e => Json.str (match e with
      | .required => "required" | .atLeastOne => "one_of" | .optional => "optional" | .type => "type"
      | .uuid => "uuid" | .association => "association" | .propertyGroup => "property_group" | .value => "value"
      | .shape => "shape" | .valueError => "ValueError" | .attributeError => "AttributeError" | .aggregate => "aggregate")

def parseData (j : Json) : List (String × PyVal) :=
  (asArr j).map fun kv => match asArr kv with | [k, v] => (asStr k, parsePy v) | _ => ("", .none)

def parseEnf (j : Json) : Option Enf :=
  match jstr j "k" with
  | "type" => some (.type ((jarr j "v").filterMap fun t => parseTy (asStr t)))
  | "value" => some (.value ((jarr j "v").map parsePy))
  | "uuid" => some .uuid
  | _ => none

def paramRun (var : Variant) (env : Env) : Param → List PyVal → List Json
  | _, [] => []
  | p, v :: vs =>
    let (p', r) := p.set var env v
    ofList [showV r, showPy p'.value] :: paramRun var env p' vs

def handle (j : Json) : Json :=
  let env := parseEnv (j.getObjValD "env")
  match jstr j "op" with
  | "validate" => showV (validate env (parseOpts (j.getObjValD "opts")) (parseRules (j.getObjValD "rules")) (parsePy (j.getObjValD "v")))
  | "validateData" =>
    let table : Table := (jarr j "table").map fun e =>
      { name := jstr e "name", rules := parseRules (e.getObjValD "rules"), assocName := optS e "assoc" }
    ofList ((runData (parseVar j) env (parseOpts (j.getObjValD "opts")) table ((jarr j "datas").map parseData)).map showV)
  | "pool" =>
    let p : Pool := { enforcers := (jarr j "enforcers").filterMap parseEnf }
    ofList ((Pool.run (parseVar j) env p ((jarr j "values").map parsePy)).map showV)
  | "param" =>
    let p : Param := { pool := { enforcers := (jarr j "enforcers").filterMap parseEnf }, value := parsePy (j.getObjValD "init") }
    ofList (paramRun (parseVar j) env p ((jarr j "values").map parsePy))
  | "requires" =>
    (match GeoVerif.Gen.Ui.requires_value (parsePy (j.getObjValD "ui")) (.str (jstr j "p")) with
     | .ok v => Json.mkObj [("ok", Json.bool (truthy v))]
     | .error e => Json.mkObj [("err", Json.str (showErr e))])
  | _ => "bad-op"

end GeoVerif.Driver.ValidD
