import GeoVerif.Driver.Util
import GeoVerif.Model.Records
namespace GeoVerif.Driver.RecordsD
open Lean GeoVerif.Records GeoVerif.Driver

abbrev St := Recs

def out (r : Recs) : Json :=
  Json.mkObj [("keys", ofNats r.keys), ("ids", ofNats (r.recs.map (·.1))), ("inv", Json.bool (invCheck r))]

def parseFields (j : Json) : Rec :=
  (jarr j "fields").map fun p => match asArr p with | [a, b] => (asStr a, asStr b) | _ => ("", "")

def handle (s : St) (j : Json) : St × Json :=
  match jstr j "op" with
  | "reset" => (empty, Json.str "ok")
  | "upsert" => let s' := step s (.upsert (jnat j "u") (parseFields j)); (s', out s')
  | "remove" => let s' := step s (.remove (jnat j "u")); (s', out s')
  | "load" =>      -- take over the lists as a fresh reader of the file builds them
    let ids := jnats j "ids"
    let s' : Recs := ⟨ids, ids.map fun i => (i, [])⟩
    (s', out s')
  | "find" => (s, match find s (jnat j "u") with
      | some f => ofList (f.map fun kv => ofStrs [kv.1, kv.2])
      | none => Json.null)
  | _ => (s, Json.str "bad-op")

end GeoVerif.Driver.RecordsD
