import GeoVerif.Driver.Util
import GeoVerif.Model.Depths
/-! Driver for model "depths" (C18, data additions). Exact rationals cross as "num/den", no-data as null. -/
namespace GeoVerif.Driver.DepthsD
open Lean GeoVerif.Depths GeoVerif.Driver

def optRat (j : Json) : Option Rat := match j with | .str s => some (parseRat s) | _ => none
def showOpt (o : Option Rat) : Json := match o with | some q => Json.str (showRat q) | none => Json.null

def parseHole (j : Json) : Hole :=
  { depth := (jarr j "depth").map fun d => parseRat (asStr d)
    cols := (jarr j "cols").map fun c => match asArr c with
      | [n, vs] => (asStr n, (asArr vs).map optRat)
      | _ => ("", []) }

def parseLogs (j : Json) : List (String × List (Rat × Option Rat)) :=
  (jarr j "logs").map fun l => match asArr l with
    | [n, ss] => (asStr n, (asArr ss).map fun s => match asArr s with
        | [b, v] => (parseRat (asStr b), optRat v)
        | _ => (0, none))
    | _ => ("", [])

def showHole (h : Hole) : Json :=
  Json.mkObj [("depth", ofList (h.depth.map fun d => Json.str (showRat d))),
    ("cols", ofList (h.cols.map fun c => ofList [Json.str c.1, ofList ((pad h.depth.length c.2).map showOpt)]))]

def handle (j : Json) : Json :=
  match jstr j "op" with
  | "call" => showHole (addCall (parseRat (jstr j "eps")) (parseHole j) (parseLogs j))
  | _ => "bad-op"

end GeoVerif.Driver.DepthsD
