import GeoVerif.Driver.Util
import GeoVerif.Model.Heap
namespace GeoVerif.Driver.HeapD
open Lean GeoVerif.Heap GeoVerif.Driver

def parseObj (j : Json) (k : String) : Obj :=
  (jarr j k).map fun p => match asArr p with
    | [a, b] => (asStr a, asNat b)
    | _ => ("", 0)

def handle (j : Json) : Json :=
  match jstr j "op" with
  | "aliasFree" => Json.bool (aliasFree (parseObj j "o") (parseObj j "cp"))
  | _ => Json.str "bad-op"

end GeoVerif.Driver.HeapD
