import GeoVerif.Driver.Util
import GeoVerif.Model.Geom
namespace GeoVerif.Driver.GeomD
open Lean GeoVerif.Geom GeoVerif.Driver

abbrev St := Geom Int String

def init : St := { verts := [], cells := none, vdata := [], cdata := [] }

def dataJson (ds : List (String × List String)) : Json :=
  Json.mkObj (ds.map fun (n, v) => (n, ofStrs v))

def stJson (status : String) (g : St) : Json :=
  Json.mkObj [
    ("status", Json.str status),
    ("verts", ofInts g.verts),
    ("cells", match g.cells with | none => Json.null | some cs => ofList (cs.map ofNats)),
    ("vdata", dataJson g.vdata),
    ("cdata", dataJson g.cdata)]

def parseData (j : Json) (k : String) : List (String × List String) :=
  (jarr j k).map fun e => (jstr e "n", jstrs e "v")

def errStr : Err → String
  | .valueError => "valueError"
  | .indexError => "indexError"
  | .typeError => "typeError"

def handle (g : St) (j : Json) : St × Json :=
  match jstr j "op" with
  | "init" =>
    let cells := match j.getObjVal? "cells" with
      | .ok (.arr a) => some (a.toList.map fun c => (asArr c).map asNat)
      | _ => none
    let g' : St := { verts := jints j "verts", cells := cells,
                     vdata := parseData j "vdata", cdata := parseData j "cdata" }
    (g', stJson "ok" g')
  | "rmVerts" =>
    match removeVertices g (jints j "idx") with
    | .ok g' => (g', stJson "ok" g')
    | .error e => (g, stJson (errStr e) g)
  | "rmCells" =>
    match removeCells g (jints j "idx") with
    | .ok g' => (g', stJson "ok" g')
    | .error e => (g, stJson (errStr e) g)
  | "maskCopy" =>      -- the copy is returned, the object itself is unchanged
    match maskedCopy g ((jarr j "mask").map asBool) with
    | .ok c => (g, stJson "ok" c)
    | .error e => (g, stJson (errStr e) g)
  | "maskCopy2" =>     -- vertex mask and cell mask together
    match maskedCopy2 g ((jarr j "mask").map asBool) ((jarr j "cmask").map asBool) with
    | .ok c => (g, stJson "ok" c)
    | .error e => (g, stJson (errStr e) g)
  | "set" =>
    match setValues "nan" g (jbool j "cell") (jstr j "name") (jstrs j "v") with
    | .ok g' => (g', stJson "ok" g')
    | .error e => (g, stJson (errStr e) g)
  | _ => (g, Json.str "bad-op")

end GeoVerif.Driver.GeomD
