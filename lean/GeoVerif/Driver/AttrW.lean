import GeoVerif.Driver.Util
import GeoVerif.Model.AttrW
namespace GeoVerif.Driver.AttrWD
open Lean GeoVerif.AttrW GeoVerif.Driver

/-- `{"m":"attrw","fixed":b,"store":[[k,v]…],"mem":[[k,v|null]…]}` → the node's attributes after the writer walked `mem`,
    as `[k,v]` pairs in the order of the keys asked for (`keys`) with null for an absent attribute. -/
def handle (j : Json) : Json :=
  let store : Store := (jarr j "store").map fun kv => match asArr kv with
    | [k, v] => (asStr k, asStr v)
    | _ => ("", "")
  let mem : Mem := (jarr j "mem").map fun kv => match asArr kv with
    | [k, .null] => (asStr k, none)
    | [k, v] => (asStr k, some (asStr v))
    | _ => ("", none)
  let out := if jbool j "fixed" then writeFixed mem store else writeFound mem store
  ofList ((jstrs j "keys").map fun k => match get out k with
    | some v => Json.str v
    | none => Json.null)

end GeoVerif.Driver.AttrWD
