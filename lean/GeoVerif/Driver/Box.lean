import GeoVerif.Driver.Util
import GeoVerif.Model.Box
namespace GeoVerif.Driver.BoxD
open Lean GeoVerif.Box GeoVerif.Driver

def rats (j : Json) : List Rat := (asArr j).map fun x => parseRat (asStr x)

def lims (j : Json) (k : String) : List (Rat × Rat) :=
  (jarr j k).map fun l => match rats l with
    | [a, b] => (a, b)
    | _ => (0, 0)

def bools (j : Json) (k : String) : List Bool := (jarr j k).map asBool
def ofBools (l : List Bool) : Json := ofList (l.map Json.bool)

def handle (j : Json) : Json :=
  match jstr j "op" with
  | "mask" =>
    ofBools (maskByExtent (jnat j "n") ((jarr j "cols").map rats) (lims j "lims") (jbool j "inverse"))
  | "intersect" => Json.bool (boxIntersect (lims j "a") (lims j "b"))
  | "cellmask" =>
    let cells := match j.getObjVal? "cells" with
      | .ok (.arr a) => some (a.toList.map fun c => (asArr c).map asNat)
      | _ => none
    match cellObjectMask (bools j "vm") cells with
    | some m => ofBools m
    | none => Json.null
  | "grid" =>
    let nU := jnat j "nU"
    let sel := bools j "sel"
    let u := if jbool j "asFound" then uInd nU sel else fillSpan (uInd nU sel)
    let v := if jbool j "asFound" then vInd nU sel else fillSpan (vInd nU sel)
    Json.mkObj [("u", ofBools u), ("v", ofBools v), ("kron", ofBools (kron v u)),
      ("nu", Json.num (JsonNumber.fromNat (countTrue u))), ("nv", Json.num (JsonNumber.fromNat (countTrue v))),
      ("au", Json.num (JsonNumber.fromNat (argmax u))), ("av", Json.num (JsonNumber.fromNat (argmax v)))]
  | _ => Json.str "bad-op"

end GeoVerif.Driver.BoxD
