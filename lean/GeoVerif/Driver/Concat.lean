import GeoVerif.Driver.Util
import GeoVerif.Model.Concat
import GeoVerif.Model.Table
namespace GeoVerif.Driver.ConcatD
open Lean GeoVerif.Concat GeoVerif.Driver

abbrev St := Store String

def chanJson (c : Chan String) (kd : Bool) : Json :=
  Json.mkObj [
    ("rows", ofList (c.rows.map fun r => ofNats [r.start, r.size, r.obj, r.dat])),
    ("data", ofStrs c.data),
    ("tiled", Json.bool (tiledCheck kd c)),
    ("objNodup", Json.bool (objNodupCheck c))]

def parseChan (j : Json) : Chan String :=
  { rows := (jarr j "rows").map fun r =>
      match (asArr r).map asNat with
      | [a, b, c, d] => ⟨a, b, c, d⟩
      | _ => ⟨0, 0, 0, 0⟩
    data := jstrs j "data" }

def handle (s : St) (j : Json) : St × Json :=
  match jstr j "op" with
  | "reset" => ([], Json.str "ok")
  | "put" =>
    let l := jstr j "label"; let kd := jbool j "kd"
    let s' := s.step (.put l kd (jnat j "o") (jnat j "d") (jstrs j "v"))
    -- the hypothesis `WellKeyed` of `run_tinv`, evaluated on the state before the call
    let wk := !kd || (match s.find? l with
      | some c => c.rows.all fun r => r.obj != jnat j "o" || r.dat == jnat j "d"
      | none => true)
    (s', match s'.find? l with
         | some c => (chanJson c kd).setObjVal! "wk" (Json.bool wk)
         | none => Json.null)
  | "drop" =>
    let l := jstr j "label"; let kd := jbool j "kd"
    let s' := s.step (.drop l kd (jnat j "u"))
    (s', match s'.find? l with | some c => chanJson c kd | none => Json.null)
  | "get" =>
    let l := jstr j "label"; let kd := jbool j "kd"
    (s, match (s.find? l).bind (fun c => get kd c (jnat j "u")) with
        | some v => ofStrs v
        | none => Json.null)
  | "load" =>   -- take over a channel as read from the real file (after re-open)
    let l := jstr j "label"; let kd := jbool j "kd"
    let c := parseChan j
    (s.set l c, chanJson c kd)
  | "table" =>   -- the group-wide table view computed from the model's channels
    let assoc := jstr j "assoc"
    let names := jstrs j "names"
    let ndvs := (jarr j "ndv").map fun p => match asArr p with | [a, b] => (asStr a, asStr b) | _ => ("", "")
    let ndv := fun nm => ((ndvs.find? (fun p => p.1 == nm)).map (·.2)).getD "nan"
    (s, ofList ((table s ndv assoc names).map fun row => Json.mkObj [("o", Json.num (JsonNumber.fromNat row.1)), ("v", ofStrs row.2)]))
  | "holes" => (s, ofNats (holesInOrder s (jstr j "assoc")))
  | "check" =>  -- judge rows/data of the real file with the theorem's predicate
    (s, Json.bool (tiledCheck (jbool j "kd") (parseChan j)))
  | _ => (s, Json.str "bad-op")

end GeoVerif.Driver.ConcatD
