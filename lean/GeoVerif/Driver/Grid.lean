import GeoVerif.Driver.Util
import GeoVerif.Model.Grid
namespace GeoVerif.Driver.GridD
open Lean GeoVerif.Grid GeoVerif.Driver

def rats (j : Json) (k : String) : List Rat := (jarr j k).map fun x => parseRat (asStr x)
def rat (j : Json) (k : String) : Rat := parseRat (jstr j k)
def triple (j : Json) (k : String) : Rat × Rat × Rat :=
  match rats j k with
  | [a, b, c] => (a, b, c)
  | _ => (0, 0, 0)
def ofTriples (l : List (Rat × Rat × Rat)) : Json :=
  ofList (l.map fun p => ofStrs [showRat p.1, showRat p.2.1, showRat p.2.2])

def handle (j : Json) : Json :=
  match jstr j "op" with
  | "block" =>
    ofTriples (blockCentroids (triple j "o") (rat j "c") (rat j "s") (rats j "du") (rats j "dv") (rats j "dz"))
  | "grid2d" =>
    ofTriples (grid2dCentroids (triple j "o") (rat j "c") (rat j "s") (rat j "cd") (rat j "sd")
      (jnat j "nu") (jnat j "nv") (rat j "hu") (rat j "hv"))
  | "octbase" =>
    ofList ((octreeBase (jnat j "u") (jnat j "v") (jnat j "w")).map fun c => ofNats [c.i, c.j, c.k, c.n])
  | "octcent" =>
    let cells := (jarr j "cells").map fun c => match (asArr c).map asNat with
      | [a, b, d, n] => (⟨a, b, d, n⟩ : OCell)
      | _ => ⟨0, 0, 0, 0⟩
    ofTriples (octreeCentroids (triple j "o") (rat j "c") (rat j "s") (rat j "hu") (rat j "hv") (rat j "hw") cells)
  | "parts" =>
    ofList ((cellsOfParts (jints j "parts")).map fun p => ofNats [p.1, p.2])
  | _ => Json.str "bad-op"

end GeoVerif.Driver.GridD
