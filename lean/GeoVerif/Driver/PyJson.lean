import GeoVerif.Driver.Util
import GeoVerif.Model.Py
/-! JSON codec of `PyVal` for the driver: {"t": tag, "v": payload}. Floats are exact ("num/den"). -/
namespace GeoVerif.Driver.PyJson
open Lean GeoVerif.Py GeoVerif.Driver

partial def parsePy (j : Json) : PyVal :=
  match jstr j "t" with
  | "none" => .none
  | "bool" => .bool (jbool j "v")
  | "int" => .int ((jstr j "v").toInt?.getD 0)
  | "flt" => .flt (parseRat (jstr j "v"))
  | "inf" => .inf (jbool j "v")
  | "nan" => .nan
  | "str" => .str (jstr j "v")
  | "uuid" => .uuid (jstr j "v")
  | "ws" => .ws (jstr j "v")
  | "ent" => .ent (jstr j "v")
  | "list" => .list ((jarr j "v").map parsePy)
  | "dict" => .dict ((jarr j "v").map fun kv => match asArr kv with
      | [k, v] => (asStr k, parsePy v)
      | _ => ("", .none))
  | _ => .none

partial def showPy : PyVal → Json
  | .none => Json.mkObj [("t", "none")]
  | .bool b => Json.mkObj [("t", "bool"), ("v", Json.bool b)]
  | .int i => Json.mkObj [("t", "int"), ("v", Json.str (toString i))]
  | .flt q => Json.mkObj [("t", "flt"), ("v", Json.str (showRat q))]
  | .inf n => Json.mkObj [("t", "inf"), ("v", Json.bool n)]
  | .nan => Json.mkObj [("t", "nan")]
  | .str s => Json.mkObj [("t", "str"), ("v", Json.str s)]
  | .uuid u => Json.mkObj [("t", "uuid"), ("v", Json.str u)]
  | .ws p => Json.mkObj [("t", "ws"), ("v", Json.str p)]
  | .ent u => Json.mkObj [("t", "ent"), ("v", Json.str u)]
  | .list l => Json.mkObj [("t", "list"), ("v", ofList (l.map showPy))]
  | .dict kv => Json.mkObj [("t", "dict"), ("v", ofList (kv.map fun e => ofList [Json.str e.1, showPy e.2]))]

def showErr : PyErr → String
  | .keyError => "KeyError"
  | .typeError => "TypeError"
  | .valueError => "ValueError"
  | .indexError => "IndexError"
  | .attributeError => "AttributeError"

def showM (r : PyM PyVal) : Json :=
  match r with
  | .ok v => Json.mkObj [("ok", showPy v)]
  | .error e => Json.mkObj [("err", Json.str (showErr e))]

end GeoVerif.Driver.PyJson
