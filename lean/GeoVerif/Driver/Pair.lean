import GeoVerif.Driver.Util
import GeoVerif.Model.Pair
namespace GeoVerif.Driver.PairD
open Lean GeoVerif.Pair GeoVerif.Driver

def parseSide (s : String) : Side := if s == "B" then .B else .A
def showSide : Side → String
  | .A => "A"
  | .B => "B"

def parseParams (j : Json) (k : String) : Params :=
  Params.ofList ((jarr j k).map fun e => (jstr e "k", jstr e "v"))

def optStr (j : Json) (k : String) : Option String :=
  match j.getObjVal? k with
  | .ok (.str s) => some s
  | _ => none

def parseOp (j : Json) : Option Op :=
  match jstr j "t" with
  | "link" => some (.link (jnat j "i") (parseSide (jstr j "s")))
  | "edit" => some (.edit (jnat j "i") (parseSide (jstr j "s")) (jstr j "k") (optStr j "v"))
  | "reopen" => some .reopen
  | "copy" => some (.copy (jnat j "i") (parseSide (jstr j "s")) (jnat j "na") (jnat j "nb") (jbool j "ld"))
  | _ => none

def ofOptNat : Option Nat → Json
  | some n => Json.num (JsonNumber.fromNat n)
  | none => Json.null

def showRec (keys : List String) (r : Rec) : Json :=
  Json.mkObj [
    ("idA", ofOptNat r.idA), ("idB", ofOptNat r.idB),
    ("p", Json.mkObj (keys.filterMap fun k => (r.params k).map fun v => (k, Json.str v)))]

def showPair (keys : List String) (p : Pair) : Json :=
  Json.mkObj [
    ("a", Json.num (JsonNumber.fromNat p.uidA)), ("b", Json.num (JsonNumber.fromNat p.uidB)),
    ("liveA", showRec keys (p.view .A)), ("liveB", showRec keys (p.view .B)),
    ("storedA", showRec keys p.storedA), ("storedB", showRec keys p.storedB)]

def showLone (keys : List String) (l : Lone) : Json :=
  Json.mkObj [("s", Json.str (showSide l.side)), ("u", Json.num (JsonNumber.fromNat l.uid)),
    ("rec", showRec keys l.record)]

def showWorld (keys : List String) (w : World) : Json :=
  Json.mkObj [("pairs", ofList (w.pairs.map (showPair keys))), ("lones", ofList (w.lones.map (showLone keys)))]

/-- all intermediate worlds of a run (one per operation) -/
def trace (c : Cfg) : World → List Op → List World
  | _, [] => []
  | w, op :: ops => let w' := step c w op; w' :: trace c w' ops

def handle (j : Json) : Json :=
  match jstr j "op" with
  | "run" =>
    let c : Cfg := { writeThrough := jbool j "wt", carry := jbool j "carry" }
    let keys := jstrs j "keys"
    let w0 : World := { pairs := [fresh (jnat j "a") (jnat j "b") (parseParams j "pa") (parseParams j "pb")], lones := [] }
    match (jarr j "ops").mapM parseOp with
    | none => Json.str "bad-op"
    | some ops => ofList ((trace c w0 ops).map (showWorld keys))
  | _ => Json.str "bad-op"

end GeoVerif.Driver.PairD
