import GeoVerif.Driver.PyJson
import GeoVerif.Model.UiFile
import GeoVerif.Model.UiClean
/-! Driver for model "uifile" (C14). -/
namespace GeoVerif.Driver.UiFileD
open Lean GeoVerif.Py GeoVerif.UiFile GeoVerif.Driver GeoVerif.Driver.PyJson GeoVerif.Gen.Ui

def kvOf (j : Json) : KV := match parsePy j with | .dict kv => kv | _ => []

def showKV (r : PyM KV) : Json := showM (r.map PyVal.dict)

def mapper (name : String) : Option (PyVal → PyM PyVal) :=
  match name with
  | "none2str" => some none2str | "nan2str" => some nan2str | "inf2str" => some inf2str
  | "as_str_if_uuid" => some as_str_if_uuid | "str2none" => some str2none | "str2inf" => some str2inf
  | "str2uuid" => some str2uuid | "is_uuid" => some is_uuid | "entity2uuid" => some entity2uuid
  | "path2workspace" => some path2workspace | "workspace2path" => some workspace2path
  | "stringify_list" => some (applyFs stringifyMappers) | "numify_list" => some (applyFs numifyMappers)
  | "demote_list" => some (applyFs demoteMappers)
  | _ => none

def handle (j : Json) : Json :=
  match jstr j "op" with
  | "mapper" =>
    (match mapper (jstr j "f") with
     | some f => showM (f (parsePy (j.getObjValD "v")))
     | none => "bad-mapper")
  | "dictMapper" =>
    (match mapper (jstr j "f") with
     | some _ =>
       let fs := match jstr j "f" with
         | "stringify_list" => stringifyMappers | "numify_list" => numifyMappers | _ => demoteMappers
       showM (dictMapper fs (parsePy (j.getObjValD "v")))
     | none => "bad-mapper")
  | "writeLoad" => showKV (writeLoad (kvOf (j.getObjValD "ui")))
  | "writeRead" => showKV (writeRead (kvOf (j.getObjValD "ui")))
  | "numify" => showKV (numify (kvOf (j.getObjValD "ui")))
  | "demote" => showKV (demote (kvOf (j.getObjValD "ui")))
  | "update" => showKV (updateUi (jbool j "updEnabled") (kvOf (j.getObjValD "ui")) (kvOf (j.getObjValD "data")))
  | "cycle" =>
    let env : Env := { known := jstrs j "known" }
    let w := updateUi (jbool j "updEnabled") (kvOf (j.getObjValD "ui")) (kvOf (j.getObjValD "data"))
    let disk := w >>= writeLoad
    let num := disk >>= numify
    let d := num >>= readData env
    let after := do
      let r ← num
      let dd ← d
      updateUi false r dd
    let clean := match w with | .ok u1 => cleanKV u1 | .error _ => false
    Json.mkObj [("write", showKV w), ("disk", showKV disk), ("numified", showKV num), ("data", showKV d),
      ("form_after_read", showKV after), ("clean", Json.bool clean)]
  | "flatten" => showM (flatten (parsePy (j.getObjValD "ui")))
  | "readData" => showKV (readData { known := jstrs j "known" } (kvOf (j.getObjValD "ui")))
  | _ => "bad-op"

end GeoVerif.Driver.UiFileD
