import GeoVerif.Driver.Util
import GeoVerif.Model.Ws
namespace GeoVerif.Driver.WsD
open Lean GeoVerif.Ws GeoVerif.Driver

def parseKind (s : String) : Kind :=
  if s == "group" then .group else if s == "object" then .object else .data
def kindStr : Kind → String
  | .group => "group" | .object => "object" | .data => "data"

def parseKV (j : Json) (k : String) : List (String × String) :=
  match j.getObjVal? k with
  | .ok (.obj m) => m.toList.map fun (a, b) => (a, asStr b)
  | _ => []

def parsePG (j : Json) : PG := ⟨jnat j "uid", jstr j "name", jnats j "props"⟩

def parseEnt (j : Json) : Ent :=
  { uid := jnat j "uid", kind := parseKind (jstr j "kind"), cls := jstr j "cls", typ := jnat j "typ",
    name := jstr j "name", allowDelete := jbool j "ad", attrs := parseKV j "attrs", dsets := parseKV j "dsets",
    pgs := (jarr j "pgs").map parsePG }

def kvJson (l : List (String × String)) : Json := Json.mkObj (l.map fun (k, v) => (k, Json.str v))
def pgJson (g : PG) : Json :=
  Json.mkObj [("uid", g.uid), ("name", g.name), ("props", ofNats g.props)]

partial def treeJson : Tree → Json
  | .node e ks => Json.mkObj [
      ("uid", e.uid), ("kind", kindStr e.kind), ("cls", e.cls), ("typ", e.typ), ("name", e.name),
      ("ad", e.allowDelete), ("attrs", kvJson e.attrs), ("dsets", kvJson e.dsets),
      ("pgs", ofList (e.pgs.map pgJson)), ("kids", ofList (ks.map treeJson))]

partial def parseTree (j : Json) : Tree := .node (parseEnt j) ((jarr j "kids").map parseTree)

def outStr : Out → String
  | .ok => "ok" | .refused => "refused" | .missing => "missing"

def fileJson (f : File) : Json :=
  Json.mkObj [
    ("root", match f.root with | some r => Json.num (JsonNumber.fromNat r) | none => Json.null),
    ("nodes", ofList (f.nodes.map fun n => Json.mkObj [
        ("uid", n.ent.uid), ("kind", kindStr n.ent.kind), ("name", n.ent.name), ("typ", n.ent.typ),
        ("pgs", ofList (n.ent.pgs.map pgJson)),
        ("links", ofList (n.links.map fun l => ofList [Json.str (kindStr l.1), Json.num (JsonNumber.fromNat l.2)]))]))]

def parseFile (j : Json) : File :=
  { root := match j.getObjVal? "root" with | .ok v => v.getNat?.toOption | _ => none
    nodes := (jarr j "nodes").map fun n =>
      { ent := parseEnt n
        links := (jarr n "links").map fun l => match asArr l with
          | [k, u] => (parseKind (asStr k), asNat u)
          | _ => (.data, 0) } }

def parseOp (j : Json) : Option Op :=
  match jstr j "o" with
  | "create" => some (.create (jnat j "parent") (parseEnt (j.getObjValD "ent")))
  | "setAttr" => some (.setAttr (jnat j "u") (jstr j "key") (jstr j "tok"))
  | "setDset" => some (.setDset (jnat j "u") (jstr j "key") (jstr j "tok"))
  | "rename" => some (.rename (jnat j "u") (jstr j "name"))
  | "move" => some (.move (jnat j "u") (jnat j "parent"))
  | "remove" => some (.remove (jnat j "u"))
  | "detach" => some (.detach (jnat j "u"))
  | "setTyp" => some (.setTyp (jnat j "u") (jnat j "typ"))
  | "setAllowDelete" => some (.setAllowDelete (jnat j "u") (jbool j "b"))
  | "copy" => some (.copy (jnat j "u") (jnat j "parent")
        ((jarr j "idmap").map fun p => match (asArr p).map asNat with | [a, b] => (a, b) | _ => (0, 0)))
  | "pgSet" => some (.pgSet (jnat j "obj") (parsePG (j.getObjValD "pg")))
  | "pgDrop" => some (.pgDrop (jnat j "obj") (jnat j "pg"))
  | _ => none

abbrev St := Tree

def init : St := .node default []

def handle (t : St) (j : Json) : St × Json :=
  match jstr j "op" with
  | "init" => let t' := parseTree (j.getObjValD "tree"); (t', treeJson t')
  | "step" =>
    match parseOp j with
    | none => (t, Json.str "bad-op")
    | some op =>
      let (t', o) := step t op
      (t', Json.mkObj [("out", outStr o), ("tree", treeJson t')])
  | "crossids" =>   -- identifier policy of a copy into another workspace
    (t, ofList ((crossIds ((jarr j "used").map asNat)
          ((jarr j "pairs").map fun p => match (asArr p).map asNat with | [a, b] => (a, b) | _ => (0, 0))).map
          fun n => Json.num (JsonNumber.fromNat n)))
  | "file" => (t, fileJson (fileOf t))
  | "reload" =>     -- the model's own round trip: load (fileOf t)
    (t, match load (fileOf t) with
        | some t' => Json.mkObj [("tree", treeJson t')]
        | none => Json.null)
  | "wf" => (t, Json.bool (wfCheck (parseFile j)))      -- judge a raw snapshot of the real file
  | "loadraw" =>   -- run the model reader on a raw snapshot of the real file
    (t, match load (parseFile j) with
        | some t' => treeJson t'
        | none => Json.null)
  | _ => (t, Json.str "bad-op")

end GeoVerif.Driver.WsD
