import GeoVerif.Driver.Util
import GeoVerif.Model.Codec
namespace GeoVerif.Driver.CodecD
open Lean GeoVerif.Codec GeoVerif.Driver

def parseFlt (s : String) : Flt :=
  if s == "nan" then .nan else if s == "inf" then .inf false else if s == "-inf" then .inf true
  else .fin (parseRat s)

def showFlt : Flt → String
  | .nan => "nan"
  | .inf false => "inf"
  | .inf true => "-inf"
  | .fin q => showRat q

def parseNum (s : String) : NumIn :=
  if s == "nan" then .nan else if s == "frac" then .frac else .int (s.toInt?.getD 0)

def errStr : Err → String
  | .typeError => "typeError"
  | .valueError => "valueError"
  | .keyError => "keyError"

def handle (j : Json) : Json :=
  match jstr j "op" with
  | "float" =>
    if jbool j "complex" then
      (match acceptF .complex with | .ok _ => Json.str "ok" | .error e => Json.str (errStr e))
    else
    let ndv := parseRat (jstr j "ndv")
    let xs0 := (jstrs j "xs").map parseFlt
    let xs := match j.getObjVal? "n" with | .ok n => padTo Flt.nan (asNat n) xs0 | _ => xs0
    Json.mkObj [("stored", ofStrs (xs.map fun x => showFlt (encF ndv x))),
                ("read", ofStrs (xs.map fun x => showFlt (decF ndv (encF ndv x))))]
  | "int" =>
    let c := jbool j "checked"
    let xs0 := (jstrs j "xs").map parseNum
    let xs := match j.getObjVal? "n" with | .ok n => padTo NumIn.nan (asNat n) xs0 | _ => xs0
    ofStrs (xs.map fun x => match encI c x with
      | .ok v => s!"{v}"
      | .error e => errStr e)
  | "bool" =>
    ofStrs ((jstrs j "xs").map fun s => match encB (parseNum s) with
      | .ok v => s!"{v}"
      | .error e => errStr e)
  | "vmap" =>
    let m : VMap := (jarr j "map").map fun kv => match asArr kv with
      | [k, v] => (asInt k, asStr v)
      | _ => (0, "")
    match normalise m with
    | .ok m' => ofList (m'.map fun kv => ofList [Json.num (JsonNumber.fromInt kv.1), Json.str kv.2])
    | .error e => Json.str (errStr e)
  | "utf8" =>
    let s := jstr j "s"
    Json.mkObj [("bytes", ofNats (s.toUTF8.toList.map (·.toNat))),
                ("back", match String.fromUTF8? s.toUTF8 with | some t => Json.bool (t == s) | none => Json.bool false)]
  | _ => Json.str "bad-op"

end GeoVerif.Driver.CodecD
