import GeoVerif.Model.Reindex
/-
M4 `Box` — spatial selection (C13).

`mask_by_extent`, `box_intersect` (geoh5py/shared/utils.py), `Points.mask_by_extent`,
`CellObject.mask_by_extent` (orphan-vertex removal), `Data.mask_by_extent` for cell data,
and the index logic of `Grid2D.copy_from_extent` (`u_ind`, `v_ind`, `np.kron`).

Coordinates live in any type with a decidable `≤` (the driver instantiates exact rationals:
every finite float is a dyadic rational and IEEE comparison of finite floats is exact).
-/
namespace GeoVerif.Box
open GeoVerif.Reindex

variable {K : Type} [LE K] [DecidableRel (α := K) (· ≤ ·)]

/-- `(lim[0] <= loc) & (loc <= lim[1])` for one coordinate -/
def inRange (lim : K × K) (x : K) : Bool := decide (lim.1 ≤ x) && decide (x ≤ lim.2)

/-- the loop of `mask_by_extent`: `cols` = `locations.T` (one list per axis),
    `lims` = `extent.T`; `zip(..., strict=False)` stops at the shorter of the two. -/
def maskLoop (n : Nat) (cols : List (List K)) (lims : List (K × K)) : List Bool :=
  (cols.zip lims).foldl (fun acc cl => List.zipWith (· && ·) acc (cl.1.map (inRange cl.2)))
    (List.replicate n true)

def maskByExtent (n : Nat) (cols : List (List K)) (lims : List (K × K)) (inverse : Bool) :
    List Bool :=
  (maskLoop n cols lims).map (· != inverse)

/-- the point-wise specification: inside the closed box on every axis both have -/
def inBox (lims : List (K × K)) (p : List K) : Bool :=
  (p.zip lims).all fun xl => inRange xl.2 xl.1

/-- `box_intersect` on already validated extents, per axis `max(lo) ≤ min(hi)` -/
def boxIntersect (a b : List (K × K)) : Bool :=
  (a.zip b).all fun ab =>
    -- min_ext = max(a.lo, b.lo); max_ext = min(a.hi, b.hi); not (min_ext > max_ext)
    decide (ab.1.1 ≤ ab.1.2) && decide (ab.1.1 ≤ ab.2.2) && decide (ab.2.1 ≤ ab.1.2)
      && decide (ab.2.1 ≤ ab.2.2)

/-- `np.all(vert_mask[cells], axis=1)` -/
def cellMask (vm : List Bool) (cells : List (List Nat)) : List Bool := cells.map (cellKept vm)

/-- `orphan_mask[cells[cell_mask].flatten()] = True; vert_mask &= orphan_mask` -/
def orphanFilter (vm : List Bool) (cells : List (List Nat)) : List Bool :=
  let used := ((cells.filter (cellKept vm)).flatten)
  (List.range vm.length).map fun v => (vm[v]?.getD false) && used.contains v

/-- `CellObject.mask_by_extent` after the bounding-box test: `none` when nothing is left -/
def cellObjectMask (vm : List Bool) (cells : Option (List (List Nat))) : Option (List Bool) :=
  let m := match cells with
    | some cs => orphanFilter vm cs
    | none => vm
  if m.any id then some m else none

/-! ### Grid2D.copy_from_extent index logic; `sel` is row-major `(v_count, u_count)` -/

def rows (nU : Nat) (sel : List Bool) : List (List Bool) :=
  if nU = 0 then [] else
  (List.range (sel.length / nU)).map fun j => (sel.drop (j * nU)).take nU

/-- `np.any(selected, axis=0)` -/
def uInd (nU : Nat) (sel : List Bool) : List Bool :=
  (List.range nU).map fun i => (rows nU sel).any fun r => r[i]?.getD false

/-- `np.any(selected, axis=1)` -/
def vInd (nU : Nat) (sel : List Bool) : List Bool := (rows nU sel).map (·.any id)

/-- `np.kron(v_ind, u_ind).flatten()` -/
def kron (v u : List Bool) : List Bool := v.flatMap fun b => u.map (b && ·)

/-- `ind[first : last+1] = True`: everything between the first and the last `True` -/
def fillSpan (l : List Bool) : List Bool :=
  (List.range l.length).map fun i => (l.take (i + 1)).any id && (l.drop i).any id

def countTrue (l : List Bool) : Nat := (l.filter id).length

/-- `np.argmax` of a boolean vector (0 when none is set) -/
def argmax (l : List Bool) : Nat := (l.findIdx? id).getD 0

/-- the `True`s form one block -/
def Contiguous (l : List Bool) : Prop :=
  ∀ i j k : Nat, i ≤ j → j ≤ k → l[i]? = some true → l[k]? = some true → l[j]? = some true

end GeoVerif.Box
